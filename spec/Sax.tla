--------------------------------- MODULE Sax ---------------------------------
(* C19.  html5lib/treeadapters/sax.py to_sax(): walker stream -> SAX2 events.                   *)
(* Events (what the recording ContentHandler of harness/props/c19.py logs): records            *)
(*   [e, ns, n, q, a, d]   e \in {"startDocument","endDocument","startPrefixMapping",           *)
(*   "endPrefixMapping","startElementNS","endElementNS","characters","raise"}                   *)
(*   startPrefixMapping: n = prefix, d = uri;  endPrefixMapping: n = prefix                     *)
(*   start/endElementNS: ns, n = the (uri, localname) pair, q = qname argument                  *)
(*   startElementNS:     a = <<ns, local, value, qname>> per attribute in attrs.items() order,  *)
(*                       qname = attrs.getQNameByName((ns, local)) or None when it raises KeyError*)
(*   characters: d;  raise: to_sax raised (AssertionError "Unknown token type")                  *)
(*  ToSax      the adapter, token by token                                                      *)
(*  SaxOK      acceptor: one document pair, balanced prefix mappings, proper nesting            *)
(*  RebuildSax tree rebuilt from the events;  Strip: the source tree without comments/doctype   *)
EXTENDS Walker

Ev(e, ns, n, q, a, d) == [e |-> e, ns |-> ns, n |-> n, q |-> q, a |-> a, d |-> d]
EvStartDoc       == Ev("startDocument", None, None, None, <<>>, <<>>)
EvEndDoc         == Ev("endDocument", None, None, None, <<>>, <<>>)
EvStartMap(p, u) == Ev("startPrefixMapping", None, p, None, <<>>, u)
EvEndMap(p)      == Ev("endPrefixMapping", None, p, None, <<>>, <<>>)
EvStartEl(ns, n, q, a) == Ev("startElementNS", ns, n, q, a, <<>>)
EvEndEl(ns, n, q)      == Ev("endElementNS", ns, n, q, <<>>, <<>>)
EvChars(d)       == Ev("characters", None, None, None, <<>>, d)
EvRaise          == Ev("raise", None, None, None, <<>>, <<>>)

\* the HTML standard's "adjust foreign attributes" table (prefix, local name, namespace); html5lib 1.1 also has
\* xml:base, which later versions of the standard dropped                                          \* ASSUMED
L_actuate == <<97,99,116,117,97,116,101>>
L_arcrole == <<97,114,99,114,111,108,101>>
L_role    == <<114,111,108,101>>
L_show    == <<115,104,111,119>>
L_space   == <<115,112,97,99,101>>
XlinkLocals == {L_actuate, L_arcrole, N_href, L_role, L_show, N_title, N_type}
XmlLocals   == {N_base, N_lang, L_space}
Colon(p, l) == p \o <<58>> \o l
\* qualified name known to the AttributesNSImpl that to_sax builds: only the adjusted foreign attributes have one;
\* getQNameByName raises KeyError for every other attribute (recorded as None)                      \* ASSUMED
ForeignQName(ns, local) ==
    IF ns = NS_xlink /\ local \in XlinkLocals THEN Colon(N_xlink, local)
    ELSE IF ns = NS_xml /\ local \in XmlLocals THEN Colon(N_xml, local)
    ELSE IF ns = NS_xmlns /\ local = N_xmlns THEN N_xmlns
    ELSE IF ns = NS_xmlns /\ local = N_xlink THEN Colon(N_xmlns, N_xlink)
    ELSE None
\* prefixes declared around the whole document, in the order of first appearance in the table          \* ASSUMED
PrefixMappings == << <<N_xlink, NS_xlink>>, <<N_xml, NS_xml>>, <<N_xmlns, NS_xmlns>> >>

SaxAttrs(a) == [i \in 1..Len(a) |-> <<a[i][1], a[i][2], a[i][3], ForeignQName(a[i][1], a[i][2])>>]
\* one token; <<EvRaise>> for a token type to_sax does not know
SaxTok(tok) ==
    CASE tok.t = "Doctype"  -> <<>>
      [] tok.t = "StartTag" -> <<EvStartEl(tok.ns, tok.n, tok.n, SaxAttrs(tok.a))>>
      [] tok.t = "EmptyTag" -> <<EvStartEl(tok.ns, tok.n, tok.n, SaxAttrs(tok.a)), EvEndEl(tok.ns, tok.n, tok.n)>>
      [] tok.t = "EndTag"   -> <<EvEndEl(tok.ns, tok.n, tok.n)>>
      [] IsText(tok)        -> <<EvChars(tok.d)>>
      [] tok.t = "Comment"  -> <<>>
      [] OTHER              -> <<EvRaise>>
RECURSIVE SaxBody(_)
SaxBody(toks) == IF toks = <<>> THEN <<>>
                 ELSE LET e == SaxTok(toks[1]) IN
                      IF e = <<EvRaise>> THEN e ELSE e \o SaxBody(Tail(toks))
ToSax(toks) ==
    LET body == SaxBody(toks)
        head == <<EvStartDoc>> \o [i \in 1..Len(PrefixMappings) |-> EvStartMap(PrefixMappings[i][1], PrefixMappings[i][2])]
    IN IF body # <<>> /\ body[Len(body)].e = "raise" THEN head \o body
       ELSE head \o body \o [i \in 1..Len(PrefixMappings) |-> EvEndMap(PrefixMappings[i][1])] \o <<EvEndDoc>>

-----------------------------------------------------------------------------
\* ---------- acceptor ----------
\* state: [ph \in {"pre","doc","end","bad"}, maps (set of open prefixes), open (stack of <<ns, n>>), seenEl]
SaxStep(s, ev) ==
    LET bad == [s EXCEPT !.ph = "bad"] IN
    IF s.ph = "bad" THEN s
    ELSE IF ev.e = "startDocument" THEN (IF s.ph = "pre" THEN [s EXCEPT !.ph = "doc"] ELSE bad)
    ELSE IF s.ph # "doc" THEN bad
    ELSE IF ev.e = "endDocument" THEN (IF s.open = <<>> /\ s.maps = {} THEN [s EXCEPT !.ph = "end"] ELSE bad)
    ELSE IF ev.e = "startPrefixMapping"
         THEN (IF ev.n \notin s.maps /\ s.open = <<>> THEN [s EXCEPT !.maps = @ \cup {ev.n}] ELSE bad)
    ELSE IF ev.e = "endPrefixMapping"
         THEN (IF ev.n \in s.maps /\ s.open = <<>> THEN [s EXCEPT !.maps = @ \ {ev.n}] ELSE bad)
    ELSE IF ev.e = "startElementNS"
         THEN (IF ev.n # None /\ ev.n # <<>> THEN [s EXCEPT !.open = Append(@, <<ev.ns, ev.n>>)] ELSE bad)
    ELSE IF ev.e = "endElementNS"
         THEN (IF s.open # <<>> /\ s.open[Len(s.open)] = <<ev.ns, ev.n>> THEN [s EXCEPT !.open = Front(@)] ELSE bad)
    ELSE IF ev.e = "characters" THEN s
    ELSE bad
RECURSIVE SaxRun(_, _)
SaxRun(s, evs) == IF evs = <<>> THEN s ELSE SaxRun(SaxStep(s, evs[1]), Tail(evs))
SaxOK(evs) == SaxRun([ph |-> "pre", maps |-> {}, open |-> <<>>], evs).ph = "end"

\* ---------- rebuild ----------
SxStep(stack, ev) ==
    CASE ev.e = "startElementNS" ->
            Append(stack, ElemNode(ev.ns, ev.n, [i \in 1..Len(ev.a) |-> <<ev.a[i][1], ev.a[i][2], ev.a[i][3]>>], <<>>))
      [] ev.e = "endElementNS"   -> IF Len(stack) >= 2 THEN AddTop(Front(stack), stack[Len(stack)]) ELSE stack
      [] ev.e = "characters"     -> AddTop(stack, TextNode(ev.d))
      [] OTHER                   -> stack
RECURSIVE SxRun(_, _)
SxRun(stack, evs) == IF evs = <<>> THEN stack ELSE SxRun(SxStep(stack, evs[1]), Tail(evs))
RebuildSax(evs) == RbClose(SxRun(<<DocNode(<<>>)>>, evs))

\* the source tree without comments and doctype (text that becomes adjacent is joined)
RECURSIVE Strip(_)
Strip(nd) == LET keep == SelectSeq(nd.kids, LAMBDA k : k.k \notin {"comment", "doctype"})
             IN [nd EXCEPT !.kids = MergeKids(<<>>, [i \in 1..Len(keep) |-> Strip(keep[i])])]
SaxTreeOK(evs, nd) == RebuildSax(evs).kids = AsForest(Strip(nd))
SaxClause(evs, nd) == IF ~SaxOK(evs) THEN "events" ELSE IF ~SaxTreeOK(evs, nd) THEN "tree" ELSE "ok"
=============================================================================
