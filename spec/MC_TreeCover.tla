----------------------------- MODULE MC_TreeCover -----------------------------
(* State cover of the tree-construction machine, computed by TLC: breadth-first search over  *)
(* fragment strings with a VIEW that keeps an abstraction of the parser state (insertion     *)
(* mode, top of the stack of open elements, shape of the list of active formatting elements, *)
(* flags, tokenizer state), so TLC returns one shortest input per reachable abstract state.  *)
(* The harness extends every such prefix by every token of a wide alphabet (transition       *)
(* cover) and compares result tree and internal-state snapshot with the real parser.        *)
EXTENDS Pipeline, TLC, Json
CONSTANTS MaxFrags, Containers, CoverTheme
INSTANCE MC_Tree_frags
Frags == ThemeFrags(CoverTheme)
Ctxs == ThemeContexts(Containers)
VARIABLES src, n, cx
Init == src = <<>> /\ n = 0 /\ cx \in Ctxs
Next == n < MaxFrags /\ \E f \in Frags : src' = src \o f /\ n' = n + 1 /\ UNCHANGED cx
Paused == IF cx = None THEN PauseDoc(src, FALSE) ELSE PauseFrag(src, cx, FALSE)
LastK(s, k) == IF Len(s) <= k THEN s ELSE SubSeq(s, Len(s) - k + 1, Len(s))
RECURSIVE AfeSeq(_, _)          \* entries of the list of active formatting elements with their attributes (Noah's ark compares them)
AfeSeq(ps, ids) == IF ids = <<>> THEN <<>>
                   ELSE <<IF ids[1] = 0 THEN <<"marker">> ELSE <<ps.nodes[ids[1]].n, ps.nodes[ids[1]].a>>>> \o AfeSeq(ps, Tail(ids))
Abs(r) ==
    LET ps == r.ps IN
    <<ps.mode, IF ps.mode = "text" THEN ps.orig ELSE "", IF ps.mode = "inTableText" THEN ps.pttOrig ELSE "",
      LastK(NameSeq(ps, ps.open), 2), LastK(AfeSeq(ps, ps.afe), 4), ps.form # 0, r.ts.st,
      \* the pending "drop the next LF" request together with whether the current node already has content
      IF ps.dropLF /\ ps.open # <<>> THEN <<HasContent(ps.nodes, Cur(ps))>> ELSE <<>>,
      ps.ptt # <<>>>>
View == <<cx, Abs(Paused)>>
\* coarse class used by the harness to stratify sampling: every (class, token) pair is exercised at least once in the quick tier
Coarse(r) == LET ps == r.ps IN
    <<ps.mode, IF ps.open = <<>> THEN <<>> ELSE <<CurNd(ps).ns, CurNd(ps).n>>,
      IF ps.dropLF /\ ps.open # <<>> THEN (IF HasContent(ps.nodes, Cur(ps)) THEN 2 ELSE 1) ELSE 0,
      ps.ptt # <<>>, ps.afe # <<>> /\ Last(ps.afe) # 0, r.ts.st>>
\* Every string of <= MaxFrags fragments is explored (no VIEW: exploring one representative per view would make the set of views
\* reached depend on which representative TLC happened to keep, i.e. on worker scheduling); the harness keeps the shortest
\* string of every abstract state `abs`.
ThmExport == PrintT(ToJson([src |-> src, cx |-> cx, mode |-> Paused.ps.mode, cls |-> Coarse(Paused), abs |-> Abs(Paused)]))
=============================================================================
