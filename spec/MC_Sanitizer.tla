---------------------------- MODULE MC_Sanitizer ----------------------------
(* Bounded-exhaustive exploration of the token-level sanitizer.                               *)
(*  Mode = "tok": every token (tag kinds x element names/namespaces, other token kinds) with  *)
(*                <= MaxLen attributes of distinct keys from AttrChoices (more than two only  *)
(*                on the elements of Deep), under every                                       *)
(*                allow-list configuration Lcfg(k); attributes are added one at a time, so    *)
(*                every prefix is a state.                                                    *)
(*  Mode = "css": every style value that is a concatenation of <= MaxLen CSS fragments         *)
(*                ("csscore": of the 20 core fragments, for one more level of depth).         *)
(*  Mode = "ref": every SVG reference / local-href value of <= MaxLen fragments (no theorem   *)
(*                of the property speaks about these; they are exported for exact replay).    *)
(* Theorems: ThmSafe (the output is safe: intended configuration), ThmInert (structure: a     *)
(* disallowed tag becomes exactly one Characters token, an allowed one keeps type/name and a  *)
(* sub-list of its attributes, anything else is untouched, comments vanish), ThmExplained     *)
(* (whatever is unsafe in the code-faithful configuration is safe in the intended one),       *)
(* ThmIndependent (the image of a tag is the concatenation of the images of its one-attribute *)
(* tags: no attribute's treatment depends on the others or on the order they are visited in). *)
EXTENDS Sanitizer, TLC, Json
CONSTANTS Mode, MaxLen, Export, CheckProperty

S_a == <<97>>  S_p == <<112>>  S_script == <<115, 99, 114, 105, 112, 116>>  S_use == <<117, 115, 101>>  S_svg == <<115, 118, 103>>
S_mi == <<109, 105>>  S_br == <<98, 114>>  S_meta == <<109, 101, 116, 97>>  S_rect == <<114, 101, 99, 116>>
S_onclick == <<111, 110, 99, 108, 105, 99, 107>>  S_fill == <<102, 105, 108, 108>>  S_id == <<105, 100>>  S_base == <<98, 97, 115, 101>>
S_http == <<104, 116, 116, 112>>  S_png == <<105, 109, 97, 103, 101, 47, 112, 110, 103>>
S_color == <<99, 111, 108, 111, 114>>  S_width == <<119, 105, 100, 116, 104>>  S_red == <<114, 101, 100>>  S_solid == <<115, 111, 108, 105, 100>>
S_cite == <<99, 105, 116, 101>>  S_formaction == <<102, 111, 114, 109, 97, 99, 116, 105, 111, 110>>
S_important == <<33, 105, 109, 112, 111, 114, 116, 97, 110, 116>>  S_stroke == <<115, 116, 114, 111, 107, 101>>

\* ---- allow-list configurations (exported once, in the initial state, so that the replay builds the same Filter) ----
Lbase == [el |-> {<<NS_html, S_a>>, <<NS_html, S_p>>, <<NS_html, S_br>>, <<NS_svg, S_svg>>, <<NS_svg, S_use>>, <<NS_svg, S_rect>>, <<NS_mathml, S_mi>>},
          at |-> {<<None, N_href>>, <<None, A_style>>, <<None, S_fill>>, <<None, S_id>>, <<NS_xlink, N_href>>, <<NS_xml, S_base>>, <<None, S_cite>>},
          uri |-> {<<None, N_href>>, <<NS_xlink, N_href>>, <<NS_xml, S_base>>, <<None, S_cite>>},
          ref |-> {<<None, S_fill>>}, loc |-> {},
          prot |-> {S_http, U_data}, ct |-> {S_png, U_textplain},
          cp |-> {S_color, S_width}, ck |-> {S_red, S_solid, S_important}, sp |-> {S_fill, S_stroke}]
Lcfg(k) == CASE k = 1 -> Lbase
             [] k = 2 -> [Lbase EXCEPT !.prot = {S_http}, !.loc = {S_use}]                          \* no data: (double delete), live local-href step
             [] k = 3 -> [Lbase EXCEPT !.el = {<<NS_html, S_p>>, <<NS_svg, S_use>>}, !.at = {<<None, N_href>>, <<None, A_style>>},
                                       !.ct = {S_png}, !.cp = {S_color}, !.ck = {}, !.sp = {}]        \* restricted
             \* k = 4: a caller who EXTENDS the lists with entries of his own (a URI-valued attribute, an event attribute, an element,
             \* a protocol, a content type, CSS words): the guarantee is relative to the lists of the instance, whatever they are
             [] k = 4 -> [Lbase EXCEPT !.ref = {<<None, S_fill>>, <<NS_xlink, N_href>>}, !.loc = {S_use, S_a},
                                       !.prot = {S_http, U_data, <<106, 97, 118, 97, 115, 99, 114, 105, 112, 116>>},
                                       !.el = @ \cup {<<NS_svg, S_script>>}, !.at = @ \cup {<<None, S_formaction>>, <<None, S_onclick>>},
                                       !.uri = @ \cup {<<None, S_formaction>>}, !.ct = @ \cup {<<116, 101, 120, 116, 47, 104, 116, 109, 108>>},
                                       !.cp = @ \cup {<<98, 101, 104, 97, 118, 105, 111, 114>>}, !.ck = @ \cup {<<101, 118, 105, 108>>},
                                       !.sp = @ \cup {<<120>>}]
NCfg == 4

\* ---- token alphabet ----
T(t, n, ns, a, d) == [t |-> t, n |-> n, ns |-> ns, a |-> a, d |-> d, p |-> None, s |-> None]
Elems == {<<NS_html, S_a>>, <<NS_html, S_p>>, <<NS_html, S_script>>, <<None, S_a>>, <<None, S_script>>, <<NS_svg, S_use>>,
          <<NS_svg, S_script>>, <<NS_svg, S_a>>, <<NS_mathml, S_mi>>, <<NS_svg, S_rect>>}
Deep == {<<NS_html, S_a>>, <<NS_svg, S_use>>, <<None, S_a>>}
Voids == {<<NS_html, S_br>>, <<NS_html, S_meta>>}
AttrChoices == {
    <<None, N_href, <<106, 97, 118, 97, 115, 99, 114, 105, 112, 116, 58, 120>>>>,                        \* javascript:x
    <<None, N_href, <<32, 74, 97, 9, 118, 97, 115, 99, 114, 105, 112, 116, 58, 120>>>>,                  \* " Ja<TAB>vascript:x"
    <<None, N_href, <<104, 116, 116, 112, 58, 47, 47, 97, 47, 63, 98, 38, 99, 61, 34, 60>>>>,            \* http://a/?b&c="<
    <<None, N_href, <<35, 102>>>>,                                                                       \* #f
    <<None, N_href, <<100, 97, 116, 97, 58, 105, 109, 97, 103, 101, 47, 112, 110, 103, 44, 120>>>>,       \* data:image/png,x
    <<None, N_href, <<100, 97, 116, 97, 58, 116, 101, 120, 116, 47, 104, 116, 109, 108, 44, 120>>>>,      \* data:text/html,x
    <<None, N_href, <<100, 97, 116, 97, 58, 105, 109, 97, 103, 101, 47, 112, 96, 110, 103, 44, 120>>>>,   \* data:image/p`ng,x
    <<None, N_href, <<47, 47, 91>>>>,                                                                    \* //[   (urlsplit ValueError)
    <<None, S_onclick, <<120>>>>, <<None, S_id, <<34, 38, 60, 62>>>>,                                    \* onclick=x  id="&<>
    <<NS_xlink, N_href, <<106, 97, 118, 97, 115, 99, 114, 105, 112, 116, 58, 120>>>>,
    <<NS_xlink, N_href, <<32, 35, 97>>>>, <<NS_xlink, N_href, <<104, 116, 116, 112, 58, 120>>>>,         \* " #a"  http:x
    <<NS_xml, S_base, <<118, 98, 115, 99, 114, 105, 112, 116, 58, 120>>>>,                               \* vbscript:x
    \* several URI-valued attributes on ONE element: every URI key has a forbidden value AND values that take an exceptional
    \* path (urlsplit ValueError, the data: branch, the empty value), so that both role assignments of every pair are explored
    <<NS_xlink, N_href, <<47, 47, 91>>>>, <<NS_xml, S_base, <<104, 58, 47, 47, 93>>>>,                   \* //[   h://]
    <<NS_xml, S_base, <<100, 97, 116, 97, 58, 116, 101, 120, 116, 47, 104, 116, 109, 108, 44, 120>>>>,    \* data:text/html,x
    <<None, S_cite, <<47, 47, 91>>>>, <<None, S_cite, <<>>>>,                                            \* //[   (empty)
    <<None, S_cite, <<106, 97, 118, 97, 115, 99, 114, 105, 112, 116, 58, 120>>>>,                        \* javascript:x
    <<None, S_cite, <<100, 97, 116, 97, 58, 105, 109, 97, 103, 101, 47, 112, 110, 103, 44, 120>>>>,       \* data:image/png,x
    <<None, N_href, <<>>>>,
    <<None, S_formaction, <<106, 97, 118, 97, 115, 99, 114, 105, 112, 116, 58, 120>>>>,                  \* formaction (URI-valued in k = 4 only): javascript:x
    <<None, S_formaction, <<118, 98, 115, 99, 114, 105, 112, 116, 58, 120>>>>,                           \*   vbscript:x
    <<None, S_fill, <<117, 114, 108, 40, 104, 116, 116, 112, 58, 120, 41, 32, 117, 114, 108, 40, 35, 97, 41>>>>,   \* url(http:x) url(#a)
    <<None, S_fill, <<85, 82, 76, 40, 120, 121, 41, 38, 108, 116, 59>>>>,                                \* URL(xy)&lt;
    <<None, A_style, <<99, 111, 108, 111, 114, 58, 32, 114, 101, 100>>>>,                                \* color: red
    <<None, A_style, <<99, 111, 108, 111, 114, 58, 32, 85, 82, 76, 40, 49, 41>>>>,                       \* color: URL(1)
    <<None, A_style, <<119, 105, 100, 116, 104, 58, 32, 101, 120, 112, 114, 101, 115, 115, 105, 111, 110, 40, 49, 41, 59, 32, 120, 58, 32, 121>>>>,   \* width: expression(1); x: y
    <<None, A_style, <<98, 111, 114, 100, 101, 114, 58, 32, 49, 112, 120, 32, 115, 111, 108, 105, 100, 32, 114, 101, 100>>>>,   \* border: 1px solid red
    <<None, A_style, <<98, 111, 114, 100, 101, 114, 58, 32, 101, 118, 105, 108>>>>                       \* border: evil
}
Others == {T("Comment", None, None, <<>>, <<120, 60, 115, 62>>), T("Characters", None, None, <<>>, <<60, 115, 99, 114, 105, 112, 116, 62>>),
           T("SpaceCharacters", None, None, <<>>, <<32>>),
           [t |-> "Doctype", n |-> <<104, 116, 109, 108>>, ns |-> None, a |-> <<>>, d |-> <<>>, p |-> None, s |-> None]}

\* ---- fragments for css / ref modes ----
CssFrags == {
             <<99, 111, 108, 111, 114, 58>>, <<119, 105, 100, 116, 104, 32, 58>>, <<98, 111, 114, 100, 101, 114, 58>>, <<98, 111, 114, 100, 101, 114, 45, 116, 111, 112, 58>>, <<98, 101, 104, 97, 118, 105, 111, 114, 58>>,    \* color: width : border: border-top: behavior:
             <<102, 105, 108, 108, 58>>, <<67, 79, 76, 79, 82, 58>>, <<58>>, <<59>>, <<32>>,    \* fill: COLOR: : ;  
             <<114, 101, 100>>, <<115, 111, 108, 105, 100>>, <<101, 118, 105, 108>>, <<49, 112, 120>>, <<35, 102, 102>>,    \* red solid evil 1px #ff
             <<114, 103, 98, 40, 49, 44, 50, 37, 44, 51, 41>>, <<117, 114, 108, 40>>, <<85, 82, 76, 40>>, <<117, 13, 114, 108, 40>>, <<41>>,    \* rgb(1,2%,3) url( URL( u\rrl( )
             <<40>>, <<49>>, <<49, 41>>, <<120, 41>>, <<101, 120, 112, 114, 101, 115, 115, 105, 111, 110, 40>>,    \* ( 1 1) x) expression(
             <<47, 42>>, <<39, 97, 32, 98, 39>>, <<34>>, <<97, 45, 98>>, <<233>>,    \* /* 'a b' " a-b é
             <<33, 105, 109, 112, 111, 114, 116, 97, 110, 116>>, <<92>>, <<44>>, <<45>>, <<10>>,    \* !important \\ , - \n
             <<49, 49>>, <<46>>}    \* 11 .
CssCore == {<<99, 111, 108, 111, 114, 58>>, <<98, 111, 114, 100, 101, 114, 58>>, <<98, 101, 104, 97, 118, 105, 111, 114, 58>>, <<102, 105, 108, 108, 58>>, <<58>>, <<59>>, <<32>>, <<114, 101, 100>>, <<101, 118, 105, 108>>, <<49, 112, 120>>, <<117, 114, 108, 40>>, <<85, 82, 76, 40>>, <<41>>, <<40>>, <<49>>, <<120, 41>>, <<39, 97, 32, 98, 39>>, <<97, 45, 98>>, <<92>>, <<45>>, <<49, 49>>, <<46>>}    \* (+ 11 .) color: border: behavior: fill: : ;   red evil 1px url( URL( ) ( 1 x) 'a b' a-b \\ -
RefFrags == {<<117, 114, 108>>, <<40>>, <<41>>, <<35>>, <<32>>, <<120>>, <<120, 121>>, <<38, 108, 116, 59>>, <<38, 97, 109, 112, 59>>, <<10>>, <<85, 82, 76, 40>>, <<8195>>}
IsCss == Mode \in {"css", "csscore"}
Frags == IF Mode = "css" THEN CssFrags ELSE IF Mode = "csscore" THEN CssCore ELSE RefFrags

VARIABLES k, tok, v, n
vars == <<k, tok, v, n>>
NoTok == T("none", None, None, <<>>, <<>>)
Init == IF Mode = "tok"
        THEN /\ k \in 1..NCfg /\ v = <<>> /\ n = 0
             /\ \/ tok \in Others
                \/ \E e \in Elems, t \in {"StartTag", "EndTag"} : tok = T(t, e[2], e[1], <<>>, <<>>)
                \/ \E e \in Voids : tok = T("EmptyTag", e[2], e[1], <<>>, <<>>)
        ELSE k = (IF IsCss THEN 4 ELSE 1) /\ tok = NoTok /\ v = <<>> /\ n = 0      \* styles under the extended CSS lists of k = 4
Next == /\ n < MaxLen /\ n' = n + 1 /\ UNCHANGED k
        /\ IF Mode = "tok"
           THEN /\ tok.t \in {"StartTag", "EmptyTag"} /\ UNCHANGED v
                /\ (n < 2 \/ <<tok.ns, tok.n>> \in Deep)          \* a third and later attribute on three representative elements only
                /\ \E x \in AttrChoices : (\A i \in 1..Len(tok.a) : AttrKey(tok.a[i]) # AttrKey(x)) /\ tok' = [tok EXCEPT !.a = Append(@, x)]
           ELSE UNCHANGED tok /\ \E f \in Frags : v' = v \o f

L == Lcfg(k)
Res(D) == SanitizeTok(tok, L, D)
OutSafe(D) == Res(D).r = "tok" => SafeTok(Res(D).tok, L)
StyleTok(s) == T("StartTag", S_p, NS_html, <<<<None, A_style, s>>>>, <<>>)
ThmSafe == CheckProperty =>
    CASE Mode = "tok" -> OutSafe(KnownDefects)
      [] IsCss -> CssSafe(SanitizeCss(v, L, KnownDefects), L)
      [] OTHER -> TRUE
ThmInert == Mode = "tok" =>
    LET r == Res(KnownDefects) IN
    /\ (r.r = "none") = (tok.t = "Comment")
    /\ (r.r = "tok" => InertImage(tok, r.tok, L))
    /\ (r.r = "raise" => IsTag(tok) /\ AllowedEl(tok, L))
ThmIndependent == Mode = "tok" => AttrsIndependent(tok, L, KnownDefects)
ThmExplained ==
    CASE Mode = "tok" -> (~OutSafe(KnownDefects)) => OutSafe({})
      [] IsCss -> (~CssSafe(SanitizeCss(v, L, KnownDefects), L)) => CssSafe(SanitizeCss(v, L, {}), L)
      [] OTHER -> TRUE
\* idempotence of the CSS step on its own output (a sanitized style is a fixed point up to the joining format)
ThmCssStable == IsCss => LET o == SanitizeCss(v, L, KnownDefects) IN SanitizeCss(o, L, KnownDefects) = o
ThmExport == Export =>
    CASE Mode = "tok" -> PrintT(ToJson([k |-> k, inp |-> tok, r |-> Res(KnownDefects).r, out |-> Res(KnownDefects).tok,
                                        unsafe |-> IF Res(KnownDefects).r = "tok" THEN TokClauses(Res(KnownDefects).tok, L) ELSE {},
                                        cfg |-> IF n = 0 /\ tok.t = "Comment" THEN Lcfg(k) ELSE [el |-> {}]]))
      [] IsCss -> PrintT(ToJson([v |-> v, out |-> SanitizeCss(v, L, KnownDefects), cfg |-> IF v = <<>> THEN L ELSE [el |-> {}],
                                        unsafe |-> ~CssSafe(SanitizeCss(v, L, KnownDefects), L)]))
      [] OTHER -> PrintT(ToJson([v |-> v, ref |-> SvgRefSub(v), nonlocal |-> NonLocalRef(v)]))
=============================================================================
