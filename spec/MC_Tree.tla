------------------------------- MODULE MC_Tree -------------------------------
(* Bounded-exhaustive exploration of Parse over markup fragments of one theme: the input      *)
(* grows fragment by fragment (every prefix is a state); each state is parsed by the           *)
(* specification, the structural theorems are checked on the final parser state, and the       *)
(* behaviour (input, container, scripting, canonical result tree) is exported for replay.      *)
EXTENDS Pipeline, TLC, Json
CONSTANTS MaxFrags, Theme, Containers, Scripting, Export

S(str) == str
\* fragments are written as code-point sequences by the harness (MC_Tree_frags.tla is generated)
INSTANCE MC_Tree_frags
Frags == ThemeFrags(Theme)
Ctxs == ThemeContexts(Containers)

VARIABLES src, n, cx
Init == src = <<>> /\ n = 0 /\ cx \in Ctxs
Next == n < MaxFrags /\ \E f \in Frags : src' = src \o f /\ n' = n + 1 /\ UNCHANGED cx

Final == IF cx = None THEN ParseDoc(src, Scripting) ELSE ParseFrag(src, cx, Scripting)
ThmWellFormed == LET ps == Final IN WellFormed(ps.nodes) /\ NoCycles(ps.nodes)
ThmStack == LET ps == Final IN StackOK(ps) /\ NoahsArk(ps) /\ ModeOK(ps)
ThmSkeleton == cx = None => SkeletonRelaxed(Result(Final))
ThmExport == Export => PrintT(ToJson([src |-> src, cx |-> cx, scripting |-> Scripting, tree |-> Result(Final), snap |-> Snapshot(Final),
                                       skel |-> (cx # None \/ Skeleton(Result(Final)))]))
=============================================================================
