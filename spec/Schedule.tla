------------------------------ MODULE Schedule ------------------------------
(* C12, concurrency clause.  Two INDEPENDENT parser objects, each making one call, run in two     *)
(* threads.  A step of parser i is what happens between two calls of its source's read(): Begin    *)
(* (up to the first read), then per read: the source delivers (or raises) and the parser processes  *)
(* every token it can produce before it needs the next read.  CPython cannot be made to switch      *)
(* threads at a finer grain on demand, so this is the granularity of the model and of the binding. *)
(*                                                                                                *)
(* Shared between the objects (process-wide): the charsUntil regex cache (a dict: key -> compiled   *)
(* regex, inserted on first use), the entity trie's prefix cache (_cachestr/_cachepoints, written   *)
(* only by Trie.keys(prefix), which no parser path calls) and the tree builder / walker module      *)
(* caches.  They are modelled as what they are: a grow-only set of keys whose values are a function *)
(* of the key, and a field nobody writes.  Everything else a step reads or writes belongs to one    *)
(* parser object.  Theorem: under every interleaving each call returns what it returns alone.       *)
EXTENDS LifecycleDocs, TLC
CONSTANTS DocA, DocB,          \* document numbers (sets) for parser 1 / parser 2
          AllVariants          \* TRUE: strict on/off x source failure at any read; FALSE: plain calls only

VARIABLES ps, call, pc, rd, out, regex, trie, sched
svars == <<ps, call, pc, rd, out, regex, trie, sched>>

TrieInit == [str |-> "", lo |-> 0]
\* the (characters, opposite) keys charsUntil is asked for while a token of this type is scanned
KeysOf(tok) == CASE tok.k = "Characters"      -> {"data"}
                 [] tok.k = "SpaceCharacters" -> {"space"}
                 [] tok.k \in {"StartTag", "EndTag"} -> {"tagname"}
                 [] tok.k = "Comment"         -> {"comment"}
                 [] OTHER                     -> {}
RECURSIVE KeysOfAll(_)
KeysOfAll(toks) == IF toks = <<>> THEN {} ELSE KeysOf(Head(toks)) \cup KeysOfAll(Tail(toks))

Variants(d) == IF AllVariants THEN {[doc |-> d, strict |-> s, fail |-> f] : s \in BOOLEAN, f \in 0..NReads(d)}
               ELSE {[doc |-> d, strict |-> FALSE, fail |-> 0]}
Init == /\ call \in [{1, 2} -> UNION {Variants(d) : d \in DocA \cup DocB}]
        /\ call[1].doc \in DocA /\ call[2].doc \in DocB
        /\ ps = [i \in {1, 2} |-> NewParser] /\ pc = [i \in {1, 2} |-> "begin"] /\ rd = [i \in {1, 2} |-> 0]
        /\ out = [i \in {1, 2} |-> "running"] /\ regex = {} /\ trie = TrieInit /\ sched = <<>>

BeginStep(i) ==
    /\ pc[i] = "begin"
    /\ ps' = [ps EXCEPT ![i] = LcBegin(ps[i], Docs[call[i].doc].frag, call[i].strict)]
    /\ pc' = [pc EXCEPT ![i] = "reading"]
    /\ UNCHANGED <<call, rd, out, regex, trie>>
ReadStep(i) ==
    /\ pc[i] = "reading"
    /\ LET c == call[i]  k == rd[i] + 1 IN
       IF c.fail = k
       THEN /\ out' = [out EXCEPT ![i] = "SourceError"] /\ pc' = [pc EXCEPT ![i] = "done"]
            /\ UNCHANGED <<ps, rd, regex>>
       ELSE LET toks == Docs[c.doc].reads[k]
                p1 == Run(ps[i], toks)
            IN /\ ps' = [ps EXCEPT ![i] = p1] /\ rd' = [rd EXCEPT ![i] = k]
               /\ regex' = regex \cup KeysOfAll(toks)
               /\ IF p1.aborted THEN out' = [out EXCEPT ![i] = "ParseError"] /\ pc' = [pc EXCEPT ![i] = "done"]
                  ELSE IF k = NReads(c.doc) THEN out' = [out EXCEPT ![i] = "ok"] /\ pc' = [pc EXCEPT ![i] = "done"]
                  ELSE UNCHANGED <<out, pc>>
    /\ UNCHANGED <<call, trie>>
Next == \E i \in {1, 2} : (BeginStep(i) \/ ReadStep(i)) /\ sched' = Append(sched, i)

\* --- the call alone ---
RECURSIVE AloneFrom(_, _, _)
AloneFrom(p, c, k) ==
    IF c.fail = k THEN [out |-> "SourceError", ps |-> p]
    ELSE LET p1 == Run(p, Docs[c.doc].reads[k]) IN
         IF p1.aborted THEN [out |-> "ParseError", ps |-> p1]
         ELSE IF k = NReads(c.doc) THEN [out |-> "ok", ps |-> p1]
         ELSE AloneFrom(p1, c, k + 1)
Alone(c) == AloneFrom(LcBegin(NewParser, Docs[c.doc].frag, c.strict), c, 1)
Res(p, o) == [out |-> o, items |-> IF o = "ok" THEN p.items ELSE <<>>, errors |-> p.errors]

ThmSequential == \A i \in {1, 2} : pc[i] = "done" => LET a == Alone(call[i]) IN Res(ps[i], out[i]) = Res(a.ps, a.out)
ThmSharedCaches == trie = TrieInit /\ regex \subseteq {"data", "space", "tagname", "comment"}
Finished == pc[1] = "done" /\ pc[2] = "done"
=============================================================================
