------------------------------ MODULE Serializer ------------------------------
(* C08.  HTMLSerializer.serialize() as a token-by-token machine (SerStep mirrors the code      *)
(* branch by branch: in_cdata flag, quoting decision, escaping, boolean minimisation, trailing *)
(* solidus, doctype / comment emission, the .errors list and where strict mode raises), with   *)
(* the code's deviations from the intended design as NAMED branches; and, independently, THE   *)
(* JUDGE: the output is re-tokenized by the standard tokenizer (spec/Tokenizer.tla, no         *)
(* deviations) the way an HTML parser reads it IN PLACE (Retok: tokenizer state switched after *)
(* start tags as tree construction does, CDATA sections allowed inside foreign content, first  *)
(* LF after pre/listing/textarea dropped, newlines normalised) and compared with the stream    *)
(* the serializer was given.                                                                   *)
(* Data: walker tokens [t, n, ns, a, d, p, s] (a = Seq of <<attr ns, local name, value>>);      *)
(* options o = [qav, qc, ltattr, escrc, minbool, solidus, spacesol, resolve, pf];               *)
(* omit_optional_tags, strip_whitespace, sanitize, alphabetical_attributes, inject_meta_charset *)
(* are OFF.  OUTPUT ENCODING: o.pf lists the code points the requested encoding cannot represent *)
(* (a fact about the codec, supplied by the harness; <<>> = no encoding or everything fits).     *)
(* HTMLSerializer.encode() ("htmlentityreplace") turns such a character of text / of an attribute*)
(* value into a character reference (EncRef: the name the handler's table selects, ';' appended  *)
(* when the name lacks it, else &#x<hex>;); encodeStrict() (names, doctype, comments, end tags)  *)
(* raises UnicodeEncodeError: the run "crashes" (no output, not silent).  The machine's output   *)
(* is the DECODED byte stream (the reader decodes with the writer's codec; codec mismatch: C15). *)
EXTENDS Unicode, Gen_Names, Gen_SerNames, Gen_SerRefs
CONSTANT KnownDefects
SerDefectNames == {"ser-cdata-bare-name", "ser-noscript-raw", "ser-plaintext-escaped", "ser-cr-raw",
                   "ser-pre-leading-lf", "ser-attr-prefix-dropped", "ser-unquoted-solidus",
                   "ser-doctype-publicid-quote", "ser-doctype-name-none", "ser-script-escape-unchecked",
                   "ser-rcdata-child-unchecked", "ser-rawtext-charref", "ser-charref-remapped"}
Scripting == FALSE        \* ASSUMED: the reader has scripting disabled (as html5lib's own parser): noscript content is data

Tz == INSTANCE Tokenizer WITH KnownDefects <- {}

On(d, D) == d \in D
IsHtmlNs(ns) == ns = None \/ ns = NS_html
HasSub(s, p) == \E i \in 1..(Len(s) - Len(p) + 1) : StartsAt(s, i, p)
MapCat(s, F(_)) == Flatten([i \in 1..Len(s) |-> F(s[i])])

\* ---- tables of the code (html5lib/constants.py as the serializer uses them) ----
RawNames  == {N_style, N_script, N_xmp, N_iframe, N_noembed, N_noframes, N_noscript}      \* constants.rcdataElements (sic)
VoidNames == {N_area, N_base, N_br, N_col, N_command, N_embed, N_event_source, N_hr, N_img, N_input, N_link,
              N_meta, N_param, N_source, N_track, N_wbr}
BoolAttrsOf(el) ==
    CASE el = N_style -> {S_scoped} [] el = N_img -> {S_ismap} [] el \in {S_audio, S_video} -> {S_autoplay, S_controls}
      [] el = N_script -> {S_defer, S_async} [] el = S_details -> {S_open} [] el = S_datagrid -> {S_multiple, S_disabled}
      [] el = N_command -> {S_hidden, S_disabled, S_checked, S_default} [] el = N_hr -> {S_noshade}
      [] el = S_menu -> {S_autosubmit} [] el = S_fieldset -> {S_disabled, S_readonly}
      [] el = S_option -> {S_disabled, S_readonly, S_selected} [] el = S_optgroup -> {S_disabled, S_readonly}
      [] el = S_button -> {S_disabled, S_autofocus}
      [] el = N_input -> {S_disabled, S_readonly, S_required, S_autofocus, S_checked, S_ismap}
      [] el = S_select -> {S_disabled, S_readonly, S_autofocus, S_multiple} [] el = S_ol -> {S_reversed}
      [] el = S_output -> {S_disabled, S_readonly} [] el = N_iframe -> {S_seamless} [] OTHER -> {}
IsBoolAttr(el, k) == k \in BoolAttrsOf(el) \/ k \in {S_irrelevant, S_itemscope}
IsSpecQ(c)   == c \in {9, 10, 12, 13, 32, 34, 39, 61, 60, 62, 96}                           \* _quoteAttributeSpec
IsLegacyQ(c) == IsSpecQ(c) \/ c <= 32 \/ c \in {47, 96, 160, 5760, 6158, 6159, 8232, 8233, 8239, 8287, 12288}
                \/ (c >= 8192 /\ c <= 8202)                                                  \* _quoteAttributeLegacy
XmlEntityNames == {S_lt, S_gt, S_amp, S_apos, S_quot}

\* ---- output encoding ----
PF(o)      == Range(o.pf)
Bad(s, o)  == o.pf # <<>> /\ \E i \in 1..Len(s) : s[i] \in PF(o)           \* s holds a character the encoding lacks
HexDigit(d) == IF d < 10 THEN 48 + d ELSE 87 + d
RECURSIVE Hex(_)
Hex(n) == IF n < 16 THEN <<HexDigit(n)>> ELSE Append(Hex(n \div 16), HexDigit(n % 16))
\* htmlentityreplace_errors: "&" + name (+ ";" unless the name ends in one) or "&#x%s;" % hex(cp)[2:]
EncRef(c)  == LET i == EncIndex(c) IN
              IF i = 0 THEN X_numref \o Hex(c) \o <<59>>
              ELSE LET nm == EncTable[i][2] IN <<38>> \o nm \o (IF Last(nm) = 59 THEN <<>> ELSE <<59>>)
Soft(s, o) == IF o.pf = <<>> THEN s ELSE LET F(c) == IF c \in PF(o) THEN EncRef(c) ELSE <<c>> IN MapCat(s, F)
\* numeric references the reader does not resolve to the character written: 0x80-0x9F go through the windows-1252
\* table (all but 81 8D 8F 90 9D change), surrogates (a str fed to the parser may carry lone ones) become U+FFFD
C1Remapped(c) == (c >= 128 /\ c <= 159 /\ c \notin {129, 141, 143, 144, 157}) \/ IsSurrogate(c)
BadC1(s, o)   == o.pf # <<>> /\ \E i \in 1..Len(s) : s[i] \in PF(o) /\ C1Remapped(s[i])

\* the qualified name an attribute must be written with so that the reader's foreign-attribute adjustment restores it
QName(ans, local) == IF ans = NS_xlink THEN X_xlink_ \o local
                     ELSE IF ans = NS_xml THEN X_xml_ \o local
                     ELSE IF ans = NS_xmlns /\ local # X_xmlns THEN X_xmlns_ \o local
                     ELSE local

-----------------------------------------------------------------------------
\* ---------- the machine ----------
\* rawbuf: text written so far inside the current raw-text element; rcel: the open HTML title/textarea (RCDATA) element.
\* Both are used by the intended design only.
SerInit == [out |-> <<>>, errs |-> <<>>, ferr |-> -1, cdata |-> FALSE, rawel |-> None, rawbuf |-> <<>>, rcel |-> None, pre |-> FALSE,
            crash |-> FALSE]
Emit(ss, s)   == [ss EXCEPT !.out = @ \o s]
Err(ss, code) == [ss EXCEPT !.errs = Append(@, code), !.ferr = IF @ = -1 THEN Len(ss.out) ELSE @]
ErrIf(ss, cond, code) == IF cond THEN Err(ss, code) ELSE ss

EscText(c, D) == IF c = 38 THEN X_amp ELSE IF c = 62 THEN X_gt ELSE IF c = 60 THEN X_lt
                 ELSE IF c = 13 /\ ~On("ser-cr-raw", D) THEN X_cr13 ELSE <<c>>
EscCR(c)      == IF c = 13 THEN X_cr13 ELSE <<c>>

IdOrEmptyS(x) == IF x = None THEN <<>> ELSE x
SerDoctype(ss, tok, D) ==
    LET nm   == IF tok.n = None THEN (IF On("ser-doctype-name-none", D) THEN X_none ELSE <<>>) ELSE tok.n
        hasP == tok.p # None /\ tok.p # <<>>
        hasS == tok.s # None /\ tok.s # <<>>
        pBoth == Contains(tok.p, 34) /\ Contains(tok.p, 39)
        pq   == IF ~On("ser-doctype-publicid-quote", D) /\ Contains(tok.p, 34) THEN 39 ELSE 34
        sBoth == Contains(tok.s, 34) /\ Contains(tok.s, 39)
        sq   == IF Contains(tok.s, 34) THEN 39 ELSE 34
        s1   == ErrIf(ss, hasP /\ pBoth /\ ~On("ser-doctype-publicid-quote", D), "pubid-both-quotes")
        s2   == ErrIf(s1, hasS /\ sBoth, "sysid-both-quotes")
        txt  == X_doctype \o nm
                \o (IF hasP THEN X_public \o <<pq>> \o tok.p \o <<pq>> ELSE IF hasS THEN X_system ELSE <<>>)
                \o (IF hasS THEN <<32, sq>> \o tok.s \o <<sq>> ELSE <<>>)
                \o <<62>>
    IN Emit(s2, txt)

SerText(ss, tok, o, D) ==
    LET d    == tok.d
        raw  == tok.t = "SpaceCharacters" \/ ss.cdata
        s1   == ErrIf(ss, ss.cdata /\ HasSub(d, X_lt_slash), "lt-slash-in-cdata")
        \* intended only: what raw text cannot express is reported
        s2   == ErrIf(s1, ss.cdata /\ Contains(d, 13) /\ ~On("ser-cr-raw", D), "cr-in-cdata")
        buf  == IF ss.cdata THEN ss.rawbuf \o d ELSE <<>>
        s3   == ErrIf(s2, ss.cdata /\ ss.rawel = N_script /\ ~On("ser-script-escape-unchecked", D)
                          /\ HasSub(buf, X_cmt_open) /\ ~HasSub(ss.rawbuf, X_cmt_open), "script-escape-in-cdata")
        \* intended only: a reference is not resolved in raw text; &#x80;..&#x9f; do not denote U+0080..U+009F
        s4   == ErrIf(s3, ss.cdata /\ Bad(d, o) /\ ~On("ser-rawtext-charref", D), "unencodable-in-cdata")
        s5   == ErrIf(s4, ~ss.cdata /\ BadC1(d, o) /\ ~On("ser-charref-remapped", D), "unencodable-remapped")
        lead == IF ss.pre /\ d # <<>> /\ d[1] = 10 /\ ~On("ser-pre-leading-lf", D) THEN <<10>> ELSE <<>>
        body == IF ss.cdata THEN d
                ELSE IF tok.t = "SpaceCharacters" THEN (IF On("ser-cr-raw", D) THEN d ELSE MapCat(d, EscCR))
                ELSE LET F(c) == EscText(c, D) IN MapCat(d, F)
    IN [Emit(s5, Soft(lead \o body, o)) EXCEPT !.pre = FALSE, !.rawbuf = buf]

\* one attribute: returns [out, uq, c1] (uq: the value was written unquoted; c1: intended design reports the value)
SerAttr(a, el, o, D) ==
    LET local == a[2]  v == a[3]
        k   == IF On("ser-attr-prefix-dropped", D) THEN local ELSE QName(a[1], local)
        min == o.minbool /\ IsBoolAttr(el, local)
        qa  == \/ o.qav = "always" \/ v = <<>>
               \/ (o.qav = "spec" /\ \E i \in 1..Len(v) : IsSpecQ(v[i]))
               \/ (o.qav = "legacy" /\ \E i \in 1..Len(v) : IsLegacyQ(v[i]))
        A1(c) == IF c = 38 THEN X_amp ELSE IF c = 60 /\ o.ltattr THEN X_lt
                 ELSE IF c = 13 /\ ~On("ser-cr-raw", D) THEN X_cr13 ELSE <<c>>
        v2  == MapCat(v, A1)
        qc  == IF o.qc = "best"
               THEN (IF Contains(v2, 39) /\ ~Contains(v2, 34) THEN 34
                     ELSE IF Contains(v2, 34) /\ ~Contains(v2, 39) THEN 39 ELSE 34)
               ELSE IF o.qc = "sq" THEN 39 ELSE 34
        Q(c) == IF c = qc THEN (IF qc = 39 THEN X_apos39 ELSE X_quot) ELSE <<c>>
        c1  == BadC1(v, o) /\ ~On("ser-charref-remapped", D)
    IN IF min THEN [out |-> <<32>> \o k, uq |-> FALSE, c1 |-> FALSE]
       ELSE IF qa THEN [out |-> <<32>> \o k \o <<61, qc>> \o Soft(MapCat(v2, Q), o) \o <<qc>>, uq |-> FALSE, c1 |-> c1]
       ELSE [out |-> <<32>> \o k \o <<61>> \o Soft(v2, o), uq |-> TRUE, c1 |-> c1]

RECURSIVE SerAttrs(_, _, _, _, _)
SerAttrs(as, el, o, D, acc) ==
    IF as = <<>> THEN acc
    ELSE LET r == SerAttr(as[1], el, o, D) IN
         SerAttrs(Tail(as), el, o, D, [out |-> acc.out \o r.out, uq |-> r.uq, c1 |-> acc.c1 \/ r.c1])

SerTag(ss, tok, o, D) ==
    LET name == tok.n
        s1   == Emit(ss, <<60>> \o name)
        raw  == name \in (IF On("ser-noscript-raw", D) THEN RawNames ELSE RawNames \ {N_noscript})
                /\ ~o.escrc /\ (On("ser-cdata-bare-name", D) \/ IsHtmlNs(tok.ns))
        s2   == IF raw THEN [s1 EXCEPT !.cdata = TRUE, !.rawel = name, !.rawbuf = <<>>]
                ELSE ErrIf(s1, ss.cdata, "child-in-cdata")
        \* intended only: markup inside an RCDATA element would be read as text
        s2b  == ErrIf(s2, ss.rcel # None /\ ~On("ser-rcdata-child-unchecked", D), "child-in-rcdata")
        s3   == ErrIf(s2b, name = N_plaintext /\ IsHtmlNs(tok.ns) /\ ~On("ser-plaintext-escaped", D), "plaintext")
        at   == SerAttrs(tok.a, name, o, D, [out |-> <<>>, uq |-> FALSE, c1 |-> FALSE])
        s3b  == ErrIf(s3, at.c1, "unencodable-remapped")
        sol  == IF name \in VoidNames /\ o.solidus
                THEN (IF o.spacesol \/ (at.uq /\ ~On("ser-unquoted-solidus", D)) THEN X_sp_solidus ELSE <<47>>)
                ELSE <<>>
    IN [Emit(s3b, at.out \o sol \o <<62>>) EXCEPT
           !.pre = (tok.t = "StartTag" /\ IsHtmlNs(tok.ns) /\ name \in {N_pre, N_listing, N_textarea}),
           !.rcel = IF ss.rcel = None /\ tok.t = "StartTag" /\ IsHtmlNs(tok.ns) /\ name \in {N_title, N_textarea}
                    THEN name ELSE ss.rcel]

SerEndTag(ss, tok, o, D) ==
    LET name == tok.n
        raw  == name \in RawNames /\ (On("ser-cdata-bare-name", D) \/ IsHtmlNs(tok.ns))
        s1   == IF raw THEN [ss EXCEPT !.cdata = FALSE, !.rawel = None, !.rawbuf = <<>>]
                ELSE ErrIf(ss, ss.cdata, "child-in-cdata")
    IN [Emit(s1, X_lt_slash \o name \o <<62>>) EXCEPT !.pre = FALSE,
                                                       !.rcel = IF IsHtmlNs(tok.ns) /\ name = ss.rcel THEN None ELSE ss.rcel]

SerComment(ss, tok, D) ==
    LET s1 == ErrIf(ss, HasSub(tok.d, X_dashdash), "comment-dashdash")
        s2 == ErrIf(s1, ss.rcel # None /\ ~On("ser-rcdata-child-unchecked", D), "child-in-rcdata")
    IN [Emit(s2, X_cmt_open \o tok.d \o X_cmt_close) EXCEPT !.pre = FALSE]

\* Entity tokens (never produced by html5lib's own tree builders; names restricted to recognised ones)
SerEntity(ss, tok, o) ==
    LET key == Append(tok.n, 59)
        s1  == ErrIf(ss, ~Tz!IsEntityName(key), "entity-unknown")
        txt == IF o.resolve /\ tok.n \notin XmlEntityNames THEN Tz!EntityValue(key) ELSE <<38>> \o key
    IN [Emit(s1, txt) EXCEPT !.pre = FALSE]

SerStep0(ss, tok, o, D) ==
    CASE tok.t = "Doctype" -> SerDoctype(ss, tok, D)
      [] tok.t \in {"Characters", "SpaceCharacters"} -> SerText(ss, tok, o, D)
      [] tok.t \in {"StartTag", "EmptyTag"} -> SerTag(ss, tok, o, D)
      [] tok.t = "EndTag" -> SerEndTag(ss, tok, o, D)
      [] tok.t = "Comment" -> SerComment(ss, tok, D)
      [] tok.t = "Entity" -> SerEntity(ss, tok, o)
      [] OTHER -> Err(ss, "token")                                  \* SerializerError token of the walker

\* encodeStrict: does the step write a character the encoding lacks through the strict path?
\* (the start-tag NAME is written before the step's checks, everything else after them)
StrictBad(tok, o, D) ==
    CASE tok.t = "Doctype" -> Bad(IdOrEmptyS(tok.n), o) \/ Bad(IdOrEmptyS(tok.p), o) \/ Bad(IdOrEmptyS(tok.s), o)
      [] tok.t \in {"StartTag", "EmptyTag"} -> \E i \in 1..Len(tok.a) : Bad(tok.a[i][2], o)
      [] tok.t = "EndTag" -> Bad(tok.n, o)
      [] tok.t = "Comment" -> Bad(tok.d, o)
      [] tok.t = "Entity" -> o.resolve /\ tok.n \notin XmlEntityNames /\ Bad(Tz!EntityValue(Append(tok.n, 59)), o)
      [] OTHER -> FALSE
SerStep(ss, tok, o, D) ==
    IF ss.crash THEN ss
    ELSE IF o.pf = <<>> THEN SerStep0(ss, tok, o, D)
    ELSE IF tok.t \in {"StartTag", "EmptyTag"} /\ Bad(tok.n, o) THEN [ss EXCEPT !.crash = TRUE]
    ELSE IF StrictBad(tok, o, D) THEN [SerStep0(ss, tok, o, D) EXCEPT !.crash = TRUE]
    ELSE SerStep0(ss, tok, o, D)

RECURSIVE SerFrom(_, _, _, _, _)
SerFrom(ss, toks, k, o, D) == IF k > Len(toks) THEN ss ELSE SerFrom(SerStep(ss, toks[k], o, D), toks, k + 1, o, D)
SerRun(toks, o, D) == SerFrom(SerInit, toks, 1, o, D)
\* observables of a run: render() output (marker when it raised), and where the strict run stops (-2: other exception)
OutOf(res) == IF res.crash THEN <<-2>> \o X_uee ELSE res.out
CutOf(res) == IF res.ferr # -1 THEN res.ferr ELSE IF res.crash THEN -2 ELSE -1

-----------------------------------------------------------------------------
\* ---------- the judge, part 1: what the reader must see (normal form of the given stream) ----------
ETok(t, n, ns, a, d, p, s, void) == [t |-> t, n |-> n, ns |-> ns, a |-> a, d |-> d, p |-> p, s |-> s, void |-> void]
NoE == ETok("None", None, None, <<>>, <<>>, None, None, FALSE)
IdOrEmpty(x) == IF x = None THEN <<>> ELSE x
AddChars(E, d) == IF d = <<>> THEN E
                  ELSE IF E # <<>> /\ Last(E).t = "Character" THEN [E EXCEPT ![Len(E)].d = @ \o d]
                  ELSE Append(E, ETok("Character", None, None, <<>>, d, None, None, FALSE))
\* ASSUMED: with minimize_boolean_attributes a boolean attribute (the option's own table) is compared by presence only
EAttr(a, el, o) == <<Lower(QName(a[1], a[2])), a[3], o.minbool /\ IsBoolAttr(el, a[2])>>
RECURSIVE ENormFrom(_, _, _, _)
ENormFrom(toks, k, o, E) ==
    IF k > Len(toks) THEN E
    ELSE LET tok == toks[k] IN
         ENormFrom(toks, k + 1, o,
            CASE tok.t \in {"Characters", "SpaceCharacters"} -> AddChars(E, tok.d)
              [] tok.t = "Entity" -> AddChars(E, Tz!EntityValue(Append(tok.n, 59)))
              [] tok.t \in {"StartTag", "EmptyTag"} ->
                    Append(E, ETok("StartTag", Lower(tok.n), tok.ns, [i \in 1..Len(tok.a) |-> EAttr(tok.a[i], tok.n, o)],
                                   <<>>, None, None, tok.t = "EmptyTag"))
              [] tok.t = "EndTag" -> Append(E, ETok("EndTag", Lower(tok.n), tok.ns, <<>>, <<>>, None, None, FALSE))
              [] tok.t = "Comment" -> Append(E, ETok("Comment", None, None, <<>>, tok.d, None, None, FALSE))
              [] tok.t = "Doctype" -> Append(E, ETok("Doctype", Lower(IdOrEmpty(tok.n)), None, <<>>, <<>>,
                                                     IdOrEmpty(tok.p), IdOrEmpty(tok.s), FALSE))
              [] OTHER -> E)
ENorm(toks, o) == ENormFrom(toks, 1, o, <<>>)

\* ---------- the judge, part 2: reading the output in place ----------
RECURSIVE NormFrom(_, _)
NormFrom(s, i) == IF i > Len(s) THEN <<>>
                  ELSE IF s[i] = 13 THEN <<10>> \o NormFrom(s, IF i < Len(s) /\ s[i + 1] = 10 THEN i + 2 ELSE i + 1)
                  ELSE <<s[i]>> \o NormFrom(s, i + 1)
NormNL(s) == IF Contains(s, 13) THEN NormFrom(s, 1) ELSE s          \* input-stream preprocessing: CRLF, CR -> LF

\* tokenizer state tree construction selects after the start tag of an element (DESIGN Appendix C.8)
\* ASSUMED: escape_rcdata=True declares a reader that treats style/script/xmp/... as ordinary (escapable) elements
LexState(n, ns, escrc) ==
    IF ~IsHtmlNs(ns) THEN "data"
    ELSE IF n \in {N_title, N_textarea} THEN "rcdata"
    ELSE IF n \in {N_style, N_xmp, N_iframe, N_noembed, N_noframes} THEN (IF escrc THEN "data" ELSE "rawtext")
    ELSE IF n = N_script THEN (IF escrc THEN "data" ELSE "script")
    ELSE IF n = N_noscript THEN (IF Scripting /\ ~escrc THEN "rawtext" ELSE "data")
    ELSE IF n = N_plaintext THEN "plaintext"
    ELSE "data"

\* rs = [ts: tokenizer state, open: Seq(BOOLEAN) "element is foreign" per open element, drop: next LF character token is dropped]
RInit == [ts |-> Tz!TInit("data", None, FALSE), open |-> <<>>, drop |-> FALSE]
RStep(rs, src, E, escrc) ==
    LET ts == rs.ts
        n1 == Tz!TStep(ts, src)
        m  == Len(n1.out)
    IN IF m <= Len(ts.out) THEN [rs EXCEPT !.ts = n1]
       ELSE LET t == n1.out[m]
                e == IF m <= Len(E) THEN E[m] ELSE NoE
            IN CASE t.t = "Character" ->
                      IF rs.drop /\ t.d[1] = 10
                      THEN [rs EXCEPT !.drop = FALSE,
                                      !.ts = [n1 EXCEPT !.out = IF Len(t.d) = 1 THEN Front(n1.out)
                                                                 ELSE [n1.out EXCEPT ![m].d = Tail(@)]]]
                      ELSE [rs EXCEPT !.drop = FALSE, !.ts = n1]
                 [] t.t = "StartTag" ->
                      LET aligned == e.t = "StartTag" /\ e.n = t.n
                          ns    == IF aligned THEN e.ns ELSE None
                          void  == aligned /\ e.void
                          open2 == IF void THEN rs.open ELSE Append(rs.open, ~IsHtmlNs(ns))
                          st2   == IF void THEN "data" ELSE LexState(t.n, ns, escrc)
                      IN [ts |-> [n1 EXCEPT !.st = st2, !.cdataOk = open2 # <<>> /\ Last(open2)],
                          open |-> open2,
                          drop |-> ~void /\ IsHtmlNs(ns) /\ t.n \in {N_pre, N_listing, N_textarea}]
                 [] t.t = "EndTag" ->
                      LET open2 == IF rs.open = <<>> THEN <<>> ELSE Front(rs.open) IN
                      [ts |-> [n1 EXCEPT !.cdataOk = open2 # <<>> /\ Last(open2)], open |-> open2, drop |-> FALSE]
                 [] OTHER -> [rs EXCEPT !.ts = n1, !.drop = FALSE]
RECURSIVE RRun(_, _, _, _)
RRun(rs, src, E, escrc) == IF rs.ts.done THEN rs ELSE RRun(RStep(rs, src, E, escrc), src, E, escrc)
Retok(out, E, escrc) == RRun(RInit, NormNL(out), E, escrc).ts.out

\* ---------- the judge, part 3: comparison (clause of the first difference) ----------
RECURSIVE CmpAttrs(_, _, _)
CmpAttrs(ea, ra, i) ==
    IF i > Len(ea) /\ i > Len(ra) THEN "ok"
    ELSE IF i > Len(ea) \/ i > Len(ra) THEN "attr-count"
    ELSE IF ea[i][1] # ra[i][1] THEN "attr-name"
    ELSE IF ~ea[i][3] /\ ea[i][2] # ra[i][2] THEN "attr-value"
    ELSE CmpAttrs(ea, ra, i + 1)
CmpTok(e, r) ==
    IF e.t # r.t THEN "token-type"
    ELSE CASE e.t = "Character" -> IF e.d = r.d THEN "ok" ELSE "text"
           [] e.t = "StartTag"  -> IF e.n # r.n THEN "tag-name" ELSE CmpAttrs(e.a, r.a, 1)     \* self-closing flag not compared
           [] e.t = "EndTag"    -> IF e.n # r.n THEN "tag-name" ELSE "ok"
           [] e.t = "Comment"   -> IF e.d = r.d THEN "ok" ELSE "comment"
           [] e.t = "Doctype"   -> IF e.n # IdOrEmpty(r.n) THEN "doctype-name"                 \* None and "" identified
                                   ELSE IF e.p # IdOrEmpty(r.p) THEN "doctype-public"
                                   ELSE IF e.s # IdOrEmpty(r.s) THEN "doctype-system" ELSE "ok"
           [] OTHER -> "token-type"
RECURSIVE FirstBad(_, _, _)
FirstBad(E, R, k) ==
    IF k > Len(E) /\ k > Len(R) THEN [j |-> 0, c |-> "ok"]
    ELSE IF k > Len(E) THEN [j |-> k, c |-> "extra-token"]
    ELSE IF k > Len(R) THEN [j |-> k, c |-> "missing-token"]
    ELSE LET c == CmpTok(E[k], R[k]) IN IF c # "ok" THEN [j |-> k, c |-> c] ELSE FirstBad(E, R, k + 1)

\* verdict of the judge on an output for a given stream: j = 0 when the reader sees exactly the stream
Judge(toks, o, out) == LET E == ENorm(toks, o) IN FirstBad(E, Retok(out, E, o.escrc), 1)
\* THE PROPERTY for one run
Faithful(toks, o, res) == res.crash \/ res.errs # <<>> \/ Judge(toks, o, res.out).j = 0
\* listed deviations whose branch changes what is written / reported for this stream
Fired(toks, o, D) == LET r == SerRun(toks, o, D) IN
                     {d \in D : LET q == SerRun(toks, o, D \ {d}) IN q.out # r.out \/ q.errs # r.errs \/ q.crash # r.crash}
=============================================================================
