----------------------------- MODULE Trace_Builders -----------------------------
(* C04 end to end.  One row per (input, container): the projections of the trees returned by   *)
(*   etree fullTree, etree default (root element form), dom   x   namespaceHTMLElements on / off *)
(* recorded by direct traversal of the returned ElementTree / minidom objects:                   *)
(*   [frag, trees, forms : Seq([b, ns, h, ti, hns])]   the tree of a form is trees[ti] (equal trees   *)
(*   are stored once - a lossless encoding): the list of top-level nodes (children of the          *)
(*   document / fragment; the html element alone for the etree root form; one pseudo node of      *)
(*   kind "exc" when the parse raised), hns = raw namespace markers ("xhtml" | "none") of the       *)
(*   elements the projection calls HTML.                                                          *)
(* h = FALSE: the form was produced by a parser made for this input; h = TRUE: by a parser object  *)
(* that had been used before (earlier parses completed, or abandoned by an exception at any point, *)
(* in particular in the document prologue) - TreeBuilder.reset() must leave nothing of them behind, *)
(* so these forms are held to the very same tree (reference = the fresh etree fullTree form).       *)
(* The property, judged here by TLC: all forms equal (HTML namespace aside), the root form is the *)
(* html subtree of the full form, and HTML elements carry the XHTML namespace exactly when         *)
(* namespacing is on.  A difference between the dom forms and the etree forms that is exactly     *)
(* what DomStore's attribute model (minidom's collision of plain names on the part after the       *)
(* colon) predicts from the etree tree is the known finding, anything else is rejected.           *)
EXTENDS DomStore, Gen_Names, TLC, Json, IOUtils
Traces == JsonDeserialize(IOEnv.TRACE_FILE)
VARIABLES tid, verdict
vars == <<tid, verdict>>

RECURSIVE FirstHtml(_, _)
FirstHtml(ts, i) == IF i > Len(ts) THEN 0 ELSE IF ts[i].k = "elem" /\ ts[i].n = N_html /\ ts[i].ns = "html" THEN i ELSE FirstHtml(ts, i + 1)
HtmlSubtree(ts) == LET i == FirstHtml(ts, 1) IN IF i = 0 THEN <<>> ELSE <<ts[i]>>

\* canonical triple -> attribute record as the builder received it (standard prefixes)
StdPrefix(t) == IF t[1] = "xmlns" /\ t[2] = N_xmlns THEN t[2] ELSE
                (CASE t[1] = "xlink" -> N_xlink [] t[1] = "xml" -> <<120, 109, 108>> [] OTHER -> N_xmlns) \o <<58>> \o t[2]
AsAttr(t) == IF t[1] = "" THEN PlainA(t[2], t[3]) ELSE Attr(t[1], StdPrefix(t), t[2], t[3])
RECURSIVE AsAttrs(_)
AsAttrs(ts) == IF ts = <<>> THEN <<>> ELSE <<AsAttr(ts[1])>> \o AsAttrs(Tail(ts))
DomFold(ts) == CanonAttrs(DFill(<<>>, AsAttrs(ts)))
HasCollision(ts) == DomFold(ts) # ts
\* does the dom tree d equal what DomStore predicts from the etree tree e?
\* ASSUMED: html / body may also have received merged attributes (startTagHtml / startTagBody), whose interleaving with the
\* evictions is not visible in the final tree, so on those two elements a collision excuses any attribute difference.  The
\* primitive-level Trace_TreeStore sees every attribute assignment and makes no such allowance.
\* Ds = the deviations allowed to explain the difference
RECURSIVE Explained(_, _, _), ExplainedAll(_, _, _)
Explained(e, d, Ds) ==
    /\ e.k = d.k /\ e.ns = d.ns /\ e.d = d.d /\ e.p = d.p /\ e.s = d.s
    /\ d.n = (IF e.k = "doctype" /\ "dom-doctype-name-colon" \in Ds THEN AfterFirstColon(e.n) ELSE e.n)
    /\ (IF "dom-colon-attr-collision" \in Ds THEN d.a = DomFold(e.a) \/ (e.n \in {N_html, N_body} /\ HasCollision(e.a)) ELSE d.a = e.a)
    /\ ExplainedAll(e.c, d.c, Ds)
ExplainedAll(es, ds, Ds) == Len(es) = Len(ds) /\ \A i \in 1..Len(es) : Explained(es[i], ds[i], Ds)

Judge(tr) ==
    LET F == tr.forms
        T(f) == tr.trees[f.ti]                                      \* forms share trees: t is stored once per distinct value
        IsRoot(f) == f.b = "etree-root" /\ ~tr.frag
        Raised(f) == Len(T(f)) = 1 /\ T(f)[1].k = "exc"
        efull == CHOOSE i \in 1..Len(F) : F[i].b = "etree-full" /\ F[i].ns /\ ~F[i].h
        dfull == CHOOSE i \in 1..Len(F) : F[i].b = "dom" /\ F[i].ns /\ ~F[i].h
        ref == T(F[efull])
        Want(f, r) == IF IsRoot(f) /\ ~Raised(F[efull]) THEN HtmlSubtree(r) ELSE r
        NsOK(f) == \A j \in 1..Len(f.hns) : f.hns[j] = (IF f.ns THEN "xhtml" ELSE "none")
    IN IF \E i \in 1..Len(F) : ~NsOK(F[i]) THEN "reject:html-namespace"
       ELSE IF \E i \in 1..Len(F) : F[i].b # "dom" /\ T(F[i]) # Want(F[i], ref) THEN "reject:etree-forms-differ"
       ELSE IF \E i \in 1..Len(F) : F[i].b = "dom" /\ T(F[i]) # T(F[dfull]) THEN "reject:dom-forms-differ"
       ELSE IF T(F[dfull]) = ref THEN (IF Raised(F[efull]) THEN "accept-raised" ELSE "accept")
       ELSE IF Raised(F[efull]) \/ Raised(F[dfull]) THEN "reject:etree-vs-dom"
       ELSE IF \E x \in KnownDefects : ExplainedAll(ref, T(F[dfull]), {x})
            THEN "finding:" \o (CHOOSE x \in KnownDefects : ExplainedAll(ref, T(F[dfull]), {x}))
       ELSE IF ExplainedAll(ref, T(F[dfull]), KnownDefects) THEN "finding:both"
       ELSE "reject:etree-vs-dom"
Init == tid \in 1..Len(Traces) /\ verdict = "run"
Step == verdict = "run" /\ verdict' = Judge(Traces[tid]) /\ UNCHANGED tid
Done == verdict # "run" /\ UNCHANGED vars
Next == Step \/ Done
Report == verdict # "run" => PrintT(ToJson([tid |-> tid, l |-> 0, v |-> verdict]))
=============================================================================
