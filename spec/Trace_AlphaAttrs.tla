-------------------------- MODULE Trace_AlphaAttrs -------------------------
(* Trace validation: streams recorded from the real filter.  One initial state per trace,  *)
(* one transition per token, total verdicts.                                               *)
EXTENDS AlphaAttrs, TLC, Json, IOUtils
Traces == JsonDeserialize(IOEnv.TRACE_FILE)
VARIABLES tid, l, verdict
vars == <<tid, l, verdict>>

Init == tid \in 1..Len(Traces) /\ l = 1 /\ verdict = "run"
Step ==
    /\ verdict = "run"
    /\ LET tr == Traces[tid] IN
       IF l > Len(tr.inp)
       THEN /\ verdict' = IF Len(tr.out) = Len(tr.inp) THEN "accept" ELSE "reject:length"
            /\ UNCHANGED <<tid, l>>
       ELSE IF l > Len(tr.out) THEN verdict' = "reject:length" /\ UNCHANGED <<tid, l>>
       ELSE LET exp == AlphaStep(tr.inp[l]) IN
            IF tr.out[l] # exp THEN verdict' = "reject:step" /\ UNCHANGED <<tid, l>>
            ELSE IF ~OnlyReorders(tr.inp[l], tr.out[l]) THEN verdict' = "reject:property" /\ UNCHANGED <<tid, l>>
            ELSE l' = l + 1 /\ UNCHANGED <<tid, verdict>>
Done == verdict # "run" /\ UNCHANGED vars
Next == Step \/ Done
Report == verdict # "run" => PrintT(ToJson([tid |-> tid, l |-> l, v |-> verdict]))
=============================================================================
