------------------------------ MODULE EtreeStore ------------------------------
(* C04.  The ElementTree representation kept by html5lib/treebuilders/etree.py, operation by   *)
(* operation as the code performs it.  Every wrapper (Element, Comment, DocumentType,          *)
(* Document, DocumentFragment) owns an ElementTree element with                                *)
(*   text   str | None     the text before the first child (comment data / doctype name)      *)
(*   tail   str | None     the text after this element inside its parent                      *)
(*   kids   list(self._element)           the real ElementTree children                        *)
(*   shadow self._childNodes              html5lib's own child list (what reparentChildren,    *)
(*                                        removeChild and insertBefore also consult)           *)
(*   par    self.parent                   the wrapper's parent pointer (0 = None)              *)
(* ElementTree does not stop an element from being a child of two parents, and an element      *)
(* takes its tail with it when it moves: both are modelled (they are why appendChild on an     *)
(* attached node, or removeChild of a node followed by text, diverge from the DOM).            *)
(* A Python exception is terminal: exc names its class and the store is left as the code       *)
(* leaves it at the raise.                                                                     *)
EXTENDS StoreBase

ENode(k, ns, n, text, p, q) ==
    [k |-> k, ns |-> ns, n |-> n, a |-> <<>>, text |-> text, tail |-> None, kids |-> <<>>, shadow |-> <<>>, par |-> 0, p |-> p, q |-> q]
EInit == [nd |-> <<ENode("doc", "", <<>>, None, None, None)>>, exc |-> "", log |-> <<>>]

\* base.TreeBuilder.reset(): self.document = self.documentClass() - a NEW Document wrapper (and ElementTree element) each time;
\* nothing of the previous tree, finished or abandoned half way, is reachable from it
EReset(e) == EInit
EFail(e, name) == [e EXCEPT !.exc = name]
EPar(e, n) == e.nd[n].par
EHasContent(e, n) == Truthy(e.nd[n].text) \/ e.nd[n].kids # <<>>            \* bool(self._element.text or len(self._element))
EHasAttr(e, n, at) == KeyIndex(e.nd[n].a, AKey(at), 1) # 0                  \* name in self._element.attrib
EAttrsView(e, n) == e.nd[n].a                                                \* what .attributes yields (reconstruction reads it)

\* __init__ of the wrapper classes
ENew(e, c) ==
    [e EXCEPT !.nd = Append(@, CASE c.k = "comment" -> ENode("comment", "", <<>>, c.d, None, None)     \* ElementTree.Comment(data)
                                 [] c.k = "doctype" -> ENode("doctype", "", <<>>, c.n, c.p, c.q)       \* text = name; ids set() unless None
                                 [] OTHER           -> ENode(c.k, c.ns, c.n, None, None, None))]
\* attributes setter: clear, then dict assignment in the order of token["data"]
ESetAttrs(e, n, as) == [e EXCEPT !.nd[n].a = DictFill(<<>>, as)]
ESetItem(e, n, at) == [e EXCEPT !.nd[n].a = DictSet(@, at)]

EAppend(e, p, c) == [e EXCEPT !.nd[p].shadow = Append(@, c), !.nd[p].kids = Append(@, c), !.nd[c].par = p]

EBefore(e, p, c, r) ==
    IF r = 0 THEN EFail(e, "AttributeError") ELSE                            \* refNode._element with refNode = None
    LET i == FirstIndexOf(e.nd[p].kids, r, 1) IN                             \* list(self._element).index(refNode._element)
    IF i = 0 THEN EFail(e, "ValueError")
    ELSE LET e1 == [e EXCEPT !.nd[p].kids = InsertAt(@, i, c)] IN
         IF "etree-insertBefore-shadow" \in KnownDefects THEN [e1 EXCEPT !.nd[c].par = p]      \* before 30680e6: shadow list forgotten
         ELSE LET j == FirstIndexOf(e1.nd[p].shadow, r, 1) IN
              IF j = 0 THEN EFail(e1, "ValueError")
              ELSE [e1 EXCEPT !.nd[p].shadow = InsertAt(@, j, c), !.nd[c].par = p]

ERemove(e, p, c) ==
    LET j == FirstIndexOf(e.nd[p].shadow, c, 1) IN                           \* self._childNodes.remove(node)
    IF j = 0 THEN EFail(e, "ValueError")
    ELSE LET e1 == [e EXCEPT !.nd[p].shadow = RemoveAt(@, j)]
             i  == FirstIndexOf(e1.nd[p].kids, c, 1)                         \* self._element.remove(node._element)
         IN IF i = 0 THEN EFail(e1, "ValueError")
            ELSE [e1 EXCEPT !.nd[p].kids = RemoveAt(@, i), !.nd[c].par = 0]   \* the tail of c stays on c

EText(e, p, d, r) ==
    LET ks == e.nd[p].kids IN
    IF ks = <<>> THEN [e EXCEPT !.nd[p].text = Str(@) \o d]
    ELSE IF r = 0 THEN [e EXCEPT !.nd[ks[Len(ks)]].tail = Str(@) \o d]
    ELSE LET i == FirstIndexOf(ks, r, 1) IN
         IF i = 0 THEN EFail(e, "ValueError")
         ELSE IF i > 1 THEN [e EXCEPT !.nd[ks[i - 1]].tail = Str(@) \o d]
         ELSE [e EXCEPT !.nd[p].text = Str(@) \o d]

\* type(self)(self.name, self.namespace); attrib copied when non-empty
EClone(e, s, c) == [e EXCEPT !.nd = Append(@, [ENode(e.nd[s].k, e.nd[s].ns, e.nd[s].n, None, None, None) EXCEPT !.a = e.nd[s].a])]

RECURSIVE EAppendAll(_, _, _)
EAppendAll(e, p, cs) == IF cs = <<>> THEN e ELSE EAppendAll(EAppend(e, p, cs[1]), p, Tail(cs))
EReparent(e, s, t) ==
    LET src == e.nd[s]  dst == e.nd[t]
        Move(e1) == LET e2 == [e1 EXCEPT !.nd[s].text = <<>>]                \* self._element.text = ""
                        e3 == EAppendAll(e2, t, src.shadow)                  \* base.Node.reparentChildren walks self.childNodes
                    IN [e3 EXCEPT !.nd[s].kids = <<>>, !.nd[s].shadow = <<>>]    \* self.childNodes = []  (del self._element[:])
    IN IF dst.shadow # <<>>
       THEN LET last == dst.shadow[Len(dst.shadow)] IN                       \* newParent.childNodes[-1]._element.tail += self._element.text
            IF e.nd[last].tail = None \/ src.text = None THEN EFail(e, "TypeError")
            ELSE Move([e EXCEPT !.nd[last].tail = @ \o src.text])
       ELSE LET e1 == [e EXCEPT !.nd[t].text = Str(@)] IN
            Move(IF src.text # None THEN [e1 EXCEPT !.nd[t].text = @ \o src.text] ELSE e1)

\* one primitive call (logged even when it raises; nothing happens after an exception)
EPrim(e, c) ==
    IF e.exc # "" THEN e
    ELSE LET e0 == [e EXCEPT !.log = Append(@, c)] IN
         CASE c.op = "new"      -> ENew(e0, c)
           [] c.op = "attrs"    -> ESetAttrs(e0, c.s, c.a)
           [] c.op = "setattr"  -> ESetItem(e0, c.s, c.a[1])
           [] c.op = "append"   -> EAppend(e0, c.s, c.c)
           [] c.op = "before"   -> EBefore(e0, c.s, c.c, c.r)
           [] c.op = "remove"   -> ERemove(e0, c.s, c.c)
           [] c.op = "text"     -> EText(e0, c.s, c.d, c.r)
           [] c.op = "clone"    -> EClone(e0, c.s, c.c)
           [] c.op = "reparent" -> EReparent(e0, c.s, c.c)
           [] c.op = "hasContent" -> e0

\* ---- abstraction ----
RECURSIVE ERowKids(_, _, _)
ERowKids(e, ks, row) == IF ks = <<>> THEN row
                        ELSE ERowKids(e, Tail(ks), Push(Push(row, Item(ks[1])), TextItem(Str(e.nd[ks[1]].tail))))
ERow(e, n) == IF e.nd[n].k \in {"comment", "doctype"} THEN <<>>
              ELSE ERowKids(e, e.nd[n].kids, Push(<<>>, TextItem(Str(e.nd[n].text))))
EAttrs(e, n) == CanonAttrs(e.nd[n].a)

RECURSIVE AbsE(_, _), AbsEKids(_, _, _)
AbsE(e, n) ==
    LET x == e.nd[n] IN
    CASE x.k = "comment" -> CNode("comment", "", <<>>, <<>>, Str(x.text), <<>>, <<>>, <<>>)
      [] x.k = "doctype" -> CNode("doctype", "", Str(x.text), <<>>, <<>>, Str(x.p), Str(x.q), <<>>)
      [] OTHER -> CNode(x.k, HtmlNs(x.ns), x.n, CanonAttrs(x.a), <<>>, <<>>, <<>>, AbsEKids(e, x.kids, PushC(<<>>, Str(x.text))))
AbsEKids(e, ks, acc) == IF ks = <<>> THEN acc
                        ELSE AbsEKids(e, Tail(ks), PushC(Append(acc, AbsE(e, ks[1])), Str(e.nd[ks[1]].tail)))

\* the wrapper child list always equals the real child list (what commit 30680e6 restored)
ShadowSync(e) == \A i \in 1..Len(e.nd) : e.nd[i].kids = e.nd[i].shadow
=============================================================================
