---------------------------- MODULE MC_Tokenizer -----------------------------
(* Bounded-exhaustive exploration of the tokenizer: the input grows fragment by fragment      *)
(* (every prefix is a state, so EOF is met in every tokenizer state); each state runs the      *)
(* machine to completion, checks the model-level theorems and exports the behaviour.           *)
EXTENDS Tokenizer, TLC, Json
CONSTANTS MaxFrags, AlphabetName, Export

Str(s) == s
Frags ==
  CASE AlphabetName = "markup" ->
        {<<60>>, <<62>>, <<47>>, <<33>>, <<63>>, <<45>>, <<61>>, <<34>>, <<39>>, <<96>>, <<38>>, <<59>>, <<35>>,
         <<120>>, <<88>>, <<49>>, <<97>>, <<90>>, <<91>>, <<93>>, <<32>>, <<9>>, <<10>>, <<12>>, <<0>>, <<233>>, <<128512>>, <<55296>>,
         <<45, 45>>, <<45, 45, 62>>, <<60, 33, 45, 45>>}
    [] AlphabetName = "words" ->
        {<<60>>, <<62>>, <<47>>, <<33>>, <<32>>, <<34>>, <<39>>, <<38>>, <<59>>, <<61>>, <<45, 45>>, <<0>>,
         <<68, 79, 67, 84, 89, 80, 69>>, <<100, 111, 99, 116, 121, 112, 101>>, <<80, 85, 66, 76, 73, 67>>,
         <<83, 89, 83, 84, 69, 77>>, <<112, 117, 98, 108, 105, 99>>, <<91, 67, 68, 65, 84, 65, 91>>, <<60, 33, 91, 67, 68, 65, 84, 65, 91>>, <<93, 93, 62>>,
         <<115, 99, 114, 105, 112, 116>>, <<83, 67, 82, 73, 80, 84>>, <<120>>, <<97>>}
    [] AlphabetName = "refs" ->
        {<<38>>, <<59>>, <<35>>, <<120>>, <<88>>, <<61>>, <<34>>, <<60, 97, 32, 98, 61>>, <<62>>, <<32>>,
         <<97, 109, 112>>, <<110, 111, 116>>, <<110, 111, 116, 105, 110>>, <<108, 116>>, <<51, 56>>, <<48>>,
         <<68, 56, 48, 48>>, <<49, 49, 48, 48, 48, 48>>, <<49, 50, 56>>, <<122>>, <<49>>}
    [] AlphabetName = "script" ->
        {<<60>>, <<62>>, <<47>>, <<33>>, <<45>>, <<45, 45>>, <<32>>, <<0>>, <<120>>,
         <<115, 99, 114, 105, 112, 116>>, <<83, 67, 82, 73, 80, 84>>, <<115, 99, 114>>, <<116, 105, 116, 108, 101>>}

\* tokenizer configurations explored with each alphabet: <<start state, last start tag, CDATA allowed>>
W_title == <<116, 105, 116, 108, 101>>
Configs ==
  CASE AlphabetName = "markup" -> {<<"data", None, FALSE>>, <<"rcdata", <<120>>, FALSE>>, <<"rawtext", <<120>>, FALSE>>,
                                   <<"script", <<120>>, FALSE>>, <<"plaintext", None, FALSE>>, <<"data", <<120>>, TRUE>>}
    [] AlphabetName = "words"  -> {<<"data", None, FALSE>>, <<"data", None, TRUE>>, <<"rcdata", W_script, TRUE>>}
    [] AlphabetName = "refs"   -> {<<"data", None, FALSE>>, <<"rcdata", <<120>>, FALSE>>, <<"data", <<120>>, TRUE>>}
    [] AlphabetName = "script" -> {<<"script", W_script, FALSE>>, <<"rcdata", W_title, FALSE>>, <<"rawtext", None, FALSE>>,
                                   <<"script", None, FALSE>>}

VARIABLES src, n, cf
Init == src = <<>> /\ n = 0 /\ cf \in Configs
Next == n < MaxFrags /\ \E f \in Frags : src' = src \o f /\ n' = n + 1 /\ UNCHANGED cf

Result == TRun(TInit(cf[1], cf[2], cf[3]), src)
ThmWellFormed == OutputWellFormed(Result.out)
ThmConsumesAll == Result.i >= Len(src) + 1
ThmExport == Export => PrintT(ToJson([src |-> src, start |-> cf[1], last |-> cf[2], cdata |-> cf[3], out |-> Result.out]))
=============================================================================
