----------------------------- MODULE MC_TokCover -----------------------------
(* State cover of the tokenizer machine, computed by TLC: breadth-first search over inputs     *)
(* with a VIEW that keeps only the control state (plus the few data abstractions that select   *)
(* different arms), so TLC returns one shortest input per reachable control state and          *)
(* configuration.  The harness turns this into a W-method test suite                           *)
(*      prefix . one character of every class . distinguishing suffix                          *)
(* i.e. every transition of the machine is taken and its TARGET state is identified by what    *)
(* the suffix tokenizes to.  Expected outputs come from Tokenize on the whole test string.     *)
EXTENDS Tokenizer, TLC, Json
CONSTANTS MaxFrags

W_title == <<116, 105, 116, 108, 101>>
Configs == {<<"data", None, FALSE>>, <<"data", None, TRUE>>, <<"rcdata", W_title, FALSE>>, <<"rawtext", W_title, FALSE>>,
            <<"script", W_script, FALSE>>, <<"plaintext", None, FALSE>>}
Steps == {<<60>>, <<62>>, <<47>>, <<33>>, <<63>>, <<45>>, <<61>>, <<34>>, <<39>>, <<38>>, <<59>>, <<35>>, <<120>>, <<88>>,
          <<97>>, <<49>>, <<91>>, <<93>>, <<32>>, <<0>>, <<233>>,
          <<45, 45>>, W_DOCTYPE, W_PUBLIC, W_SYSTEM, W_CDATA, W_script, W_title, <<97, 109, 112>>, <<93, 93>>}

\* run while there is input left (pause at end of input, before EOF is processed)
RECURSIVE TPause(_, _)
TPause(ts, src) == IF ts.done \/ ts.i > Len(src) THEN ts ELSE TPause(TStep(ts, src), src)

VARIABLES src, n, cf
Init == src = <<>> /\ n = 0 /\ cf \in Configs
Next == n < MaxFrags /\ \E f \in Steps : src' = src \o f /\ n' = n + 1 /\ UNCHANGED cf
Paused == TPause(TInit(cf[1], cf[2], cf[3]), src)
CharRefSts == {"charRef", "namedCharRef", "ambiguousAmp", "numCharRef", "hexStart", "decStart", "hexRef", "decRef", "numEnd"}
TagSts     == {"tagName", "beforeAttrName", "attrName", "afterAttrName", "beforeAttrVal", "attrValDq", "attrValSq", "attrValUq",
               "afterAttrValQ", "selfClosing"}
EndNameSts == {"rcdataEndName", "rawtextEndName", "scriptEndName", "scriptEscEndName"}
DblSts     == {"scriptDblEscStart", "scriptDblEscEnd"}
DtSts      == {"doctype", "beforeDtName", "dtName", "afterDtName", "afterDtPublicKw", "beforeDtPublicId", "dtPublicIdDq",
               "dtPublicIdSq", "afterDtPublicId", "betweenDtIds", "afterDtSystemKw", "beforeDtSystemId", "dtSystemIdDq",
               "dtSystemIdSq", "afterDtSystemId", "bogusDoctype"}
\* the control state plus only those data abstractions that are live in it
Abs(ts) ==
    LET st == ts.st
        inAttrRef == st \in CharRefSts /\ InAttr(ts)
    IN <<st,
         IF st \in CharRefSts THEN ts.ret ELSE "",
         IF st \in TagSts \/ inAttrRef THEN <<ts.tag.k, ts.tag.a # <<>>, ts.tag.sc>> ELSE <<>>,
         IF st \in EndNameSts THEN <<ts.last # None /\ IsPrefixOf(ts.tag.n, NameOrNone(ts.last)), ts.last # None /\ ts.tag.n = ts.last>> ELSE <<>>,
         IF st \in DblSts THEN <<IsPrefixOf(ts.buf, W_script), ts.buf = W_script>> ELSE <<>>,
         IF st \in DtSts THEN <<ts.dt.fq, ts.dt.p # None, ts.dt.s # None>> ELSE <<>> >>
View == <<cf, Abs(Paused)>>
ThmExport == PrintT(ToJson([src |-> src, start |-> cf[1], last |-> cf[2], cdata |-> cf[3], st |-> Paused.st, ret |-> Paused.ret]))
=============================================================================
