--------------------------- MODULE MC_WalkSchedule ----------------------------
(* C11 / C19: Walk is a function of the tree only.                                              *)
(* A walker OBJECT is (tree, start node) and nothing else; everything an iteration needs is in   *)
(* its own cursor state st (EtreeWalker: the cursor tuple carries its ancestor stack, child      *)
(* indices are recomputed from it).  So any schedule of iterations gives each of them the stream *)
(* Walk(AbsE(E, start)):                                                                         *)
(*   - two iterations (of two walker objects, possibly on the same tree and start node) advanced *)
(*     in ANY interleaving (StepA / StepB),                                                      *)
(*   - an iteration abandoned at any point and the same object iterated again (AgainA / AgainB). *)
(* Built on the ElementTree shapes of MC_EtreeWalker (phase "build"), then phase "walk" with two *)
(* live iterations (the two play symmetric roles: start <= start2).  Theorems: every state of either iteration emits a prefix of Walk and keeps  *)
(* the cursor invariant; a finished iteration emitted exactly Walk - whatever the other did.     *)
(* The harness binds this to the code by running the real walkers (and to_sax on them) under     *)
(* such schedules and validating every resulting stream with Trace_Walker / Trace_EtreeWalker /  *)
(* Trace_Sax exactly like a stream of a solitary walk.                                           *)
EXTENDS MC_EtreeWalker
CONSTANT MaxAgain
VARIABLES start2, st2, again
vars2 == <<E, mode, start, st, evs, start2, st2, again>>

Init2 == Init /\ start2 = 0 /\ st2 = EtInit(0) /\ again = 0
Build2 == Build /\ UNCHANGED <<start2, st2, again>>
Begin2 == /\ mode = "build" /\ mode' = "walk"
          /\ \E s1, s2 \in Containers : s1 <= s2 /\ start' = s1 /\ st' = EtInit(s1) /\ start2' = s2 /\ st2' = EtInit(s2)
          /\ UNCHANGED <<E, evs, again>>
StepA == /\ mode = "walk" /\ st.ph # "done" /\ st' = EtStep(E, start, st, KnownDefects)
         /\ UNCHANGED <<E, mode, start, evs, start2, st2, again>>
StepB == /\ mode = "walk" /\ st2.ph # "done" /\ st2' = EtStep(E, start2, st2, KnownDefects)
         /\ UNCHANGED <<E, mode, start, evs, start2, st, again>>
\* the iteration is dropped where it stands and the same walker object is iterated again
AgainA == /\ mode = "walk" /\ again < MaxAgain /\ st # EtInit(start) /\ st' = EtInit(start) /\ again' = again + 1
          /\ UNCHANGED <<E, mode, start, evs, start2, st2>>
AgainB == /\ mode = "walk" /\ again < MaxAgain /\ st2 # EtInit(start2) /\ st2' = EtInit(start2) /\ again' = again + 1
          /\ UNCHANGED <<E, mode, start, evs, start2, st>>
Next2 == Build2 \/ Begin2 \/ StepA \/ StepB \/ AgainA \/ AgainB

Sched(s, x) == LET ref == Walk(AbsE(E, s), KnownDefects) IN
               /\ CursorInv(E, s, x.cur) /\ IsPrefixOf(x.out, ref) /\ (x.ph = "done" => x.out = ref)
ThmScheduleFree == mode = "walk" => Sched(start, st) /\ Sched(start2, st2)
=============================================================================
