------------------------------- MODULE TreeGen -------------------------------
(* Bounded-exhaustive generator of abstract trees, shared by MC_Walker (C11) and MC_Sax (C19). *)
(* A tree is grown one node at a time by appending a new last child to a container on the      *)
(* rightmost path, so every tree of <= MaxNodes nodes over the alphabet is reached exactly     *)
(* once and every prefix of its construction is a state.                                       *)
(*   Alphabet = "full":  HTML / no-namespace / SVG elements incl. void names, the legacy void  *)
(*                       (one element carries id, xml:lang and lang un-namespaced)              *)
(*                       name event-source, plain and foreign attributes, 3 texts, comment,    *)
(*                       2 doctypes                                                            *)
(*   Alphabet = "shape": div, br, event-source, 2 texts, comment, doctype (deeper bound)       *)
(*   Unmerged:  text nodes may be adjacent and empty (what a DOM can hold)                     *)
(*   VoidKids:  elements with a void name may get children (not a parser shape; exercises the  *)
(*              "Void element has children" path of the code)                                  *)
EXTENDS Walker, TLC
CONSTANTS MaxNodes, Alphabet, Unmerged, VoidKids

AttrId    == <<None, N_id, <<120>>>>                      \* id="x"
\* two un-namespaced attributes whose names agree after the colon (they share a slot in minidom's namespace index)
AttrXmlLang == <<None, N_xml \o <<58>> \o N_lang, <<101>>>>    \* xml:lang="e" on an HTML element (not adjusted)
AttrLang  == <<None, N_lang, <<102>>>>                         \* lang="f"
AttrXlink == <<NS_xlink, N_href, <<121>>>>                \* xlink:href="y" (adjusted foreign attribute)
Elems == IF Alphabet = "full"
         THEN {ElemNode(NS_html, N_div, <<>>, <<>>), ElemNode(NS_html, N_div, <<AttrId, AttrXmlLang, AttrLang>>, <<>>),
               ElemNode(NS_svg, N_svg, <<AttrXlink, AttrId>>, <<>>), ElemNode(NS_html, N_br, <<>>, <<>>),
               ElemNode(None, N_br, <<AttrId>>, <<>>), ElemNode(NS_svg, N_br, <<>>, <<>>),
               ElemNode(NS_html, N_event_source, <<>>, <<>>),
               \* metacharacters of the internal name encodings inside names: g}h:{i}  with attribute a}b:c="z"
               ElemNode(NS_svg, <<103, 125, 104, 58, 123, 105, 125>>, <<<<None, <<97, 125, 98, 58, 99>>, <<122>>>>>>, <<>>)}
         ELSE {ElemNode(NS_html, N_div, <<>>, <<>>), ElemNode(NS_html, N_br, <<>>, <<>>), ElemNode(NS_html, N_event_source, <<>>, <<>>)}
Texts == (IF Alphabet = "full" THEN {TextNode(<<120>>), TextNode(<<32>>), TextNode(<<10, 120, 32, 121, 9>>)}
          ELSE {TextNode(<<120>>), TextNode(<<32, 121, 32>>)})
         \cup (IF Unmerged THEN {TextNode(<<>>)} ELSE {})
Comments == {CommentNode(<<99>>)}
Doctypes == IF Alphabet = "full" THEN {DoctypeNode(N_html, None, None), DoctypeNode(<<>>, <<112>>, <<>>)}
            ELSE {DoctypeNode(N_html, None, None)}

VARIABLE T
RECURSIVE Size(_), RightPathLen(_), AddAt(_, _, _), RightNode(_, _), ContainerPaths(_)
Size(nd) == 1 + (IF nd.kids = <<>> THEN 0 ELSE LET RECURSIVE S(_)
                                                  S(k) == IF k = 0 THEN 0 ELSE Size(nd.kids[k]) + S(k - 1)
                                              IN S(Len(nd.kids)))
CanHaveKids(nd) == IsContainer(nd) /\ (VoidKids \/ ~(nd.k = "elem" /\ IsVoidElem(nd.ns, nd.name, {})))
RightPathLen(nd) == IF nd.kids # <<>> /\ CanHaveKids(nd.kids[Len(nd.kids)]) THEN 1 + RightPathLen(nd.kids[Len(nd.kids)]) ELSE 0
RightNode(nd, depth) == IF depth = 0 THEN nd ELSE RightNode(nd.kids[Len(nd.kids)], depth - 1)
AddAt(nd, depth, new) == IF depth = 0 THEN [nd EXCEPT !.kids = Append(@, new)]
                         ELSE [nd EXCEPT !.kids[Len(nd.kids)] = AddAt(@, depth - 1, new)]
ContainerPaths(nd) == {<<>>} \cup UNION {{<<i>> \o p : p \in ContainerPaths(nd.kids[i])} :
                                        i \in {j \in 1..Len(nd.kids) : IsContainer(nd.kids[j])}}
\* without Unmerged a new text is never placed after a text (the tree stays canonical)
TextAllowed(par) == Unmerged \/ par.kids = <<>> \/ par.kids[Len(par.kids)].k # "text"

GenInit == T = DocNode(<<>>)
GenNext == /\ Size(T) < MaxNodes
           /\ \E depth \in 0..RightPathLen(T) :
                 LET par == RightNode(T, depth) IN
                 \E new \in Elems \cup Comments \cup (IF TextAllowed(par) THEN Texts ELSE {})
                            \cup (IF depth = 0 THEN Doctypes ELSE {}) :
                     T' = AddAt(T, depth, new)
Starts == ContainerPaths(T)
=============================================================================
