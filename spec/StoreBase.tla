------------------------------ MODULE StoreBase ------------------------------
(* C04.  Shared vocabulary of the three node stores (abstract TreeOps store, ElementTree       *)
(* representation, minidom representation): primitive-call records, attribute records, rows.   *)
(*                                                                                             *)
(* A primitive call is what html5lib's tree construction issues on a builder node:             *)
(*   [op, s, c, r, d, k, ns, n, a, p, q]                                                       *)
(*   op  "new"      create node c of kind k ("elem" "comment" "doctype" "frag") with namespace  *)
(*                  ns ("html" "svg" "math" or "none"), name n, data d, public / system id p q *)
(*       "attrs"    s.attributes = a          (the setter called with token["data"])            *)
(*       "append"   s.appendChild(c)          "before"   s.insertBefore(c, r)                  *)
(*       "remove"   s.removeChild(c)          "text"     s.insertText(d, r)   (r = 0: at end)  *)
(*       "reparent" s.reparentChildren(c)     "clone"    c := s.cloneNode()                    *)
(*       "setattr"  s.attributes[name] = value (html / body start-tag merge); a = <<attribute>>*)
(*       "hasContent" s.hasContent()  (pure observation)                                        *)
(* Node ids are creation numbers (1 = the document).                                           *)
(* An attribute is [ns, q, l, v]: ns = "" (plain string key) or "xlink" / "xml" / "xmlns"      *)
(* (tuple key of an adjusted foreign attribute); q = qualified name; l = local name; v = value.*)
(* A row is the ordered content of one node: items [i |-> child id, d |-> <<>>] for node        *)
(* children and [i |-> 0, d |-> text] for maximal text runs (never empty, never adjacent).      *)
EXTENDS TreeOps
CONSTANT KnownDefects          \* subset of DefectNames: the deviations of the code that are switched ON
DefectNames == {"dom-colon-attr-collision",        \* open  (known_findings.json)
                "dom-doctype-name-colon",          \* open  (known_findings.d/C04.json)
                "etree-insertBefore-shadow"}       \* fixed in /repo 30680e6; kept so that TLC can still show what it was

Call(op, s, c, r, d) == [op |-> op, s |-> s, c |-> c, r |-> r, d |-> d, k |-> "", ns |-> "", n |-> <<>>, a |-> <<>>, p |-> None, q |-> None]
NewCall(c, k, ns, n, d, p, q) == [op |-> "new", s |-> 0, c |-> c, r |-> 0, d |-> d, k |-> k, ns |-> ns, n |-> n, a |-> <<>>, p |-> p, q |-> q]
AttrsCall(s, a) == [Call("attrs", s, 0, 0, <<>>) EXCEPT !.a = a]
SetAttrCall(s, at) == [Call("setattr", s, 0, 0, <<>>) EXCEPT !.a = <<at>>]
Attr(ns, q, l, v) == [ns |-> ns, q |-> q, l |-> l, v |-> v]
PlainA(q, v) == Attr("", q, q, v)

\* canonical attribute of the projection (harness/treeproj.py): <<namespace prefix, local name, value>>
\* ASSUMED (bound): no plain attribute name starts with "{" - ElementTree's Clark notation cannot tell the plain name "{x}y"
\* from local name y in namespace x, so such inputs are outside the compared set (harness/props/c04.py clark_ambiguous)
CanonAttr(at) == IF at.ns = "" THEN <<"", at.q, at.v>> ELSE <<at.ns, at.l, at.v>>
RECURSIVE CanonAttrs(_)
CanonAttrs(as) == IF as = <<>> THEN <<>> ELSE <<CanonAttr(as[1])>> \o CanonAttrs(Tail(as))
\* the key under which an attribute is stored by a mapping that keeps namespaced and plain names apart
AKey(at) == IF at.ns = "" THEN <<"", at.q>> ELSE <<at.ns, at.l>>
RECURSIVE KeyIndex(_, _, _)
KeyIndex(as, key, i) == IF i > Len(as) THEN 0 ELSE IF AKey(as[i]) = key THEN i ELSE KeyIndex(as, key, i + 1)
\* dict-style assignment: overwrite in place, else append
DictSet(as, at) == LET i == KeyIndex(as, AKey(at), 1) IN IF i = 0 THEN Append(as, at) ELSE [as EXCEPT ![i] = at]
RECURSIVE DictFill(_, _)
DictFill(as, new) == IF new = <<>> THEN as ELSE DictFill(DictSet(as, new[1]), Tail(new))

Item(i) == [i |-> i, d |-> <<>>]
TextItem(d) == [i |-> 0, d |-> d]
\* append an item to a row, merging adjacent text and dropping empty text
Push(row, it) ==
    IF it.i = 0 /\ it.d = <<>> THEN row
    ELSE IF it.i = 0 /\ row # <<>> /\ row[Len(row)].i = 0 THEN [row EXCEPT ![Len(row)].d = @ \o it.d]
    ELSE Append(row, it)

\* canonical nested form (the shape of TreeOps!Canon and of harness/treeproj.py)
CNode(k, ns, n, a, d, p, s, c) == [k |-> k, ns |-> ns, n |-> n, a |-> a, d |-> d, p |-> p, s |-> s, c |-> c]
CText(d) == CNode("text", "", <<>>, <<>>, d, <<>>, <<>>, <<>>)
PushC(acc, d) == IF d = <<>> THEN acc
                 ELSE IF acc # <<>> /\ acc[Len(acc)].k = "text" THEN [acc EXCEPT ![Len(acc)].d = @ \o d]
                 ELSE Append(acc, CText(d))

Str(x) == IF x = None THEN <<>> ELSE x                 \* Python: x or ""
Truthy(x) == x # None /\ x # <<>>                      \* Python: bool(x) for str | None
HtmlNs(ns) == IF ns = "none" THEN "html" ELSE ns        \* the projection identifies "no namespace" with the HTML namespace
=============================================================================
