---------------------------- MODULE Trace_XmlName ---------------------------
(* Rows recorded from the real InfosetFilter: {k, inp, out, back, f1, f2}.  One row per trace  *)
(* (a row is one public call; the filter's only memory is a cache that must not matter).      *)
EXTENDS XmlName, TLC, Json, IOUtils
Traces == JsonDeserialize(IOEnv.TRACE_FILE)
VARIABLES tid, verdict
vars == <<tid, verdict>>
Judge(r) ==
    CASE r.k = "name" ->
            IF r.out # ToXml(r.inp) THEN "reject:step"
            ELSE IF ~HasPattern(r.inp) /\ r.back # FromXml(r.out) THEN
                    (IF "xml-fromxml-unicode-digits" \in KnownDefects /\ \E i \in 1..Len(r.out) : r.out[i] > 127 THEN "finding:xml-fromxml-unicode-digits"
                     ELSE "reject:fromxml")
            ELSE IF NameProperty(r.inp, r.out) /\ (HasPattern(r.inp) \/ r.back = r.inp) THEN "accept"
            ELSE IF "xml-astral-unescaped" \in KnownDefects /\ \E i \in 1..Len(r.inp) : r.inp[i] > 65535 THEN "finding:xml-astral-unescaped"
            ELSE "reject:property"
      [] r.k = "comment" ->
            IF r.out # CoerceComment(r.inp, r.f1, r.f2) THEN "reject:step"
            ELSE IF CommentOK(r.out, r.f1, r.f2) THEN "accept"
            ELSE IF "xml-comment-dash-end-flag-ignored" \in KnownDefects /\ ~r.f1 /\ r.f2 THEN "finding:xml-comment-dash-end-flag-ignored"
            ELSE "reject:property"
      [] r.k = "pubid" ->
            IF r.out # CoercePubid(r.inp, r.f1) THEN "reject:step"
            ELSE IF PubidOK(r.out, r.f1) THEN "accept" ELSE "reject:property"
Init == tid \in 1..Len(Traces) /\ verdict = "run"
Step == verdict = "run" /\ verdict' = Judge(Traces[tid]) /\ UNCHANGED tid
Done == verdict # "run" /\ UNCHANGED vars
Next == Step \/ Done
Report == verdict # "run" => PrintT(ToJson([tid |-> tid, l |-> 1, v |-> verdict]))
=============================================================================
