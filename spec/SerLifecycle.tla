----------------------------- MODULE SerLifecycle -----------------------------
(* C12, serializer / tree walker objects.  An HTMLSerializer object across serialize()/render()    *)
(* calls.  Fields of the object: options (set in __init__, constant), strict (set by the caller),    *)
(* encoding and errors (both written at the start of serialize(), before anything reads them);       *)
(* in_cdata is a local of the generator.  A call is a generator: it can be aborted by                *)
(*   - SerializeError (strict and a serializeError() site is reached),                               *)
(*   - UnicodeEncodeError (encodeStrict of a tag name the output encoding cannot represent),          *)
(*   - the consumer abandoning the generator after k chunks.                                          *)
(* Streams are sequences of token classes; each class expands to the micro steps the code performs:   *)
(*   out (one yield), err msg (serializeError), cdata+, cdata-, enc (encodeStrict of a non-ASCII     *)
(*   name: raises when the encoding is "ascii", else yields).                                         *)
(* Theorem: what a call yields, records in .errors and how it ends equals a brand-new object's.       *)
EXTENDS Naturals, Sequences, FiniteSets

M_Comment == "Comment contains --"
M_Cdata   == "Unexpected </ in CDATA"
M_Child   == "Unexpected child element of a CDATA element"
M_Sysid   == "System identifier contains both single and double quote characters"
\* token classes -> micro steps (given in_cdata)
O      == [op |-> "out", m |-> ""]
ERR(m) == [op |-> "err", m |-> m]
OP(o)  == [op |-> o, m |-> ""]
Expand(t, inCdata) ==
    CASE t = "text"      -> <<O>>                                                         \* Characters "a<b"
      [] t = "comment--" -> <<ERR(M_Comment), O>>                                         \* Comment "x--y"
      [] t = "script"    -> <<O, OP("cdata+"), O>>                                        \* StartTag script
      [] t = "b"         -> IF inCdata THEN <<O, ERR(M_Child), O>> ELSE <<O, O>>          \* StartTag b
      [] t = "text</"    -> IF inCdata THEN <<ERR(M_Cdata), O>> ELSE <<O>>                \* Characters "</x"
      [] t = "/script"   -> <<OP("cdata-"), O>>                                           \* EndTag script
      [] t = "e-acute"   -> IF inCdata THEN <<OP("enc"), ERR(M_Child), O>> ELSE <<OP("enc"), O>>   \* StartTag whose name is U+00E9
      [] t = "sysid"     -> <<ERR(M_Sysid), O>>                                           \* Doctype with both quotes
      [] t = "bogus"     -> <<ERR("bogus")>>                                              \* unknown token type, data "bogus"
Streams == << <<"text", "comment--", "text">>,
              <<"script", "text</", "/script", "text</">>,
              <<"text", "e-acute", "text">>,
              <<"sysid", "comment--", "bogus">>,
              <<"script", "b", "text</">> >>

NewSer == [encoding |-> "unset", errors |-> <<>>, strict |-> FALSE, inCdata |-> FALSE, nout |-> 0, end |-> "idle"]
\* serialize(): self.encoding = encoding; in_cdata = False; self.errors = []
SerBegin(ss, enc, strict) == [ss EXCEPT !.encoding = enc, !.errors = <<>>, !.strict = strict, !.inCdata = FALSE,
                                        !.nout = 0, !.end = "run"]
Micro(ss, m, stopAt) ==
    IF ss.end # "run" THEN ss
    ELSE IF m.op = "out" THEN (IF ss.nout + 1 = stopAt THEN [ss EXCEPT !.nout = @ + 1, !.end = "abandoned"]
                            ELSE [ss EXCEPT !.nout = @ + 1])
    ELSE IF m.op = "cdata+" THEN [ss EXCEPT !.inCdata = TRUE]
    ELSE IF m.op = "cdata-" THEN [ss EXCEPT !.inCdata = FALSE]
    ELSE IF m.op = "enc" THEN (IF ss.encoding = "ascii" THEN [ss EXCEPT !.end = "UnicodeEncodeError"]
                            ELSE IF ss.nout + 1 = stopAt THEN [ss EXCEPT !.nout = @ + 1, !.end = "abandoned"]
                            ELSE [ss EXCEPT !.nout = @ + 1])
    ELSE [ss EXCEPT !.errors = Append(@, m.m), !.end = IF ss.strict THEN "SerializeError" ELSE "run"]
RECURSIVE Micros(_, _, _)
Micros(ss, ms, stopAt) == IF ms = <<>> THEN ss ELSE Micros(Micro(ss, Head(ms), stopAt), Tail(ms), stopAt)
RECURSIVE SerRun(_, _, _)
SerRun(ss, toks, stopAt) ==
    IF toks = <<>> THEN (IF ss.end = "run" THEN [ss EXCEPT !.end = "ok"] ELSE ss)
    ELSE IF ss.end # "run" THEN ss
    ELSE SerRun(Micros(ss, Expand(Head(toks), ss.inCdata), stopAt), Tail(toks), stopAt)
SerCall(ss, toks, enc, strict, stopAt) == SerRun(SerBegin(ss, enc, strict), toks, stopAt)
SerResult(ss) == [end |-> ss.end, nout |-> ss.nout, errors |-> ss.errors]
RECURSIVE Chunks(_, _)
Chunks(toks, inC) == IF toks = <<>> THEN 0
                     ELSE LET ms == Expand(Head(toks), inC)
                              inC2 == IF Head(toks) = "script" THEN TRUE ELSE IF Head(toks) = "/script" THEN FALSE ELSE inC
                          IN Cardinality({i \in 1..Len(ms) : ms[i].op \in {"out", "enc"}}) + Chunks(Tail(toks), inC2)

-----------------------------------------------------------------------------
\* --- process-wide state of walkers and filters: tokens are OWNED by the call that asked for them ---
\* A tree walker hands out token dicts; the whitespace filter (strip_whitespace=True) rewrites the data of
\* SpaceCharacters tokens IN PLACE (" "), the sanitizer and inject_meta_charset rewrite attribute dicts in place.
\* That is harmless exactly as long as every token object is created for one walk and never handed out again.
\* The machine below makes the alternative expressible: with TokenCache = TRUE the walker takes the token of a
\* whitespace run from a process-wide cache (cell = current data of the cached dict), so an in-place rewrite
\* by one call is what every later call in the process gets.  html5lib as it is: TokenCache = FALSE.
\* A document is a sequence of whitespace runs (the text between its elements); a call is (document, strip).
\* One whitespace run of the walk: returns [cache, out]
WsToken(cache, run, strip, TokenCache) ==
    LET cur == IF TokenCache /\ run \in DOMAIN cache THEN cache[run] ELSE run          \* data of the dict handed out
        out == IF strip THEN " " ELSE cur                                              \* whitespace filter: token["data"] = " "
    IN [cache |-> IF TokenCache THEN [r \in DOMAIN cache \cup {run} |-> IF r = run THEN out ELSE cache[r]] ELSE cache,
        out |-> out]
RECURSIVE WsWalk(_, _, _, _)
WsWalk(cache, runs, strip, TokenCache) ==
    IF runs = <<>> THEN [cache |-> cache, out |-> <<>>]
    ELSE LET a == WsToken(cache, Head(runs), strip, TokenCache)
             b == WsWalk(a.cache, Tail(runs), strip, TokenCache)
         IN [cache |-> b.cache, out |-> <<a.out>> \o b.out]
EmptyCache == [r \in {} |-> ""]
=============================================================================
