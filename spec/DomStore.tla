------------------------------- MODULE DomStore -------------------------------
(* C04.  The minidom representation kept by html5lib/treebuilders/dom.py (NodeBuilder around   *)
(* xml.dom.minidom nodes), operation by operation as the code and minidom perform it.          *)
(*   kids   childNodes: items [i |-> id] for element / comment / doctype children and           *)
(*          [i |-> 0, d |-> data] for Text nodes.  insertText creates a NEW Text node every     *)
(*          time (never merged, possibly empty); Text nodes are never referenced again.        *)
(*   pn     the DOM parentNode (0 = None), maintained by minidom itself                         *)
(*   par    NodeBuilder.parent, the wrapper's own pointer: set by appendChild / insertBefore,   *)
(*          cleared by removeChild, NOT updated by reparentChildren (stale afterwards) and not  *)
(*          set for children of the document (TreeBuilder.appendChild).                         *)
(*   a      attributes in NamedNodeMap order: [ns, q, l, v]                                     *)
(* minidom's appendChild / insertBefore detach the new child from its old parent first.        *)
EXTENDS StoreBase

DNode(k, ns, n, d, p, q) == [k |-> k, ns |-> ns, n |-> n, a |-> <<>>, d |-> d, p |-> p, q |-> q, kids |-> <<>>, pn |-> 0, par |-> 0]
DInit == [nd |-> <<DNode("doc", "", <<>>, <<>>, None, None)>>, exc |-> "", log |-> <<>>]

\* base.TreeBuilder.reset() -> dom.TreeBuilder.documentClass(): self.dom = a NEW minidom Document on every reset, whatever the old
\* one holds (also when it only holds the comments / doctype of a parse that was abandoned before <html>)
DReset(s) == DInit
DFail(s, name) == [s EXCEPT !.exc = name]
DPar(s, n) == s.nd[n].par
DHasContent(s, n) == s.nd[n].kids # <<>>                                     \* element.hasChildNodes()
AfterFirstColon(q) == LET i == FirstIndexOf(q, 58, 1) IN IF i = 0 THEN q ELSE SubSeq(q, i + 1, Len(q))

\* ---- attributes: minidom's two indexes _attrs (by qualified name) and _attrsNS (by namespace + local name) ----
\* localName of an Attr created without one is the part of its name after the first colon
DLocal(at) == IF at.ns = "" THEN AfterFirstColon(at.q) ELSE at.l
DNsKey(at) == <<at.ns, DLocal(at)>>
RECURSIVE DFindQ(_, _, _), DFindNs(_, _, _)
DFindQ(as, q, i) == IF i > Len(as) THEN 0 ELSE IF as[i].q = q THEN i ELSE DFindQ(as, q, i + 1)
DFindNs(as, key, i) == IF i > Len(as) THEN 0 ELSE IF DNsKey(as[i]) = key THEN i ELSE DFindNs(as, key, i + 1)
\* Element.setAttributeNode: drop the attribute with the same qualified name, then the one with the same
\* (namespace, local name), then add.  Known finding "dom-colon-attr-collision": for plain names the second index is
\* keyed by the part after the colon, so xlink:href evicts href.  Intended: plain names are kept apart by their full name.
DSetNode(as, at) ==
    IF "dom-colon-attr-collision" \in KnownDefects
    THEN LET i1 == DFindQ(as, at.q, 1)
             a1 == IF i1 = 0 THEN as ELSE RemoveAt(as, i1)
             i2 == DFindNs(a1, DNsKey(at), 1)
             a2 == IF i2 = 0 THEN a1 ELSE RemoveAt(a1, i2)
         IN Append(a2, at)
    ELSE LET i == KeyIndex(as, AKey(at), 1) IN Append(IF i = 0 THEN as ELSE RemoveAt(as, i), at)
\* Element.setAttribute(name, value) / setAttributeNS(ns, qname, value): existing node keeps its place
DSetPlain(as, at) == LET i == DFindQ(as, at.q, 1) IN IF i # 0 THEN [as EXCEPT ![i].v = at.v] ELSE DSetNode(as, at)
DSetNS(as, at) ==
    LET i == IF "dom-colon-attr-collision" \in KnownDefects THEN DFindNs(as, DNsKey(at), 1) ELSE KeyIndex(as, AKey(at), 1)
    IN IF i # 0 THEN [as EXCEPT ![i].v = at.v, ![i].q = at.q] ELSE DSetNode(as, at)
\* NodeBuilder.setAttributes: NOT cleared first; tuple keys -> setAttributeNS, str keys -> setAttribute
RECURSIVE DFill(_, _)
DFill(as, new) == IF new = <<>> THEN as
                  ELSE DFill(IF new[1].ns = "" THEN DSetPlain(as, new[1]) ELSE DSetNS(as, new[1]), Tail(new))
\* Element.cloneNode(False): every attribute re-added with setAttributeNS(attr.namespaceURI, attr.nodeName, attr.value)
RECURSIVE DCloneAttrs(_, _)
DCloneAttrs(as, src) == IF src = <<>> THEN as ELSE DCloneAttrs(DSetNS(as, src[1]), Tail(src))
\* AttrList.__setitem__ -> NamedNodeMap.setNamedItem: keyed by the qualified name only (no eviction through the second index)
DSetItem(as, at) == LET i == DFindQ(as, at.q, 1) IN IF i # 0 THEN [as EXCEPT ![i] = at] ELSE Append(as, at)
DHasAttr(s, n, at) == DFindQ(s.nd[n].a, at.q, 1) # 0                         \* AttrList.__getitem__: element.attributes[name]
\* AttrList.items(): (nodeName, value) pairs - the namespace of an attribute is not visible through it
RECURSIVE PlainView(_)
PlainView(as) == IF as = <<>> THEN <<>> ELSE <<PlainA(as[1].q, as[1].v)>> \o PlainView(Tail(as))
DAttrsView(s, n) == PlainView(s.nd[n].a)

\* ---- nodes ----
\* minidom's DocumentType(qualifiedName) keeps only the part after the first colon as .name  (known finding
\* "dom-doctype-name-colon": <!DOCTYPE a:b> becomes a doctype named "b"; the etree builder keeps "a:b")
DoctypeName(n) == IF "dom-doctype-name-colon" \in KnownDefects /\ n # None THEN AfterFirstColon(n) ELSE n
DNew(s, c) == [s EXCEPT !.nd = Append(@, CASE c.k = "comment" -> DNode("comment", "", <<>>, c.d, None, None)
                                           [] c.k = "doctype" -> DNode("doctype", "", DoctypeName(c.n), <<>>, c.p, c.q)
                                           [] OTHER           -> DNode(c.k, c.ns, c.n, <<>>, None, None))]
RECURSIVE ItemIndex(_, _, _)
ItemIndex(ks, id, i) == IF i > Len(ks) THEN 0 ELSE IF ks[i].i = id THEN i ELSE ItemIndex(ks, id, i + 1)
\* minidom removeChild from the current DOM parent
DDetach(s, c) == LET p == s.nd[c].pn IN
                 IF p = 0 THEN s ELSE [s EXCEPT !.nd[p].kids = RemoveAt(@, ItemIndex(@, c, 1)), !.nd[c].pn = 0]
HasElemChild(s, p) == \E i \in 1..Len(s.nd[p].kids) : s.nd[p].kids[i].i # 0 /\ s.nd[s.nd[p].kids[i].i].k = "elem"

DAppend(s, p, c) ==
    IF p = 1                                                                 \* TreeBuilder.appendChild: self.dom.appendChild(node.element)
    THEN LET s1 == DDetach(s, c) IN
         IF s.nd[c].k = "elem" /\ HasElemChild(s1, 1) THEN DFail(s1, "HierarchyRequestErr")      \* two document elements
         ELSE [s1 EXCEPT !.nd[1].kids = Append(@, Item(c)), !.nd[c].pn = 1]                      \* node.parent is NOT set
    ELSE LET s0 == [s EXCEPT !.nd[c].par = p]                                \* node.parent = self  (first)
             s1 == DDetach(s0, c)
         IN IF s.nd[c].k = "doctype" THEN DFail(s0, "HierarchyRequestErr")
            ELSE [s1 EXCEPT !.nd[p].kids = Append(@, Item(c)), !.nd[c].pn = p]

DBefore(s, p, c, r) ==
    IF r = 0 THEN DFail(s, "AttributeError") ELSE                            \* refNode.element with refNode = None
    LET s1 == DDetach(s, c)                                                  \* minidom detaches before looking for refChild
        i  == ItemIndex(s1.nd[p].kids, r, 1)
    IN IF i = 0 THEN DFail(s1, "NotFoundErr")
       ELSE [s1 EXCEPT !.nd[p].kids = InsertAt(@, i, Item(c)), !.nd[c].pn = p, !.nd[c].par = p]

DRemove(s, p, c) ==
    LET s1 == IF s.nd[c].pn = p THEN DDetach(s, c) ELSE s IN                 \* if node.element.parentNode == self.element
    [s1 EXCEPT !.nd[c].par = 0]

DText(s, p, d, r) ==
    IF r = 0 THEN [s EXCEPT !.nd[p].kids = Append(@, TextItem(d))]
    ELSE LET i == ItemIndex(s.nd[p].kids, r, 1) IN
         IF i = 0 THEN DFail(s, "NotFoundErr") ELSE [s EXCEPT !.nd[p].kids = InsertAt(@, i, TextItem(d))]

DClone(s, src, c) ==
    [s EXCEPT !.nd = Append(@, [DNode(s.nd[src].k, s.nd[src].ns, s.nd[src].n, <<>>, None, None)
                                EXCEPT !.a = DCloneAttrs(<<>>, s.nd[src].a)])]

RECURSIVE DRepoint(_, _, _)
DRepoint(s, ks, t) == IF ks = <<>> THEN s
                      ELSE DRepoint(IF ks[1].i = 0 THEN s ELSE [s EXCEPT !.nd[ks[1].i].pn = t], Tail(ks), t)
\* while self.element.hasChildNodes(): move firstChild to the end of newParent  (wrapper .parent pointers untouched)
DReparent(s, src, t) ==
    LET ks == s.nd[src].kids
        s1 == [s EXCEPT !.nd[t].kids = @ \o ks, !.nd[src].kids = <<>>]
    IN DRepoint(s1, ks, t)

DPrim(s, c) ==
    IF s.exc # "" THEN s
    ELSE LET s0 == [s EXCEPT !.log = Append(@, c)] IN
         CASE c.op = "new"      -> DNew(s0, c)
           [] c.op = "attrs"    -> [s0 EXCEPT !.nd[c.s].a = DFill(@, c.a)]
           [] c.op = "setattr"  -> [s0 EXCEPT !.nd[c.s].a = DSetItem(@, c.a[1])]
           [] c.op = "append"   -> DAppend(s0, c.s, c.c)
           [] c.op = "before"   -> DBefore(s0, c.s, c.c, c.r)
           [] c.op = "remove"   -> DRemove(s0, c.s, c.c)
           [] c.op = "text"     -> DText(s0, c.s, c.d, c.r)
           [] c.op = "clone"    -> DClone(s0, c.s, c.c)
           [] c.op = "reparent" -> DReparent(s0, c.s, c.c)
           [] c.op = "hasContent" -> s0

\* ---- abstraction ----
RECURSIVE DRowKids(_, _)
DRowKids(ks, row) == IF ks = <<>> THEN row ELSE DRowKids(Tail(ks), Push(row, ks[1]))
DRow(s, n) == DRowKids(s.nd[n].kids, <<>>)
DAttrs(s, n) == CanonAttrs(s.nd[n].a)

RECURSIVE AbsD(_, _), AbsDKids(_, _, _)
AbsD(s, n) ==
    LET x == s.nd[n] IN
    CASE x.k = "comment" -> CNode("comment", "", <<>>, <<>>, x.d, <<>>, <<>>, <<>>)
      [] x.k = "doctype" -> CNode("doctype", "", Str(x.n), <<>>, <<>>, Str(x.p), Str(x.q), <<>>)
      [] OTHER -> CNode(x.k, HtmlNs(x.ns), x.n, CanonAttrs(x.a), <<>>, <<>>, <<>>, AbsDKids(s, x.kids, <<>>))
AbsDKids(s, ks, acc) == IF ks = <<>> THEN acc
                        ELSE AbsDKids(s, Tail(ks), IF ks[1].i = 0 THEN PushC(acc, ks[1].d) ELSE Append(acc, AbsD(s, ks[1].i)))

\* the DOM parent pointer agrees with the child lists
DomConsistent(s) == \A i \in 1..Len(s.nd) :
                        /\ (s.nd[i].pn # 0 => ItemIndex(s.nd[s.nd[i].pn].kids, i, 1) # 0)
                        /\ \A j \in 1..Len(s.nd[i].kids) : s.nd[i].kids[j].i # 0 => s.nd[s.nd[i].kids[j].i].pn = i
=============================================================================
