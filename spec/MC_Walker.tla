------------------------------ MODULE MC_Walker ------------------------------
(* C11, model level.  Every tree of TreeGen x every container node as the starting node.       *)
(* Intended configuration (KnownDefects = {}, CheckProperty): the stream of every parser-shaped *)
(* tree is well-formed, accepted by Lint, rebuilds to the walked subtree, and does not depend   *)
(* on how the text is segmented into nodes (etree vs. DOM) once character tokens are joined.    *)
(* Every configuration: the traversal loop of NonRecursiveTreeWalker over DOM navigation        *)
(* produces exactly Walk.  Code-faithful configuration: every property failure on a parser      *)
(* shape is explained by a listed deviation; every (tree, start, stream, lint verdict) is       *)
(* exported for replay into the real walkers.                                                   *)
EXTENDS TreeGen, Json
CONSTANTS Export, CheckProperty

Init == GenInit
Next == GenNext
Sub(p) == NodeAt(T, p)
W(p)   == Walk(Sub(p), KnownDefects)

ThmWellFormed == CheckProperty => \A p \in Starts : ParsedShape(Sub(p)) => WellFormed(W(p))
ThmLint       == CheckProperty => \A p \in Starts : ParsedShape(Sub(p)) => LintOK(W(p), KnownDefects)
ThmRebuild    == CheckProperty => \A p \in Starts : ParsedShape(Sub(p)) => RebuildOK(W(p), Sub(p))
ThmSegmentation == CheckProperty => \A p \in Starts : ParsedShape(Sub(p)) =>
                       Concat(W(p)) = Concat(Walk(Canon(Sub(p)), KnownDefects))
ThmMachine    == \A p \in Starts : DomRun(T, p, KnownDefects) = W(p)
\* Lint is a sound acceptor for the structural clauses (it does not check closure or Characters boundaries)
ThmLintSound  == \A p \in Starts : LintOK(W(p), KnownDefects) =>
                     LET s == W(p) IN TypesOK(s) \/ \E i \in 1..Len(s) : s[i].t = "SerializerError"
ThmExplained  == \A p \in Starts :
                     (ParsedShape(Sub(p)) /\ PropertyClause(W(p), Sub(p), LintOK(W(p), KnownDefects), <<>>, FALSE) # "ok")
                         => FiredOn(Sub(p), KnownDefects) # {}
RunRec(p) == [path |-> p, out |-> W(p), lint |-> LintOK(W(p), KnownDefects),
              clause |-> IF ParsedShape(Sub(p)) THEN PropertyClause(W(p), Sub(p), LintOK(W(p), KnownDefects), <<>>, FALSE)
                         ELSE "nonparsed",
              fired |-> FiredOn(Sub(p), KnownDefects)]
ThmExport == Export => PrintT(ToJson([tree |-> T, runs |-> {RunRec(p) : p \in Starts}]))
=============================================================================
