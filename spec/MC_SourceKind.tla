----------------------------- MODULE MC_SourceKind -----------------------------
(* The complete finite product: source kind (plain, library objects, all duck-typed attribute  *)
(* combinations) x BOM x override_encoding x transport_encoding x state at hand-over; each row  *)
(* is exported with the code-faithful and the intended outcome, and opened for real.           *)
EXTENDS SourceKind, TLC, Json
CONSTANTS Boms, Labels, Export, CheckProperty
VARIABLES row
None == [k |-> K("", "", FALSE, ""), bom |-> "", ov |-> "", tr |-> "", pos |-> ""]
Init == row = None
Next == /\ row = None
        /\ \E k \in Kinds, bom \in Boms \cup {"none"}, ov \in Labels \cup {"none"}, tr \in Labels \cup {"none"},
              pos \in {"start", "mid", "end", "closed"} :
              /\ Declared(k, bom, ov, tr, pos)
              /\ row' = [k |-> k, bom |-> bom, ov |-> ov, tr |-> tr, pos |-> pos]
ThmKindIndependent == (CheckProperty /\ row # None) => KindIndependent(row.bom, row.ov, row.tr, row.pos, KnownDefects)
ThmFromCurrent == (CheckProperty /\ row # None) => FromCurrent(row.k, row.bom, row.ov, row.tr, row.pos, KnownDefects)
ThmExport == (Export /\ row # None) =>
    PrintT(ToJson([k |-> row.k, bom |-> row.bom, ov |-> row.ov, tr |-> row.tr, pos |-> row.pos,
                   exp |-> Open(row.k, row.bom, row.ov, row.tr, row.pos, KnownDefects),
                   int |-> Open(row.k, row.bom, row.ov, row.tr, row.pos, {})]))
=============================================================================
