----------------------------- MODULE MC_SourceKind -----------------------------
(* The complete finite product: source kind x BOM x override_encoding x transport_encoding     *)
(* (every combination in which an encoding is declared as certain, and every text kind with    *)
(* and without encoding keywords); each row is exported and opened for real.                   *)
EXTENDS SourceKind, TLC, Json
CONSTANTS Boms, Labels, Export
VARIABLES row
None == [k |-> "", bom |-> "", ov |-> "", tr |-> ""]
Init == row = None
Next == /\ row = None
        /\ \E k \in Kinds, bom \in Boms \cup {"none"}, ov \in Labels \cup {"none"}, tr \in Labels \cup {"none"} :
              /\ Declared(k, bom, ov, tr)
              /\ row' = [k |-> k, bom |-> bom, ov |-> ov, tr |-> tr]
ThmKindIndependent == row # None => KindIndependent(row.bom, row.ov, row.tr)
ThmExport == (Export /\ row # None) =>
    PrintT(ToJson([k |-> row.k, bom |-> row.bom, ov |-> row.ov, tr |-> row.tr, exp |-> Open(row.k, row.bom, row.ov, row.tr)]))
=============================================================================
