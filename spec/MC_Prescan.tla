---------------------------- MODULE MC_Prescan -----------------------------
(* Bounded-exhaustive exploration of the byte-level prescan: all byte strings that are a       *)
(* concatenation of at most MaxLen fragments of a per-Kind alphabet (built fragment by          *)
(* fragment, so every prefix is a state).                                                       *)
(*   Kind "scan"     scanner level: comments, tags, end tags, <! <? <, quotes, complete metas   *)
(*   Kind "attr"     the inside of one meta tag ("<meta" + fragments): attribute syntax,        *)
(*                   charset / http-equiv / content interplay                                   *)
(*   Kind "window"   Pad filler bytes (+ optional UTF-32 BOM) + fragments: the 1024-byte edge   *)
(*   Kind "content"  the value of a content attribute: extraction of the charset label          *)
(*   Kind "attrlist" attribute LISTS (no bytes): the got/need-pragma machine against the        *)
(*                   declarative reading MetaDecl                                               *)
EXTENDS Prescan, TLC, Json
CONSTANTS KnownDefects, Kind, MaxLen, Pads, Export, CheckProperty

D == KnownDefects
FragsScan == <<
    <<60, 109, 101, 116, 97, 32>>,                                           \*  1 "<meta "
    <<60, 77, 101, 84, 97, 47>>,                                             \*  2 "<MeTa/"
    <<60, 109, 101, 116, 97, 120, 32>>,                                      \*  3 "<metax "
    <<99, 104, 97, 114, 115, 101, 116, 61, 117, 116, 102, 45, 56>>,          \*  4 "charset=utf-8"
    <<60, 109, 101, 116, 97, 32, 99, 104, 97, 114, 115, 101, 116, 61, 107, 111, 105, 56, 45, 114, 62>>,   \*  5 "<meta charset=koi8-r>"
    <<62>>,                                                                  \*  6 ">"
    <<32>>,                                                                  \*  7 " "
    <<60, 33, 45, 45>>,                                                      \*  8 "<!--"
    <<45, 45, 62>>,                                                          \*  9 "-->"
    <<45, 62>>,                                                              \* 10 "->"
    <<60, 97, 32>>,                                                          \* 11 "<a "
    <<60, 47, 97, 32>>,                                                      \* 12 "</a "
    <<60, 47, 97, 98, 32>>,                                                  \* 13 "</ab "
    <<60, 33, 120>>,                                                         \* 14 "<!x"
    <<60, 63, 120>>,                                                         \* 15 "<?x"
    <<60>>,                                                                  \* 16 "<"
    <<120, 61, 34>>,                                                         \* 17 x="
    <<34>>,                                                                  \* 18 "
    <<39>>,                                                                  \* 19 '
    <<60, 47>>,                                                              \* 20 "</"
    <<60, 47, 49, 97, 32>> >>                                                \* 21 "</1a "
FragsAttr == <<
    <<32, 99, 104, 97, 114, 115, 101, 116, 61>>,                             \*  1 " charset="
    <<32, 67, 72, 65, 82, 83, 69, 84, 32, 61, 32>>,                          \*  2 " CHARSET = "
    <<32, 104, 116, 116, 112, 45, 101, 113, 117, 105, 118, 61, 99, 111, 110, 116, 101, 110, 116, 45, 116, 121, 112, 101>>,   \*  3 " http-equiv=content-type"
    <<32, 104, 116, 116, 112, 45, 101, 113, 117, 105, 118, 61, 120>>,        \*  4 " http-equiv=x"
    <<32, 99, 111, 110, 116, 101, 110, 116, 61, 34, 116, 101, 120, 116, 47, 104, 116, 109, 108, 59, 32, 99, 104, 97, 114, 115, 101, 116, 61, 107, 111, 105, 56, 45, 114, 34>>,   \*  5 ' content="text/html; charset=koi8-r"'
    <<32, 99, 111, 110, 116, 101, 110, 116, 61, 99, 104, 97, 114, 115, 101, 116, 61, 105, 115, 111, 45, 56, 56, 53, 57, 45, 50>>,   \*  6 " content=charset=iso-8859-2"
    <<32, 99, 111, 110, 116, 101, 110, 116, 61, 34, 99, 104, 97, 114, 115, 101, 116, 61, 117, 116, 102, 45, 56, 59, 120, 34>>,      \*  7 ' content="charset=utf-8;x"'
    <<32, 99, 111, 110, 116, 101, 110, 116, 61, 34, 99, 104, 97, 114, 115, 101, 116, 32, 99, 104, 97, 114, 115, 101, 116, 61, 117, 116, 102, 45, 56, 34>>,   \*  8 ' content="charset charset=utf-8"'
    <<117, 116, 102, 45, 56>>,                                               \*  9 "utf-8"
    <<85, 84, 70, 45, 49, 54>>,                                              \* 10 "UTF-16"
    <<98, 111, 103, 117, 115>>,                                              \* 11 "bogus"
    <<120, 45, 117, 115, 101, 114, 45, 100, 101, 102, 105, 110, 101, 100>>,  \* 12 "x-user-defined"
    <<34>>,                                                                  \* 13 "
    <<39>>,                                                                  \* 14 '
    <<9>>,                                                                   \* 15 TAB
    <<47>>,                                                                  \* 16 "/"
    <<62>>,                                                                  \* 17 ">"
    <<61>>,                                                                  \* 18 "="
    <<60>>,                                                                  \* 19 "<"
    <<120>>,                                                                 \* 20 "x"
    <<32, 99, 104, 97, 114, 115, 101, 116, 61, 117, 116, 102, 45, 56>>,      \* 21 " charset=utf-8"
    <<32, 61, 32>> >>                                                        \* 22 " = "
FragsWindow == <<
    <<60, 109, 101, 116, 97, 32, 99, 104, 97, 114, 115, 101, 116, 61, 117, 116, 102, 45, 56, 62>>,           \* 1 "<meta charset=utf-8>"   (20 bytes)
    <<60, 109, 101, 116, 97, 32, 99, 104, 97, 114, 115, 101, 116, 61, 34, 117, 116, 102, 45, 56, 34>>,       \* 2 '<meta charset="utf-8"'  (21 bytes)
    <<32>>, <<62>>, <<60, 33, 45, 45>>, <<45, 45, 62>>,                                                       \* 3 " "  4 ">"  5 "<!--"  6 "-->"
    <<60, 109, 101, 116, 97, 32, 99, 104, 97, 114, 115, 101, 116, 61, 107, 111, 105, 56, 45, 114, 32, 120, 62>>  \* 7 "<meta charset=koi8-r x>"
    >>
FragsContent == <<
    <<99, 104, 97, 114, 115, 101, 116>>, <<67, 72, 65, 82, 83, 69, 84>>, <<61>>, <<32>>, <<34>>, <<39>>, <<59>>,   \* charset CHARSET = sp " ' ;
    <<117, 116, 102, 45, 56>>, <<120>>, <<116, 101, 120, 116, 47, 104, 116, 109, 108>>, <<9>> >>                 \* utf-8 x text/html TAB
Frags == CASE Kind = "scan" -> FragsScan [] Kind = "attr" -> FragsAttr [] Kind = "window" -> FragsWindow
           [] Kind = "content" -> FragsContent [] OTHER -> <<>>
\* attribute lists
AttrNames == {S_charset, S_content, S_httpequiv, <<120>>}
AttrValues == { <<117, 116, 102, 45, 56>>, <<98, 111, 103, 117, 115>>, S_contenttype, <<>>,
                <<99, 104, 97, 114, 115, 101, 116, 61, 107, 111, 105, 56, 45, 114>>,                            \* charset=koi8-r
                <<116, 101, 120, 116, 47, 104, 116, 109, 108, 59, 32, 99, 104, 97, 114, 115, 101, 116, 61, 117, 116, 102, 45, 49, 54>>,   \* text/html; charset=utf-16
                <<120, 45, 117, 115, 101, 114, 45, 100, 101, 102, 105, 110, 101, 100>> }                      \* x-user-defined
Attrs == [name : AttrNames, value : AttrValues]

VARIABLES ids, pad, bom4, alist
vars == <<ids, pad, bom4, alist>>

RECURSIVE Cat(_)
Cat(s) == IF s = <<>> THEN <<>> ELSE Frags[s[1]] \o Cat(Tail(s))
Bom32 == <<255, 254, 0, 0>>
DataOf(is) == (IF bom4 THEN Bom32 ELSE <<>>) \o [k \in 1..pad |-> 120]
              \o (IF Kind = "attr" THEN S_meta ELSE <<>>) \o Cat(is)
Data == DataOf(ids)
\* the window html5lib reads: 1024 bytes from offset 0 (offset 4 after a "UTF-32 BOM" - deviation bom-utf32)
ResOf(is, DD) == IF Kind = "content" THEN Extract(DataOf(is), DD)
                 ELSE IF Kind = "attrlist" THEN MetaList(alist, MetaInit, DD)
                 ELSE PrescanWindow(Window(DataOf(is), IF bom4 THEN 4 ELSE 0), DD)
Res(DD) == ResOf(ids, DD)

Init == /\ ids = <<>> /\ alist = <<>>
        /\ pad \in (IF Kind = "window" THEN Pads ELSE {0})
        /\ bom4 \in (IF Kind = "window" THEN {FALSE, TRUE} ELSE {FALSE})
Next == \/ /\ Kind # "attrlist" /\ Len(ids) < MaxLen
           /\ \E f \in 1..Len(Frags) : ids' = Append(ids, f)
           /\ UNCHANGED <<pad, bom4, alist>>
        \/ /\ Kind = "attrlist" /\ Len(alist) < MaxLen
           /\ \E a \in Attrs : alist' = Append(alist, a)
           /\ UNCHANGED <<ids, pad, bom4>>

-----------------------------------------------------------------------------
\* theorems on the intended configuration (the standard's algorithm)
IsScan == Kind \in {"scan", "attr", "window"}
\* the result is an encoding of the table or none; never UTF-16, never x-user-defined
ThmRange == (CheckProperty /\ IsScan) => Res({}) \in (EncodingNames \ {"utf-16le", "utf-16be", "x-user-defined"}) \cup {"none"}
\* a result needs a <meta followed by whitespace or '/' inside the window
ThmNeedsMeta == (CheckProperty /\ IsScan /\ Res({}) # "none") =>
    LET w == Lower(Window(Data, IF bom4 THEN 4 ELSE 0)) IN
    \E q \in 0..(Len(w) - 6) : MatchAt(w, q, S_meta) /\ w[q + 6] \in SkipSet
\* once a declaration has been found, bytes appended later cannot change the result (left-to-right, no look-back)
ThmPrefixStable == (CheckProperty /\ IsScan /\ ids # <<>>) =>
    LET prev == ResOf(SubSeq(ids, 1, Len(ids) - 1), {}) IN prev # "none" => Res({}) = prev
\* the sequential got-pragma / need-pragma machine = the declarative, order-independent reading
ThmMetaDecl == (CheckProperty /\ Kind = "attrlist") => MetaList(alist, MetaInit, {}) = MetaDecl(alist)
\* content extraction: the label is a piece of the value without whitespace at its ends unless quoted, never with ';' if unquoted
ThmExtract == (CheckProperty /\ Kind = "content") =>
    LET r == Extract(Data, {}) IN
    r = None \/ (\E lo \in 0..Len(Data) : \E hi \in lo..Len(Data) :
                    /\ r = Bytes(Lower(Data), lo, hi) /\ lo >= 8
                    /\ ((lo > 0 /\ Data[lo] \in {34, 39}) \/ \A k \in 1..Len(r) : r[k] \notin Ws \cup {59}))
\* the accelerated position helpers agree with their reference definitions on every explored string
ThmHelpers == (CheckProperty /\ Kind \in {"scan", "attr", "content"} /\ Len(ids) <= 2) =>
    LET w == Lower(Data) \o <<>> IN
    \A p \in 0..Len(w) :
        /\ FirstIn(w, p, {60}) = FirstInRef(w, p, {60}) /\ FirstIn(w, p, NameEnd) = FirstInRef(w, p, NameEnd)
        /\ FirstNotIn(w, p, SkipSet) = FirstNotInRef(w, p, SkipSet) /\ FirstNotIn(w, p, Ws) = FirstNotInRef(w, p, Ws)
        /\ FindSeq(w, p, S_cmtclose) = FindSeqRef(w, p, S_cmtclose) /\ FindSeq(w, p, S_charset) = FindSeqRef(w, p, S_charset)
Resp == LET base == Res(D) zero == Res({}) IN
        IF base = zero THEN {} ELSE
        LET one == {d \in D : Res(D \ {d}) # base} IN IF one # {} THEN one ELSE {d \in D : Res({d}) # zero}
Show(r) == IF Kind = "content" THEN r ELSE <<r>>
ThmExport == Export =>
    PrintT(ToJson([k |-> Kind, ids |-> ids, bytes |-> Cat(ids), pad |-> pad, bom4 |-> bom4, alist |-> alist,
                   fai |-> Show(Res(D)), int |-> Show(Res({})), resp |-> Resp]))
=============================================================================
