------------------------------ MODULE Tokenizer ------------------------------
(* C02 / C14.  The WHATWG HTML tokenizer (June-2020 text, transcribed from memory: the         *)
(* standard is not available offline) as an explicit state machine over a code-point input.   *)
(* One TStep = one step of the standard's state machine (consume one character, or one        *)
(* look-ahead decision).  Output is kept in the property's normal form: adjacent character    *)
(* tokens are concatenated, parse errors are not tokens, duplicate attributes are dropped     *)
(* (first wins) when the tag is emitted, names are ASCII-lower-cased.                         *)
(* Deviations of html5lib are NAMED branches enabled through KnownDefects.                    *)
EXTENDS Unicode, Gen_Entities, Defects
TokDefectNames == {"tok-commentstart-nul-stays", "tok-commentstartdash-nul-stays", "tok-cdata-nul-replaced"}

Tk(t, n, a, sc, d, p, s, fq) == [t |-> t, n |-> n, a |-> a, sc |-> sc, d |-> d, p |-> p, s |-> s, fq |-> fq]
CharTok(d)    == Tk("Character", None, <<>>, FALSE, d, None, None, FALSE)
CommentTok(d) == Tk("Comment", None, <<>>, FALSE, d, None, None, FALSE)
NoTag == [k |-> "s", n |-> <<>>, a |-> <<>>, sc |-> FALSE]
NoDt  == [n |-> None, p |-> None, s |-> None, fq |-> FALSE]

\* start: one of "data" "rcdata" "rawtext" "script" "plaintext"
TInit(start, last, cdataOk) ==
    [st |-> start, i |-> 1, out |-> <<>>, tag |-> NoTag, cmt |-> <<>>, dt |-> NoDt, buf |-> <<>>,
     last |-> last, ret |-> "data", code |-> 0, cdataOk |-> cdataOk, done |-> FALSE,
     bk |-> <<>>, cm |-> "none"]          \* bk/cm: html5lib's Characters-token boundaries (see EmitCharsB), not part of the normal form

\* ----- emission (normal form) -----
EmitChars(out, s) ==
    IF s = <<>> THEN out
    ELSE IF out # <<>> /\ Last(out).t = "Character"
         THEN [out EXCEPT ![Len(out)].d = @ \o s]
         ELSE Append(out, CharTok(s))
\* ts.bk runs parallel to ts.out: for a Character token the (1-based) positions in its data at which html5lib starts a
\* new Characters/SpaceCharacters token; <<>> for other tokens.  html5lib's tree construction receives whole tokens,
\* which matters in the modes that ignore non-space characters (TreeConstruction.ProcChars).  `brk` = this emission
\* starts a new html5lib token.
EmitCharsB(ts, s, brk) ==
    IF s = <<>> THEN ts
    ELSE IF ts.out # <<>> /\ Last(ts.out).t = "Character"
         THEN [ts EXCEPT !.out[Len(ts.out)].d = @ \o s,
                         !.bk[Len(ts.out)] = IF brk THEN Append(@, Len(Last(ts.out).d) + 1) ELSE @]
         ELSE [ts EXCEPT !.out = Append(@, CharTok(s)), !.bk = Append(@, <<1>>)]
RECURSIVE DedupAttrs(_, _)
DedupAttrs(as, acc) ==
    IF as = <<>> THEN acc
    ELSE IF \E j \in 1..Len(acc) : acc[j][1] = as[1][1] THEN DedupAttrs(Tail(as), acc)
    ELSE DedupAttrs(Tail(as), Append(acc, as[1]))
EmitTag(ts) ==
    LET tg == ts.tag IN
    IF tg.k = "s"
    THEN [ts EXCEPT !.out = Append(@, Tk("StartTag", tg.n, DedupAttrs(tg.a, <<>>), tg.sc, <<>>, None, None, FALSE)),
                    !.last = tg.n, !.st = "data", !.bk = Append(@, <<>>), !.cm = "none"]
    ELSE [ts EXCEPT !.out = Append(@, Tk("EndTag", tg.n, <<>>, FALSE, <<>>, None, None, FALSE)), !.st = "data",
                    !.bk = Append(@, <<>>), !.cm = "none"]
EmitComment(ts) == [ts EXCEPT !.out = Append(@, CommentTok(ts.cmt)), !.st = "data", !.bk = Append(@, <<>>), !.cm = "none"]
EmitDoctype(ts) == [ts EXCEPT !.out = Append(@, Tk("Doctype", ts.dt.n, <<>>, FALSE, <<>>, ts.dt.p, ts.dt.s, ts.dt.fq)), !.st = "data",
                              !.bk = Append(@, <<>>), !.cm = "none"]
Finish(ts) == [ts EXCEPT !.done = TRUE]

\* ----- small helpers -----
Go(ts, st)      == [ts EXCEPT !.st = st, !.i = @ + 1, !.cm = "none"]            \* consume and switch
Re(ts, st)      == [ts EXCEPT !.st = st, !.cm = "none"]                          \* reconsume in st
Adv(ts)         == [ts EXCEPT !.i = @ + 1]
Out(ts, s)      == [EmitCharsB(ts, s, TRUE) EXCEPT !.cm = "none"]          \* an emission that is its own html5lib token
\* one ordinary character in the data / RCDATA states: html5lib emits a leading whitespace run as one token and
\* otherwise everything up to the next & < NUL as one token
OutPlain(ts, c) ==
    IF ts.cm = "tx" THEN EmitCharsB(ts, <<c>>, FALSE)
    ELSE IF ts.cm = "sp" /\ IsWs(c) THEN EmitCharsB(ts, <<c>>, FALSE)
    ELSE [EmitCharsB(ts, <<c>>, TRUE) EXCEPT !.cm = IF IsWs(c) THEN "sp" ELSE "tx"]
\* one ordinary character in the RAWTEXT / script data / PLAINTEXT states: one token up to the next < (or NUL)
OutRaw(ts, c) == IF ts.cm = "tx" THEN EmitCharsB(ts, <<c>>, FALSE) ELSE [EmitCharsB(ts, <<c>>, TRUE) EXCEPT !.cm = "tx"]
AppName(ts, c)  == [ts EXCEPT !.tag.n = Append(@, c)]
NewAttr(ts, nm) == [ts EXCEPT !.tag.a = Append(@, <<nm, <<>>>>)]
AppAttrName(ts, c)  == [ts EXCEPT !.tag.a[Len(ts.tag.a)][1] = Append(@, c)]
AppAttrVal(ts, s)   == [ts EXCEPT !.tag.a[Len(ts.tag.a)][2] = @ \o s]
AppCmt(ts, s)   == [ts EXCEPT !.cmt = @ \o s]
InAttr(ts)      == ts.ret \in {"attrValDq", "attrValSq", "attrValUq"}
\* flush code points consumed as a character reference
Flush(ts, s)    == IF InAttr(ts) THEN AppAttrVal(ts, s) ELSE Out(ts, s)
Appropriate(ts) == ts.last # None /\ ts.tag.n = ts.last
NameOrNone(x)   == IF x = None THEN <<>> ELSE x

\* case-insensitive look-ahead match of an ASCII word at position i
MatchCI(src, i, w) == i + Len(w) - 1 <= Len(src) /\ \A k \in 1..Len(w) : LowerC(src[i + k - 1]) = LowerC(w[k])
MatchCS(src, i, w) == StartsAt(src, i, w)
W_DOCTYPE == <<68, 79, 67, 84, 89, 80, 69>>
W_PUBLIC  == <<80, 85, 66, 76, 73, 67>>
W_SYSTEM  == <<83, 89, 83, 84, 69, 77>>
W_CDATA   == <<91, 67, 68, 65, 84, 65, 91>>        \* [CDATA[
W_script  == <<115, 99, 114, 105, 112, 116>>

\* ----- named character references: longest match against the input at i -----
RECURSIVE AlnumRun(_, _, _)
AlnumRun(src, i, cap) == IF cap = 0 \/ i > Len(src) \/ ~IsAlnum(src[i]) THEN 0 ELSE 1 + AlnumRun(src, i + 1, cap - 1)
RECURSIVE LongestFrom(_, _, _)
\* largest k <= r such that src[i..i+k-1] (+ ';' when it follows) is an entity name; returns total match length or 0
LongestFrom(src, i, r) ==
    IF r = 0 THEN 0
    ELSE LET nm == SubSeq(src, i, i + r - 1) IN
         IF i + r <= Len(src) /\ src[i + r] = 59 /\ IsEntityName(Append(nm, 59)) THEN r + 1
         ELSE IF IsEntityName(nm) THEN r
         ELSE LongestFrom(src, i, r - 1)
MatchLen(src, i) == LongestFrom(src, i, AlnumRun(src, i, MaxEntityLen))

\* ----- numeric character references -----
C1Map == [c \in 128..159 |->
    CASE c = 128 -> 8364 [] c = 130 -> 8218 [] c = 131 -> 402 [] c = 132 -> 8222 [] c = 133 -> 8230 [] c = 134 -> 8224
      [] c = 135 -> 8225 [] c = 136 -> 710 [] c = 137 -> 8240 [] c = 138 -> 352 [] c = 139 -> 8249 [] c = 140 -> 338
      [] c = 142 -> 381 [] c = 145 -> 8216 [] c = 146 -> 8217 [] c = 147 -> 8220 [] c = 148 -> 8221 [] c = 149 -> 8226
      [] c = 150 -> 8211 [] c = 151 -> 8212 [] c = 152 -> 732 [] c = 153 -> 8482 [] c = 154 -> 353 [] c = 155 -> 8250
      [] c = 156 -> 339 [] c = 158 -> 382 [] c = 159 -> 376 [] OTHER -> c]
NumericRef(v) == IF v = 0 \/ v > 1114111 \/ IsSurrogate(v) THEN 65533
                 ELSE IF v >= 128 /\ v <= 159 THEN C1Map[v] ELSE v
Sat(v) == IF v > 1114111 THEN 1114112 ELSE v                    \* saturating accumulation (TLC ints are 32-bit)
HexV(c) == IF IsDigit(c) THEN c - 48 ELSE IF c >= 97 THEN c - 87 ELSE c - 55

-----------------------------------------------------------------------------
\* ----- one step -----
TStep(ts, src) ==
  LET i  == ts.i
      c  == IF i <= Len(src) THEN src[i] ELSE EOF_CP
      st == ts.st
  IN
  CASE st = "data" ->
        IF c = 38 THEN [Go(ts, "charRef") EXCEPT !.ret = "data"]
        ELSE IF c = 60 THEN Go(ts, "tagOpen")
        ELSE IF c = EOF_CP THEN Finish(ts)
        ELSE IF c = 0 THEN Adv(Out(ts, <<0>>))                     \* NUL is emitted as is (its own token)
        ELSE Adv(OutPlain(ts, c))
    [] st = "rcdata" ->
        IF c = 38 THEN [Go(ts, "charRef") EXCEPT !.ret = "rcdata"]
        ELSE IF c = 60 THEN Go(ts, "rcdataLt")
        ELSE IF c = 0 THEN Adv(Out(ts, <<65533>>))
        ELSE IF c = EOF_CP THEN Finish(ts)
        ELSE Adv(OutPlain(ts, c))
    [] st = "rawtext" ->
        IF c = 60 THEN Go(ts, "rawtextLt")
        ELSE IF c = 0 THEN Adv(Out(ts, <<65533>>))
        ELSE IF c = EOF_CP THEN Finish(ts)
        ELSE Adv(OutRaw(ts, c))
    [] st = "script" ->
        IF c = 60 THEN Go(ts, "scriptLt")
        ELSE IF c = 0 THEN Adv(Out(ts, <<65533>>))
        ELSE IF c = EOF_CP THEN Finish(ts)
        ELSE Adv(OutRaw(ts, c))
    [] st = "plaintext" ->
        IF c = 0 THEN Adv(Out(ts, <<65533>>))
        ELSE IF c = EOF_CP THEN Finish(ts)
        ELSE Adv(OutRaw(ts, c))
    [] st = "tagOpen" ->
        IF c = 33 THEN Go(ts, "markupDecl")
        ELSE IF c = 47 THEN Go(ts, "endTagOpen")
        ELSE IF IsAlpha(c) THEN [Re(ts, "tagName") EXCEPT !.tag = NoTag]
        ELSE IF c = 63 THEN [Re(ts, "bogusComment") EXCEPT !.cmt = <<>>]
        ELSE IF c = EOF_CP THEN Finish(Out(ts, <<60>>))
        ELSE Re(Out(ts, <<60>>), "data")
    [] st = "endTagOpen" ->
        IF IsAlpha(c) THEN [Re(ts, "tagName") EXCEPT !.tag = [NoTag EXCEPT !.k = "e"]]
        ELSE IF c = 62 THEN Go(ts, "data")
        ELSE IF c = EOF_CP THEN Finish(Out(ts, <<60, 47>>))
        ELSE [Re(ts, "bogusComment") EXCEPT !.cmt = <<>>]
    [] st = "tagName" ->
        IF IsWs(c) THEN Go(ts, "beforeAttrName")
        ELSE IF c = 47 THEN Go(ts, "selfClosing")
        ELSE IF c = 62 THEN Adv(EmitTag(ts))
        ELSE IF c = 0 THEN Adv(AppName(ts, 65533))
        ELSE IF c = EOF_CP THEN Finish(ts)
        ELSE Adv(AppName(ts, LowerC(c)))
    \* --- RCDATA / RAWTEXT end tags ---
    [] st \in {"rcdataLt", "rawtextLt"} ->
        LET back == IF st = "rcdataLt" THEN "rcdata" ELSE "rawtext" IN
        IF c = 47 THEN [Go(ts, IF st = "rcdataLt" THEN "rcdataEndOpen" ELSE "rawtextEndOpen") EXCEPT !.buf = <<>>]
        ELSE Re(Out(ts, <<60>>), back)
    [] st \in {"rcdataEndOpen", "rawtextEndOpen", "scriptEndOpen", "scriptEscEndOpen"} ->
        LET back == CASE st = "rcdataEndOpen" -> "rcdata" [] st = "rawtextEndOpen" -> "rawtext"
                      [] st = "scriptEndOpen" -> "script" [] OTHER -> "scriptEsc"
            nm   == CASE st = "rcdataEndOpen" -> "rcdataEndName" [] st = "rawtextEndOpen" -> "rawtextEndName"
                      [] st = "scriptEndOpen" -> "scriptEndName" [] OTHER -> "scriptEscEndName"
        IN IF IsAlpha(c) THEN [Re(ts, nm) EXCEPT !.tag = [NoTag EXCEPT !.k = "e"]]
           ELSE Re(Out(ts, <<60, 47>>), back)
    [] st \in {"rcdataEndName", "rawtextEndName", "scriptEndName", "scriptEscEndName"} ->
        LET back == CASE st = "rcdataEndName" -> "rcdata" [] st = "rawtextEndName" -> "rawtext"
                      [] st = "scriptEndName" -> "script" [] OTHER -> "scriptEsc"
            bail == Re(Out(ts, <<60, 47>> \o ts.buf), back)
        IN IF IsWs(c) THEN (IF Appropriate(ts) THEN Go(ts, "beforeAttrName") ELSE bail)
           ELSE IF c = 47 THEN (IF Appropriate(ts) THEN Go(ts, "selfClosing") ELSE bail)
           ELSE IF c = 62 THEN (IF Appropriate(ts) THEN Adv(EmitTag(ts)) ELSE bail)
           ELSE IF IsAlpha(c) THEN Adv([AppName(ts, LowerC(c)) EXCEPT !.buf = Append(@, c)])
           ELSE bail
    \* --- script data ---
    [] st = "scriptLt" ->
        IF c = 47 THEN [Go(ts, "scriptEndOpen") EXCEPT !.buf = <<>>]
        ELSE IF c = 33 THEN Go(Out(ts, <<60, 33>>), "scriptEscStart")
        ELSE Re(Out(ts, <<60>>), "script")
    [] st = "scriptEscStart" ->
        IF c = 45 THEN Go(Out(ts, <<45>>), "scriptEscStartDash") ELSE Re(ts, "script")
    [] st = "scriptEscStartDash" ->
        IF c = 45 THEN Go(Out(ts, <<45>>), "scriptEscDashDash") ELSE Re(ts, "script")
    [] st = "scriptEsc" ->
        IF c = 45 THEN Go(Out(ts, <<45>>), "scriptEscDash")
        ELSE IF c = 60 THEN Go(ts, "scriptEscLt")
        ELSE IF c = 0 THEN Adv(Out(ts, <<65533>>))
        ELSE IF c = EOF_CP THEN Finish(ts)
        ELSE Adv(Out(ts, <<c>>))
    [] st = "scriptEscDash" ->
        IF c = 45 THEN Go(Out(ts, <<45>>), "scriptEscDashDash")
        ELSE IF c = 60 THEN Go(ts, "scriptEscLt")
        ELSE IF c = 0 THEN Go(Out(ts, <<65533>>), "scriptEsc")
        ELSE IF c = EOF_CP THEN Finish(ts)
        ELSE Go(Out(ts, <<c>>), "scriptEsc")
    [] st = "scriptEscDashDash" ->
        IF c = 45 THEN Adv(Out(ts, <<45>>))
        ELSE IF c = 60 THEN Go(ts, "scriptEscLt")
        ELSE IF c = 62 THEN Go(Out(ts, <<62>>), "script")
        ELSE IF c = 0 THEN Go(Out(ts, <<65533>>), "scriptEsc")
        ELSE IF c = EOF_CP THEN Finish(ts)
        ELSE Go(Out(ts, <<c>>), "scriptEsc")
    [] st = "scriptEscLt" ->
        IF c = 47 THEN [Go(ts, "scriptEscEndOpen") EXCEPT !.buf = <<>>]
        ELSE IF IsAlpha(c) THEN [Re(Out(ts, <<60>>), "scriptDblEscStart") EXCEPT !.buf = <<>>]
        ELSE Re(Out(ts, <<60>>), "scriptEsc")
    [] st = "scriptDblEscStart" ->
        IF IsWs(c) \/ c = 47 \/ c = 62
        THEN Go(Out(ts, <<c>>), IF ts.buf = W_script THEN "scriptDblEsc" ELSE "scriptEsc")
        ELSE IF IsAlpha(c) THEN Adv([Out(ts, <<c>>) EXCEPT !.buf = Append(@, LowerC(c))])
        ELSE Re(ts, "scriptEsc")
    [] st = "scriptDblEsc" ->
        IF c = 45 THEN Go(Out(ts, <<45>>), "scriptDblEscDash")
        ELSE IF c = 60 THEN Go(Out(ts, <<60>>), "scriptDblEscLt")
        ELSE IF c = 0 THEN Adv(Out(ts, <<65533>>))
        ELSE IF c = EOF_CP THEN Finish(ts)
        ELSE Adv(Out(ts, <<c>>))
    [] st = "scriptDblEscDash" ->
        IF c = 45 THEN Go(Out(ts, <<45>>), "scriptDblEscDashDash")
        ELSE IF c = 60 THEN Go(Out(ts, <<60>>), "scriptDblEscLt")
        ELSE IF c = 0 THEN Go(Out(ts, <<65533>>), "scriptDblEsc")
        ELSE IF c = EOF_CP THEN Finish(ts)
        ELSE Go(Out(ts, <<c>>), "scriptDblEsc")
    [] st = "scriptDblEscDashDash" ->
        IF c = 45 THEN Adv(Out(ts, <<45>>))
        ELSE IF c = 60 THEN Go(Out(ts, <<60>>), "scriptDblEscLt")
        ELSE IF c = 62 THEN Go(Out(ts, <<62>>), "script")
        ELSE IF c = 0 THEN Go(Out(ts, <<65533>>), "scriptDblEsc")
        ELSE IF c = EOF_CP THEN Finish(ts)
        ELSE Go(Out(ts, <<c>>), "scriptDblEsc")
    [] st = "scriptDblEscLt" ->
        IF c = 47 THEN [Go(Out(ts, <<47>>), "scriptDblEscEnd") EXCEPT !.buf = <<>>]
        ELSE Re(ts, "scriptDblEsc")
    [] st = "scriptDblEscEnd" ->
        IF IsWs(c) \/ c = 47 \/ c = 62
        THEN Go(Out(ts, <<c>>), IF ts.buf = W_script THEN "scriptEsc" ELSE "scriptDblEsc")
        ELSE IF IsAlpha(c) THEN Adv([Out(ts, <<c>>) EXCEPT !.buf = Append(@, LowerC(c))])
        ELSE Re(ts, "scriptDblEsc")
    \* --- attributes ---
    [] st = "beforeAttrName" ->
        IF IsWs(c) THEN Adv(ts)
        ELSE IF c = 47 \/ c = 62 \/ c = EOF_CP THEN Re(ts, "afterAttrName")
        ELSE IF c = 61 THEN Go(NewAttr(ts, <<61>>), "attrName")
        ELSE Re(NewAttr(ts, <<>>), "attrName")
    [] st = "attrName" ->
        IF IsWs(c) \/ c = 47 \/ c = 62 \/ c = EOF_CP THEN Re(ts, "afterAttrName")
        ELSE IF c = 61 THEN Go(ts, "beforeAttrVal")
        ELSE IF c = 0 THEN Adv(AppAttrName(ts, 65533))
        ELSE Adv(AppAttrName(ts, LowerC(c)))
    [] st = "afterAttrName" ->
        IF IsWs(c) THEN Adv(ts)
        ELSE IF c = 47 THEN Go(ts, "selfClosing")
        ELSE IF c = 61 THEN Go(ts, "beforeAttrVal")
        ELSE IF c = 62 THEN Adv(EmitTag(ts))
        ELSE IF c = EOF_CP THEN Finish(ts)
        ELSE Re(NewAttr(ts, <<>>), "attrName")
    [] st = "beforeAttrVal" ->
        IF IsWs(c) THEN Adv(ts)
        ELSE IF c = 34 THEN Go(ts, "attrValDq")
        ELSE IF c = 39 THEN Go(ts, "attrValSq")
        ELSE IF c = 62 THEN Adv(EmitTag(ts))
        ELSE Re(ts, "attrValUq")
    [] st = "attrValDq" ->
        IF c = 34 THEN Go(ts, "afterAttrValQ")
        ELSE IF c = 38 THEN [Go(ts, "charRef") EXCEPT !.ret = "attrValDq"]
        ELSE IF c = 0 THEN Adv(AppAttrVal(ts, <<65533>>))
        ELSE IF c = EOF_CP THEN Finish(ts)
        ELSE Adv(AppAttrVal(ts, <<c>>))
    [] st = "attrValSq" ->
        IF c = 39 THEN Go(ts, "afterAttrValQ")
        ELSE IF c = 38 THEN [Go(ts, "charRef") EXCEPT !.ret = "attrValSq"]
        ELSE IF c = 0 THEN Adv(AppAttrVal(ts, <<65533>>))
        ELSE IF c = EOF_CP THEN Finish(ts)
        ELSE Adv(AppAttrVal(ts, <<c>>))
    [] st = "attrValUq" ->
        IF IsWs(c) THEN Go(ts, "beforeAttrName")
        ELSE IF c = 38 THEN [Go(ts, "charRef") EXCEPT !.ret = "attrValUq"]
        ELSE IF c = 62 THEN Adv(EmitTag(ts))
        ELSE IF c = 0 THEN Adv(AppAttrVal(ts, <<65533>>))
        ELSE IF c = EOF_CP THEN Finish(ts)
        ELSE Adv(AppAttrVal(ts, <<c>>))
    [] st = "afterAttrValQ" ->
        IF IsWs(c) THEN Go(ts, "beforeAttrName")
        ELSE IF c = 47 THEN Go(ts, "selfClosing")
        ELSE IF c = 62 THEN Adv(EmitTag(ts))
        ELSE IF c = EOF_CP THEN Finish(ts)
        ELSE Re(ts, "beforeAttrName")
    [] st = "selfClosing" ->
        IF c = 62 THEN Adv(EmitTag([ts EXCEPT !.tag.sc = TRUE]))
        ELSE IF c = EOF_CP THEN Finish(ts)
        ELSE Re(ts, "beforeAttrName")
    \* --- comments ---
    [] st = "bogusComment" ->
        IF c = 62 THEN Adv(EmitComment(ts))
        ELSE IF c = EOF_CP THEN Finish(EmitComment(ts))
        ELSE IF c = 0 THEN Adv(AppCmt(ts, <<65533>>))
        ELSE Adv(AppCmt(ts, <<c>>))
    [] st = "markupDecl" ->
        IF MatchCS(src, i, <<45, 45>>) THEN [ts EXCEPT !.i = i + 2, !.st = "commentStart", !.cmt = <<>>]
        ELSE IF MatchCI(src, i, W_DOCTYPE) THEN [ts EXCEPT !.i = i + 7, !.st = "doctype"]
        ELSE IF MatchCS(src, i, W_CDATA)
             THEN IF ts.cdataOk THEN [ts EXCEPT !.i = i + 7, !.st = "cdata"]
                  ELSE [ts EXCEPT !.i = i + 7, !.st = "bogusComment", !.cmt = W_CDATA]
        ELSE [ts EXCEPT !.st = "bogusComment", !.cmt = <<>>]
    [] st = "commentStart" ->
        IF c = 45 THEN Go(ts, "commentStartDash")
        ELSE IF c = 62 THEN Adv(EmitComment(ts))
        ELSE IF c = 0 /\ "tok-commentstart-nul-stays" \in KnownDefects THEN Adv(AppCmt(ts, <<65533>>))
        ELSE Re(ts, "comment")
    [] st = "commentStartDash" ->
        IF c = 45 THEN Go(ts, "commentEnd")
        ELSE IF c = 62 THEN Adv(EmitComment(ts))
        ELSE IF c = EOF_CP THEN Finish(EmitComment(ts))
        ELSE IF c = 0 /\ "tok-commentstartdash-nul-stays" \in KnownDefects THEN Adv(AppCmt(ts, <<45, 65533>>))
        ELSE Re(AppCmt(ts, <<45>>), "comment")
    [] st = "comment" ->
        \* '<' is appended and the comment-less-than-sign states only report errors: net effect none
        IF c = 45 THEN Go(ts, "commentEndDash")
        ELSE IF c = 0 THEN Adv(AppCmt(ts, <<65533>>))
        ELSE IF c = EOF_CP THEN Finish(EmitComment(ts))
        ELSE Adv(AppCmt(ts, <<c>>))
    [] st = "commentEndDash" ->
        IF c = 45 THEN Go(ts, "commentEnd")
        ELSE IF c = EOF_CP THEN Finish(EmitComment(ts))
        ELSE Re(AppCmt(ts, <<45>>), "comment")
    [] st = "commentEnd" ->
        IF c = 62 THEN Adv(EmitComment(ts))
        ELSE IF c = 33 THEN Go(ts, "commentEndBang")
        ELSE IF c = 45 THEN Adv(AppCmt(ts, <<45>>))
        ELSE IF c = EOF_CP THEN Finish(EmitComment(ts))
        ELSE Re(AppCmt(ts, <<45, 45>>), "comment")
    [] st = "commentEndBang" ->
        IF c = 45 THEN Go(AppCmt(ts, <<45, 45, 33>>), "commentEndDash")
        ELSE IF c = 62 THEN Adv(EmitComment(ts))
        ELSE IF c = EOF_CP THEN Finish(EmitComment(ts))
        ELSE Re(AppCmt(ts, <<45, 45, 33>>), "comment")
    \* --- DOCTYPE ---
    [] st = "doctype" ->
        IF IsWs(c) THEN [Go(ts, "beforeDtName") EXCEPT !.dt = NoDt]
        ELSE IF c = EOF_CP THEN Finish(EmitDoctype([ts EXCEPT !.dt = [NoDt EXCEPT !.fq = TRUE]]))
        ELSE [Re(ts, "beforeDtName") EXCEPT !.dt = NoDt]
    [] st = "beforeDtName" ->
        IF IsWs(c) THEN Adv(ts)
        ELSE IF c = 0 THEN [Go(ts, "dtName") EXCEPT !.dt.n = <<65533>>]
        ELSE IF c = 62 THEN Adv(EmitDoctype([ts EXCEPT !.dt.fq = TRUE]))
        ELSE IF c = EOF_CP THEN Finish(EmitDoctype([ts EXCEPT !.dt.fq = TRUE]))
        ELSE [Go(ts, "dtName") EXCEPT !.dt.n = <<LowerC(c)>>]
    [] st = "dtName" ->
        IF IsWs(c) THEN Go(ts, "afterDtName")
        ELSE IF c = 62 THEN Adv(EmitDoctype(ts))
        ELSE IF c = 0 THEN Adv([ts EXCEPT !.dt.n = Append(@, 65533)])
        ELSE IF c = EOF_CP THEN Finish(EmitDoctype([ts EXCEPT !.dt.fq = TRUE]))
        ELSE Adv([ts EXCEPT !.dt.n = Append(@, LowerC(c))])
    [] st = "afterDtName" ->
        IF IsWs(c) THEN Adv(ts)
        ELSE IF c = 62 THEN Adv(EmitDoctype(ts))
        ELSE IF c = EOF_CP THEN Finish(EmitDoctype([ts EXCEPT !.dt.fq = TRUE]))
        ELSE IF MatchCI(src, i, W_PUBLIC) THEN [ts EXCEPT !.i = i + 6, !.st = "afterDtPublicKw"]
        ELSE IF MatchCI(src, i, W_SYSTEM) THEN [ts EXCEPT !.i = i + 6, !.st = "afterDtSystemKw"]
        ELSE [Re(ts, "bogusDoctype") EXCEPT !.dt.fq = TRUE]
    [] st \in {"afterDtPublicKw", "beforeDtPublicId"} ->
        IF IsWs(c) THEN Go(ts, "beforeDtPublicId")
        ELSE IF c = 34 THEN [Go(ts, "dtPublicIdDq") EXCEPT !.dt.p = <<>>]
        ELSE IF c = 39 THEN [Go(ts, "dtPublicIdSq") EXCEPT !.dt.p = <<>>]
        ELSE IF c = 62 THEN Adv(EmitDoctype([ts EXCEPT !.dt.fq = TRUE]))
        ELSE IF c = EOF_CP THEN Finish(EmitDoctype([ts EXCEPT !.dt.fq = TRUE]))
        ELSE [Re(ts, "bogusDoctype") EXCEPT !.dt.fq = TRUE]
    [] st \in {"dtPublicIdDq", "dtPublicIdSq"} ->
        IF (st = "dtPublicIdDq" /\ c = 34) \/ (st = "dtPublicIdSq" /\ c = 39) THEN Go(ts, "afterDtPublicId")
        ELSE IF c = 0 THEN Adv([ts EXCEPT !.dt.p = Append(@, 65533)])
        ELSE IF c = 62 THEN Adv(EmitDoctype([ts EXCEPT !.dt.fq = TRUE]))
        ELSE IF c = EOF_CP THEN Finish(EmitDoctype([ts EXCEPT !.dt.fq = TRUE]))
        ELSE Adv([ts EXCEPT !.dt.p = Append(@, c)])
    [] st \in {"afterDtPublicId", "betweenDtIds"} ->
        IF IsWs(c) THEN Go(ts, "betweenDtIds")
        ELSE IF c = 62 THEN Adv(EmitDoctype(ts))
        ELSE IF c = 34 THEN [Go(ts, "dtSystemIdDq") EXCEPT !.dt.s = <<>>]
        ELSE IF c = 39 THEN [Go(ts, "dtSystemIdSq") EXCEPT !.dt.s = <<>>]
        ELSE IF c = EOF_CP THEN Finish(EmitDoctype([ts EXCEPT !.dt.fq = TRUE]))
        ELSE [Re(ts, "bogusDoctype") EXCEPT !.dt.fq = TRUE]
    [] st \in {"afterDtSystemKw", "beforeDtSystemId"} ->
        IF IsWs(c) THEN Go(ts, "beforeDtSystemId")
        ELSE IF c = 34 THEN [Go(ts, "dtSystemIdDq") EXCEPT !.dt.s = <<>>]
        ELSE IF c = 39 THEN [Go(ts, "dtSystemIdSq") EXCEPT !.dt.s = <<>>]
        ELSE IF c = 62 THEN Adv(EmitDoctype([ts EXCEPT !.dt.fq = TRUE]))
        ELSE IF c = EOF_CP THEN Finish(EmitDoctype([ts EXCEPT !.dt.fq = TRUE]))
        ELSE [Re(ts, "bogusDoctype") EXCEPT !.dt.fq = TRUE]
    [] st \in {"dtSystemIdDq", "dtSystemIdSq"} ->
        IF (st = "dtSystemIdDq" /\ c = 34) \/ (st = "dtSystemIdSq" /\ c = 39) THEN Go(ts, "afterDtSystemId")
        ELSE IF c = 0 THEN Adv([ts EXCEPT !.dt.s = Append(@, 65533)])
        ELSE IF c = 62 THEN Adv(EmitDoctype([ts EXCEPT !.dt.fq = TRUE]))
        ELSE IF c = EOF_CP THEN Finish(EmitDoctype([ts EXCEPT !.dt.fq = TRUE]))
        ELSE Adv([ts EXCEPT !.dt.s = Append(@, c)])
    [] st = "afterDtSystemId" ->
        IF IsWs(c) THEN Adv(ts)
        ELSE IF c = 62 THEN Adv(EmitDoctype(ts))
        ELSE IF c = EOF_CP THEN Finish(EmitDoctype([ts EXCEPT !.dt.fq = TRUE]))
        ELSE Re(ts, "bogusDoctype")                                \* no force-quirks here
    [] st = "bogusDoctype" ->
        IF c = 62 THEN Adv(EmitDoctype(ts))
        ELSE IF c = EOF_CP THEN Finish(EmitDoctype(ts))
        ELSE Adv(ts)
    \* --- CDATA ---
    [] st = "cdata" ->
        IF c = 93 THEN Go(ts, "cdataBracket")
        ELSE IF c = EOF_CP THEN Finish(ts)
        ELSE IF c = 0 /\ "tok-cdata-nul-replaced" \in KnownDefects THEN Adv(Out(ts, <<65533>>))
        ELSE Adv(Out(ts, <<c>>))
    [] st = "cdataBracket" ->
        IF c = 93 THEN Go(ts, "cdataEnd") ELSE Re(Out(ts, <<93>>), "cdata")
    [] st = "cdataEnd" ->
        IF c = 93 THEN Adv(Out(ts, <<93>>))
        ELSE IF c = 62 THEN Go(ts, "data")
        ELSE Re(Out(ts, <<93, 93>>), "cdata")
    \* --- character references (i points at the character after '&') ---
    [] st = "charRef" ->
        IF IsAlnum(c) THEN Re(ts, "namedCharRef")
        ELSE IF c = 35 THEN [Go(ts, "numCharRef") EXCEPT !.code = 0]
        ELSE Re(Flush(ts, <<38>>), ts.ret)
    [] st = "namedCharRef" ->
        LET m == MatchLen(src, i) IN
        IF m > 0
        THEN LET nm  == SubSeq(src, i, i + m - 1)
                 semi == nm[m] = 59
                 nx  == IF i + m <= Len(src) THEN src[i + m] ELSE EOF_CP
             IN IF InAttr(ts) /\ ~semi /\ (nx = 61 \/ IsAlnum(nx))
                THEN [Flush(ts, <<38>> \o nm) EXCEPT !.i = i + m, !.st = ts.ret]          \* historical exception
                ELSE [Flush(ts, EntityValue(nm)) EXCEPT !.i = i + m, !.st = ts.ret]
        ELSE Re(Flush(ts, <<38>>), "ambiguousAmp")
    [] st = "ambiguousAmp" ->
        IF IsAlnum(c) THEN Adv(Flush(ts, <<c>>)) ELSE Re(ts, ts.ret)
    [] st = "numCharRef" ->
        IF c = 120 \/ c = 88 THEN [Go(ts, "hexStart") EXCEPT !.buf = <<38, 35, c>>]
        ELSE [Re(ts, "decStart") EXCEPT !.buf = <<38, 35>>]
    [] st = "hexStart" ->
        IF IsHex(c) THEN Re(ts, "hexRef") ELSE Re(Flush(ts, ts.buf), ts.ret)
    [] st = "decStart" ->
        IF IsDigit(c) THEN Re(ts, "decRef") ELSE Re(Flush(ts, ts.buf), ts.ret)
    [] st = "hexRef" ->
        IF IsHex(c) THEN Adv([ts EXCEPT !.code = Sat(@ * 16 + HexV(c))])
        ELSE IF c = 59 THEN Go(ts, "numEnd") ELSE Re(ts, "numEnd")
    [] st = "decRef" ->
        IF IsDigit(c) THEN Adv([ts EXCEPT !.code = Sat(@ * 10 + (c - 48))])
        ELSE IF c = 59 THEN Go(ts, "numEnd") ELSE Re(ts, "numEnd")
    [] st = "numEnd" ->
        Re(Flush(ts, <<NumericRef(ts.code)>>), ts.ret)

\* run to completion
RECURSIVE TRun(_, _)
TRun(ts, src) == IF ts.done THEN ts ELSE TRun(TStep(ts, src), src)
Tokenize(src, start, last, cdataOk) == TRun(TInit(start, last, cdataOk), src).out

\* model-level theorems about one finished run
RECURSIVE NoDupNames(_)
NoDupNames(as) == as = <<>> \/ ((\A j \in 2..Len(as) : as[j][1] # as[1][1]) /\ NoDupNames(Tail(as)))
OutputWellFormed(out) ==
    \A k \in 1..Len(out) :
        /\ out[k].t \in {"Character", "StartTag", "EndTag", "Comment", "Doctype"}
        /\ (out[k].t = "Character" => out[k].d # <<>> /\ (k = 1 \/ out[k - 1].t # "Character"))
        /\ (out[k].t \in {"StartTag", "EndTag"} => out[k].n # <<>> /\ \A j \in 1..Len(out[k].n) : ~IsUpper(out[k].n[j]))
        /\ (out[k].t = "StartTag" => NoDupNames(out[k].a))
=============================================================================
