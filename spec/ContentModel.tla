------------------------------- MODULE ContentModel -------------------------------
(* C07.  The HTML content model as far as it matters to a parser, written ONCE as the three    *)
(* operators                                                                                    *)
(*     CmChildOK(cx, kids, ch)   may node ch follow the children `kids` inside context cx       *)
(*     CmEnter(cx, el)           the context in which the children of element el live           *)
(*     CmCloseOK(cx, kids)       may the element be closed with these children                  *)
(* and used twice: by the generator of conforming documents (MC_RoundTrip: one action per       *)
(* opened element / added leaf / closed element over the stack of open elements) and by the     *)
(* recursive judge CmConforming(tree) that decides whether a recorded tree belongs to the       *)
(* modelled class.  The class is a SUBSET of the conforming HTML documents (a conforming        *)
(* subset is all the property needs: every member must survive serialize-then-parse):           *)
(*   * document = comments, a no-quirks doctype (html; legacy-compat; the permitted obsolete     *)
(*     strings), comments, html, comments;  html = comments, head, ws/comments, body, comments   *)
(*   * head: title (at most one, not blank), base (first), meta, link, style, script, ws, comments *)
(*   * flow / phrasing content with the category rules: p h1 h2 pre span b i em label button      *)
(*     summary legend rt hold phrasing only; a is transparent; no a or interactive content in a,  *)
(*     no interactive content in button/label, no form in form, no table in caption, no heading / *)
(*     sectioning content in dt th address, main only below body/div/form, no ruby in ruby         *)
(*   * article aside header footer (no header/footer inside) h3-h6 hgroup (p, one heading) menu  *)
(*     (li only); EXTENSION elements: unknown to the parser (custom elements, later additions to HTML) *)
(*     as phrasing-level elements, see CmIsExtension                                               *)
(*   * li only in ul/ol; dl = groups of dt+ dd+; table = caption? colgroup* thead? tbody* tfoot?  *)
(*     (tr only inside a section: what the parser builds); tr = (td|th)*; colgroup = col*;         *)
(*     select = (option|optgroup)*; optgroup = option*; ruby = (base+ (rt | rp rt rp))+;          *)
(*     fieldset = legend? flow; details = summary flow; figure = figcaption? flow                 *)
(*   * text-only elements: title textarea option rp (any text), script style (raw: no "</",       *)
(*     script no "<!--"); void elements are empty                                                 *)
(*   * foreign islands: svg (g title desc foreignObject[flow]), math (mi mtext                    *)
(*     annotation-xml[encoding=text/html: flow])                                                 *)
(*   * inter-element whitespace and comments wherever the syntax allows them AND the parser       *)
(*     keeps them in place (not before head, not after body)                                      *)
(*   * text nodes are non-empty and never adjacent; no NUL, no CR, no surrogate                   *)
(*   * attributes from a white list per element; boolean attributes only with the canonical       *)
(*     values "" or the attribute's name                                                          *)
(* \* ASSUMED (cannot be settled offline, no verdict depends on them unless the round trip of   *)
(* such a tree fails, which it does not on the unchanged code): annotation-xml directly below   *)
(* math (MathML's own schema puts it inside semantics; the HTML parser does not care), svg a /  *)
(* g / title / desc / foreignObject as the only SVG children, link rel=stylesheet and meta       *)
(* itemprop as body content.                                                                      *)
(* Relaxed on purpose (stated, harmless for the round trip): title is not required (the          *)
(* standard allows that when a higher-level protocol supplies it); URL / keyword / number          *)
(* attribute value syntax is not checked; id may be any text.                                     *)
(* Nodes are in the canonical nested form of TreeOps!Canon: [k, ns, n, a, d, p, s, c].           *)
EXTENDS Unicode, Gen_Names

A_open == <<111,112,101,110>>
A_async == <<97,115,121,110,99>>
A_defer == <<100,101,102,101,114>>
A_reversed == <<114,101,118,101,114,115,101,100>>
A_rel == <<114,101,108>>
A_alt == <<97,108,116>>
A_for == <<102,111,114>>
A_itemprop == <<105,116,101,109,112,114,111,112>>
A_dir == <<100,105,114>>
A_required == <<114,101,113,117,105,114,101,100>>
A_autofocus == <<97,117,116,111,102,111,99,117,115>>
A_colspan == <<99,111,108,115,112,97,110>>
A_rowspan == <<114,111,119,115,112,97,110>>
A_rows == <<114,111,119,115>>
A_cols == <<99,111,108,115>>
A_method == <<109,101,116,104,111,100>>
A_start == <<115,116,97,114,116>>
A_viewBox == <<118,105,101,119,66,111,120>>
A_width == <<119,105,100,116,104>>
A_height == <<104,101,105,103,104,116>>
V_legacy_compat == <<97,98,111,117,116,58,108,101,103,97,99,121,45,99,111,109,112,97,116>>
V_pub_html401 == <<45,47,47,87,51,67,47,47,68,84,68,32,72,84,77,76,32,52,46,48,49,47,47,69,78>>
V_sys_html401 == <<104,116,116,112,58,47,47,119,119,119,46,119,51,46,111,114,103,47,84,82,47,104,116,109,108,52,47,115,116,114,105,99,116,46,100,116,100>>
V_pub_xhtml10 == <<45,47,47,87,51,67,47,47,68,84,68,32,88,72,84,77,76,32,49,46,48,32,83,116,114,105,99,116,47,47,69,78>>
V_sys_xhtml10 == <<104,116,116,112,58,47,47,119,119,119,46,119,51,46,111,114,103,47,84,82,47,120,104,116,109,108,49,47,68,84,68,47,120,104,116,109,108,49,45,115,116,114,105,99,116,46,100,116,100>>
V_pub_html40 == <<45,47,47,87,51,67,47,47,68,84,68,32,72,84,77,76,32,52,46,48,47,47,69,78>>
V_sys_html40 == <<104,116,116,112,58,47,47,119,119,119,46,119,51,46,111,114,103,47,84,82,47,82,69,67,45,104,116,109,108,52,48,47,115,116,114,105,99,116,46,100,116,100>>
V_pub_xhtml11 == <<45,47,47,87,51,67,47,47,68,84,68,32,88,72,84,77,76,32,49,46,49,47,47,69,78>>
V_sys_xhtml11 == <<104,116,116,112,58,47,47,119,119,119,46,119,51,46,111,114,103,47,84,82,47,120,104,116,109,108,49,49,47,68,84,68,47,120,104,116,109,108,49,49,46,100,116,100>>

-----------------------------------------------------------------------------
\* ---- node constructors (canonical nested form) ----
CmNode(k, ns, n, a, d, p, s, c) == [k |-> k, ns |-> ns, n |-> n, a |-> a, d |-> d, p |-> p, s |-> s, c |-> c]
CmElemA(ns, n, a) == CmNode("elem", ns, n, a, <<>>, <<>>, <<>>, <<>>)
CmElem(n)         == CmElemA("html", n, <<>>)
CmText(d)         == CmNode("text", "", <<>>, <<>>, d, <<>>, <<>>, <<>>)
CmComment(d)      == CmNode("comment", "", <<>>, <<>>, d, <<>>, <<>>, <<>>)
CmDoctype(p, s)   == CmNode("doctype", "", N_html, <<>>, <<>>, p, s, <<>>)
CmDoc(c)          == CmNode("doc", "", <<>>, <<>>, <<>>, <<>>, <<>>, c)
CmAttr(n, v)      == <<"", n, v>>

\* the doctypes of conforming documents (all select the no-quirks mode): <public id, system id>
CmDoctypes == { <<<<>>, <<>>>>, <<<<>>, V_legacy_compat>>, <<V_pub_html40, <<>>>>, <<V_pub_html40, V_sys_html40>>,
                <<V_pub_html401, <<>>>>, <<V_pub_html401, V_sys_html401>>, <<V_pub_xhtml10, V_sys_xhtml10>>,
                <<V_pub_xhtml11, V_sys_xhtml11>> }

-----------------------------------------------------------------------------
\* ---- element classes (HTML namespace unless said otherwise) ----
CmVoid      == {N_area, N_base, N_br, N_col, N_embed, N_hr, N_img, N_input, N_link, N_meta, N_param, N_source, N_track, N_wbr}
CmFlowOnly  == {N_article, N_aside, N_header, N_footer, N_h3, N_h4, N_h5, N_h6, N_hgroup, N_menu,
                N_div, N_p, N_ul, N_ol, N_dl, N_table, N_pre, N_h1, N_h2, N_blockquote, N_form, N_fieldset, N_hr, N_address,
                N_main, N_section, N_nav, N_figure, N_dialog, N_details}
CmPhrasing  == {N_a, N_span, N_b, N_i, N_em, N_label, N_button, N_input, N_img, N_br, N_select, N_textarea, N_ruby,
                N_script, N_link, N_meta}
CmInteractive == {N_a, N_button, N_select, N_textarea, N_input, N_label, N_details}
CmHeadings == {N_h1, N_h2, N_h3, N_h4, N_h5, N_h6}
CmHeadingSection == CmHeadings \cup {N_section, N_nav, N_article, N_aside, N_hgroup, N_header, N_footer}
\* elements whose children are flow content / phrasing content
CmHoldsFlow == {N_article, N_aside, N_header, N_footer, N_body, N_div, N_li, N_dd, N_dt, N_td, N_th, N_blockquote, N_section, N_nav, N_main, N_figure, N_figcaption,
                N_fieldset, N_form, N_details, N_dialog, N_caption, N_address}
CmHoldsPhrasing == {N_h3, N_h4, N_h5, N_h6, N_p, N_h1, N_h2, N_span, N_b, N_i, N_em, N_pre, N_label, N_button, N_summary, N_legend, N_rt}
CmHoldsText == {N_title, N_textarea, N_option, N_rp}
CmHoldsRaw  == {N_script, N_style}

\* ---- extension elements ----
\* Names the HTML parsing algorithm (text of the html5lib era, DESIGN.md Appendix C) mentions anywhere: special / formatting /
\* implied-end categories, the in-body, in-head, in-table, in-select start- and end-tag cases, the foreign-content breakout list.
CmParserNames ==
    {N_a, N_address, N_applet, N_area, N_article, N_aside, N_b, N_base, N_basefont, N_bgsound, N_big, N_blockquote, N_body, N_br,
     N_button, N_caption, N_center, N_code, N_col, N_colgroup, N_command, N_dd, N_details, N_dialog, N_dir, N_div, N_dl, N_dt, N_em,
     N_embed, N_fieldset, N_figcaption, N_figure, N_font, N_footer, N_form, N_frame, N_frameset, N_h1, N_h2, N_h3, N_h4, N_h5, N_h6,
     N_head, N_header, N_hgroup, N_hr, N_html, N_i, N_iframe, N_image, N_img, N_input, N_isindex, N_keygen, N_li, N_link, N_listing,
     N_main, N_marquee, N_math, N_menu, N_menuitem, N_meta, N_nav, N_nobr, N_noembed, N_noframes, N_noscript, N_object, N_ol,
     N_optgroup, N_option, N_p, N_param, N_plaintext, N_pre, N_rb, N_rp, N_rt, N_rtc, N_ruby, N_s, N_script, N_section, N_select,
     N_small, N_source, N_span, N_strike, N_strong, N_style, N_sub, N_summary, N_sup, N_svg, N_table, N_tbody, N_td, N_template,
     N_textarea, N_tfoot, N_th, N_thead, N_title, N_tr, N_track, N_tt, N_u, N_ul, N_var, N_wbr, N_xmp}
\* names this content model gives a meaning of their own
CmModelledNames == CmVoid \cup CmFlowOnly \cup CmPhrasing \cup CmHoldsFlow \cup CmHoldsPhrasing \cup CmHoldsText \cup CmHoldsRaw \cup
                   {N_html, N_head, N_ul, N_ol, N_dl, N_table, N_thead, N_tbody, N_tfoot, N_tr, N_colgroup, N_select, N_optgroup, N_ruby,
                    N_li, N_dt, N_dd, N_caption, N_col, N_td, N_th, N_legend, N_summary, N_figcaption, N_rt, N_rp, N_option, N_title}
CmNameSyntaxOK(n) == /\ n # <<>> /\ IsLower(n[1])
                     /\ \A i \in 1..Len(n) : IsLower(n[i]) \/ IsDigit(n[i]) \/ n[i] \in {45, 95}          \* a-z 0-9 - _
CmHasHyphen(n) == Contains(n, 45)
\* An EXTENSION element: an HTML-namespace element whose name the parser does not know (an autonomous custom element -
\* the name has a hyphen - or an element added to HTML after the parser's vocabulary was fixed, e.g. search, data).  The
\* parsing algorithm treats it as an ordinary element and no optional-tag rule mentions it, so a correct serializer must
\* round-trip it wherever phrasing content may stand.  Content: a custom element is transparent; any other extension
\* element is given phrasing content only (\* ASSUMED: a conservative subset - with block children the standard's own
\* "</p> may be omitted at the end of a non-custom parent" rule and the parser's special-element check for an unknown
\* parent's end tag cannot both be satisfied, which is a question about the standard, not about html5lib).
CmIsExtension(nd) == nd.ns = "html" /\ CmNameSyntaxOK(nd.n) /\ nd.n \notin CmParserNames /\ nd.n \notin CmModelledNames

CmAnnotationHtml(nd) == \E i \in 1..Len(nd.a) : nd.a[i][1] = "" /\ nd.a[i][2] = N_encoding /\ Lower(nd.a[i][3]) = N_text_html

\* the content model of the children of element nd whose own parent context is cx
CmModelOf(cx, nd) ==
    IF nd.ns = "html" THEN
        CASE nd.n = N_html -> "html"
          [] nd.n = N_head -> "head"
          [] nd.n = N_a -> (IF cx.m = "flow" THEN "flow" ELSE "phrasing")          \* transparent
          [] nd.n \in CmHoldsFlow -> "flow"
          [] nd.n \in CmHoldsPhrasing -> "phrasing"
          [] nd.n \in CmHoldsText -> "text"
          [] nd.n \in CmHoldsRaw -> "raw"
          [] nd.n \in CmVoid -> "void"
          [] nd.n \in {N_ul, N_ol} -> "list"
          [] nd.n = N_dl -> "dl"
          [] nd.n = N_table -> "table"
          [] nd.n \in {N_thead, N_tbody, N_tfoot} -> "tsect"
          [] nd.n = N_tr -> "tr"
          [] nd.n = N_colgroup -> "colgroup"
          [] nd.n = N_select -> "select"
          [] nd.n = N_optgroup -> "optgroup"
          [] nd.n = N_ruby -> "ruby"
          [] nd.n = N_menu -> "list"
          [] nd.n = N_hgroup -> "hgroup"
          [] CmIsExtension(nd) -> (IF CmHasHyphen(nd.n) /\ cx.m = "flow" THEN "flow" ELSE "phrasing")
          [] OTHER -> "unknown"
    ELSE IF nd.ns = "svg" THEN
        CASE nd.n \in {N_svg, N_g, N_a} -> "svgc"
          [] nd.n \in {N_title, N_desc} -> "text"
          [] nd.n = N_foreignObject -> "flow"
          [] OTHER -> "unknown"
    ELSE IF nd.ns = "math" THEN
        CASE nd.n = N_math -> "math"
          [] nd.n \in {N_mi, N_mtext} -> "text"
          [] nd.n = N_annotation_xml -> (IF CmAnnotationHtml(nd) THEN "flow" ELSE "unknown")
          [] OTHER -> "unknown"
    ELSE "unknown"

\* prohibitions an element imposes on all its descendants
CmAddFlags(nd) ==
    IF nd.ns # "html" THEN {"noMain"}
    ELSE (CASE nd.n = N_a -> {"noA", "noInt"}
            [] nd.n = N_button -> {"noInt"}
            [] nd.n = N_label -> {"noLabel", "noInt"}
            [] nd.n = N_form -> {"noForm"}
            [] nd.n = N_caption -> {"noTable"}
            [] nd.n \in {N_dt, N_th} -> {"noHS"}
            [] nd.n = N_address -> {"noHS", "noAddr"}
            [] nd.n = N_ruby -> {"noRuby"}
            [] nd.n \in {N_header, N_footer} -> {"noHF"}
            [] OTHER -> {})
         \cup (IF nd.n \in {N_html, N_body, N_div, N_form} THEN {} ELSE {"noMain"})

CmDocCx == [m |-> "doc", e |-> <<"", <<>>>>, f |-> {}]
CmEnter(cx, nd) == [m |-> CmModelOf(cx, nd), e |-> <<nd.ns, nd.n>>, f |-> cx.f \cup CmAddFlags(nd)]

-----------------------------------------------------------------------------
\* ---- attributes ----
CmGlobalAttrs == {N_id, N_class, N_title, N_lang, A_dir, N_hidden}
CmElemAttrs(ns, n) ==
    IF ns = "html" THEN
        CASE n = N_a -> {N_href}
          [] n = N_img -> {N_src, A_alt, A_width, A_height}
          [] n = N_input -> {N_type, N_name, N_value, N_disabled, N_checked, N_readonly, A_required, A_autofocus, N_multiple}
          [] n = N_option -> {N_selected, N_disabled, N_value}
          [] n = N_optgroup -> {N_disabled}
          [] n = N_select -> {N_multiple, N_disabled, N_name, A_required, A_autofocus}
          [] n = N_button -> {N_type, N_disabled, N_name, N_value, A_autofocus}
          [] n = N_textarea -> {N_name, A_rows, A_cols, N_disabled, N_readonly, A_required, A_autofocus}
          [] n = N_fieldset -> {N_disabled, N_name}
          [] n = N_form -> {N_action, A_method, N_name}
          [] n = N_label -> {A_for}
          [] n = N_meta -> {N_charset, N_name, N_content, A_itemprop, N_http_equiv}
          [] n = N_link -> {A_rel, N_href, A_itemprop}
          [] n = N_base -> {N_href}
          [] n = N_script -> {N_src, A_async, A_defer, N_type}
          [] n = N_style -> {N_type}
          [] n \in {N_details, N_dialog} -> {A_open}
          [] n = N_ol -> {A_reversed, A_start}
          [] n \in {N_td, N_th} -> {A_colspan, A_rowspan}
          [] n \in {N_col, N_colgroup} -> {N_span}
          [] OTHER -> {}
    ELSE IF ns = "svg" THEN {A_width, A_height, A_viewBox}
    ELSE IF ns = "math" /\ n = N_annotation_xml THEN {N_encoding}
    ELSE {}
\* boolean attributes of the HTML standard (per element; hidden is global)
CmBooleanOn(ns, n) ==
    IF ns # "html" THEN {}
    ELSE {N_hidden} \cup
         (CASE n = N_input -> {N_disabled, N_checked, N_readonly, A_required, A_autofocus, N_multiple}
            [] n = N_option -> {N_selected, N_disabled}
            [] n = N_optgroup -> {N_disabled}
            [] n = N_select -> {N_multiple, N_disabled, A_required, A_autofocus}
            [] n = N_button -> {N_disabled, A_autofocus}
            [] n = N_textarea -> {N_disabled, N_readonly, A_required, A_autofocus}
            [] n = N_fieldset -> {N_disabled}
            [] n = N_script -> {A_async, A_defer}
            [] n \in {N_details, N_dialog} -> {A_open}
            [] n = N_ol -> {A_reversed}
            [] OTHER -> {})
CmIsBoolean(ns, n, at) == at[1] = "" /\ at[2] \in CmBooleanOn(ns, n)
CmTextOK(d) == d # <<>> /\ \A i \in 1..Len(d) : d[i] # 0 /\ d[i] # 13 /\ ~IsSurrogate(d[i]) /\ d[i] >= 1 /\ d[i] <= 1114111
CmValueOK(v) == \A i \in 1..Len(v) : v[i] # 0 /\ v[i] # 13 /\ ~IsSurrogate(v[i]) /\ v[i] >= 1 /\ v[i] <= 1114111
CmAttrOK(ns, n, at) ==
    /\ \/ at[1] = "" /\ at[2] \in (CmGlobalAttrs \cup CmElemAttrs(ns, n))
       \/ ns = "svg" /\ at[1] = "xlink" /\ at[2] = N_href /\ n = N_a
       \/ ns \in {"svg", "math"} /\ at[1] = "xml" /\ at[2] = N_lang
    /\ CmValueOK(at[3])
    /\ (CmIsBoolean(ns, n, at) => (at[3] = <<>> \/ at[3] = at[2]))
CmAttrsOK(nd) ==
    /\ \A i \in 1..Len(nd.a) : CmAttrOK(nd.ns, nd.n, nd.a[i])
    /\ \A i, j \in 1..Len(nd.a) : i # j => <<nd.a[i][1], nd.a[i][2]>> # <<nd.a[j][1], nd.a[j][2]>>
    /\ (nd.ns = "math" /\ nd.n = N_annotation_xml => CmAnnotationHtml(nd))

-----------------------------------------------------------------------------
\* ---- helpers over the children seen so far ----
CmIsE(nd, names) == nd.k = "elem" /\ nd.ns = "html" /\ nd.n \in names
CmAnyElem(kids)  == \E i \in 1..Len(kids) : kids[i].k = "elem"
CmHasE(kids, names) == \E i \in 1..Len(kids) : CmIsE(kids[i], names)
RECURSIVE CmLastElemIdx(_, _)
CmLastElemIdx(kids, i) == IF i = 0 THEN 0 ELSE IF kids[i].k = "elem" THEN i ELSE CmLastElemIdx(kids, i - 1)
CmLastElemIs(kids, names) == LET i == CmLastElemIdx(kids, Len(kids)) IN i # 0 /\ CmIsE(kids[i], names)
CmFirstElemIs(kids, names) == \E i \in 1..Len(kids) : CmIsE(kids[i], names) /\ \A j \in 1..(i - 1) : kids[j].k # "elem"
CmTableRank(n) == CASE n = N_caption -> 1 [] n = N_colgroup -> 2 [] n = N_thead -> 3 [] n = N_tbody -> 4 [] n = N_tfoot -> 5 [] OTHER -> 9
CmMaxRank(kids) == LET S == {CmTableRank(kids[i].n) : i \in {j \in 1..Len(kids) : kids[j].k = "elem"}} IN
                   IF S = {} THEN 0 ELSE CHOOSE r \in S : \A q \in S : q <= r
\* ruby: (base+ (rt | rp rt rp))+   states 0 start, B base, T after rt, P after opening rp, Q after rp rt, C after closing rp, X error
RECURSIVE CmRubyState(_, _)
CmRubyStep(st, nd) ==
    IF nd.k = "comment" THEN st
    ELSE IF CmIsE(nd, {N_rt}) THEN (CASE st = "B" -> "T" [] st = "P" -> "Q" [] OTHER -> "X")
    ELSE IF CmIsE(nd, {N_rp}) THEN (CASE st = "B" -> "P" [] st = "Q" -> "C" [] OTHER -> "X")
    ELSE (CASE st \in {"0", "B", "T", "C"} -> "B" [] OTHER -> "X")
CmRubyState(kids, i) == IF i = 0 THEN "0" ELSE CmRubyStep(CmRubyState(kids, i - 1), kids[i])

CmHasSub(d, sub) == \E i \in 1..Len(d) : StartsAt(d, i, sub)

-----------------------------------------------------------------------------
\* ---- the three operators ----
CmNameAllowedByFlags(cx, ch) ==
    IF ch.ns # "html" THEN TRUE
    ELSE /\ ("noA" \in cx.f => ch.n # N_a)
         /\ ("noInt" \in cx.f => ch.n \notin CmInteractive)
         /\ ("noLabel" \in cx.f => ch.n # N_label)
         /\ ("noForm" \in cx.f => ch.n # N_form)
         /\ ("noTable" \in cx.f => ch.n # N_table)
         /\ ("noHS" \in cx.f => ch.n \notin CmHeadingSection)
         /\ ("noAddr" \in cx.f => ch.n # N_address)
         /\ ("noMain" \in cx.f => ch.n # N_main)
         /\ ("noRuby" \in cx.f => ch.n # N_ruby)
         /\ ("noHF" \in cx.f => ch.n \notin {N_header, N_footer})

CmPhrasingElem(ch) == (ch.ns = "html" /\ ch.n \in CmPhrasing) \/ (ch.ns = "svg" /\ ch.n = N_svg) \/ (ch.ns = "math" /\ ch.n = N_math)
                      \/ CmIsExtension(ch)
CmFlowElem(ch)     == CmPhrasingElem(ch) \/ (ch.ns = "html" /\ ch.n \in CmFlowOnly)
\* link / meta in the body need itemprop (link: or a body-ok rel such as stylesheet)
CmBodyMetaOK(ch) == IF CmIsE(ch, {N_meta}) THEN \E i \in 1..Len(ch.a) : ch.a[i][2] = A_itemprop
                    ELSE IF CmIsE(ch, {N_link}) THEN \E i \in 1..Len(ch.a) : ch.a[i][2] \in {A_itemprop, A_rel}
                    ELSE TRUE

CmElemChildOK(cx, kids, ch) ==
    LET m == cx.m  html == ch.ns = "html" IN
    /\ CmAttrsOK(ch)
    /\ CmNameAllowedByFlags(cx, ch)
    /\ CASE m = "doc"  -> html /\ ch.n = N_html /\ ~CmAnyElem(kids) /\ (\E i \in 1..Len(kids) : kids[i].k = "doctype")
         [] m = "html" -> html /\ ((ch.n = N_head /\ ~CmAnyElem(kids)) \/ (ch.n = N_body /\ CmHasE(kids, {N_head}) /\ ~CmHasE(kids, {N_body})))
         [] m = "head" -> html /\ \/ (ch.n = N_title /\ ~CmHasE(kids, {N_title}))
                                  \/ (ch.n = N_base /\ ~CmAnyElem(kids))
                                  \/ ch.n \in {N_meta, N_link, N_style, N_script}
         [] m = "flow" ->
                IF html /\ ch.n = N_legend THEN cx.e = <<"html", N_fieldset>> /\ ~CmAnyElem(kids)
                ELSE IF html /\ ch.n = N_summary THEN cx.e = <<"html", N_details>> /\ ~CmAnyElem(kids)
                ELSE IF html /\ ch.n = N_figcaption THEN cx.e = <<"html", N_figure>> /\ ~CmAnyElem(kids)
                ELSE /\ CmFlowElem(ch) /\ CmBodyMetaOK(ch)
                     /\ (cx.e = <<"html", N_details>> => CmFirstElemIs(kids, {N_summary}))
         [] m = "phrasing" -> CmPhrasingElem(ch) /\ CmBodyMetaOK(ch)
         [] m = "list" -> html /\ ch.n = N_li
         [] m = "hgroup" -> html /\ (ch.n = N_p \/ (ch.n \in CmHeadings /\ ~CmHasE(kids, CmHeadings)))
         [] m = "dl" -> html /\ (ch.n = N_dt \/ (ch.n = N_dd /\ CmLastElemIs(kids, {N_dt, N_dd})))
         [] m = "table" -> html /\ ch.n \in {N_caption, N_colgroup, N_thead, N_tbody, N_tfoot}
                           /\ (IF ch.n \in {N_colgroup, N_tbody} THEN CmTableRank(ch.n) >= CmMaxRank(kids)
                               ELSE CmTableRank(ch.n) > CmMaxRank(kids))
         [] m = "tsect" -> html /\ ch.n = N_tr
         [] m = "tr" -> html /\ ch.n \in {N_td, N_th}
         [] m = "colgroup" -> html /\ ch.n = N_col
         [] m = "select" -> html /\ ch.n \in {N_option, N_optgroup}
         [] m = "optgroup" -> html /\ ch.n = N_option
         [] m = "ruby" -> html /\ (ch.n \in {N_rt, N_rp, N_span, N_b, N_i, N_em})
                          /\ CmRubyStep(CmRubyState(kids, Len(kids)), ch) # "X"
         [] m = "svgc" -> ch.ns = "svg" /\ ch.n \in {N_g, N_title, N_desc, N_foreignObject, N_a}
         [] m = "math" -> ch.ns = "math" /\ ch.n \in {N_mi, N_mtext, N_annotation_xml}
         [] OTHER -> FALSE                                  \* text, raw, void, unknown: no element children

CmTextChildOK(cx, kids, ch) ==
    LET m == cx.m  d == ch.d IN
    /\ CmTextOK(d)
    /\ (kids = <<>> \/ kids[Len(kids)].k # "text")
    /\ CASE m \in {"flow", "phrasing", "text"} -> (cx.e = <<"html", N_details>> => CmFirstElemIs(kids, {N_summary}) \/ AllWs(d))
         [] m = "raw" -> ~CmHasSub(d, <<60, 47>>) /\ (cx.e = <<"html", N_script>> => ~CmHasSub(d, <<60, 33, 45, 45>>))
         [] m = "ruby" -> CmRubyStep(CmRubyState(kids, Len(kids)), ch) # "X"
         [] m = "html" -> AllWs(d) /\ CmHasE(kids, {N_head}) /\ ~CmHasE(kids, {N_body})
         [] m \in {"hgroup", "head", "list", "dl", "table", "tsect", "tr", "colgroup", "select", "optgroup", "svgc", "math"} -> AllWs(d)
         [] OTHER -> FALSE
\* comment data the syntax can express: not starting with ">" or "->", no "<!--", "-->", "--!>", not ending in "<!-"
\* (the standard's rule); additionally no "--" at all and no trailing "-" (a conservative subset: older revisions of
\* the standard forbade them and html5lib's serializer reports "--" as an error)
CmCommentDataOK(d) ==
    /\ CmValueOK(d)
    /\ ~IsPrefixOf(<<62>>, d) /\ ~IsPrefixOf(<<45, 62>>, d)
    /\ ~CmHasSub(d, <<60, 33, 45, 45>>) /\ ~CmHasSub(d, <<45, 45, 62>>) /\ ~CmHasSub(d, <<45, 45, 33, 62>>)
    /\ ~(Len(d) >= 3 /\ SubSeq(d, Len(d) - 2, Len(d)) = <<60, 33, 45>>)
    /\ ~(d # <<>> /\ d[Len(d)] = 45)
    /\ ~CmHasSub(d, <<45, 45>>)
CmCommentChildOK(cx, kids, ch) ==
    /\ CmCommentDataOK(ch.d)
    /\ cx.m \notin {"text", "raw", "void", "unknown"}
CmDoctypeChildOK(cx, kids, ch) ==
    /\ cx.m = "doc" /\ ch.n = N_html /\ <<ch.p, ch.s>> \in CmDoctypes
    /\ \A i \in 1..Len(kids) : kids[i].k = "comment"

CmChildOK(cx, kids, ch) ==
    CASE ch.k = "elem" -> CmElemChildOK(cx, kids, ch)
      [] ch.k = "text" -> CmTextChildOK(cx, kids, ch)
      [] ch.k = "comment" -> CmCommentChildOK(cx, kids, ch)
      [] ch.k = "doctype" -> CmDoctypeChildOK(cx, kids, ch)
      [] OTHER -> FALSE

CmCloseOK(cx, kids) ==
    CASE cx.m = "doc" -> CmHasE(kids, {N_html})
      [] cx.m = "html" -> CmHasE(kids, {N_body})
      [] cx.m = "dl" -> ~CmLastElemIs(kids, {N_dt})
      [] cx.m = "ruby" -> CmRubyState(kids, Len(kids)) \in {"T", "C"}
      [] cx.m = "hgroup" -> CmHasE(kids, CmHeadings)
      [] cx.e = <<"html", N_details>> -> CmFirstElemIs(kids, {N_summary})
      [] cx.e = <<"html", N_title>> -> kids # <<>> /\ ~AllWs(kids[1].d)
      [] OTHER -> TRUE

-----------------------------------------------------------------------------
\* ---- the judge: is a whole tree in the modelled class? ----
RECURSIVE CmConfKids(_, _)
CmConfKids(cx, kids) ==
    /\ \A i \in 1..Len(kids) :
          /\ CmChildOK(cx, SubSeq(kids, 1, i - 1), kids[i])
          /\ (kids[i].k = "elem" => CmConfKids(CmEnter(cx, kids[i]), kids[i].c))
          /\ (kids[i].k # "elem" => kids[i].c = <<>>)
    /\ CmCloseOK(cx, kids)
CmConforming(doc) == doc.k = "doc" /\ CmConfKids(CmDocCx, doc.c)
=============================================================================
