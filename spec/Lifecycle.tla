------------------------------ MODULE Lifecycle ------------------------------
(* C12 / C16.  A parser OBJECT across calls.                                                      *)
(*                                                                                                *)
(* html5lib's HTMLParser creates its phase objects once (__init__) and re-initialises the rest in *)
(* reset() at the start of every _parse().  The record `ps` below separates                       *)
(*   PERSISTENT fields (survive reset()):                                                         *)
(*      pend    InTableTextPhase.characterTokens   pending table text (list of token data)        *)
(*      ttOrig  InTableTextPhase.originalPhase     phase to return to after the table text        *)
(*      spaceH  InBodyPhase.processSpaceCharacters the swapped whitespace handler (pre/textarea)  *)
(*      strict  HTMLParser.strict                  set by the caller                              *)
(*   PER-PARSE fields (written by _parse()/reset()/TreeBuilder.reset() before they are read):     *)
(*      mode, phase, open (stack of open element names), items (the tree, flat preorder),         *)
(*      tbl (position of the open table), errors, quirks (compatMode), form (formPointer),        *)
(*      aborted (a strict-mode ParseError was raised), outside (left the modelled vocabulary).    *)
(* The per-phase start/end tag handler caches (Phase.__startTagCache) are persistent as well; they *)
(* are modelled on their own at the end of this module (the Cache operators), because their bound is a function *)
(* of the handler table size.                                                                     *)
(*                                                                                                *)
(* One parse is Begin, then one Process per token the tokenizer delivers (ParseError tokens       *)
(* included, EOF as a pseudo token), written as a tree-construction machine for a RESTRICTED      *)
(* VOCABULARY that touches every persistent field: <!DOCTYPE html>, start tags table pre listing   *)
(* textarea p form u1..u5 (unknown), end tags of those, Characters, SpaceCharacters, NUL,          *)
(* comments, <meta ...> in the body (the late encoding declaration that makes _parse() reset the   *)
(* object and start over: pseudo token Reparse).  Inside that vocabulary the machine is exact (trees, error codes, abort points).      *)
(* Anything else sets `outside` and the verdict is "outside" (never accept, never reject).         *)
(*                                                                                                *)
(* Deviation of the code carried as a named branch (CONSTANT KnownDefects):                       *)
(*   "table-text-survives-abort"  reset() does not clear InTableTextPhase.characterTokens, so text *)
(*                                pending when a call is aborted is inserted into a later document *)
(* Intended design (KnownDefects = {}): Begin clears it.                                           *)
(* spaceH is NOT reset by the code either; it is kept that way in both configurations, because    *)
(* TLC shows (ThmLockstep) that it cannot influence any result: every element that makes the      *)
(* "drop" handler behave differently sets the handler itself when it is inserted.                 *)
EXTENDS Naturals, Integers, Sequences, FiniteSets
CONSTANT KnownDefects

Last(s)  == s[Len(s)]
Front(s) == SubSeq(s, 1, Len(s) - 1)
IsSp(c)  == c \in {9, 10, 12, 13, 32}
AllSpace(d) == \A i \in 1..Len(d) : IsSp(d[i])
RECURSIVE Concat(_)
Concat(ss) == IF ss = <<>> THEN <<>> ELSE Head(ss) \o Concat(Tail(ss))

Unknown    == {"u1", "u2", "u3", "u4", "u5"}
DropElems  == {"pre", "listing", "textarea"}
StartNames == {"table", "pre", "listing", "textarea", "p", "form"} \cup Unknown
EndNames   == {"table", "pre", "listing", "textarea", "p"} \cup Unknown
Special    == {"html", "body", "p", "pre", "listing", "form", "table", "textarea"}
Containers == {"div", "table", "pre", "p", "textarea", "span"}
EofAllowed == {"p", "body", "html"}

-----------------------------------------------------------------------------
\* --- the object ---
NewParser ==
    [pend |-> <<>>, ttOrig |-> "none", spaceH |-> "nonpre", strict |-> FALSE,
     mode |-> "none", frag |-> "", phase |-> "idle", open |-> <<>>, items |-> <<>>, tbl |-> 0, errors |-> <<>>,
     quirks |-> FALSE, form |-> FALSE, aborted |-> FALSE, outside |-> FALSE, fired |-> {}]

\* element names are ASCII case-insensitive: the container of parseFragment() is lower-cased, however it is passed
\* (keyword or positional argument); the spellings the harness uses
LowerName(n) == CASE n \in {"DIV", "Div"} -> "div"  [] n \in {"TABLE", "Table"} -> "table"  [] n \in {"PRE", "Pre"} -> "pre"
                  [] n = "P" -> "p"  [] n \in {"TEXTAREA", "Textarea", "TextArea"} -> "textarea"  [] n \in {"SPAN", "Span"} -> "span"
                  [] OTHER -> n
\* HTMLParser._parse up to and including reset(): frag = "" for parse(), the container name for parseFragment()
LcBeginL(ps, frag, strict) ==
    LET keep == "table-text-survives-abort" \in KnownDefects
        p0 == [ps EXCEPT !.strict = strict, !.errors = <<>>, !.items = <<>>, !.tbl = 0, !.quirks = FALSE,
                         !.form = FALSE, !.aborted = FALSE,
                         !.pend = IF keep THEN @ ELSE <<>>,
                         !.fired = IF keep /\ ps.pend # <<>> THEN {"table-text-survives-abort"} ELSE {}]
    IN IF frag = ""
       THEN [p0 EXCEPT !.mode = "doc", !.frag = "", !.phase = "initial", !.open = <<>>, !.outside = FALSE]
       ELSE [p0 EXCEPT !.mode = "frag", !.frag = frag, !.open = <<"html">>,                  \* beforeHtml.insertHtmlElement()
                       !.phase = IF frag = "table" THEN "inTable" ELSE "inBody",   \* resetInsertionMode()
                       !.outside = frag \notin Containers]
\* Argument values outside the documented domain of `container` (None, the empty string, a non-string; the harness writes
\* them "#None", "#empty", "#int"): the call is REJECTED - it raises before a single token is read, on every object alike,
\* and leaves the persistent fields alone.  (A value that is not accepted must not acquire a meaning that depends on
\* what the object parsed before.)
BadContainers == {"#None", "#empty", "#int"}
LcBegin(ps, frag, strict) ==
    IF frag \in BadContainers
    THEN [ps EXCEPT !.strict = strict, !.mode = "frag", !.frag = frag, !.phase = "rejected", !.open = <<>>, !.items = <<>>, !.tbl = 0,
                    !.errors = <<>>, !.quirks = FALSE, !.form = FALSE, !.aborted = FALSE, !.outside = FALSE, !.fired = {}]
    ELSE LcBeginL(ps, LowerName(frag), strict)

Stop(ps) == ps.aborted \/ ps.outside
ChildDepth(ps) == IF ps.mode = "doc" THEN Len(ps.open) ELSE Len(ps.open) - 1
Top(ps) == Last(ps.open)

\* HTMLParser.parseError: record, then raise when strict
Err(ps, code) == IF Stop(ps) THEN ps ELSE [ps EXCEPT !.errors = Append(@, code), !.aborted = ps.strict]
Outside(ps)   == IF Stop(ps) THEN ps ELSE [ps EXCEPT !.outside = TRUE]

Item(d, n, t) == [d |-> d, n |-> n, t |-> t]
InsElem(ps, name) ==
    IF Stop(ps) THEN ps
    ELSE [ps EXCEPT !.items = Append(@, Item(ChildDepth(ps), name, <<>>)), !.open = Append(@, name)]
\* a void element handled by the in-head rules from the body (meta): inserted and popped at once
InsVoid(ps, name, nattrs) ==
    IF Stop(ps) THEN ps
    ELSE [ps EXCEPT !.items = Append(@, Item(ChildDepth(ps), name, IF nattrs = 0 THEN <<>> ELSE <<nattrs>>))]
InsLeaf(ps, kind, data, depth) ==
    IF Stop(ps) THEN ps ELSE [ps EXCEPT !.items = Append(@, Item(depth, kind, data))]
\* TreeBuilder.insertText into the current node: the subtree of the current node is a suffix of `items`
InsText(ps, data) ==
    IF Stop(ps) \/ data = <<>> THEN ps
    ELSE LET d == ChildDepth(ps) IN
         IF ps.items # <<>> /\ Last(ps.items).n = "#text" /\ Last(ps.items).d = d
         THEN [ps EXCEPT !.items[Len(ps.items)].t = @ \o data]
         ELSE [ps EXCEPT !.items = Append(@, Item(d, "#text", data))]
\* foster parenting of text (insertFromTable, current node a table): before the table in its parent
FosterText(ps, data) ==
    IF Stop(ps) \/ data = <<>> THEN ps
    ELSE IF ps.tbl = 0 \/ Top(ps) # "table" THEN InsText(ps, data)
    ELSE LET i == ps.tbl  d == ps.items[i].d IN
         IF i > 1 /\ ps.items[i - 1].n = "#text" /\ ps.items[i - 1].d = d
         THEN [ps EXCEPT !.items[i - 1].t = @ \o data]
         ELSE [ps EXCEPT !.items = SubSeq(@, 1, i - 1) \o <<Item(d, "#text", data)>> \o SubSeq(@, i, Len(@)),
                         !.tbl = i + 1]
NoContent(ps) == ps.items # <<>> /\ Last(ps.items).d = ChildDepth(ps) - 1 /\ Last(ps.items).n \notin {"#text", "#comment", "#doctype"}

\* --- stack helpers ---
RECURSIVE LastIndex(_, _)
LastIndex(s, x) == IF s = <<>> THEN 0 ELSE IF Last(s) = x THEN Len(s) ELSE LastIndex(Front(s), x)
\* elementInScope(name, variant): walk down from the top until name or a terminator
RECURSIVE InScopeT(_, _, _)
InScopeT(s, x, term) == IF s = <<>> THEN FALSE ELSE IF Last(s) = x THEN TRUE
                        ELSE IF Last(s) \in term THEN FALSE ELSE InScopeT(Front(s), x, term)
InScope(ps, x)       == InScopeT(ps.open, x, {"html", "table"})
InButtonScope(ps, x) == InScopeT(ps.open, x, {"html", "table"})          \* button itself is not in the vocabulary
InTableScope(ps, x)  == InScopeT(ps.open, x, {"html", "table"})
PopTo(ps, i) == IF Stop(ps) THEN ps ELSE [ps EXCEPT !.open = SubSeq(@, 1, i - 1)]     \* pop until open[i] is popped
\* generateImpliedEndTags(exclude): of the implied-end-tag elements only p is in the vocabulary
RECURSIVE GenImplied(_, _)
GenImplied(ps, exclude) ==
    IF Stop(ps) \/ ps.open = <<>> THEN ps
    ELSE IF Top(ps) = "p" /\ exclude # "p" THEN GenImplied([ps EXCEPT !.open = Front(@)], exclude) ELSE ps
\* HTMLParser.resetInsertionMode restricted to the vocabulary
RECURSIVE ResetModeAt(_, _)
ResetModeAt(ps, i) ==
    IF i = 0 THEN "inBody"
    ELSE IF i = 1 /\ ps.mode = "frag" THEN "inBody"          \* container table cannot get here (no table is ever pushed)
    ELSE IF ps.open[i] = "table" THEN "inTable"
    ELSE IF ps.open[i] = "body" THEN "inBody"
    ELSE ResetModeAt(ps, i - 1)
ResetMode(ps) == IF Stop(ps) THEN ps ELSE [ps EXCEPT !.phase = ResetModeAt(ps, Len(ps.open))]

-----------------------------------------------------------------------------
\* --- in body ---
EndTagP(ps) ==     \* InBodyPhase.endTagP
    IF Stop(ps) THEN ps
    ELSE IF ~InButtonScope(ps, "p")
    THEN LET s1 == InsElem(ps, "p")                         \* startTagCloseP(implied <p>)
             s2 == Err(s1, "unexpected-end-tag")
         IN PopTo(s2, LastIndex(s2.open, "p"))               \* endTagP again: now in scope and current
    ELSE LET s1 == GenImplied(ps, "p")
             s2 == IF Top(s1) # "p" THEN Err(s1, "unexpected-end-tag") ELSE s1
         IN PopTo(s2, LastIndex(s2.open, "p"))
CloseP(ps) == IF Stop(ps) THEN ps ELSE IF InButtonScope(ps, "p") THEN EndTagP(ps) ELSE ps

EndTagBlock(ps, name) ==     \* InBodyPhase.endTagBlock (pre, listing)
    IF Stop(ps) THEN ps
    ELSE LET s0 == IF name = "pre" THEN [ps EXCEPT !.spaceH = "nonpre"] ELSE ps
             in == InScope(s0, name)
             s1 == IF in THEN GenImplied(s0, "") ELSE s0
             s2 == IF Top(s1) # name THEN Err(s1, "end-tag-too-early") ELSE s1
         IN IF in THEN PopTo(s2, LastIndex(s2.open, name)) ELSE s2

RECURSIVE EndTagOtherAt(_, _, _)
EndTagOtherAt(ps, name, i) ==     \* InBodyPhase.endTagOther, loop over the stack from the top
    IF Stop(ps) \/ i = 0 THEN ps
    ELSE IF ps.open[i] = name
         THEN LET s1 == GenImplied(ps, name)
                  s2 == IF Top(s1) # name THEN Err(s1, "unexpected-end-tag") ELSE s1
              IN PopTo(s2, i)
    ELSE IF ps.open[i] \in Special THEN Err(ps, "unexpected-end-tag")
    ELSE EndTagOtherAt(ps, name, i - 1)

SpaceInBody(ps, data) ==     \* InBodyPhase.processSpaceCharacters: the swapped handler
    IF Stop(ps) THEN ps
    ELSE IF ps.spaceH = "drop"
    THEN LET s1 == [ps EXCEPT !.spaceH = "nonpre"]
             d2 == IF data # <<>> /\ data[1] = 10 /\ Top(ps) \in DropElems /\ NoContent(ps) THEN Tail(data) ELSE data
         IN InsText(s1, d2)
    ELSE InsText(ps, data)

EofInBody(ps) ==
    LET s1 == IF \E i \in 1..Len(ps.open) : ps.open[i] \notin EofAllowed
              THEN Err(ps, "expected-closing-tag-but-got-eof") ELSE ps
    IN IF Stop(s1) THEN s1 ELSE [s1 EXCEPT !.phase = "done"]

StartInBody(ps, n) ==
    CASE n = "p"                    -> InsElem(CloseP(ps), "p")
      [] n \in {"pre", "listing"}   -> LET s1 == InsElem(CloseP(ps), n) IN IF Stop(s1) THEN s1 ELSE [s1 EXCEPT !.spaceH = "drop"]
      [] n = "textarea"             -> LET s1 == InsElem(ps, n) IN IF Stop(s1) THEN s1 ELSE [s1 EXCEPT !.spaceH = "drop"]
      [] n = "table"                -> LET s0 == IF ps.quirks THEN ps ELSE CloseP(ps)
                                           s1 == InsElem(s0, "table")
                                       IN IF Stop(s1) THEN s1 ELSE [s1 EXCEPT !.tbl = Len(s1.items), !.phase = "inTable"]
      [] n = "form"                 -> IF ps.form THEN Err(ps, "unexpected-start-tag")
                                       ELSE LET s1 == InsElem(CloseP(ps), "form") IN IF Stop(s1) THEN s1 ELSE [s1 EXCEPT !.form = TRUE]
      [] n \in Unknown              -> InsElem(ps, n)
      [] OTHER                      -> Outside(ps)

EndInBody(ps, n) ==
    CASE n = "p"                    -> EndTagP(ps)
      [] n \in {"pre", "listing"}   -> EndTagBlock(ps, n)
      [] n \in EndNames             -> EndTagOtherAt(ps, n, Len(ps.open))
      [] OTHER                      -> Outside(ps)

\* --- table text ---
Flush(ps) ==     \* InTableTextPhase.flushCharacters
    IF Stop(ps) THEN ps
    ELSE LET data == Concat(ps.pend)
             s1 == IF ~AllSpace(data) THEN FosterText(ps, data) ELSE InsText(ps, data)
         IN [s1 EXCEPT !.pend = <<>>]

EndTagTable(ps) ==     \* InTablePhase.endTagTable
    IF Stop(ps) THEN ps
    ELSE IF InTableScope(ps, "table")
    THEN LET s1 == GenImplied(ps, "")
             s2 == IF Top(s1) # "table" THEN Err(s1, "end-tag-too-early-named") ELSE s1
             s3 == PopTo(s2, LastIndex(s2.open, "table"))
         IN IF Stop(s3) THEN s3 ELSE ResetMode([s3 EXCEPT !.tbl = 0])
    ELSE Err(ps, "XXX-undefined-error")

EnterBody(ps) ==     \* beforeHtml -> beforeHead -> inHead -> afterHead -> inBody for a token none of them keeps
    [ps EXCEPT !.items = @ \o <<Item(0, "html", <<>>), Item(1, "head", <<>>), Item(1, "body", <<>>)>>,
               !.open = <<"html", "body">>, !.phase = "inBody"]

-----------------------------------------------------------------------------
\* --- one token (type k, name n, data d, attribute info a); reprocessing is recursion ---
RECURSIVE Process(_, _)
PInitial(ps, tok) ==
    CASE tok.k = "SpaceCharacters" -> ps
      [] tok.k = "Comment"         -> InsLeaf(ps, "#comment", tok.d, 0)
      [] tok.k = "Doctype"         -> IF tok.n = "html" /\ tok.a = 0
                                      THEN [InsLeaf(ps, "#doctype", <<104, 116, 109, 108>>, 0) EXCEPT !.phase = "beforeHtml"]
                                      ELSE Outside(ps)
      [] OTHER ->
         LET code == CASE tok.k = "Characters" -> "expected-doctype-but-got-chars"
                       [] tok.k = "StartTag"   -> "expected-doctype-but-got-start-tag"
                       [] tok.k = "EndTag"     -> "expected-doctype-but-got-end-tag"
                       [] OTHER                -> "expected-doctype-but-got-eof"
             s1 == Err(ps, code)
         IN IF Stop(s1) THEN s1 ELSE Process([s1 EXCEPT !.quirks = TRUE, !.phase = "beforeHtml"], tok)
PBeforeHtml(ps, tok) ==
    CASE tok.k = "SpaceCharacters" -> ps
      [] tok.k = "Comment"         -> InsLeaf(ps, "#comment", tok.d, 0)
      [] tok.k = "Doctype"         -> Err(ps, "unexpected-doctype")
      [] tok.k = "EndTag"          -> IF tok.n \in EndNames THEN Err(ps, "unexpected-end-tag-before-html") ELSE Outside(ps)
      [] tok.k = "StartTag"        -> IF tok.n \in StartNames /\ tok.a = 0 THEN Process(EnterBody(ps), tok) ELSE Outside(ps)
      [] OTHER                     -> Process(EnterBody(ps), tok)          \* Characters, EOF
PInBody(ps, tok) ==
    CASE tok.k = "Characters"      -> IF tok.d = <<0>> THEN ps ELSE InsText(ps, tok.d)
      [] tok.k = "SpaceCharacters" -> SpaceInBody(ps, tok.d)
      [] tok.k = "Comment"         -> InsLeaf(ps, "#comment", tok.d, ChildDepth(ps))
      [] tok.k = "Doctype"         -> Err(ps, "unexpected-doctype")
      [] tok.k = "StartTag"        -> IF tok.n = "meta" /\ tok.a \in 0..3 THEN InsVoid(ps, "meta", tok.a)
                                      ELSE IF tok.a = 0 THEN StartInBody(ps, tok.n) ELSE Outside(ps)
      [] tok.k = "EndTag"          -> EndInBody(ps, tok.n)
      [] OTHER                     -> EofInBody(ps)
PInTableText(ps, tok) ==
    CASE tok.k = "Characters"      -> IF tok.d = <<0>> THEN ps ELSE [ps EXCEPT !.pend = Append(@, tok.d)]
      [] tok.k = "SpaceCharacters" -> [ps EXCEPT !.pend = Append(@, tok.d)]
      [] tok.k = "Doctype"         -> Err(ps, "unexpected-doctype")
      [] OTHER                     -> LET s1 == Flush(ps) IN Process([s1 EXCEPT !.phase = s1.ttOrig], tok)
PInTable(ps, tok) ==
    CASE tok.k \in {"Characters", "SpaceCharacters"}
                                   -> PInTableText([ps EXCEPT !.ttOrig = "inTable", !.phase = "inTableText"], tok)
      [] tok.k = "Comment"         -> InsLeaf(ps, "#comment", tok.d, ChildDepth(ps))
      [] tok.k = "Doctype"         -> Err(ps, "unexpected-doctype")
      [] tok.k = "StartTag"        -> IF tok.n = "table" /\ tok.a = 0
                                      THEN LET s1 == EndTagTable(Err(ps, "unexpected-start-tag-implies-end-tag"))
                                           IN IF Stop(s1) \/ s1.mode = "frag" THEN s1 ELSE Process(s1, tok)
                                      ELSE Outside(ps)
      [] tok.k = "EndTag"          -> IF tok.n = "table" THEN EndTagTable(ps) ELSE Outside(ps)
      [] OTHER                     -> LET s1 == IF Top(ps) # "html" THEN Err(ps, "eof-in-table") ELSE ps
                                      IN IF Stop(s1) THEN s1 ELSE [s1 EXCEPT !.phase = "done"]
\* HTMLParser._parse: `except _ReparseException: self.reset(); self.mainLoop()` - the encoding changed (late <meta>),
\* the same call starts over on the same object; the recorder marks the point with the pseudo token "Reparse"
Reparse(ps) == LET p1 == LcBegin(ps, ps.frag, ps.strict) IN [p1 EXCEPT !.fired = @ \cup ps.fired]
Process(ps, tok) ==
    IF Stop(ps) \/ ps.phase = "rejected" THEN ps
    ELSE IF tok.k = "Reparse" THEN Reparse(ps)
    ELSE IF ps.phase = "done" THEN ps
    ELSE IF tok.k = "ParseError" THEN Err(ps, tok.n)          \* mainLoop: tokenizer / stream errors
    ELSE CASE ps.phase = "initial"     -> PInitial(ps, tok)
           [] ps.phase = "beforeHtml"  -> PBeforeHtml(ps, tok)
           [] ps.phase = "inBody"      -> PInBody(ps, tok)
           [] ps.phase = "inTable"     -> PInTable(ps, tok)
           [] ps.phase = "inTableText" -> PInTableText(ps, tok)
           [] OTHER                    -> Outside(ps)

RECURSIVE Run(_, _)
Run(ps, toks) == IF toks = <<>> THEN ps ELSE Run(Process(ps, Head(toks)), Tail(toks))

-----------------------------------------------------------------------------
\* --- observables ---
\* what the call returns: the etree builder returns the <html> element, so document-level leaves are invisible there
RECURSIVE Filter0(_)
Filter0(items) == IF items = <<>> THEN <<>>
                  ELSE IF Head(items).d = 0 /\ Head(items).n \in {"#comment", "#doctype"} THEN Filter0(Tail(items))
                  ELSE <<Head(items)>> \o Filter0(Tail(items))
TreeView(ps, tb) == IF tb = "etree" /\ ps.mode = "doc" THEN Filter0(ps.items) ELSE ps.items
PerParse(ps) == [mode |-> ps.mode, frag |-> ps.frag, phase |-> ps.phase, open |-> ps.open, items |-> ps.items, tbl |-> ps.tbl,
                 errors |-> ps.errors, quirks |-> ps.quirks, form |-> ps.form, aborted |-> ps.aborted,
                 outside |-> ps.outside]
Persistent(ps) == [pend |-> ps.pend, spaceH |-> ps.spaceH]

\* --- C16: the strict-mode clauses, stated on (errors of the non-strict run, outcome and errors of the strict run) ---
StrictIff(nsErrs, stOut)        == (stOut = "ParseError") <=> (nsErrs # <<>>)
StrictClass(stOut)              == stOut \in {"ok", "ParseError"}
StrictFirst(nsErrs, stOut, stErrs) == stOut = "ParseError" => (nsErrs # <<>> /\ stErrs = <<nsErrs[1]>>)

-----------------------------------------------------------------------------
\* --- Phase.processStartTag / processEndTag: the bounded handler cache (FIFO eviction on CPython >= 3.7) ---
\* Table = the set of names with an own handler, Handler(name) = name if name \in Table else "default";
\* limit = len(handler table) * 1.1 (the while loop evicts while len(cache) > limit, i.e. 10 * len > 11 * n)
Handler(table, name) == IF name \in table THEN name ELSE "default"
RECURSIVE Evict(_, _)
Evict(cache, n) == IF 10 * Len(cache) > 11 * n THEN Evict(Tail(cache), n) ELSE cache
CacheHas(cache, name) == \E i \in 1..Len(cache) : cache[i].name = name
CacheGet(cache, name) == (CHOOSE i \in 1..Len(cache) : cache[i].name = name)
\* returns [cache, func]: func is what the call dispatches to
CacheStep(cache, table, name) ==
    IF CacheHas(cache, name) THEN [cache |-> cache, func |-> cache[CacheGet(cache, name)].func]
    ELSE LET f == Handler(table, name)
         IN [cache |-> Evict(Append(cache, [name |-> name, func |-> f]), Cardinality(table)), func |-> f]
CacheSound(cache, table) == \A i \in 1..Len(cache) : cache[i].func = Handler(table, cache[i].name)
CacheBounded(cache, table) == 10 * Len(cache) <= 11 * Cardinality(table)
\* --- _utils.moduleFactoryFactory: the process-wide cache behind getTreeBuilder / getTreeWalker ---
\* A request names an implementation kind and passes options (for the etree builder: fullTree absent / TRUE / FALSE).
\* The module built for a request is a function of the option VALUES (absent = the default, FALSE); the cache must be
\* keyed by them.  KeyNamesOnly = TRUE is the alternative in which only the option NAMES enter the key (expressible so
\* that TLC can show what the theorem excludes); html5lib as it is: FALSE.
FullOf(req)    == IF req.full = "true" THEN TRUE ELSE FALSE                \* "absent" and "false" both mean the default
FactoryKey(req, KeyNamesOnly) ==
    IF KeyNamesOnly THEN [kind |-> req.kind, names |-> IF req.full = "absent" THEN "" ELSE "fullTree", val |-> ""]
    ELSE [kind |-> req.kind, names |-> IF req.full = "absent" THEN "" ELSE "fullTree", val |-> req.full]
\* returns [cache, full]: full = the variant of the module handed out
FactoryStep(cache, req, KeyNamesOnly) ==
    LET k == FactoryKey(req, KeyNamesOnly) IN
    IF \E i \in 1..Len(cache) : cache[i].key = k
    THEN [cache |-> cache, full |-> cache[CHOOSE i \in 1..Len(cache) : cache[i].key = k].full]
    ELSE [cache |-> Append(cache, [key |-> k, full |-> FullOf(req)]), full |-> FullOf(req)]
=============================================================================
