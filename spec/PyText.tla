------------------------------- MODULE PyText -------------------------------
(* Python text primitives that html5lib's sanitizer is written in, by their EFFECT on         *)
(* code-point sequences (TLC has no regular expressions and its strings are atoms).           *)
(* Non-ASCII members of \s \w \d come from Gen_PyRe (generated from Python's re, not from     *)
(* html5lib); everything is index based (s, i) so that evaluation is linear.                  *)
EXTENDS Unicode, Gen_PyRe

InRangesPy(c, R) == \E i \in 1..Len(R) : R[i][1] <= c /\ c <= R[i][2]
PySpace(c) == IF c < 128 THEN (c >= 9 /\ c <= 13) \/ (c >= 28 /\ c <= 32) ELSE InRangesPy(c, PySpaceRanges)   \* \s, str.isspace
PyWord(c)  == IF c < 128 THEN IsAlnum(c) \/ c = 95 ELSE InRangesPy(c, PyWordRanges)                             \* \w
PyDigit(c) == IF c < 128 THEN IsDigit(c) ELSE InRangesPy(c, PyDigitRanges)                                      \* \d

\* str.lower(): exact on ASCII; U+212A KELVIN SIGN and U+0130 are the only non-ASCII code points whose
\* lower() contains an ASCII character (checked by harness/pyre.py); every other non-ASCII code point
\* lowers to non-ASCII text whose identity nothing in the sanitizer depends on.
LowerPyC(c) == IF IsUpper(c) THEN <<c + 32>> ELSE IF c = 8490 THEN <<107>> ELSE IF c = 304 THEN <<105, 775>> ELSE <<c>>
RECURSIVE LowerPyFrom(_, _)
LowerPyFrom(s, i) == IF i > Len(s) THEN <<>> ELSE LowerPyC(s[i]) \o LowerPyFrom(s, i + 1)
LowerPy(s) == LowerPyFrom(s, 1)

\* str.replace(pat, rep): leftmost, non-overlapping
RECURSIVE ReplFrom(_, _, _, _)
ReplFrom(s, i, pat, rep) ==
    IF i > Len(s) THEN <<>>
    ELSE IF StartsAt(s, i, pat) THEN rep \o ReplFrom(s, i + Len(pat), pat, rep)
    ELSE <<s[i]>> \o ReplFrom(s, i + 1, pat, rep)
Replace(s, pat, rep) == IF \E i \in 1..Len(s) : s[i] = pat[1] THEN ReplFrom(s, 1, pat, rep) ELSE s

T_lt == <<38, 108, 116, 59>>            \* "&lt;"
T_gt == <<38, 103, 116, 59>>            \* "&gt;"
T_amp == <<38, 97, 109, 112, 59>>       \* "&amp;"
\* xml.sax.saxutils.unescape / escape (no extra entities)
SaxUnescape(s) == Replace(Replace(Replace(s, T_lt, <<60>>), T_gt, <<62>>), T_amp, <<38>>)
SaxEscape(s)   == Replace(Replace(Replace(s, <<38>>, T_amp), <<62>>, T_gt), <<60>>, T_lt)

\* first index >= i that is not whitespace (Len+1 if none): the effect of a greedy \s*
RECURSIVE SkipWs(_, _)
SkipWs(s, i) == IF i <= Len(s) /\ PySpace(s[i]) THEN SkipWs(s, i + 1) ELSE i
\* first index >= i that is whitespace (Len+1 if none)
RECURSIVE NonWsEnd(_, _)
NonWsEnd(s, i) == IF i <= Len(s) /\ ~PySpace(s[i]) THEN NonWsEnd(s, i + 1) ELSE i
\* str.split()
RECURSIVE SplitWsFrom(_, _)
SplitWsFrom(s, i) == LET a == SkipWs(s, i) IN
                     IF a > Len(s) THEN <<>>
                     ELSE LET b == NonWsEnd(s, a) IN <<SubSeq(s, a, b - 1)>> \o SplitWsFrom(s, b)
SplitWs(s) == SplitWsFrom(s, 1)
\* first index >= i holding code point c, 0 if none
RECURSIVE IndexOf(_, _, _)
IndexOf(s, i, c) == IF i > Len(s) THEN 0 ELSE IF s[i] = c THEN i ELSE IndexOf(s, i + 1, c)
\* first index >= i holding a code point of set C, Len+1 if none
RECURSIVE FirstOf(_, _, _)
FirstOf(s, i, C) == IF i > Len(s) THEN i ELSE IF s[i] \in C THEN i ELSE FirstOf(s, i + 1, C)
\* last index <= i that is not whitespace, 0 if none
RECURSIVE LastNonWs(_, _)
LastNonWs(s, i) == IF i >= 1 /\ PySpace(s[i]) THEN LastNonWs(s, i - 1) ELSE i
TrimPy(s) == SubSeq(s, SkipWs(s, 1), LastNonWs(s, Len(s)))       \* str.strip()
=============================================================================
