---------------------------- MODULE OptionalTags ----------------------------
(* C13.  The optional-tags filter as a three-token sliding-window machine (transcribed from   *)
(* what the filter does, with its deviations from the HTML syntax as NAMED branches), and,    *)
(* independently, the HTML standard's tag-omission relation MayOmit (section "Optional tags").*)
(* Walker-stream conventions assumed: Characters tokens never start with ASCII whitespace     *)
(* (leading whitespace is a SpaceCharacters token); streams are balanced.                     *)
EXTENDS Unicode, Gen_Names
CONSTANT KnownDefects
DefectNames == {"ot-html-substring", "ot-p-end-dialog-datagrid", "ot-p-end-parent-unchecked",
                "ot-body-start-before-meta-link-template", "ot-foreign-unchecked"}

NoTok == [t |-> "None", n |-> None, ns |-> None, a |-> <<>>, d |-> <<>>, p |-> None, s |-> None]
IsHtmlNs(ns) == ns = None \/ ns = NS_html
IsElem(tok, names) == tok.t \in {"StartTag", "EmptyTag"} /\ tok.n \in names
NextIsEndOrNone(nx) == nx.t \in {"EndTag", "None"}
IsSubstringOfHtml(n) == \E i \in 1..5 : \E j \in (i - 1)..4 : n = SubSeq(N_html, i, j)   \* includes ""

PFollowersCode == {N_address, N_article, N_aside, N_blockquote, N_datagrid, N_dialog, N_dir, N_div, N_dl,
                   N_fieldset, N_footer, N_form, N_h1, N_h2, N_h3, N_h4, N_h5, N_h6, N_header, N_hr, N_menu,
                   N_nav, N_ol, N_p, N_pre, N_section, N_table, N_ul}
\* ASSUMED: the obsolete element dir is accepted as a follower as the code does (the parser closes p before it)
PFollowersStd  == {N_dir, N_address, N_article, N_aside, N_blockquote, N_details, N_div, N_dl, N_fieldset, N_figcaption,
                   N_figure, N_footer, N_form, N_h1, N_h2, N_h3, N_h4, N_h5, N_h6, N_header, N_hgroup, N_hr, N_main,
                   N_menu, N_nav, N_ol, N_p, N_pre, N_section, N_table, N_ul}
PBadParents    == {N_a, N_audio, N_del, N_ins, N_map, N_noscript, N_video}
IsCustomName(n) == Contains(n, 45)          \* autonomous custom element names contain "-"

-----------------------------------------------------------------------------
\* ---------- the machine: does the filter DROP token `tok` given its neighbours? ----------
\* parent = [n, ns] of the innermost open element around tok (NoTok-like record with n = None if none)
On(d, D) == d \in D

OptionalStart(tok, prev, nx, D) ==
    LET name == tok.n  ty == nx.t IN
    IF (IF On("ot-html-substring", D) THEN IsSubstringOfHtml(name) ELSE name = N_html)
        THEN ty \notin {"Comment", "SpaceCharacters"}
    ELSE IF name = N_head
        THEN IF ty \in {"StartTag", "EmptyTag"} THEN TRUE
             ELSE IF ty = "EndTag" THEN nx.n = N_head ELSE FALSE
    ELSE IF name = N_body
        THEN IF ty \in {"Comment", "SpaceCharacters"} THEN FALSE
             ELSE IF ty = "StartTag"
                  THEN nx.n \notin (IF On("ot-body-start-before-meta-link-template", D) THEN {N_script, N_style}
                                    ELSE {N_script, N_style, N_meta, N_link, N_template})
             ELSE IF ty = "EmptyTag" /\ ~On("ot-body-start-before-meta-link-template", D)
                  THEN nx.n \notin {N_meta, N_link}
             ELSE TRUE
    ELSE IF name = N_colgroup
        THEN IF ty \in {"StartTag", "EmptyTag"} THEN nx.n = N_col ELSE FALSE
    ELSE IF name = N_tbody
        THEN IF ty = "StartTag"
             THEN IF prev.t = "EndTag" /\ prev.n \in {N_tbody, N_thead, N_tfoot} THEN FALSE ELSE nx.n = N_tr
             ELSE FALSE
    ELSE FALSE

OptionalEnd(tok, nx, parent, D) ==
    LET name == tok.n  ty == nx.t IN
    IF name \in {N_html, N_head, N_body} THEN ty \notin {"Comment", "SpaceCharacters"}
    ELSE IF name \in {N_li, N_optgroup, N_tr}
        THEN IF ty = "StartTag" THEN nx.n = name ELSE NextIsEndOrNone(nx)
    ELSE IF name \in {N_dt, N_dd}
        THEN IF ty = "StartTag" THEN nx.n \in {N_dt, N_dd}
             ELSE IF name = N_dd THEN NextIsEndOrNone(nx) ELSE FALSE
    ELSE IF name = N_p
        THEN IF ty \in {"StartTag", "EmptyTag"}
             THEN nx.n \in (IF On("ot-p-end-dialog-datagrid", D) THEN PFollowersCode
                            ELSE PFollowersCode \ {N_dialog, N_datagrid})
             ELSE /\ NextIsEndOrNone(nx)
                  /\ (On("ot-p-end-parent-unchecked", D) \/ parent.n = None
                      \/ (IsHtmlNs(parent.ns) /\ parent.n \notin PBadParents /\ ~IsCustomName(parent.n)))
    ELSE IF name = N_option
        THEN IF ty = "StartTag" THEN nx.n \in {N_option, N_optgroup} ELSE NextIsEndOrNone(nx)
    ELSE IF name \in {N_rt, N_rp}
        THEN IF ty = "StartTag" THEN nx.n \in {N_rt, N_rp} ELSE NextIsEndOrNone(nx)
    ELSE IF name = N_colgroup
        THEN IF ty \in {"Comment", "SpaceCharacters"} THEN FALSE
             ELSE IF ty = "StartTag" THEN nx.n # N_colgroup ELSE TRUE
    ELSE IF name \in {N_thead, N_tbody}
        THEN IF ty = "StartTag" THEN nx.n \in {N_tbody, N_tfoot}
             ELSE IF name = N_tbody THEN NextIsEndOrNone(nx) ELSE FALSE
    ELSE IF name = N_tfoot
        THEN IF ty = "StartTag" THEN nx.n = N_tbody ELSE NextIsEndOrNone(nx)
    ELSE IF name \in {N_td, N_th}
        THEN IF ty = "StartTag" THEN nx.n \in {N_td, N_th} ELSE NextIsEndOrNone(nx)
    ELSE FALSE

ForeignOk(tok, nx, D) ==
    On("ot-foreign-unchecked", D) \/ (IsHtmlNs(tok.ns) /\ (nx.t \notin {"StartTag", "EmptyTag"} \/ IsHtmlNs(nx.ns)))

Drops(tok, prev, nx, parent, D) ==
    IF tok.t = "StartTag" THEN tok.a = <<>> /\ OptionalStart(tok, prev, nx, D) /\ ForeignOk(tok, nx, D)
    ELSE IF tok.t = "EndTag" THEN OptionalEnd(tok, nx, parent, D) /\ ForeignOk(tok, nx, D)
    ELSE FALSE

\* open elements (as [n, ns]) after the first k tokens of a balanced stream
RECURSIVE OpenAfter(_, _)
OpenAfter(toks, k) ==
    IF k = 0 THEN <<>>
    ELSE LET o == OpenAfter(toks, k - 1) t == toks[k] IN
         IF t.t = "StartTag" THEN Append(o, [n |-> t.n, ns |-> t.ns])
         ELSE IF t.t = "EndTag" /\ o # <<>> THEN Front(o)
         ELSE o
\* parent of the element that token i (a start or end tag) belongs to
ParentAt(toks, i) ==
    LET o == IF toks[i].t = "EndTag" THEN OpenAfter(toks, i) ELSE OpenAfter(toks, i - 1)
    IN IF o = <<>> THEN [n |-> None, ns |-> None] ELSE Last(o)
At(toks, i) == IF i >= 1 /\ i <= Len(toks) THEN toks[i] ELSE NoTok

DropsAt(toks, i, D) == Drops(toks[i], At(toks, i - 1), At(toks, i + 1), ParentAt(toks, i), D)
KeepMask(toks, D)   == [i \in 1..Len(toks) |-> ~DropsAt(toks, i, D)]
RECURSIVE SelectKept(_, _, _)
SelectKept(toks, mask, i) == IF i > Len(toks) THEN <<>>
                             ELSE (IF mask[i] THEN <<toks[i]>> ELSE <<>>) \o SelectKept(toks, mask, i + 1)
OtFilter(toks, D) == SelectKept(toks, KeepMask(toks, D), 1)

-----------------------------------------------------------------------------
\* ---------- the judge: may the HTML syntax omit token i of `toks`, given which others were kept? ----------
NextElemIs(nx, names) == nx.t \in {"StartTag", "EmptyTag"} /\ IsHtmlNs(nx.ns) /\ nx.n \in names
NoMoreContent(nx)     == nx.t \in {"EndTag", "None"}
WsOrComment(nx)       == nx.t \in {"Comment", "SpaceCharacters"}

MayOmitStart(toks, i, mask) ==
    LET tok == toks[i]  nx == At(toks, i + 1)  pv == At(toks, i - 1)  name == tok.n IN
    /\ tok.a = <<>> /\ IsHtmlNs(tok.ns)
    /\ CASE name = N_html -> nx.t # "Comment"
         [] name = N_head -> (nx.t = "EndTag" /\ nx.n = N_head) \/ nx.t \in {"StartTag", "EmptyTag"} \/ nx.t = "None"
         [] name = N_body -> \/ nx.t \in {"EndTag", "None"}
                             \/ (~WsOrComment(nx) /\ ~NextElemIs(nx, {N_meta, N_link, N_script, N_style, N_template}))
         [] name = N_colgroup -> /\ NextElemIs(nx, {N_col})
                                 /\ ~(pv.t = "EndTag" /\ pv.n = N_colgroup /\ ~mask[i - 1])
         [] name = N_tbody -> /\ NextElemIs(nx, {N_tr})
                              /\ ~(pv.t = "EndTag" /\ pv.n \in {N_tbody, N_thead, N_tfoot} /\ ~mask[i - 1])
         [] OTHER -> FALSE

MayOmitEnd(toks, i) ==
    LET tok == toks[i]  nx == At(toks, i + 1)  name == tok.n  par == ParentAt(toks, i) IN
    /\ IsHtmlNs(tok.ns)
    /\ CASE name = N_html -> nx.t # "Comment"
         [] name = N_head -> ~WsOrComment(nx)
         [] name = N_body -> nx.t # "Comment"
         [] name = N_li -> NextElemIs(nx, {N_li}) \/ NoMoreContent(nx)
         [] name = N_dt -> NextElemIs(nx, {N_dt, N_dd})
         [] name = N_dd -> NextElemIs(nx, {N_dt, N_dd}) \/ NoMoreContent(nx)
         [] name = N_p  -> \/ NextElemIs(nx, PFollowersStd)
                           \/ /\ NoMoreContent(nx)
                              /\ (par.n = None \/ (IsHtmlNs(par.ns) /\ par.n \notin PBadParents /\ ~IsCustomName(par.n)))
         [] name \in {N_rt, N_rp} -> NextElemIs(nx, {N_rt, N_rp}) \/ NoMoreContent(nx)
         [] name = N_optgroup -> NextElemIs(nx, {N_optgroup}) \/ NoMoreContent(nx)
         [] name = N_option -> NextElemIs(nx, {N_option, N_optgroup}) \/ NoMoreContent(nx)
         [] name \in {N_colgroup, N_caption} -> ~WsOrComment(nx)
         [] name = N_thead -> NextElemIs(nx, {N_tbody, N_tfoot})
         [] name = N_tbody -> NextElemIs(nx, {N_tbody, N_tfoot}) \/ NoMoreContent(nx)
         [] name = N_tfoot -> NoMoreContent(nx) \/ NextElemIs(nx, {N_tbody})      \* ASSUMED: second disjunct (pre-2016 rule) follows the code
         [] name = N_tr -> NextElemIs(nx, {N_tr}) \/ NoMoreContent(nx)
         [] name \in {N_td, N_th} -> NextElemIs(nx, {N_td, N_th}) \/ NoMoreContent(nx)
         [] OTHER -> FALSE

MayOmit(toks, i, mask) == IF toks[i].t = "StartTag" THEN MayOmitStart(toks, i, mask)
                          ELSE IF toks[i].t = "EndTag" THEN MayOmitEnd(toks, i) ELSE FALSE

\* the property for one (input, keep-mask) pair
RemovesOnlyOmissible(toks, mask) == \A i \in 1..Len(toks) : ~mask[i] => MayOmit(toks, i, mask)
\* which listed deviation explains an illegal removal of token i (empty set = none does)
Explains(toks, i, D) == {d \in D : ~DropsAt(toks, i, D \ {d})}
=============================================================================
