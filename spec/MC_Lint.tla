------------------------------- MODULE MC_Lint -------------------------------
(* C11: html5lib/filters/lint.py as an acceptor, on ARBITRARY token streams (well-formed and    *)
(* malformed): every stream of <= MaxLen tokens over an alphabet of good and bad tokens whose   *)
(* proper prefixes Lint accepts (a rejected stream is not extended).  Every stream is exported  *)
(* with the model verdict and replayed into the real filter.                                    *)
(* Theorems: what acceptance guarantees (LintSound) and what it needs (LintComplete).           *)
EXTENDS Walker, TLC, Json
CONSTANTS MaxLen, Export

A1 == <<None, N_id, <<120>>>>
E_ == <<101>>
Good == {TStart(NS_html, N_div, <<>>), TStart(NS_svg, N_svg, <<A1, <<NS_xlink, N_href, <<>>>>>>), TStart(None, N_div, <<A1>>),
         TEmpty(NS_html, N_br, <<A1>>), TEmpty(None, N_br, <<>>), TStart(NS_svg, N_br, <<>>),
         TEnd(NS_html, N_div), TEnd(NS_svg, N_svg), TEnd(None, N_div), TEnd(NS_svg, N_br),
         TChars(<<120>>), TChars(<<32, 120, 32>>), TSpace(<<32, 9, 10, 12, 13>>), TComment(<<>>), TComment(<<99>>),
         TDoctype(N_html, None, None), TDoctype(None, <<>>, <<115>>),
         Tk("Entity", <<97, 109, 112>>, None, <<>>, <<>>, None, None),
         Tk("SerializerError", None, None, <<>>, E_, None, None)}
\* tokens that depend on the void set in force
Legacy == {TEmpty(NS_html, N_event_source, <<>>), TStart(NS_html, N_event_source, <<>>), TEnd(NS_html, N_event_source),
           TEmpty(NS_html, N_command, <<>>), TStart(None, N_command, <<>>)}
Bad == {TStart(NS_html, N_br, <<>>), TStart(None, N_hr, <<>>), TStart(<<>>, N_br, <<>>), TEmpty(NS_svg, N_br, <<>>),
        TEmpty(NS_html, N_div, <<>>), TEnd(NS_html, N_br), TEnd(None, N_img),
        TStart(<<>>, N_div, <<>>), TStart(NS_html, <<>>, <<>>), TStart(NS_html, None, <<>>), TEnd(<<>>, N_div),
        TEnd(NS_html, <<>>), TEnd(NS_html, None),
        TStart(NS_html, N_div, <<<<<<>>, N_id, <<120>>>>>>), TStart(NS_html, N_div, <<<<None, <<>>, <<120>>>>>>),
        TStart(NS_html, N_div, <<<<None, None, <<120>>>>>>), TStart(NS_html, N_div, <<A1, <<None, N_id, None>>>>),
        TEmpty(NS_html, N_br, <<<<NS_xlink, <<>>, <<120>>>>>>),
        TChars(<<>>), TChars(None), TSpace(<<>>), TSpace(<<32, 120>>), TSpace(<<11>>), TSpace(<<160>>), TSpace(None),
        TComment(None), Tk("Entity", None, None, <<>>, <<>>, None, None),
        Tk("SerializerError", None, None, <<>>, None, None, None), TError(E_),
        Tk("ParseError", None, None, <<>>, E_, None, None)}
Alphabet == Good \cup Legacy \cup Bad

VARIABLE s
Init == s = <<>>
Next == /\ Len(s) < MaxLen /\ LintOK(s, KnownDefects)
        /\ \E tok \in Alphabet : s' = Append(s, tok)

Ok == LintOK(s, KnownDefects)
\* acceptance guarantees: tags nest properly (prefix of a balanced stream), void names of the void set in force
\* appear only as EmptyTag, names non-empty, SpaceCharacters are whitespace; NOT guaranteed: closure at the end,
\* Characters boundaries
PrefixBalanced(toks) == ~OpenStack([st |-> <<>>, bad |-> FALSE], toks).bad
ThmLintSound == Ok => /\ PrefixBalanced(s) /\ NamesOK(s)
                      /\ (KnownDefects = {} => VoidOK(s))
                      /\ \A i \in 1..Len(s) : s[i].t = "SpaceCharacters" => (s[i].d # <<>> /\ AllWs(s[i].d))
\* a well-formed stream of walker token types whose EmptyTags are void and whose data fields are strings is accepted
ThmLintComplete ==
    (/\ WellFormed(s)
     /\ \A i \in 1..Len(s) : /\ s[i].t = "EmptyTag" => IsVoidElem(s[i].ns, s[i].n, KnownDefects)
                             /\ s[i].t \in {"StartTag", "EndTag"} => ~IsVoidElem(s[i].ns, s[i].n, KnownDefects)
                             /\ s[i].t = "Comment" => s[i].d # None
                             /\ s[i].t = "Doctype" => (s[i].n # None \/ (s[i].p = None /\ s[i].s = None))
                             /\ \A j \in 1..Len(s[i].a) : s[i].a[j][3] # None) => Ok
ThmExport == Export => PrintT(ToJson([s |-> s, ok |-> Ok]))
=============================================================================
