--------------------------- MODULE Trace_SerLifecycle ---------------------------
(* Call histories recorded from ONE real HTMLSerializer object (and, kind "walk", one real tree     *)
(* walker object).  kind "class": streams are sequences of the token classes of SerLifecycle; the    *)
(* machine is re-run and end / number of chunks / .errors / "equal to a brand-new object" must be    *)
(* what it says.  kind "wide" / "walk": real walker streams of parsed documents; judged: every call  *)
(* equals a brand-new object's (output chunks, .errors, how it ended).                               *)
EXTENDS SerLifecycle, TLC, Json, IOUtils
Traces == JsonDeserialize(IOEnv.TRACE_FILE)
VARIABLES tid, l, ser, verdict
vars == <<tid, l, ser, verdict>>
Init == tid \in 1..Len(Traces) /\ l = 1 /\ ser = NewSer /\ verdict = "run"
ClassCall(c, s1, f1) ==
    IF c.end # s1.end THEN "reject:end"
    ELSE IF c.nout # s1.nout THEN "reject:chunks"
    ELSE IF c.errors # s1.errors THEN "reject:errors"
    ELSE IF c.eqFresh # (SerResult(s1) = SerResult(f1)) THEN "reject:fresh-equality"
    ELSE IF ~c.eqFresh THEN "reject:history-dependence"
    ELSE ""
Step ==
    /\ verdict = "run"
    /\ LET tr == Traces[tid] IN
       IF l > Len(tr.calls) THEN verdict' = "accept" /\ UNCHANGED <<tid, l, ser>>
       ELSE LET c == tr.calls[l] IN
            IF tr.kind = "class"
            THEN LET s1 == SerCall(ser, c.toks, c.enc, c.strict, c.stopAt)
                     f1 == SerCall(NewSer, c.toks, c.enc, c.strict, c.stopAt)
                     v == ClassCall(c, s1, f1)
                 IN IF v # "" THEN verdict' = v /\ UNCHANGED <<tid, l, ser>>
                    ELSE l' = l + 1 /\ ser' = s1 /\ UNCHANGED <<tid, verdict>>
            ELSE IF ~c.eqFresh THEN verdict' = "reject:history-dependence" /\ UNCHANGED <<tid, l, ser>>
                 ELSE l' = l + 1 /\ UNCHANGED <<tid, ser, verdict>>
Done == verdict # "run" /\ UNCHANGED vars
Next == Step \/ Done
Report == verdict # "run" => PrintT(ToJson([tid |-> tid, l |-> l, v |-> verdict]))
=============================================================================
