---------------------------- MODULE LifecycleDocs ----------------------------
(* The documents shared by MC_Lifecycle and Schedule, each given as the real tokenizer delivers it: *)
(* per read() of the source, the tokens the parser gets before it asks for the next read (the final  *)
(* empty reads included).  The harness re-derives this table from the real code in every run         *)
(* (harness/props/c12.py DOCS holds the same documents as text chunks) and reports any difference.   *)
EXTENDS Lifecycle

DT     == [k |-> "Doctype", n |-> "html", d |-> <<>>, a |-> 0]
S(n)   == [k |-> "StartTag", n |-> n, d |-> <<>>, a |-> 0]
E(n)   == [k |-> "EndTag", n |-> n, d |-> <<>>, a |-> 0]
C(d)   == [k |-> "Characters", n |-> "", d |-> d, a |-> 0]
W(d)   == [k |-> "SpaceCharacters", n |-> "", d |-> d, a |-> 0]
K(d)   == [k |-> "Comment", n |-> "", d |-> d, a |-> 0]
X(c)   == [k |-> "ParseError", n |-> c, d |-> <<>>, a |-> 0]
EOF    == [k |-> "EOF", n |-> "", d |-> <<>>, a |-> 0]
M(a)   == [k |-> "StartTag", n |-> "meta", d |-> <<>>, a |-> a]
Pad    == [i \in 1..1030 |-> 120]
REPARSE == [k |-> "Reparse", n |-> "", d |-> <<>>, a |-> 0]

Docs == <<
    \*  1  parse  ["<!DOCTYPE html><table>ab<", "!x>cd</table>ef"]          text pending at a tokenizer error / at read 2
    [bytes |-> FALSE, frag |-> "", reads |-> << <<DT, S("table"), C(<<97, 98>>)>>,
                            <<X("expected-dashes-or-doctype"), K(<<120>>), C(<<99, 100>>), E("table")>>,
                            <<C(<<101, 102>>)>>,
                            <<EOF>> >>],
    \*  2  parse  ["<!DOCTYPE html><table>gh</table>"]
    [bytes |-> FALSE, frag |-> "", reads |-> << <<DT, S("table"), C(<<103, 104>>), E("table")>>,
                            <<EOF>> >>],
    \*  3  parse  ["<!DOCTYPE html><p>k<table> <", "/table>"]               whitespace-only table text
    [bytes |-> FALSE, frag |-> "", reads |-> << <<DT, S("p"), C(<<107>>), S("table"), W(<<32>>)>>,
                            <<E("table")>>,
                            <<EOF>> >>],
    \*  4  parse  ["<!DOCTYPE html><pre>", "\nx</pre>\ny"]
    [bytes |-> FALSE, frag |-> "", reads |-> << <<DT, S("pre")>>,
                            <<W(<<10>>), C(<<120>>), E("pre"), W(<<10>>)>>,
                            <<C(<<121>>)>>,
                            <<EOF>> >>],
    \*  5  parse  ["<!DOCTYPE html><pre>"]                                  ends with the drop-newline handler installed
    [bytes |-> FALSE, frag |-> "", reads |-> << <<DT, S("pre")>>,
                            <<EOF>> >>],
    \*  6  parse  ["<!DOCTYPE html><textarea>\n", "\nz</textarea>"]
    [bytes |-> FALSE, frag |-> "", reads |-> << <<DT, S("textarea")>>,
                            <<W(<<10, 10>>), C(<<122>>), E("textarea")>>,
                            <<EOF>> >>],
    \*  7  parse  ["<p>a<table>", "b</table>"]                              quirks mode: the table stays inside the p
    [bytes |-> FALSE, frag |-> "", reads |-> << <<S("p"), C(<<97>>), S("table")>>,
                            <<C(<<98>>), E("table")>>,
                            <<EOF>> >>],
    \*  8  parse  ["<!DOCTYPE html><p>a<table>b</table>"]                   no-quirks: the table closes the p
    [bytes |-> FALSE, frag |-> "", reads |-> << <<DT, S("p"), C(<<97>>), S("table"), C(<<98>>), E("table")>>,
                            <<EOF>> >>],
    \*  9  parse  ["<!DOCTYPE html><form>a<", "form>b"]                     form pointer
    [bytes |-> FALSE, frag |-> "", reads |-> << <<DT, S("form"), C(<<97>>)>>,
                            <<S("form")>>,
                            <<C(<<98>>)>>,
                            <<EOF>> >>],
    \* 10  parseFragment(container=table)  ["ab<", "!--c-->", " "]
    [bytes |-> FALSE, frag |-> "table", reads |-> << <<C(<<97, 98>>)>>,
                            <<K(<<99>>)>>,
                            <<>>,
                            <<W(<<32>>)>>,
                            <<EOF>> >>],
    \* 11  parseFragment(container=div)  ["<u1>x<table>y</table>\n<pre>\nq"]
    [bytes |-> FALSE, frag |-> "div", reads |-> << <<S("u1"), C(<<120>>), S("table"), C(<<121>>), E("table"), W(<<10>>), S("pre"), W(<<10>>)>>,
                            <<C(<<113>>)>>,
                            <<EOF>> >>],
    \* 12  parse  ["<!DOCTYPE html><u1><u2>a</u1><u3>\u0000b</p>"]
    [bytes |-> FALSE, frag |-> "", reads |-> << <<DT, S("u1"), S("u2"), C(<<97>>), E("u1"), S("u3"), X("invalid-codepoint"), C(<<0>>), C(<<98>>), E("p")>>,
                            <<EOF>> >>],
    \* 13  parseFragment(container=textarea)  ["\nab</textarea>"]
    [bytes |-> FALSE, frag |-> "textarea", reads |-> << <<W(<<10>>), C(<<97, 98>>), C(<<60, 47, 116, 101, 120, 116, 97, 114, 101, 97>>)>>,
                            <<C(<<62>>)>>,
                            <<EOF>> >>],
    \* 14  parse(BYTES)  b"<!DOCTYPE html><!--" + 1030 x b"x" + b"--><p>x<meta charset=utf-8>y</p><table>z"
    \*     the declaration lies beyond the 1024-byte prescan: tentative windows-1252 -> utf-8, reset() and re-parse
    [bytes |-> TRUE, frag |-> "", reads |-> << <<DT, K(Pad), S("p"), C(<<120>>), M(1), REPARSE,
                              DT, K(Pad), S("p"), C(<<120>>), M(1), C(<<121>>), E("p"), S("table"), C(<<122>>)>>,
                            <<EOF>> >>],
    \* 15  parse  ["<!DOCTYPE html><table>a\u0000b</table>"]        error token and NUL token queued together; text pending
    [bytes |-> FALSE, frag |-> "", reads |-> << <<DT, S("table"), C(<<97>>), X("invalid-codepoint"), C(<<0>>), C(<<98>>), E("table")>>,
                            <<EOF>> >>],
    \* 16  parseFragment(container=div)  ["<p>a<table>b</table>c"]     the tree depends on the compatibility mode (reset per call)
    [bytes |-> FALSE, frag |-> "div", reads |-> << <<S("p"), C(<<97>>), S("table"), C(<<98>>), E("table")>>,
                            <<C(<<99>>)>>,
                            <<EOF>> >>],
    \* 17  parseFragment(src, "TABLE")  ["ab<", "!--c-->", " "]      document 10, the container upper case and positional
    [bytes |-> FALSE, frag |-> "TABLE", reads |-> << <<C(<<97, 98>>)>>,
                            <<K(<<99>>)>>,
                            <<>>,
                            <<W(<<32>>)>>,
                            <<EOF>> >>],
    \* 18-20  parseFragment("<p>a<table>b</table>c", container=None / "" / 5)      arguments outside the domain: rejected
    [bytes |-> FALSE, frag |-> "#None", reads |-> <<>>],
    [bytes |-> FALSE, frag |-> "#empty", reads |-> <<>>],
    [bytes |-> FALSE, frag |-> "#int", reads |-> <<>>]
>>

NReads(d) == Len(Docs[d].reads)
=============================================================================
