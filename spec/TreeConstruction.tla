--------------------------- MODULE TreeConstruction ---------------------------
(* C01 / C03 / C04.  HTML tree construction as implemented by html5lib 1.1 (the WHATWG         *)
(* algorithm of its time, transcribed phase by phase), over the abstract DOM of TreeOps.        *)
(* Where html5lib is known to part from the June-2020 standard, the standard's behaviour is a   *)
(* NAMED branch: Std(name) is TRUE when the deviation is NOT enabled through KnownDefects.      *)
(* Parse errors are not modelled here (C16).  `template` is not modelled (html5lib has none).   *)
(*                                                                                              *)
(* ps (parser state) fields:                                                                    *)
(*   nodes, open (stack of node ids, bottom first), afe (active formatting elements, 0=marker), *)
(*   mode, orig (original insertion mode), head, form (element pointers, 0 = null), fok         *)
(*   (frameset-ok), scripting, quirks ("no"|"limited"|"quirks"), ptt (pending table text),      *)
(*   pttOrig, foster (foster parenting on), dropLF, inner (fragment context name or None),      *)
(*   tokReq (tokenizer state requested by the last start tag, "" = none), re (reprocess flag)   *)
EXTENDS TreeOps, Gen_Names, Gen_Adjust, Defects
TcDefectNames == {"tc-special-set", "tc-dialog-no-close-p", "tc-endbr-keeps-frameset-ok", "tc-afterbody-space",
                  "tc-command-void-in-head", "tc-chars-token-granularity", "tc-textarea-stays-in-body",
                  "tc-cell-caption-ws-base", "tc-intable-other-drops-reprocess", "tc-frameset-pop-name-only",
                  "tc-adoption-inner-loop-3", "tc-anyotherend-ignores-namespace", "tc-isindex-expansion",
                  "tc-no-rb-rtc", "tc-table-pre-lf-kept", "tc-fragment-table-in-table-dropped", "tc-fragment-tokenizer-state",
                  "tc-popuntil-ignores-namespace", "tc-foreign-endtag-p-br", "tc-svg-no-fedropshadow", "tc-no-template",
                  "tc-reset-cell-context", "tc-adoption-no-current-node-step",
                  "tc-nested-dispatch-clears-foster"}
Std(d) == d \notin KnownDefects
\* html5lib has no template support at all: <template> is an ordinary (special) element.  TPL selects the standard's rules:
\* template contents (a node of kind "content", first child of the template element), the "in template" insertion mode,
\* the stack of template insertion modes (ps.tmodes), template as scope boundary / table-context boundary.
TPL == Std("tc-no-template")

\* ---------------------------------------------------------------------------------------------
\* element categories (as html5lib has them; the standard's where a named deviation says so)
Heading == {N_h1, N_h2, N_h3, N_h4, N_h5, N_h6}
SpecialHtmlCode == {N_address, N_applet, N_area, N_article, N_aside, N_base, N_basefont, N_bgsound, N_blockquote, N_body, N_br,
    N_button, N_caption, N_center, N_col, N_colgroup, N_command, N_dd, N_details, N_dir, N_div, N_dl, N_dt, N_embed, N_fieldset,
    N_figure, N_footer, N_form, N_frame, N_frameset, N_h1, N_h2, N_h3, N_h4, N_h5, N_h6, N_head, N_header, N_hr, N_html, N_iframe,
    N_image, N_img, N_input, N_isindex, N_li, N_link, N_listing, N_marquee, N_menu, N_meta, N_nav, N_noembed, N_noframes,
    N_noscript, N_object, N_ol, N_p, N_param, N_plaintext, N_pre, N_script, N_section, N_select, N_style, N_table, N_tbody, N_td,
    N_textarea, N_tfoot, N_th, N_thead, N_title, N_tr, N_ul, N_wbr, N_xmp}
SpecialHtmlStd == (SpecialHtmlCode \ {N_command, N_image, N_isindex})
                  \cup {N_figcaption, N_hgroup, N_keygen, N_main, N_source, N_summary, N_template, N_track}
MathTextIP == {N_mi, N_mo, N_mn, N_ms, N_mtext}
IsSpecial(nd) ==
    IF Std("tc-special-set")
    THEN \/ (nd.ns = "html" /\ nd.n \in SpecialHtmlStd)
         \/ (nd.ns = "math" /\ nd.n \in MathTextIP \cup {N_annotation_xml})
         \/ (nd.ns = "svg" /\ nd.n \in {N_foreignObject, N_desc, N_title})
    ELSE \/ (nd.ns = "html" /\ nd.n \in SpecialHtmlCode)
         \/ (nd.ns = "svg" /\ nd.n = N_foreignObject)
Formatting == {N_a, N_b, N_big, N_code, N_em, N_font, N_i, N_nobr, N_s, N_small, N_strike, N_strong, N_tt, N_u}
\* html5lib's list; the standard's also has rb and rtc (named deviation tc-no-rb-rtc)
ImpliedEnd == {N_dd, N_dt, N_li, N_option, N_optgroup, N_p, N_rp, N_rt}
              \cup (IF Std("tc-no-rb-rtc") THEN {N_rb, N_rtc} ELSE {})
TableInsertMode == {N_table, N_tbody, N_tfoot, N_thead, N_tr}
\* scope boundaries: <<ns, name>> pairs
ScopeBase == {<<"html", N_applet>>, <<"html", N_caption>>, <<"html", N_html>>, <<"html", N_marquee>>, <<"html", N_object>>,
              <<"html", N_table>>, <<"html", N_td>>, <<"html", N_th>>, <<"math", N_annotation_xml>>, <<"math", N_mi>>,
              <<"math", N_mn>>, <<"math", N_mo>>, <<"math", N_ms>>, <<"math", N_mtext>>, <<"svg", N_desc>>,
              <<"svg", N_foreignObject>>, <<"svg", N_title>>} \cup (IF TPL THEN {<<"html", N_template>>} ELSE {})
ScopeSet(v) == CASE v = "default" -> ScopeBase
                 [] v = "button" -> ScopeBase \cup {<<"html", N_button>>}
                 [] v = "list"   -> ScopeBase \cup {<<"html", N_ol>>, <<"html", N_ul>>}
                 [] v = "table"  -> {<<"html", N_html>>, <<"html", N_table>>} \cup (IF TPL THEN {<<"html", N_template>>} ELSE {})
                 [] v = "select" -> {<<"html", N_optgroup>>, <<"html", N_option>>}

\* ---------------------------------------------------------------------------------------------
\* basic accessors
Nd(ps, id)  == ps.nodes[id]
Cur(ps)     == ps.open[Len(ps.open)]
CurNd(ps)   == ps.nodes[Cur(ps)]
CurName(ps) == CurNd(ps).n
Pop(ps)     == [ps EXCEPT !.open = Front(@)]
InOpen(ps, id) == \E i \in 1..Len(ps.open) : ps.open[i] = id
InAfe(ps, id)  == \E i \in 1..Len(ps.afe) : ps.afe[i] = id
IsTemplateNd(nd) == nd.k = "elem" /\ nd.ns = "html" /\ nd.n = N_template
RECURSIVE LastTemplateIdx(_, _)
LastTemplateIdx(ps, i) == IF i = 0 THEN 0 ELSE IF IsTemplateNd(ps.nodes[ps.open[i]]) THEN i ELSE LastTemplateIdx(ps, i - 1)
TemplateOpen(ps) == TPL /\ LastTemplateIdx(ps, Len(ps.open)) # 0
\* "if the adjusted insertion location is inside a template element, let it instead be inside its template contents"
Into(nodes, id) == IF IsTemplateNd(nodes[id]) /\ nodes[id].kids # <<>> /\ nodes[nodes[id].kids[1]].k = "content"
                   THEN nodes[id].kids[1] ELSE id

\* html5lib elementInScope: target given by name means the HTML element of that name
RECURSIVE ScopeWalk(_, _, _, _, _)
ScopeWalk(ps, i, isTarget(_), set, invert) ==
    IF i = 0 THEN FALSE
    ELSE LET nd == ps.nodes[ps.open[i]] IN
         IF isTarget(ps.open[i]) THEN TRUE
         ELSE IF (<<nd.ns, nd.n>> \in set) # invert THEN FALSE
         ELSE ScopeWalk(ps, i - 1, isTarget, set, invert)
NameInScope(ps, name, v) ==
    LET T(id) == ps.nodes[id].ns = "html" /\ ps.nodes[id].n = name
    IN ScopeWalk(ps, Len(ps.open), T, ScopeSet(v), v = "select")
NodeInScope(ps, node, v) ==
    LET T(id) == id = node IN ScopeWalk(ps, Len(ps.open), T, ScopeSet(v), v = "select")

RECURSIVE GenImplied(_, _)
GenImplied(ps, exclude) ==
    IF CurName(ps) \in ImpliedEnd /\ CurName(ps) # exclude THEN GenImplied(Pop(ps), exclude) ELSE ps
\* pop until an element with one of the names has been popped; html5lib compares the name only, the standard says "until an
\* HTML element with the same tag name has been popped" (a foreign element of that name can sit above it on the stack)
RECURSIVE PopUntilNamed(_, _)
PopUntilNamed(ps, names) ==
    IF ps.open = <<>> THEN ps
    ELSE IF CurName(ps) \in names /\ (Std("tc-popuntil-ignores-namespace") => CurNd(ps).ns = "html")
         THEN Pop(ps) ELSE PopUntilNamed(Pop(ps), names)
RECURSIVE PopUntilNode(_, _)
PopUntilNode(ps, node) ==
    IF ps.open = <<>> THEN ps ELSE IF Cur(ps) = node THEN Pop(ps) ELSE PopUntilNode(Pop(ps), node)
RECURSIVE PopWhileNotHtmlNamed(_, _)
PopWhileNotHtmlNamed(ps, names) ==      \* namespace-aware variant (clear the stack back to a table body context)
    IF (CurName(ps) \in names /\ CurNd(ps).ns = "html") \/ (TPL /\ IsTemplateNd(CurNd(ps))) THEN ps
    ELSE PopWhileNotHtmlNamed(Pop(ps), names)
RECURSIVE PopWhileNotNamed(_, _)
PopWhileNotNamed(ps, names) == IF CurName(ps) \in names \/ (TPL /\ IsTemplateNd(CurNd(ps))) THEN ps
                               ELSE PopWhileNotNamed(Pop(ps), names)
RECURSIVE PopUntilTemplate(_)
PopUntilTemplate(ps) == IF ps.open = <<>> THEN ps ELSE IF IsTemplateNd(CurNd(ps)) THEN Pop(ps) ELSE PopUntilTemplate(Pop(ps))

\* ---------------------------------------------------------------------------------------------
\* insertion
\* foster-parent location (getTableMisnestedNodePosition): <<parent id, insert-before id or 0>>
RECURSIVE LastNamedIdx(_, _, _)
LastNamedIdx(ps, name, i) == IF i = 0 THEN 0 ELSE IF ps.nodes[ps.open[i]].n = name THEN i ELSE LastNamedIdx(ps, name, i - 1)
FosterPos(ps) ==
    LET ti == LastNamedIdx(ps, N_table, Len(ps.open))
        pi == IF TPL THEN LastTemplateIdx(ps, Len(ps.open)) ELSE 0
    IN IF pi # 0 /\ (ti = 0 \/ pi > ti) THEN <<Into(ps.nodes, ps.open[pi]), 0>>
       ELSE IF ti = 0 THEN <<ps.open[1], 0>>
       ELSE LET t == ps.open[ti] IN
            IF ps.nodes[t].par # 0 THEN <<ps.nodes[t].par, t>> ELSE <<Into(ps.nodes, ps.open[ti - 1]), 0>>
UseFoster(ps) == ps.foster /\ CurName(ps) \in TableInsertMode

\* attributes of a token: <<name, value>> pairs -> node attributes <<ans, local, value>>
RECURSIVE MapSeq(_, _)
MapSeq(f(_), s) == IF s = <<>> THEN <<>> ELSE <<f(s[1])>> \o MapSeq(f, Tail(s))
PlainAttr(pr) == <<"", pr[1], pr[2]>>
PlainAttrs(as) == MapSeq(PlainAttr, as)
RECURSIVE Lookup2(_, _, _)
Lookup2(tbl, key, i) == IF i > Len(tbl) THEN 0 ELSE IF tbl[i][1] = key THEN i ELSE Lookup2(tbl, key, i + 1)
AdjSvgAttrName(n) == LET i == Lookup2(SvgAttrTable, n, 1) IN IF i = 0 THEN n ELSE SvgAttrTable[i][2]
\* feDropShadow joined the standard's table in 2017; html5lib's copy is older
AdjSvgTagName(n)  == LET i == Lookup2(SvgTagTable, n, 1) IN
                     IF i # 0 THEN SvgTagTable[i][2] ELSE IF Std("tc-svg-no-fedropshadow") /\ n = SvgLateTag[1] THEN SvgLateTag[2] ELSE n
AdjMathAttrName(n) == IF n = N_definitionurl THEN N_definitionURL ELSE n
ForeignAttr(pr, ns) ==
    LET nm == IF ns = "svg" THEN AdjSvgAttrName(pr[1]) ELSE IF ns = "math" THEN AdjMathAttrName(pr[1]) ELSE pr[1]
        i  == Lookup2(ForeignAttrTable, nm, 1)
    IN IF i = 0 THEN <<"", nm, pr[2]>> ELSE <<ForeignAttrTable[i][2], ForeignAttrTable[i][3], pr[2]>>
ForeignAttrs(as, ns) == LET F(pr) == ForeignAttr(pr, ns) IN MapSeq(F, as)
AttrVal(as, name) == LET i == Lookup2(as, name, 1) IN IF i = 0 THEN None ELSE as[i][2]     \* over token attribute pairs
NodeAttrVal(nd, name) == IF \E i \in 1..Len(nd.a) : nd.a[i][1] = "" /\ nd.a[i][2] = name
                         THEN nd.a[CHOOSE i \in 1..Len(nd.a) : nd.a[i][1] = "" /\ nd.a[i][2] = name][3] ELSE None

\* create an element node (not inserted): returns ps with the node appended to the store; its id is Len(ps.nodes)
NewElem(ps, ns, n, a) == [ps EXCEPT !.nodes = Append(@, MkNode("elem", ns, n, a, <<>>))]
\* insertElement (normal / from table)
InsertElemNs(ps, ns, n, a) ==
    LET p1 == NewElem(ps, ns, n, a)  id == Len(p1.nodes) IN
    IF UseFoster(ps)
    THEN LET fp == FosterPos(ps) IN
         [p1 EXCEPT !.nodes = InsertBefore(@, fp[1], id, fp[2]), !.open = Append(@, id)]
    ELSE [p1 EXCEPT !.nodes = AppendChild(@, Into(ps.nodes, Cur(ps)), id), !.open = Append(@, id)]
InsertHtml(ps, tok) == InsertElemNs(ps, "html", tok.n, PlainAttrs(tok.a))
InsertImplied(ps, name) == InsertElemNs(ps, "html", name, <<>>)
InsertTextCur(ps, s) ==
    IF UseFoster(ps) THEN LET fp == FosterPos(ps) IN [ps EXCEPT !.nodes = InsertText(@, fp[1], fp[2], s)]
    ELSE [ps EXCEPT !.nodes = InsertText(@, Into(ps.nodes, Cur(ps)), 0, s)]
InsertComment(ps, parent, data) ==
    LET id == Len(ps.nodes) + 1 IN
    [ps EXCEPT !.nodes = AppendChild(Append(@, MkNode("comment", "", <<>>, <<>>, data)), Into(ps.nodes, parent), id)]

\* ---------------------------------------------------------------------------------------------
\* active formatting elements
RECURSIVE AfeFindName(_, _, _)
AfeFindName(ps, name, i) ==      \* elementInActiveFormattingElements: last entry after the last marker with that name, or 0
    IF i = 0 \/ ps.afe[i] = 0 THEN 0
    ELSE IF ps.nodes[ps.afe[i]].n = name THEN ps.afe[i] ELSE AfeFindName(ps, name, i - 1)
AfeFind(ps, name) == AfeFindName(ps, name, Len(ps.afe))
RECURSIVE ClearAfeToMarker(_)
ClearAfeToMarker(afe) == IF afe = <<>> THEN afe ELSE IF Last(afe) = 0 THEN Front(afe) ELSE ClearAfeToMarker(Front(afe))
RECURSIVE ReconFrom(_, _)
ReconFrom(ps, i) ==               \* re-open afe[i..] in order
    IF i > Len(ps.afe) THEN ps
    ELSE LET e  == ps.nodes[ps.afe[i]]
             p1 == InsertElemNs(ps, e.ns, e.n, e.a)
         IN ReconFrom([p1 EXCEPT !.afe[i] = Len(p1.nodes)], i + 1)
RECURSIVE ReconStart(_, _)
ReconStart(ps, i) ==              \* walk back to the entry after the last marker / open element
    IF i = 0 THEN 1
    ELSE IF ps.afe[i] = 0 \/ InOpen(ps, ps.afe[i]) THEN i + 1 ELSE ReconStart(ps, i - 1)
Reconstruct(ps) ==
    IF ps.afe = <<>> \/ Last(ps.afe) = 0 \/ InOpen(ps, Last(ps.afe)) THEN ps
    ELSE ReconFrom(ps, ReconStart(ps, Len(ps.afe) - 1))
\* push onto the list with the Noah's-ark clause (three identical entries after the last marker)
RECURSIVE Matching(_, _, _, _)
Matching(ps, el, i, acc) ==
    IF i = 0 \/ ps.afe[i] = 0 THEN acc
    ELSE LET x == ps.nodes[ps.afe[i]]  y == ps.nodes[el] IN
         Matching(ps, el, i - 1, IF x.n = y.n /\ x.ns = y.ns /\ Range(x.a) = Range(y.a) THEN Append(acc, ps.afe[i]) ELSE acc)
AddFormatting(ps, tok) ==
    LET p1 == InsertHtml(ps, tok)
        el == Cur(p1)
        m  == Matching(p1, el, Len(p1.afe), <<>>)
        a1 == IF Len(m) = 3 THEN RemoveFirst(p1.afe, m[3]) ELSE p1.afe
    IN [p1 EXCEPT !.afe = Append(a1, el)]

\* ---------------------------------------------------------------------------------------------
\* reset the insertion mode appropriately (html5lib's version)
RECURSIVE ResetWalk(_, _)
ResetWalk(ps, i) ==
    LET node == ps.nodes[ps.open[i]]
        last == i = 1
        nm   == IF last THEN ps.inner ELSE node.n
    IN IF ~last /\ node.ns # "html" THEN ResetWalk(ps, i - 1)
       ELSE CASE nm = N_select -> "inSelect"
              \* the standard: "td or th and last is false"; html5lib ignores `last` (fragment with a td/th context starts in
              \* the in-cell mode, so a <select> there gets the in-select-in-table mode)
              [] nm \in {N_td, N_th} -> IF last /\ Std("tc-reset-cell-context") THEN "inBody" ELSE "inCell"
              [] nm = N_tr -> "inRow"
              [] nm \in {N_tbody, N_thead, N_tfoot} -> "inTableBody"
              [] nm = N_caption -> "inCaption"
              [] nm = N_colgroup -> "inColumnGroup"
              [] nm = N_table -> "inTable"
              [] nm \in {N_head, N_body} -> "inBody"
              [] nm = N_frameset -> "inFrameset"
              [] nm = N_html -> "beforeHead"
              [] OTHER -> IF last THEN "inBody" ELSE ResetWalk(ps, i - 1)
\* the standard's version (used with the template rules; without templates both give the same modes wherever the
\* algorithm is invoked)
RECURSIVE SelectAncestor(_, _)
SelectAncestor(ps, j) ==
    IF j = 1 THEN "inSelect"
    ELSE LET a == ps.nodes[ps.open[j - 1]] IN
         IF IsTemplateNd(a) THEN "inSelect" ELSE IF a.ns = "html" /\ a.n = N_table THEN "inSelectInTable" ELSE SelectAncestor(ps, j - 1)
RECURSIVE ResetWalkStd(_, _)
ResetWalkStd(ps, i) ==
    LET last == i = 1
        ctx  == last /\ ps.inner # None
        node == ps.nodes[ps.open[i]]
        nm   == IF ctx THEN ps.inner ELSE node.n
    IN IF ~ctx /\ node.ns # "html" THEN (IF last THEN "inBody" ELSE ResetWalkStd(ps, i - 1))
       ELSE IF nm = N_select THEN (IF last THEN "inSelect" ELSE SelectAncestor(ps, i))
       ELSE IF nm \in {N_td, N_th} /\ (~last \/ ~Std("tc-reset-cell-context")) THEN "inCell"
       ELSE IF nm = N_tr THEN "inRow"
       ELSE IF nm \in {N_tbody, N_thead, N_tfoot} THEN "inTableBody"
       ELSE IF nm = N_caption THEN "inCaption"
       ELSE IF nm = N_colgroup THEN "inColumnGroup"
       ELSE IF nm = N_table THEN "inTable"
       ELSE IF nm = N_template /\ ps.tmodes # <<>> THEN Last(ps.tmodes)
       ELSE IF nm = N_head /\ ~last THEN "inHead"
       ELSE IF nm = N_body THEN "inBody"
       ELSE IF nm = N_frameset THEN "inFrameset"
       ELSE IF nm = N_html THEN (IF ps.head = 0 THEN "beforeHead" ELSE "afterHead")
       ELSE IF last THEN "inBody" ELSE ResetWalkStd(ps, i - 1)
ResetMode(ps) == [ps EXCEPT !.mode = IF TPL THEN ResetWalkStd(ps, Len(ps.open)) ELSE ResetWalk(ps, Len(ps.open))]

RcdataRawtext(ps, tok, kind) ==
    [InsertHtml(ps, tok) EXCEPT !.tokReq = kind, !.orig = ps.mode, !.mode = "text"]

\* ---------------------------------------------------------------------------------------------
\* initial state of a parse
PInit(scripting, inner) ==
    LET base == [nodes |-> <<DocNode>>, open |-> <<>>, afe |-> <<>>, mode |-> "initial", orig |-> "", head |-> 0, form |-> 0,
                 fok |-> TRUE, scripting |-> scripting, quirks |-> "no", ptt |-> <<>>, pttOrig |-> "", foster |-> FALSE,
                 dropLF |-> FALSE, inner |-> inner, tokReq |-> "", re |-> FALSE, first |-> FALSE, tmodes |-> <<>>]
    IN IF inner = None THEN base
       ELSE LET p1 == [base EXCEPT !.nodes = AppendChild(Append(@, MkNode("elem", "html", N_html, <<>>, <<>>)), 1, 2),
                                   !.open = <<2>>, !.mode = "beforeHead"]
            IN ResetMode(p1)
\* tokenizer start state for a fragment context
FragmentTokState(inner, scripting) ==
    IF inner \in {N_title, N_textarea} THEN "rcdata"
    ELSE IF Std("tc-fragment-tokenizer-state") /\ inner = N_script THEN "script"
    ELSE IF Std("tc-fragment-tokenizer-state") /\ inner = N_noscript THEN (IF scripting THEN "rawtext" ELSE "data")
    \* html5lib: script and noscript contexts always start in RAWTEXT
    ELSE IF inner \in {N_style, N_script, N_xmp, N_iframe, N_noembed, N_noframes, N_noscript} THEN "rawtext"
    ELSE IF inner = N_plaintext THEN "plaintext" ELSE "data"

\* ---------------------------------------------------------------------------------------------
\* doctype -> quirks mode
StartsWithAny(s, prefixes) == \E p \in prefixes : IsPrefixOf(p, s)
QuirksMode(tok, QuirkyPrefixes, QuirkyExact, LimitedPrefixes, Html401Prefixes, IbmSystemId) ==
    LET pub == Lower(IF tok.p = None THEN <<>> ELSE tok.p)
        sysNone == tok.s = None
    IN IF tok.fq \/ tok.n # N_html \/ StartsWithAny(pub, QuirkyPrefixes) \/ pub \in QuirkyExact
          \/ (StartsWithAny(pub, Html401Prefixes) /\ sysNone)
          \/ (~sysNone /\ tok.s # <<>> /\ Lower(tok.s) = IbmSystemId)
       THEN "quirks"
       ELSE IF StartsWithAny(pub, LimitedPrefixes) \/ (StartsWithAny(pub, Html401Prefixes) /\ ~sysNone)
       THEN "limited" ELSE "no"

\* ---------------------------------------------------------------------------------------------
\* character classes of a run
Cls(c) == IF c = 0 THEN "nul" ELSE IF IsWs(c) THEN "ws" ELSE "ch"
RECURSIVE RunLen(_, _)
RunLen(s, cls) == IF s = <<>> \/ Cls(s[1]) # cls THEN 0 ELSE 1 + RunLen(Tail(s), cls)

\* ---------------------------------------------------------------------------------------------
\* the phases.  Every handler returns ps; ps.re = TRUE means "reprocess the token in the (new) current phase".
NoRe(ps) == [ps EXCEPT !.re = FALSE]
Rep(ps)  == [ps EXCEPT !.re = TRUE]
ImpliedStart(name) == [t |-> "StartTag", n |-> name, a |-> <<>>, sc |-> FALSE, d |-> <<>>, p |-> None, s |-> None, fq |-> FALSE]
ImpliedEndTok(name) == [t |-> "EndTag", n |-> name, a |-> <<>>, sc |-> FALSE, d |-> <<>>, p |-> None, s |-> None, fq |-> FALSE]

RECURSIVE StartTag(_, _, _), EndTag(_, _, _), Chars(_, _, _, _), EofIn(_, _), AdoptionOuter(_, _, _), AdoptionInner(_, _),
          FlushTableText(_), CloseCell(_)

\* merge attributes of an <html>/<body> token into an existing element (missing ones only)
RECURSIVE MergeAttrs(_, _)
MergeAttrs(nda, toka) ==
    IF toka = <<>> THEN nda
    ELSE IF \E i \in 1..Len(nda) : nda[i][1] = "" /\ nda[i][2] = toka[1][1] THEN MergeAttrs(nda, Tail(toka))
    ELSE MergeAttrs(Append(nda, <<"", toka[1][1], toka[1][2]>>), Tail(toka))
StartTagHtmlGeneric(ps, tok) == NoRe([ps EXCEPT !.nodes[ps.open[1]].a = MergeAttrs(@, tok.a), !.first = FALSE])

InHeadAnythingElse(ps) == [Pop(ps) EXCEPT !.mode = "afterHead"]
AfterHeadAnythingElse(ps) == [InsertImplied(ps, N_body) EXCEPT !.mode = "inBody", !.fok = TRUE]
StartTagHead(ps, tok) == LET p1 == InsertHtml(ps, tok) IN [p1 EXCEPT !.head = Cur(p1), !.mode = "inHead"]
InsertRoot(ps) ==
    LET id == Len(ps.nodes) + 1 IN
    [ps EXCEPT !.nodes = AppendChild(Append(@, MkNode("elem", "html", N_html, <<>>, <<>>)), 1, id), !.open = <<id>>, !.mode = "beforeHead"]

CloseP(ps) == IF NameInScope(ps, N_p, "button") THEN NoRe(EndTag(ps, "inBody", ImpliedEndTok(N_p))) ELSE ps
VoidInsert(ps, tok) == Pop(InsertHtml(ps, tok))

HeadVoid == IF Std("tc-command-void-in-head") THEN {N_base, N_basefont, N_bgsound, N_link}
            ELSE {N_base, N_basefont, N_bgsound, N_command, N_link}
InBodyInHeadNames == {N_base, N_basefont, N_bgsound, N_link, N_meta, N_script, N_style, N_title}
                     \cup (IF Std("tc-command-void-in-head") THEN {} ELSE {N_command})
ClosePNames == {N_address, N_article, N_aside, N_blockquote, N_center, N_details, N_dir, N_div, N_dl, N_fieldset, N_figcaption,
                N_figure, N_footer, N_header, N_hgroup, N_main, N_menu, N_nav, N_ol, N_p, N_section, N_summary, N_ul}
               \cup (IF Std("tc-dialog-no-close-p") THEN {N_dialog} ELSE {})
EndBlockNames == {N_address, N_article, N_aside, N_blockquote, N_button, N_center, N_details, N_dialog, N_dir, N_div, N_dl,
                  N_fieldset, N_figcaption, N_figure, N_footer, N_header, N_hgroup, N_listing, N_main, N_menu, N_nav, N_ol,
                  N_pre, N_section, N_summary, N_ul}
TableSectionish == {N_caption, N_col, N_colgroup, N_tbody, N_td, N_tfoot, N_th, N_thead, N_tr}
\* "This is a searchable index. Enter search keywords: "
IsindexPrompt == <<84,104,105,115,32,105,115,32,97,32,115,101,97,114,99,104,97,98,108,101,32,105,110,100,101,120,46,32,69,110,116,101,114,
                   32,115,101,97,114,99,104,32,107,101,121,119,111,114,100,115,58,32>>
IsHiddenInput(tok) == LET v == AttrVal(tok.a, N_type) IN v # None /\ Lower(v) = N_hidden
InTableModes == {"inTable", "inCaption", "inColumnGroup", "inTableBody", "inRow", "inCell"}

\* ---- template (standard only) ----
TemplateStart(ps, tok) ==
    LET p1 == InsertHtml(ps, tok)
        t  == Cur(p1)
        c  == Len(p1.nodes) + 1
    IN [p1 EXCEPT !.nodes = AppendChild(Append(@, MkNode("content", "", <<>>, <<>>, <<>>)), t, c),
                  !.afe = Append(@, 0), !.fok = FALSE, !.mode = "inTemplate", !.tmodes = Append(@, "inTemplate")]
TemplateEnd(ps) ==
    IF ~TemplateOpen(ps) THEN NoRe(ps)
    ELSE LET p1 == PopUntilTemplate(ps)          \* (generate all implied end tags thoroughly: only pops)
         IN NoRe(ResetMode([p1 EXCEPT !.afe = ClearAfeToMarker(@), !.tmodes = Front(@)]))
TemplateEof(ps) ==
    IF ~TemplateOpen(ps) THEN NoRe(ps)
    ELSE LET p1 == PopUntilTemplate(ps)
         IN Rep(ResetMode([p1 EXCEPT !.afe = ClearAfeToMarker(@), !.tmodes = Front(@)]))
InHeadListStd == {N_base, N_basefont, N_bgsound, N_link, N_meta, N_noframes, N_script, N_style, N_template, N_title}
\* in column group, "anything else": ignored when the current node is not a colgroup element
ColgroupIgnore(ps) == IF TPL THEN ~(CurNd(ps).ns = "html" /\ CurName(ps) = N_colgroup) ELSE CurName(ps) = N_html

\* "act as if an end tag had been seen" inside an in-body start-tag rule: the in-body rules.  html5lib used to dispatch through the
\* CURRENT phase; from a table mode that detour switched foster parenting off before the new element was inserted (repaired)
NestedMode(ps) == IF Std("tc-nested-dispatch-clears-foster") THEN "inBody" ELSE ps.mode

\* ---- start tags ----
StartTag(ps, mode, tok) ==
  LET nm == tok.n IN
  CASE mode = "initial" -> Rep([ps EXCEPT !.quirks = "quirks", !.mode = "beforeHtml"])
    [] mode = "beforeHtml" -> Rep([InsertRoot(ps) EXCEPT !.first = (nm = N_html)])
    [] mode = "beforeHead" ->
        IF nm = N_html THEN StartTag(ps, "inBody", tok)
        ELSE IF nm = N_head THEN NoRe(StartTagHead(ps, tok))
        ELSE Rep(StartTagHead(ps, ImpliedStart(N_head)))
    [] mode = "inHead" ->
        IF nm = N_html THEN StartTag(ps, "inBody", tok)
        ELSE IF nm = N_title THEN NoRe(RcdataRawtext(ps, tok, "rcdata"))
        ELSE IF nm \in {N_noframes, N_style} THEN NoRe(RcdataRawtext(ps, tok, "rawtext"))
        ELSE IF nm = N_noscript THEN
            (IF ps.scripting THEN NoRe(RcdataRawtext(ps, tok, "rawtext"))
             ELSE NoRe([InsertHtml(ps, tok) EXCEPT !.mode = "inHeadNoscript"]))
        ELSE IF nm = N_script THEN NoRe([InsertHtml(ps, tok) EXCEPT !.tokReq = "script", !.orig = ps.mode, !.mode = "text"])
        ELSE IF nm \in HeadVoid \/ nm = N_meta THEN NoRe(VoidInsert(ps, tok))
        ELSE IF nm = N_head THEN NoRe(ps)
        ELSE IF TPL /\ nm = N_template THEN NoRe(TemplateStart(ps, tok))
        ELSE Rep(InHeadAnythingElse(ps))
    [] mode = "inHeadNoscript" ->
        IF nm = N_html THEN StartTag(ps, "inBody", tok)
        ELSE IF nm \in {N_basefont, N_bgsound, N_link, N_meta, N_noframes, N_style} THEN StartTag(ps, "inHead", tok)
        ELSE IF nm \in {N_head, N_noscript} THEN NoRe(ps)
        ELSE Rep([Pop(ps) EXCEPT !.mode = "inHead"])
    [] mode = "afterHead" ->
        IF nm = N_html THEN StartTag(ps, "inBody", tok)
        ELSE IF nm = N_body THEN NoRe([InsertHtml([ps EXCEPT !.fok = FALSE], tok) EXCEPT !.mode = "inBody"])
        ELSE IF nm = N_frameset THEN NoRe([InsertHtml(ps, tok) EXCEPT !.mode = "inFrameset"])
        ELSE IF nm \in {N_base, N_basefont, N_bgsound, N_link, N_meta, N_noframes, N_script, N_style, N_title}
                \/ (TPL /\ nm = N_template) THEN
            LET p1 == StartTag([ps EXCEPT !.open = Append(@, ps.head)], "inHead", tok)
                hi == LastNamedIdx(p1, N_head, Len(p1.open))
            IN NoRe(IF hi = 0 THEN p1 ELSE [p1 EXCEPT !.open = RemoveAt(@, hi)])
        ELSE IF nm = N_head THEN NoRe(ps)
        ELSE Rep(AfterHeadAnythingElse(ps))
    [] mode = "inBody" ->
        IF nm = N_html THEN (IF TemplateOpen(ps) THEN NoRe(ps) ELSE StartTagHtmlGeneric(ps, tok))
        ELSE IF nm \in InBodyInHeadNames \/ (TPL /\ nm = N_template) THEN StartTag(ps, "inHead", tok)
        ELSE IF nm = N_body THEN
            (IF Len(ps.open) = 1 \/ ps.nodes[ps.open[2]].n # N_body \/ TemplateOpen(ps) THEN NoRe(ps)
             ELSE NoRe([ps EXCEPT !.fok = FALSE, !.nodes[ps.open[2]].a = MergeAttrs(@, tok.a)]))
        ELSE IF nm = N_frameset THEN
            (IF Len(ps.open) = 1 \/ ps.nodes[ps.open[2]].n # N_body \/ ~ps.fok THEN NoRe(ps)
             ELSE LET p1 == [ps EXCEPT !.nodes = Detach(@, ps.open[2])]
                      \* html5lib pops until an element NAMED html is on top: a foreign element called html stops it early
                      p2 == IF Std("tc-frameset-pop-name-only") THEN [p1 EXCEPT !.open = <<p1.open[1]>>]
                            ELSE PopWhileNotNamed(p1, {N_html})
                  IN NoRe([InsertHtml(p2, tok) EXCEPT !.mode = "inFrameset"]))
        ELSE IF nm \in ClosePNames THEN NoRe(InsertHtml(CloseP(ps), tok))
        ELSE IF nm \in Heading THEN
            LET p1 == CloseP(ps)  p2 == IF CurName(p1) \in Heading THEN Pop(p1) ELSE p1 IN NoRe(InsertHtml(p2, tok))
        ELSE IF nm \in {N_pre, N_listing} THEN NoRe([InsertHtml(CloseP(ps), tok) EXCEPT !.fok = FALSE, !.dropLF = TRUE])
        ELSE IF nm = N_form THEN
            (IF ps.form # 0 /\ ~TemplateOpen(ps) THEN NoRe(ps)
             ELSE LET p1 == InsertHtml(CloseP(ps), tok) IN NoRe(IF TemplateOpen(ps) THEN p1 ELSE [p1 EXCEPT !.form = Cur(p1)]))
        ELSE IF nm \in {N_li, N_dd, N_dt} THEN
            LET stop == IF nm = N_li THEN {N_li} ELSE {N_dt, N_dd}
                p0 == [ps EXCEPT !.fok = FALSE]
                RECURSIVE Walk(_)
                Walk(i) == IF i = 0 THEN p0
                           ELSE LET nd == p0.nodes[p0.open[i]] IN
                                IF nd.n \in stop THEN NoRe(EndTag(p0, NestedMode(p0), ImpliedEndTok(nd.n)))
                                ELSE IF IsSpecial(nd) /\ nd.n \notin {N_address, N_div, N_p} THEN p0
                                ELSE Walk(i - 1)
                p1 == Walk(Len(p0.open))
                p2 == IF NameInScope(p1, N_p, "button") THEN NoRe(EndTag(p1, NestedMode(p1), ImpliedEndTok(N_p))) ELSE p1
            IN NoRe(InsertHtml(p2, tok))
        ELSE IF nm = N_plaintext THEN NoRe([InsertHtml(CloseP(ps), tok) EXCEPT !.tokReq = "plaintext"])
        ELSE IF nm = N_a THEN
            LET el == AfeFind(ps, N_a)
                p1 == IF el = 0 THEN ps
                      ELSE LET q == NoRe(EndTag(ps, "inBody", ImpliedEndTok(N_a)))
                           IN [q EXCEPT !.open = RemoveFirst(@, el), !.afe = RemoveFirst(@, el)]
            IN NoRe(AddFormatting(Reconstruct(p1), tok))
        ELSE IF nm \in (Formatting \ {N_a, N_nobr}) THEN NoRe(AddFormatting(Reconstruct(ps), tok))
        ELSE IF nm = N_nobr THEN
            LET p1 == Reconstruct(ps)
                p2 == IF NameInScope(p1, N_nobr, "default") THEN Reconstruct(NoRe(EndTag(p1, "inBody", ImpliedEndTok(N_nobr)))) ELSE p1
            IN NoRe(AddFormatting(p2, tok))
        ELSE IF nm = N_button THEN
            (IF NameInScope(ps, N_button, "default") THEN Rep(NoRe(EndTag(ps, "inBody", ImpliedEndTok(N_button))))
             ELSE NoRe([InsertHtml(Reconstruct(ps), tok) EXCEPT !.fok = FALSE]))
        ELSE IF nm \in {N_applet, N_marquee, N_object} THEN
            NoRe([InsertHtml(Reconstruct(ps), tok) EXCEPT !.afe = Append(@, 0), !.fok = FALSE])
        ELSE IF nm = N_xmp THEN NoRe(RcdataRawtext([Reconstruct(CloseP(ps)) EXCEPT !.fok = FALSE], tok, "rawtext"))
        ELSE IF nm = N_table THEN
            LET p1 == IF ps.quirks # "quirks" /\ NameInScope(ps, N_p, "button")
                      THEN NoRe(EndTag(ps, "inBody", ImpliedEndTok(N_p))) ELSE ps
            IN NoRe([InsertHtml(p1, tok) EXCEPT !.fok = FALSE, !.mode = "inTable"])
        ELSE IF nm \in {N_area, N_br, N_embed, N_img, N_keygen, N_wbr} THEN NoRe([VoidInsert(Reconstruct(ps), tok) EXCEPT !.fok = FALSE])
        ELSE IF nm = N_input THEN
            NoRe([VoidInsert(Reconstruct(ps), tok) EXCEPT !.fok = IF IsHiddenInput(tok) THEN ps.fok ELSE FALSE])
        ELSE IF nm \in {N_param, N_source, N_track} THEN NoRe(VoidInsert(ps, tok))
        ELSE IF nm = N_hr THEN NoRe([VoidInsert(CloseP(ps), tok) EXCEPT !.fok = FALSE])
        ELSE IF nm = N_image THEN StartTag(ps, "inBody", [tok EXCEPT !.n = N_img])
        ELSE IF nm = N_isindex /\ ~Std("tc-isindex-expansion") THEN      \* the standard dropped the isindex expansion: ordinary element
            (IF ps.form # 0 THEN NoRe(ps)
             ELSE LET act == AttrVal(tok.a, N_action)
                      pr  == AttrVal(tok.a, N_prompt)
                      RECURSIVE InputAttrs(_, _)
                      InputAttrs(as, seen) ==
                          IF as = <<>> THEN (IF seen THEN <<>> ELSE <<<<N_name, N_isindex>>>>)
                          ELSE IF as[1][1] \in {N_action, N_prompt} THEN InputAttrs(Tail(as), seen)
                          ELSE IF as[1][1] = N_name THEN <<<<N_name, N_isindex>>>> \o InputAttrs(Tail(as), TRUE)
                          ELSE <<as[1]>> \o InputAttrs(Tail(as), seen)
                      p1 == NoRe(StartTag(ps, "inBody", [ImpliedStart(N_form) EXCEPT !.a = IF act = None THEN <<>> ELSE <<<<N_action, act>>>>]))
                      p2 == NoRe(StartTag(p1, "inBody", ImpliedStart(N_hr)))
                      p3 == NoRe(StartTag(p2, "inBody", ImpliedStart(N_label)))
                      p4 == NoRe(Chars(p3, "inBody", "ch", IF pr = None THEN IsindexPrompt ELSE pr))
                      p5 == NoRe(StartTag(p4, "inBody", [ImpliedStart(N_input) EXCEPT !.a = InputAttrs(tok.a, FALSE), !.sc = tok.sc]))
                      p6 == NoRe(EndTag(p5, "inBody", ImpliedEndTok(N_label)))
                      p7 == NoRe(StartTag(p6, "inBody", ImpliedStart(N_hr)))
                  IN NoRe(EndTag(p7, "inBody", ImpliedEndTok(N_form))))
        ELSE IF nm = N_textarea THEN
            \* html5lib stays in the in-body mode (the characters of the textarea go through the in-body rules); the standard
            \* switches to the text mode
            (IF Std("tc-textarea-stays-in-body")
             THEN NoRe([InsertHtml(ps, tok) EXCEPT !.tokReq = "rcdata", !.dropLF = TRUE, !.fok = FALSE, !.orig = ps.mode, !.mode = "text"])
             ELSE NoRe([InsertHtml(ps, tok) EXCEPT !.tokReq = "rcdata", !.dropLF = TRUE, !.fok = FALSE]))
        ELSE IF nm = N_iframe THEN NoRe(RcdataRawtext([ps EXCEPT !.fok = FALSE], tok, "rawtext"))
        ELSE IF nm = N_noscript /\ ps.scripting THEN NoRe(RcdataRawtext(ps, tok, "rawtext"))
        ELSE IF nm \in {N_noembed, N_noframes} THEN NoRe(RcdataRawtext(ps, tok, "rawtext"))
        ELSE IF nm = N_select THEN
            NoRe([InsertHtml(Reconstruct(ps), tok) EXCEPT !.fok = FALSE,
                        !.mode = IF ps.mode \in InTableModes THEN "inSelectInTable" ELSE "inSelect"])
        ELSE IF nm \in {N_rb, N_rtc} /\ Std("tc-no-rb-rtc") THEN
            NoRe(InsertHtml(IF NameInScope(ps, N_ruby, "default") THEN GenImplied(ps, None) ELSE ps, tok))
        ELSE IF nm \in {N_rp, N_rt} THEN
            NoRe(InsertHtml(IF NameInScope(ps, N_ruby, "default")
                            THEN GenImplied(ps, IF Std("tc-no-rb-rtc") THEN N_rtc ELSE None) ELSE ps, tok))
        ELSE IF nm \in {N_option, N_optgroup} THEN
            LET p1 == IF CurName(ps) = N_option THEN NoRe(EndTag(ps, NestedMode(ps), ImpliedEndTok(N_option))) ELSE ps
            IN NoRe(InsertHtml(Reconstruct(p1), tok))
        ELSE IF nm \in {N_math, N_svg} THEN
            LET ns == IF nm = N_math THEN "math" ELSE "svg"
                p1 == InsertElemNs(Reconstruct(ps), ns, nm, ForeignAttrs(tok.a, ns))
            IN NoRe(IF tok.sc THEN Pop(p1) ELSE p1)
        ELSE IF nm \in (TableSectionish \cup {N_frame, N_head}) THEN NoRe(ps)
        ELSE NoRe(InsertHtml(Reconstruct(ps), tok))
    [] mode = "text" -> NoRe(ps)                                 \* cannot happen (tokenizer is in a text state)
    [] mode = "inTable" ->
        IF nm = N_html THEN StartTagHtmlGeneric(ps, tok)
        ELSE IF nm = N_caption THEN
            NoRe([InsertHtml([PopWhileNotNamed(ps, {N_table, N_html}) EXCEPT !.afe = Append(@, 0)], tok) EXCEPT !.mode = "inCaption"])
        ELSE IF nm = N_colgroup THEN NoRe([InsertHtml(PopWhileNotNamed(ps, {N_table, N_html}), tok) EXCEPT !.mode = "inColumnGroup"])
        ELSE IF nm = N_col THEN
            Rep([InsertImplied(PopWhileNotNamed(ps, {N_table, N_html}), N_colgroup) EXCEPT !.mode = "inColumnGroup"])
        ELSE IF nm \in {N_tbody, N_tfoot, N_thead} THEN
            NoRe([InsertHtml(PopWhileNotNamed(ps, {N_table, N_html}), tok) EXCEPT !.mode = "inTableBody"])
        ELSE IF nm \in {N_td, N_th, N_tr} THEN
            Rep([InsertImplied(PopWhileNotNamed(ps, {N_table, N_html}), N_tbody) EXCEPT !.mode = "inTableBody"])
        ELSE IF nm = N_table THEN
            \* html5lib reprocesses the token only when parsing a document; the standard whenever a table was in table scope
            LET p1 == NoRe(EndTag(ps, ps.mode, ImpliedEndTok(N_table))) IN
            IF Std("tc-fragment-table-in-table-dropped") THEN (IF NameInScope(ps, N_table, "table") THEN Rep(p1) ELSE p1)
            ELSE IF ps.inner = None THEN Rep(p1) ELSE p1
        ELSE IF nm \in {N_style, N_script} \/ (TPL /\ nm = N_template) THEN StartTag(ps, "inHead", tok)
        ELSE IF nm = N_input /\ IsHiddenInput(tok) THEN NoRe(VoidInsert(ps, tok))
        ELSE IF nm = N_form THEN
            (IF ps.form # 0 \/ TemplateOpen(ps) THEN NoRe(ps) ELSE LET p1 == InsertHtml(ps, tok) IN NoRe(Pop([p1 EXCEPT !.form = Cur(p1)])))
        ELSE \* html5lib's InTablePhase.startTagOther discards the in-body handler's "reprocess" result (named deviation)
             LET p1 == StartTag([ps EXCEPT !.foster = TRUE], "inBody", tok) IN
             [p1 EXCEPT !.foster = FALSE, !.re = IF Std("tc-intable-other-drops-reprocess") THEN @ ELSE FALSE]
    [] mode = "inTableText" -> Rep(FlushTableText(ps))
    [] mode = "inCaption" ->
        IF nm = N_html THEN StartTagHtmlGeneric(ps, tok)
        ELSE IF nm \in TableSectionish THEN
            LET ign == ~NameInScope(ps, N_caption, "table")
                p1 == NoRe(EndTag(ps, ps.mode, ImpliedEndTok(N_caption)))
            IN IF ign THEN p1 ELSE Rep(p1)
        ELSE StartTag(ps, "inBody", tok)
    [] mode = "inColumnGroup" ->
        IF nm = N_html THEN StartTagHtmlGeneric(ps, tok)
        ELSE IF nm = N_col THEN NoRe(VoidInsert(ps, tok))
        ELSE IF TPL /\ nm = N_template THEN StartTag(ps, "inHead", tok)
        ELSE IF ColgroupIgnore(ps) THEN NoRe(ps) ELSE Rep([Pop(ps) EXCEPT !.mode = "inTable"])
    [] mode = "inTableBody" ->
        IF nm = N_html THEN StartTagHtmlGeneric(ps, tok)
        ELSE IF nm = N_tr THEN NoRe([InsertHtml(PopWhileNotHtmlNamed(ps, {N_tbody, N_tfoot, N_thead, N_html}), tok) EXCEPT !.mode = "inRow"])
        ELSE IF nm \in {N_td, N_th} THEN
            Rep([InsertImplied(PopWhileNotHtmlNamed(ps, {N_tbody, N_tfoot, N_thead, N_html}), N_tr) EXCEPT !.mode = "inRow"])
        ELSE IF nm \in {N_caption, N_col, N_colgroup, N_tbody, N_tfoot, N_thead} THEN
            (IF NameInScope(ps, N_tbody, "table") \/ NameInScope(ps, N_thead, "table") \/ NameInScope(ps, N_tfoot, "table")
             THEN LET p1 == PopWhileNotHtmlNamed(ps, {N_tbody, N_tfoot, N_thead, N_html})
                  IN Rep(NoRe(EndTag(p1, "inTableBody", ImpliedEndTok(CurName(p1)))))
             ELSE NoRe(ps))
        ELSE StartTag(ps, "inTable", tok)
    [] mode = "inRow" ->
        IF nm = N_html THEN StartTagHtmlGeneric(ps, tok)
        ELSE IF nm \in {N_td, N_th} THEN
            NoRe([InsertHtml(PopWhileNotNamed(ps, {N_tr, N_html}), tok) EXCEPT !.mode = "inCell", !.afe = Append(@, 0)])
        ELSE IF nm \in {N_caption, N_col, N_colgroup, N_tbody, N_tfoot, N_thead, N_tr} THEN
            LET ign == ~NameInScope(ps, N_tr, "table")
                p1 == NoRe(EndTag(ps, "inRow", ImpliedEndTok(N_tr)))
            IN IF ign THEN p1 ELSE Rep(p1)
        ELSE StartTag(ps, "inTable", tok)
    [] mode = "inCell" ->
        IF nm = N_html THEN StartTagHtmlGeneric(ps, tok)
        ELSE IF nm \in TableSectionish THEN
            (IF NameInScope(ps, N_td, "table") \/ NameInScope(ps, N_th, "table") THEN Rep(CloseCell(ps)) ELSE NoRe(ps))
        ELSE StartTag(ps, "inBody", tok)
    [] mode = "inSelect" ->
        IF nm = N_html THEN StartTagHtmlGeneric(ps, tok)
        ELSE IF nm = N_option THEN NoRe(InsertHtml(IF CurName(ps) = N_option THEN Pop(ps) ELSE ps, tok))
        ELSE IF nm = N_optgroup THEN
            LET p1 == IF CurName(ps) = N_option THEN Pop(ps) ELSE ps
                p2 == IF CurName(p1) = N_optgroup THEN Pop(p1) ELSE p1
            IN NoRe(InsertHtml(p2, tok))
        ELSE IF nm = N_select THEN NoRe(EndTag(ps, "inSelect", ImpliedEndTok(N_select)))
        ELSE IF nm \in {N_input, N_keygen, N_textarea} THEN
            (IF NameInScope(ps, N_select, "select") THEN Rep(NoRe(EndTag(ps, "inSelect", ImpliedEndTok(N_select)))) ELSE NoRe(ps))
        ELSE IF nm = N_script \/ (TPL /\ nm = N_template) THEN StartTag(ps, "inHead", tok)
        ELSE NoRe(ps)
    [] mode = "inTemplate" ->
        IF nm \in InHeadListStd THEN StartTag(ps, "inHead", tok)
        ELSE LET m == IF nm \in {N_caption, N_colgroup, N_tbody, N_tfoot, N_thead} THEN "inTable"
                      ELSE IF nm = N_col THEN "inColumnGroup" ELSE IF nm = N_tr THEN "inTableBody"
                      ELSE IF nm \in {N_td, N_th} THEN "inRow" ELSE "inBody"
             IN Rep([ps EXCEPT !.tmodes = Append(Front(@), m), !.mode = m])
    [] mode = "inSelectInTable" ->
        IF nm \in {N_caption, N_table, N_tbody, N_tfoot, N_thead, N_tr, N_td, N_th}
        THEN Rep(NoRe(EndTag(ps, "inSelect", ImpliedEndTok(N_select))))
        ELSE StartTag(ps, "inSelect", tok)
    [] mode = "afterBody" -> IF nm = N_html THEN StartTag(ps, "inBody", tok) ELSE Rep([ps EXCEPT !.mode = "inBody"])
    [] mode = "inFrameset" ->
        IF nm = N_html THEN StartTagHtmlGeneric(ps, tok)
        ELSE IF nm = N_frameset THEN NoRe(InsertHtml(ps, tok))
        ELSE IF nm = N_frame THEN NoRe(VoidInsert(ps, tok))
        ELSE IF nm = N_noframes THEN StartTag(ps, "inBody", tok)
        ELSE NoRe(ps)
    [] mode = "afterFrameset" ->
        IF nm = N_html THEN StartTagHtmlGeneric(ps, tok)
        ELSE IF nm = N_noframes THEN StartTag(ps, "inHead", tok) ELSE NoRe(ps)
    [] mode = "afterAfterBody" -> IF nm = N_html THEN StartTag(ps, "inBody", tok) ELSE Rep([ps EXCEPT !.mode = "inBody"])
    [] mode = "afterAfterFrameset" ->
        IF nm = N_html THEN StartTag(ps, "inBody", tok)
        ELSE IF nm = N_noframes THEN StartTag(ps, "inHead", tok) ELSE NoRe(ps)

\* table text
FlushTableText(ps) ==
    LET data == ps.ptt
        p0 == [ps EXCEPT !.ptt = <<>>, !.mode = ps.pttOrig]
    IN IF data = <<>> THEN p0
       ELSE IF \E i \in 1..Len(data) : ~IsWs(data[i])
       THEN LET p1 == Chars([p0 EXCEPT !.foster = TRUE], "inBody", "ch", data) IN [p1 EXCEPT !.foster = FALSE, !.re = FALSE]
       ELSE InsertTextCur(p0, data)
CloseCell(ps) ==
    IF NameInScope(ps, N_td, "table") THEN NoRe(EndTag(ps, "inCell", ImpliedEndTok(N_td)))
    ELSE IF NameInScope(ps, N_th, "table") THEN NoRe(EndTag(ps, "inCell", ImpliedEndTok(N_th)))
    ELSE ps

\* ---- end tags ----
EndTagOtherInBody(ps, nm) ==
    LET RECURSIVE Walk(_)
        Walk(i) == IF i = 0 THEN ps
                   ELSE LET nd == ps.nodes[ps.open[i]] IN
                        \* html5lib compares the name only; the standard requires an HTML element of that name
                        IF nd.n = nm /\ (nd.ns = "html" \/ ~Std("tc-anyotherend-ignores-namespace"))
                        THEN PopUntilNode(GenImplied(ps, nm), ps.open[i])
                        ELSE IF IsSpecial(nd) THEN ps ELSE Walk(i - 1)
    IN Walk(Len(ps.open))

EndTag(ps, mode, tok) ==
  LET nm == tok.n IN
  CASE mode = "initial" -> Rep([ps EXCEPT !.quirks = "quirks", !.mode = "beforeHtml"])
    [] mode = "beforeHtml" -> IF nm \in {N_head, N_body, N_html, N_br} THEN Rep(InsertRoot(ps)) ELSE NoRe(ps)
    [] mode = "beforeHead" ->
        IF nm \in {N_head, N_body, N_html, N_br} THEN Rep(StartTagHead(ps, ImpliedStart(N_head))) ELSE NoRe(ps)
    [] mode = "inHead" ->
        IF nm = N_head THEN NoRe(InHeadAnythingElse(ps))
        ELSE IF TPL /\ nm = N_template THEN TemplateEnd(ps)
        ELSE IF nm \in {N_br, N_html, N_body} THEN Rep(InHeadAnythingElse(ps)) ELSE NoRe(ps)
    [] mode = "inHeadNoscript" ->
        IF nm = N_noscript THEN NoRe([Pop(ps) EXCEPT !.mode = "inHead"])
        ELSE IF nm = N_br THEN Rep([Pop(ps) EXCEPT !.mode = "inHead"]) ELSE NoRe(ps)
    [] mode = "afterHead" -> IF nm \in {N_body, N_html, N_br} THEN Rep(AfterHeadAnythingElse(ps))
                             ELSE IF TPL /\ nm = N_template THEN TemplateEnd(ps) ELSE NoRe(ps)
    [] mode = "inBody" ->
        IF nm = N_body THEN (IF NameInScope(ps, N_body, "default") THEN NoRe([ps EXCEPT !.mode = "afterBody"]) ELSE NoRe(ps))
        ELSE IF nm = N_html THEN (IF NameInScope(ps, N_body, "default") THEN Rep([ps EXCEPT !.mode = "afterBody"]) ELSE NoRe(ps))
        ELSE IF nm \in EndBlockNames THEN
            LET p0 == IF nm = N_pre THEN [ps EXCEPT !.dropLF = FALSE] ELSE ps IN
            IF NameInScope(p0, nm, "default") THEN NoRe(PopUntilNamed(GenImplied(p0, None), {nm})) ELSE NoRe(p0)
        ELSE IF TPL /\ nm = N_template THEN TemplateEnd(ps)
        ELSE IF nm = N_form /\ TemplateOpen(ps) THEN
            (IF NameInScope(ps, N_form, "default") THEN NoRe(PopUntilNamed(GenImplied(ps, None), {N_form})) ELSE NoRe(ps))
        ELSE IF nm = N_form THEN
            LET node == ps.form  p0 == [ps EXCEPT !.form = 0] IN
            IF node = 0 \/ ~NodeInScope(p0, node, "default") THEN NoRe(p0)
            ELSE LET p1 == GenImplied(p0, None) IN NoRe([p1 EXCEPT !.open = RemoveFirst(@, node)])
        ELSE IF nm = N_p THEN
            (IF ~NameInScope(ps, N_p, "button")
             THEN LET p1 == NoRe(InsertHtml(CloseP(ps), ImpliedStart(N_p))) IN EndTag(p1, "inBody", ImpliedEndTok(N_p))
             ELSE NoRe(PopUntilNamed(GenImplied(ps, N_p), {N_p})))
        ELSE IF nm \in {N_dd, N_dt, N_li} THEN
            (IF ~NameInScope(ps, nm, IF nm = N_li THEN "list" ELSE "default") THEN NoRe(ps)
             ELSE NoRe(PopUntilNamed(GenImplied(ps, nm), {nm})))
        ELSE IF nm \in Heading THEN
            LET any == \E h \in Heading : NameInScope(ps, h, "default")
                p1 == IF any THEN GenImplied(ps, None) ELSE ps
            IN NoRe(IF any THEN PopUntilNamed(p1, Heading) ELSE p1)
        ELSE IF nm \in Formatting THEN NoRe(AdoptionOuter(ps, tok, 1))
        ELSE IF nm \in {N_applet, N_marquee, N_object} THEN
            (IF NameInScope(ps, nm, "default")
             THEN LET p1 == PopUntilNamed(GenImplied(ps, None), {nm}) IN NoRe([p1 EXCEPT !.afe = ClearAfeToMarker(@)])
             ELSE NoRe(ps))
        ELSE IF nm = N_br THEN
            LET p1 == Pop(InsertImplied(Reconstruct(ps), N_br)) IN
            NoRe(IF Std("tc-endbr-keeps-frameset-ok") THEN [p1 EXCEPT !.fok = FALSE] ELSE p1)
        ELSE NoRe(EndTagOtherInBody(ps, nm))
    [] mode = "text" -> NoRe([Pop(ps) EXCEPT !.mode = ps.orig])
    [] mode = "inTable" ->
        IF nm = N_table THEN
            (IF NameInScope(ps, N_table, "table")
             THEN NoRe(ResetMode(Pop(PopWhileNotNamed(GenImplied(ps, None), {N_table})))) ELSE NoRe(ps))
        ELSE IF nm \in {N_body, N_caption, N_col, N_colgroup, N_html, N_tbody, N_td, N_tfoot, N_th, N_thead, N_tr} THEN NoRe(ps)
        ELSE IF TPL /\ nm = N_template THEN TemplateEnd(ps)
        ELSE LET p1 == EndTag([ps EXCEPT !.foster = TRUE], "inBody", tok) IN
             [p1 EXCEPT !.foster = FALSE, !.re = IF Std("tc-intable-other-drops-reprocess") THEN @ ELSE FALSE]
    [] mode = "inTableText" -> Rep(FlushTableText(ps))
    [] mode = "inCaption" ->
        IF nm = N_caption THEN
            (IF NameInScope(ps, N_caption, "table")
             THEN LET p1 == Pop(PopWhileNotNamed(GenImplied(ps, None), {N_caption}))
                  IN NoRe([p1 EXCEPT !.afe = ClearAfeToMarker(@), !.mode = "inTable"])
             ELSE NoRe(ps))
        ELSE IF nm = N_table THEN
            LET ign == ~NameInScope(ps, N_caption, "table")
                p1 == NoRe(EndTag(ps, ps.mode, ImpliedEndTok(N_caption)))
            IN IF ign THEN p1 ELSE Rep(p1)
        ELSE IF nm \in {N_body, N_col, N_colgroup, N_html, N_tbody, N_td, N_tfoot, N_th, N_thead, N_tr} THEN NoRe(ps)
        ELSE EndTag(ps, "inBody", tok)
    [] mode = "inColumnGroup" ->
        IF nm = N_colgroup THEN (IF ColgroupIgnore(ps) THEN NoRe(ps) ELSE NoRe([Pop(ps) EXCEPT !.mode = "inTable"]))
        ELSE IF nm = N_col THEN NoRe(ps)
        ELSE IF TPL /\ nm = N_template THEN TemplateEnd(ps)
        ELSE IF ColgroupIgnore(ps) THEN NoRe(ps) ELSE Rep([Pop(ps) EXCEPT !.mode = "inTable"])
    [] mode = "inTableBody" ->
        IF nm \in {N_tbody, N_tfoot, N_thead} THEN
            (IF NameInScope(ps, nm, "table")
             THEN NoRe([Pop(PopWhileNotHtmlNamed(ps, {N_tbody, N_tfoot, N_thead, N_html})) EXCEPT !.mode = "inTable"]) ELSE NoRe(ps))
        ELSE IF nm = N_table THEN
            (IF NameInScope(ps, N_tbody, "table") \/ NameInScope(ps, N_thead, "table") \/ NameInScope(ps, N_tfoot, "table")
             THEN LET p1 == PopWhileNotHtmlNamed(ps, {N_tbody, N_tfoot, N_thead, N_html})
                  IN Rep(NoRe(EndTag(p1, "inTableBody", ImpliedEndTok(CurName(p1)))))
             ELSE NoRe(ps))
        ELSE IF nm \in {N_body, N_caption, N_col, N_colgroup, N_html, N_td, N_th, N_tr} THEN NoRe(ps)
        ELSE EndTag(ps, "inTable", tok)
    [] mode = "inRow" ->
        IF nm = N_tr THEN
            (IF NameInScope(ps, N_tr, "table") THEN NoRe([Pop(PopWhileNotNamed(ps, {N_tr, N_html})) EXCEPT !.mode = "inTableBody"])
             ELSE NoRe(ps))
        ELSE IF nm = N_table THEN
            LET ign == ~NameInScope(ps, N_tr, "table")
                p1 == NoRe(EndTag(ps, "inRow", ImpliedEndTok(N_tr)))
            IN IF ign THEN p1 ELSE Rep(p1)
        ELSE IF nm \in {N_tbody, N_tfoot, N_thead} THEN
            (IF NameInScope(ps, nm, "table") THEN Rep(NoRe(EndTag(ps, "inRow", ImpliedEndTok(N_tr)))) ELSE NoRe(ps))
        ELSE IF nm \in {N_body, N_caption, N_col, N_colgroup, N_html, N_td, N_th} THEN NoRe(ps)
        ELSE EndTag(ps, "inTable", tok)
    [] mode = "inCell" ->
        IF nm \in {N_td, N_th} THEN
            (IF NameInScope(ps, nm, "table")
             THEN LET p1 == PopUntilNamed(GenImplied(ps, nm), {nm}) IN NoRe([p1 EXCEPT !.afe = ClearAfeToMarker(@), !.mode = "inRow"])
             ELSE NoRe(ps))
        ELSE IF nm \in {N_body, N_caption, N_col, N_colgroup, N_html} THEN NoRe(ps)
        ELSE IF nm \in {N_table, N_tbody, N_tfoot, N_thead, N_tr} THEN
            (IF NameInScope(ps, nm, "table") THEN Rep(CloseCell(ps)) ELSE NoRe(ps))
        ELSE EndTag(ps, "inBody", tok)
    [] mode = "inSelect" ->
        IF nm = N_option THEN NoRe(IF CurName(ps) = N_option THEN Pop(ps) ELSE ps)
        ELSE IF nm = N_optgroup THEN
            LET p1 == IF CurName(ps) = N_option /\ Len(ps.open) >= 2 /\ ps.nodes[ps.open[Len(ps.open) - 1]].n = N_optgroup THEN Pop(ps) ELSE ps
            IN NoRe(IF CurName(p1) = N_optgroup THEN Pop(p1) ELSE p1)
        ELSE IF nm = N_select THEN
            (IF NameInScope(ps, N_select, "select") THEN NoRe(ResetMode(PopUntilNamed(ps, {N_select}))) ELSE NoRe(ps))
        ELSE IF TPL /\ nm = N_template THEN TemplateEnd(ps)
        ELSE NoRe(ps)
    [] mode = "inTemplate" -> IF nm = N_template THEN TemplateEnd(ps) ELSE NoRe(ps)
    [] mode = "inSelectInTable" ->
        IF nm \in {N_caption, N_table, N_tbody, N_tfoot, N_thead, N_tr, N_td, N_th}
        THEN (IF NameInScope(ps, nm, "table") THEN Rep(NoRe(EndTag(ps, "inSelect", ImpliedEndTok(N_select)))) ELSE NoRe(ps))
        ELSE EndTag(ps, "inSelect", tok)
    [] mode = "afterBody" ->
        IF nm = N_html THEN (IF ps.inner # None THEN NoRe(ps) ELSE NoRe([ps EXCEPT !.mode = "afterAfterBody"]))
        ELSE Rep([ps EXCEPT !.mode = "inBody"])
    [] mode = "inFrameset" ->
        IF nm = N_frameset THEN
            LET p1 == IF CurName(ps) = N_html THEN ps ELSE Pop(ps) IN
            NoRe(IF ps.inner = None /\ CurName(p1) # N_frameset THEN [p1 EXCEPT !.mode = "afterFrameset"] ELSE p1)
        ELSE NoRe(ps)
    [] mode = "afterFrameset" -> IF nm = N_html THEN NoRe([ps EXCEPT !.mode = "afterAfterFrameset"]) ELSE NoRe(ps)
    [] mode = "afterAfterBody" -> Rep([ps EXCEPT !.mode = "inBody"])
    [] mode = "afterAfterFrameset" -> NoRe(ps)

\* ---- the adoption agency algorithm (html5lib's rendition: outer loop 8, inner loop 3) ----
RECURSIVE FirstSpecialFrom(_, _)
FirstSpecialFrom(ps, i) == IF i > Len(ps.open) THEN 0 ELSE IF IsSpecial(ps.nodes[ps.open[i]]) THEN i ELSE FirstSpecialFrom(ps, i + 1)
CloneNode(ps, id) == NewElem(ps, ps.nodes[id].ns, ps.nodes[id].n, ps.nodes[id].a)         \* new id = Len(result.nodes)
\* st: [ps, fe, fb, last, node index, bookmark, count]
AdoptionInner(ps, st) ==
    IF ~Std("tc-adoption-inner-loop-3") /\ st.cnt >= 3 THEN [ps |-> ps, st |-> st]      \* html5lib stops after three rounds
    ELSE LET idx  == st.idx - 1
             node == ps.open[idx]
             cnt1 == st.cnt + 1
             \* the standard goes on until the formatting element is met; after three rounds the nodes still met are dropped
             \* from the list of active formatting elements (and therefore from the stack)
             drop == Std("tc-adoption-inner-loop-3") /\ cnt1 > 3 /\ node # st.fe /\ InAfe(ps, node)
             ps0  == IF drop THEN [ps EXCEPT !.afe = RemoveFirst(@, node)] ELSE ps
             bm0  == IF drop /\ FirstIndexOf(ps.afe, node, 1) < st.bm THEN st.bm - 1 ELSE st.bm
         IN IF ~InAfe(ps0, node)
            THEN AdoptionInner([ps0 EXCEPT !.open = RemoveAt(@, idx)], [st EXCEPT !.cnt = cnt1, !.idx = idx, !.bm = bm0])
            ELSE IF node = st.fe THEN [ps |-> ps0, st |-> [st EXCEPT !.cnt = cnt1, !.idx = idx]]
            ELSE LET bm == IF st.last = st.fb THEN FirstIndexOf(ps0.afe, node, 1) + 1 ELSE st.bm
                     p1 == CloneNode(ps0, node)
                     cl == Len(p1.nodes)
                     p2 == [p1 EXCEPT !.afe[FirstIndexOf(ps0.afe, node, 1)] = cl, !.open[idx] = cl]
                     p3 == [p2 EXCEPT !.nodes = AppendChild(@, cl, st.last)]
                 IN AdoptionInner(p3, [st EXCEPT !.cnt = cnt1, !.idx = idx, !.bm = bm, !.last = cl])
AdoptionOuter(ps, tok, round) ==
    IF round > 8 THEN ps
    \* the standard's first step (html5lib lacks it): the current node has the tag name and is not in the list -> just pop it
    ELSE IF round = 1 /\ Std("tc-adoption-no-current-node-step") /\ CurNd(ps).ns = "html" /\ CurName(ps) = tok.n /\ ~InAfe(ps, Cur(ps))
    THEN Pop(ps)
    ELSE LET fe == AfeFind(ps, tok.n) IN
         IF fe = 0 \/ (InOpen(ps, fe) /\ ~NameInScope(ps, ps.nodes[fe].n, "default")) THEN EndTagOtherInBody(ps, tok.n)
         ELSE IF ~InOpen(ps, fe) THEN [ps EXCEPT !.afe = RemoveFirst(@, fe)]
         ELSE LET feIdx == FirstIndexOf(ps.open, fe, 1)
                  fbIdx == FirstSpecialFrom(ps, feIdx)
              IN IF fbIdx = 0 THEN [PopUntilNode(ps, fe) EXCEPT !.afe = RemoveFirst(@, fe)]
                 ELSE LET fb == ps.open[fbIdx]
                          ca == ps.open[feIdx - 1]
                          r  == AdoptionInner(ps, [fe |-> fe, fb |-> fb, last |-> fb, idx |-> fbIdx,
                                                    bm |-> FirstIndexOf(ps.afe, fe, 1), cnt |-> 0])
                          p1 == r.ps
                          last == r.st.last
                          p2 == [p1 EXCEPT !.nodes = Detach(@, last)]
                          p3 == IF p2.nodes[ca].n \in {N_table, N_tbody, N_tfoot, N_thead, N_tr}
                                THEN LET fp == FosterPos(p2) IN [p2 EXCEPT !.nodes = InsertBefore(@, fp[1], last, fp[2])]
                                ELSE [p2 EXCEPT !.nodes = AppendChild(@, Into(p2.nodes, ca), last)]
                          p4 == CloneNode(p3, fe)
                          cl == Len(p4.nodes)
                          p5 == [p4 EXCEPT !.nodes = AppendChild(ReparentKids(@, fb, cl), fb, cl)]
                          afe1 == RemoveFirst(p5.afe, fe)
                          bm == IF FirstIndexOf(p5.afe, fe, 1) < r.st.bm THEN r.st.bm - 1 ELSE r.st.bm
                          afe2 == InsertAt(afe1, IF bm > Len(afe1) + 1 THEN Len(afe1) + 1 ELSE bm, cl)
                          open1 == RemoveFirst(p5.open, fe)
                          open2 == InsertAt(open1, FirstIndexOf(open1, fb, 1) + 1, cl)
                      IN AdoptionOuter([p5 EXCEPT !.afe = afe2, !.open = open2], tok, round + 1)

\* ---- characters: one run of class cls ("ws" | "ch" | "nul") ----
Chars(ps, mode, cls, data) ==
  CASE mode = "initial" -> IF cls = "ws" THEN NoRe(ps) ELSE Rep([ps EXCEPT !.quirks = "quirks", !.mode = "beforeHtml"])
    [] mode = "beforeHtml" -> IF cls = "ws" THEN NoRe(ps) ELSE Rep(InsertRoot(ps))
    [] mode = "beforeHead" -> IF cls = "ws" THEN NoRe(ps) ELSE Rep(StartTagHead(ps, ImpliedStart(N_head)))
    [] mode = "inHead" -> IF cls = "ws" THEN NoRe(InsertTextCur(ps, data)) ELSE Rep(InHeadAnythingElse(ps))
    [] mode = "inHeadNoscript" -> IF cls = "ws" THEN NoRe(InsertTextCur(ps, data)) ELSE Rep([Pop(ps) EXCEPT !.mode = "inHead"])
    [] mode = "afterHead" -> IF cls = "ws" THEN NoRe(InsertTextCur(ps, data)) ELSE Rep(AfterHeadAnythingElse(ps))
    [] mode = "inBody" ->
        IF cls = "nul" THEN NoRe(ps)
        ELSE IF cls = "ws" THEN
            (IF ps.dropLF
             THEN LET d1 == IF data[1] = 10 /\ CurName(ps) \in {N_pre, N_listing, N_textarea} /\ ~HasContent(ps.nodes, Cur(ps))
                            THEN Tail(data) ELSE data
                      p0 == [ps EXCEPT !.dropLF = FALSE]
                  IN NoRe(IF d1 = <<>> THEN p0 ELSE InsertTextCur(Reconstruct(p0), d1))
             ELSE NoRe(InsertTextCur(Reconstruct(ps), data)))
        ELSE NoRe([InsertTextCur(Reconstruct(ps), data) EXCEPT !.fok = FALSE])
    [] mode = "text" ->
        IF Std("tc-textarea-stays-in-body") /\ ps.dropLF
        THEN LET d1 == IF cls = "ws" /\ data[1] = 10 /\ ~HasContent(ps.nodes, Cur(ps)) THEN Tail(data) ELSE data
             IN NoRe(InsertTextCur([ps EXCEPT !.dropLF = FALSE], d1))
        ELSE NoRe(InsertTextCur(ps, data))
    [] mode \in {"inTable", "inTableBody", "inRow"} ->
        \* the standard ignores an LF that directly follows <pre>/<listing>/<textarea> here too; html5lib's table text path keeps it
        IF Std("tc-table-pre-lf-kept") /\ ps.dropLF /\ cls = "ws" /\ data[1] = 10
           /\ CurName(ps) \in {N_pre, N_listing, N_textarea} /\ ~HasContent(ps.nodes, Cur(ps))
        THEN (IF Len(data) = 1 THEN NoRe([ps EXCEPT !.dropLF = FALSE])
              ELSE Chars([ps EXCEPT !.dropLF = FALSE, !.pttOrig = ps.mode, !.mode = "inTableText"], "inTableText", cls, Tail(data)))
        ELSE Chars([ps EXCEPT !.pttOrig = ps.mode, !.mode = "inTableText"], "inTableText", cls, data)
    [] mode = "inTableText" -> IF cls = "nul" THEN NoRe(ps) ELSE NoRe([ps EXCEPT !.ptt = @ \o data])
    [] mode \in {"inCaption", "inCell"} ->
        \* html5lib: these phases inherit the base whitespace handler (plain insert: no reconstruction, no LF drop)
        IF cls = "ws" /\ ~Std("tc-cell-caption-ws-base") THEN NoRe(InsertTextCur(ps, data)) ELSE Chars(ps, "inBody", cls, data)
    [] mode = "inColumnGroup" ->
        IF cls = "ws" THEN NoRe(InsertTextCur(ps, data))
        ELSE IF ColgroupIgnore(ps) THEN NoRe(ps) ELSE Rep([Pop(ps) EXCEPT !.mode = "inTable"])
    [] mode = "inTemplate" -> Chars(ps, "inBody", cls, data)
    [] mode \in {"inSelect", "inSelectInTable"} -> IF cls = "nul" THEN NoRe(ps) ELSE NoRe(InsertTextCur(ps, data))
    [] mode = "afterBody" ->
        IF cls = "ws" THEN (IF Std("tc-afterbody-space") THEN Chars(ps, "inBody", cls, data) ELSE NoRe(InsertTextCur(ps, data)))
        ELSE Rep([ps EXCEPT !.mode = "inBody"])
    [] mode \in {"inFrameset", "afterFrameset"} -> IF cls = "ws" THEN NoRe(InsertTextCur(ps, data)) ELSE NoRe(ps)
    [] mode = "afterAfterBody" -> IF cls = "ws" THEN Chars(ps, "inBody", cls, data) ELSE Rep([ps EXCEPT !.mode = "inBody"])
    [] mode = "afterAfterFrameset" -> IF cls = "ws" THEN Chars(ps, "inBody", cls, data) ELSE NoRe(ps)

\* ---- comments / doctype ----
Comment(ps, mode, tok) ==
    CASE mode \in {"initial", "beforeHtml", "afterAfterBody", "afterAfterFrameset"} -> NoRe(InsertComment(ps, 1, tok.d))
      [] mode = "afterBody" -> NoRe(InsertComment(ps, ps.open[1], tok.d))
      [] mode = "inTableText" -> Rep(FlushTableText(ps))
      [] OTHER -> NoRe(InsertComment(ps, Cur(ps), tok.d))

\* ---- end of file ----
EofIn(ps, mode) ==
    CASE mode = "initial" -> Rep([ps EXCEPT !.quirks = "quirks", !.mode = "beforeHtml"])
      [] mode = "beforeHtml" -> Rep(InsertRoot(ps))
      [] mode = "beforeHead" -> Rep(StartTagHead(ps, ImpliedStart(N_head)))
      [] mode = "inHead" -> Rep(InHeadAnythingElse(ps))
      [] mode = "inHeadNoscript" -> Rep([Pop(ps) EXCEPT !.mode = "inHead"])
      [] mode = "afterHead" -> Rep(AfterHeadAnythingElse(ps))
      [] mode = "text" -> Rep([Pop(ps) EXCEPT !.mode = ps.orig])
      [] mode = "inTableText" -> Rep(FlushTableText(ps))
      [] TPL /\ ps.tmodes # <<>> /\ mode \in {"inBody", "inTable", "inCaption", "inColumnGroup", "inTableBody", "inRow", "inCell",
                                             "inSelect", "inSelectInTable", "inTemplate"} -> TemplateEof(ps)
      [] mode = "inColumnGroup" -> IF CurName(ps) = N_html THEN NoRe(ps) ELSE Rep([Pop(ps) EXCEPT !.mode = "inTable"])
      [] OTHER -> NoRe(ps)

\* ---------------------------------------------------------------------------------------------
\* foreign content
BreakoutNames == {N_b, N_big, N_blockquote, N_body, N_br, N_center, N_code, N_dd, N_div, N_dl, N_dt, N_em, N_embed, N_h1, N_h2,
                  N_h3, N_h4, N_h5, N_h6, N_head, N_hr, N_i, N_img, N_li, N_listing, N_menu, N_meta, N_nobr, N_ol, N_p, N_pre,
                  N_ruby, N_s, N_small, N_span, N_strong, N_strike, N_sub, N_sup, N_table, N_tt, N_u, N_ul, N_var}
IsHtmlIP(nd) ==
    IF nd.ns = "math" /\ nd.n = N_annotation_xml
    THEN LET v == NodeAttrVal(nd, N_encoding) IN v # None /\ Lower(v) \in {N_text_html, N_application_xhtml_xml}
    ELSE nd.ns = "svg" /\ nd.n \in {N_desc, N_foreignObject, N_title}
IsMathTextIP(nd) == nd.ns = "math" /\ nd.n \in MathTextIP
RECURSIVE BreakoutPop(_)
BreakoutPop(ps) == LET nd == CurNd(ps) IN
    IF nd.ns # "html" /\ ~IsHtmlIP(nd) /\ ~IsMathTextIP(nd) THEN BreakoutPop(Pop(ps)) ELSE ps
ForeignStart(ps, tok) ==
    IF tok.n \in BreakoutNames \/ (tok.n = N_font /\ \E i \in 1..Len(tok.a) : tok.a[i][1] \in {N_color, N_face, N_size})
    THEN Rep(BreakoutPop(ps))
    ELSE LET ns == CurNd(ps).ns
             nm == IF ns = "svg" THEN AdjSvgTagName(tok.n) ELSE tok.n
             p1 == InsertElemNs(ps, ns, nm, ForeignAttrs(tok.a, ns))
         IN NoRe(IF tok.sc THEN Pop(p1) ELSE p1)
ForeignEnd(ps, tok) ==
    LET RECURSIVE Walk(_)
        Walk(i) == LET nd == ps.nodes[ps.open[i]] IN
                   IF Lower(nd.n) = tok.n
                   THEN LET p0 == IF ps.mode = "inTableText" THEN FlushTableText(ps) ELSE ps
                        IN NoRe(PopUntilNode(p0, ps.open[i]))
                   ELSE IF i = 1 THEN NoRe(ps)                   \* cannot happen: the root is an HTML element
                   ELSE IF ps.nodes[ps.open[i - 1]].ns # "html" THEN Walk(i - 1)
                   ELSE EndTag(ps, ps.mode, tok)
    IN \* the standard lists the end tags </p> and </br> with the breakout start tags; html5lib has start tags only
       IF Std("tc-foreign-endtag-p-br") /\ tok.n \in {N_p, N_br}
       THEN LET p1 == BreakoutPop(ps) IN EndTag(p1, p1.mode, tok)
       ELSE Walk(Len(ps.open))
ForeignChars(ps, cls, data) ==
    IF cls = "nul" THEN NoRe(InsertTextCur(ps, [i \in 1..Len(data) |-> 65533]))
    ELSE IF cls = "ws" THEN NoRe(InsertTextCur(ps, data))
    ELSE NoRe([InsertTextCur(ps, data) EXCEPT !.fok = FALSE])

\* which rules process the token: TRUE = the current insertion mode, FALSE = foreign content
UseMode(ps, kind, name) ==
    \/ ps.open = <<>>
    \/ LET nd == CurNd(ps) IN
       \/ nd.ns = "html"
       \/ (IsMathTextIP(nd) /\ ((kind = "StartTag" /\ name \notin {N_mglyph, N_malignmark}) \/ kind = "Character"))
       \/ (nd.ns = "math" /\ nd.n = N_annotation_xml /\ kind = "StartTag" /\ name = N_svg)
       \/ (IsHtmlIP(nd) /\ kind \in {"StartTag", "Character"})

Doctype(ps, mode, tok, QT) ==
    IF mode # "initial" THEN NoRe(ps)
    ELSE LET id == Len(ps.nodes) + 1
             nd == [MkNode("doctype", "", IF tok.n = None THEN <<>> ELSE tok.n, <<>>, <<>>) EXCEPT
                        !.p = IF tok.p = None THEN <<>> ELSE tok.p, !.s = IF tok.s = None THEN <<>> ELSE tok.s]
         IN NoRe([ps EXCEPT !.nodes = AppendChild(Append(@, nd), 1, id), !.mode = "beforeHtml",
                            !.quirks = QuirksMode(tok, QT.quirky, QT.exact, QT.limited, QT.html401, QT.ibm)])

\* one non-character token, with reprocessing (fuel bounds the reprocess chain; measured maximum is small)
RECURSIVE ProcTok(_, _, _, _)
ProcTok(ps, tok, QT, fuel) ==
    LET r == IF tok.t = "StartTag" THEN (IF UseMode(ps, "StartTag", tok.n) THEN StartTag(ps, ps.mode, tok) ELSE ForeignStart(ps, tok))
             ELSE IF tok.t = "EndTag" THEN (IF UseMode(ps, "EndTag", tok.n) THEN EndTag(ps, ps.mode, tok) ELSE ForeignEnd(ps, tok))
             ELSE IF tok.t = "Comment" THEN (IF UseMode(ps, "Comment", None) THEN Comment(ps, ps.mode, tok) ELSE NoRe(InsertComment(ps, Cur(ps), tok.d)))
             ELSE (IF UseMode(ps, "Doctype", None) THEN Doctype(ps, ps.mode, tok, QT) ELSE NoRe(ps))
    IN IF r.re /\ fuel > 0 THEN ProcTok(NoRe(r), tok, QT, fuel - 1) ELSE r
RECURSIVE ProcRun(_, _, _, _)
ProcRun(ps, cls, data, fuel) ==
    LET r == IF UseMode(ps, "Character", None) THEN Chars(ps, ps.mode, cls, data) ELSE ForeignChars(ps, cls, data)
    IN IF r.re /\ fuel > 0 THEN ProcRun(NoRe(r), cls, data, fuel - 1) ELSE r
\* data = the characters of one (merged) Character token; bks = the positions at which html5lib starts a new
\* Characters / SpaceCharacters token (always contains 1); off = position of data[1] within the whole token
RECURSIVE NextBoundary(_, _, _)
NextBoundary(bks, pos, total) ==       \* the first boundary position > pos, or total + 1
    IF bks = <<>> THEN total + 1 ELSE IF bks[1] > pos THEN bks[1] ELSE NextBoundary(Tail(bks), pos, total)
RECURSIVE ProcCharsAt(_, _, _, _, _)
ProcCharsAt(ps, data, bks, off, total) ==
    IF data = <<>> THEN ps
    ELSE LET cls == Cls(data[1])
             \* html5lib hands over whole Characters tokens: in the modes that ignore non-space characters a token that
             \* starts with a non-space character is ignored together with the whitespace inside it (named deviation)
             swallow == /\ cls = "ch" /\ ~Std("tc-chars-token-granularity")
                        /\ (ps.mode \in {"inFrameset", "afterFrameset", "afterAfterFrameset"}
                            \/ (ps.mode = "inColumnGroup" /\ CurName(ps) = N_html))
                        /\ UseMode(ps, "Character", None)
             k == IF swallow THEN NextBoundary(bks, off, total) - off ELSE RunLen(data, cls)
         IN ProcCharsAt(ProcRun(ps, cls, SubSeq(data, 1, k), 8), SubSeq(data, k + 1, Len(data)), bks, off + k, total)
ProcChars(ps, data, bks) == ProcCharsAt(ps, data, bks, 1, Len(data))
RECURSIVE ProcEof(_, _)
ProcEof(ps, fuel) == LET r == EofIn(ps, ps.mode) IN IF r.re /\ fuel > 0 THEN ProcEof(NoRe(r), fuel - 1) ELSE r

TreeStep(ps, tok, bks, QT) ==
    LET p0 == [ps EXCEPT !.tokReq = ""] IN
    IF tok.t = "Character" THEN ProcChars(p0, tok.d, bks) ELSE ProcTok(p0, tok, QT, 8)
TreeEof(ps) == ProcEof(ps, 8)

\* the parser's internal state after the parse, as far as the real parser object still exposes it (names, not nodes)
RECURSIVE NameSeq(_, _)
NameSeq(ps, ids) == IF ids = <<>> THEN <<>>
                    ELSE <<IF ids[1] = 0 THEN <<"marker", <<>>>> ELSE <<ps.nodes[ids[1]].ns, ps.nodes[ids[1]].n>>>> \o NameSeq(ps, Tail(ids))
Snapshot(ps) == [mode |-> ps.mode, open |-> NameSeq(ps, ps.open), afe |-> NameSeq(ps, ps.afe), fok |-> ps.fok,
                 form |-> ps.form # 0, head |-> ps.head # 0, quirks |-> ps.quirks]
\* observable result: the canonical document, or the canonical children of the root for a fragment
Result(ps) == IF ps.inner = None THEN Canon(ps.nodes, 1) ELSE Canon(ps.nodes, ps.open[1]).c

\* ---------------------------------------------------------------------------------------------
\* model-level theorems (checked in every explored state)
StackOK(ps) ==
    /\ \A i \in 1..Len(ps.open) : ps.open[i] \in 1..Len(ps.nodes) /\ ps.nodes[ps.open[i]].k = "elem"
    /\ (ps.open # <<>> => ps.nodes[ps.open[1]].n = N_html /\ ps.nodes[ps.open[1]].ns = "html" /\ ps.nodes[ps.open[1]].par = 1)
    /\ \A i \in 1..Len(ps.afe) : ps.afe[i] = 0 \/ (ps.afe[i] \in 1..Len(ps.nodes) /\ ps.nodes[ps.afe[i]].n \in Formatting)
NoahsArk(ps) ==
    \A i \in 1..Len(ps.afe) : ps.afe[i] # 0 =>
        Cardinality({j \in i..Len(ps.afe) : (\A m \in i..j : ps.afe[m] # 0) /\ ps.nodes[ps.afe[j]].n = ps.nodes[ps.afe[i]].n
                                              /\ Range(ps.nodes[ps.afe[j]].a) = Range(ps.nodes[ps.afe[i]].a)}) <= 3
ModeOK(ps) ==
    /\ (ps.mode = "text" => ps.orig # "" /\ ps.open # <<>>)
    /\ (ps.mode # "inTableText" => ps.ptt = <<>>)
    /\ (ps.mode \notin {"initial", "beforeHtml"} => ps.open # <<>>)
\* document skeleton after EOF (C03)
IsWsText(nd) == nd.k = "text" /\ AllWs(nd.d)
\* strict: exactly as the property words it.  relaxed: additionally tolerates <noframes> elements after the frameset
\* (what the standard's "after frameset" rules produce: known finding skel-noframes-after-frameset of C03)
SkeletonGen(doc, relaxed) ==
    LET roots == {i \in 1..Len(doc.c) : doc.c[i].k = "elem"} IN
    /\ Cardinality(roots) = 1
    /\ \A i \in 1..Len(doc.c) : doc.c[i].k \in {"elem", "comment", "doctype"}
    /\ LET html == doc.c[CHOOSE i \in roots : TRUE]
           els == SelectSeq(html.c, LAMBDA x : x.k = "elem")
       IN /\ html.n = N_html /\ html.ns = "html"
          /\ Len(els) >= 2 /\ els[1].n = N_head /\ els[1].ns = "html" /\ els[2].ns = "html" /\ els[2].n \in {N_body, N_frameset}
          /\ (Len(els) > 2 => relaxed /\ els[2].n = N_frameset /\ \A j \in 3..Len(els) : els[j].ns = "html" /\ els[j].n = N_noframes)
          /\ \A j \in 1..Len(html.c) : html.c[j].k = "text" => AllWs(html.c[j].d)
Skeleton(doc) == SkeletonGen(doc, FALSE)
SkeletonRelaxed(doc) == SkeletonGen(doc, TRUE)
=============================================================================
