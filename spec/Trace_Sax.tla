------------------------------- MODULE Trace_Sax -------------------------------
(* C19, code -> spec.  One trace = one to_sax() run:                                            *)
(*   [sub : projection of the walked subtree (flat), stream : the walker's tokens (input of to_sax),   *)
(*    evs : the calls the recording ContentHandler received]                                    *)
(* One transition per input token: the events the adapter emitted for that token must equal     *)
(* SaxTok(token) (pointer o into evs); then the closing events; then SaxOK and the rebuilt tree.*)
(* Verdicts: reject:head, reject:step (l = token index), reject:tail, accept, accept:nonparsed, *)
(* finding (c = clause, f = walker deviations that explain it), reject:property.                *)
EXTENDS Sax, TLC, Json, IOUtils
Traces == JsonDeserialize(IOEnv.TRACE_FILE)
VARIABLES tid, l, o, verdict, c, f
vars == <<tid, l, o, verdict, c, f>>
NMaps == Len(PrefixMappings)
SaxHead == <<EvStartDoc>> \o [i \in 1..NMaps |-> EvStartMap(PrefixMappings[i][1], PrefixMappings[i][2])]
SaxFoot == [i \in 1..NMaps |-> EvEndMap(PrefixMappings[i][1])] \o <<EvEndDoc>>

Init == /\ tid \in 1..Len(Traces) /\ l = 0 /\ o = 1 /\ verdict = "run" /\ c = "-" /\ f = {}
\* the stream carries an empty namespace / empty local name: the trace of the etree walker's Clark-split deviation
HasEmptyPart(toks) == \E i \in 1..Len(toks) :
                          /\ toks[i].t \in {"StartTag", "EmptyTag"}
                          /\ (toks[i].ns = <<>> \/ toks[i].n = <<>>
                              \/ \E j \in 1..Len(toks[i].a) : toks[i].a[j][1] = <<>> \/ toks[i].a[j][2] = <<>>)
Final(tr) ==
    LET sub  == Unflat(tr.sub, 1)
        good == Walk(sub, {})
        why  == FiredOn(sub, KnownDefects)
                \cup (IF HasEmptyPart(tr.stream) THEN {"etree-clark-empty-part"} \cap KnownDefects ELSE {})
    IN
    IF ~ParsedShape(sub) THEN [v |-> "accept:nonparsed", c |-> "-", f |-> {}]
    ELSE LET cl == SaxClause(tr.evs, sub) IN
         IF cl = "ok" THEN [v |-> "accept", c |-> cl, f |-> {}]
         \* the adapter was exact on its input (checked token by token): the input stream is what deviates
         ELSE IF why # {} /\ SaxClause(ToSax(good), sub) = "ok" THEN [v |-> "finding", c |-> cl, f |-> why]
         ELSE [v |-> "reject:property", c |-> cl, f |-> {}]
Step ==
    /\ verdict = "run"
    /\ LET tr == Traces[tid]  evs == tr.evs IN
       IF l = 0
       THEN IF Len(evs) >= Len(SaxHead) /\ SubSeq(evs, 1, Len(SaxHead)) = SaxHead
            THEN l' = 1 /\ o' = Len(SaxHead) + 1 /\ UNCHANGED <<tid, verdict, c, f>>
            ELSE verdict' = "reject:head" /\ UNCHANGED <<tid, l, o, c, f>>
       ELSE IF l <= Len(tr.stream)
       THEN LET exp == SaxTok(tr.stream[l]) IN
            IF o + Len(exp) - 1 > Len(evs) \/ SubSeq(evs, o, o + Len(exp) - 1) # exp
            THEN verdict' = "reject:step" /\ UNCHANGED <<tid, l, o, c, f>>
            ELSE IF exp = <<EvRaise>>
                 THEN IF o = Len(evs)
                      THEN LET r == Final(tr) IN verdict' = r.v /\ c' = r.c /\ f' = r.f /\ UNCHANGED <<tid, l, o>>
                      ELSE verdict' = "reject:tail" /\ UNCHANGED <<tid, l, o, c, f>>
                 ELSE l' = l + 1 /\ o' = o + Len(exp) /\ UNCHANGED <<tid, verdict, c, f>>
       ELSE IF SubSeq(evs, o, Len(evs)) # SaxFoot
            THEN verdict' = "reject:tail" /\ UNCHANGED <<tid, l, o, c, f>>
            ELSE LET r == Final(tr) IN verdict' = r.v /\ c' = r.c /\ f' = r.f /\ UNCHANGED <<tid, l, o>>
Done == verdict # "run" /\ UNCHANGED vars
Next == Step \/ Done
Report == verdict # "run" => PrintT(ToJson([tid |-> tid, l |-> l, v |-> verdict, c |-> c, f |-> f]))
=============================================================================
