-------------------------- MODULE Trace_Serializer -------------------------
(* Runs recorded from the real HTMLSerializer: toks (walker stream of a real tree), o (option  *)
(* vector), out (code points of render()), errs (.errors as codes), sn (strict=True: number of  *)
(* code points yielded before SerializeError was raised, -1 if it was not raised; se: .errors of *)
(* that strict run).                                                                            *)
(* Per trace: (1) the code must equal the code-faithful machine exactly (output, error list,    *)
(* strict cut); (2) the judge re-tokenizes the ACTUAL output in place; an unfaithful output     *)
(* without a reported error is a "finding" when the intended machine (no deviations) is         *)
(* faithful on the same stream and some listed deviation fires, otherwise "reject:property".    *)
EXTENDS Serializer, TLC, Json, IOUtils
Traces == JsonDeserialize(IOEnv.TRACE_FILE)
VARIABLES tid, l, verdict, info
vars == <<tid, l, verdict, info>>
NoInfo == [c |-> "-", f |-> {}]

RECURSIVE FirstDiff(_, _, _)
FirstDiff(a, b, k) == IF k > Len(a) \/ k > Len(b) THEN k ELSE IF a[k] # b[k] THEN k ELSE FirstDiff(a, b, k + 1)

Init == tid \in 1..Len(Traces) /\ l = 0 /\ verdict = "run" /\ info = NoInfo
Step ==
    /\ verdict = "run"
    /\ UNCHANGED tid
    /\ LET tr  == Traces[tid]
           res == SerRun(tr.toks, tr.o, KnownDefects)
       IN IF OutOf(res) # tr.out THEN verdict' = "reject:output" /\ l' = FirstDiff(OutOf(res), tr.out, 1) /\ info' = NoInfo
          ELSE IF res.errs # tr.errs THEN verdict' = "reject:errors" /\ l' = Len(res.errs) /\ info' = NoInfo
          ELSE IF CutOf(res) # tr.sn \/ tr.se # (IF res.errs = <<>> THEN <<>> ELSE <<res.errs[1]>>)
               THEN verdict' = "reject:strict" /\ l' = (IF res.ferr < 0 THEN 0 ELSE res.ferr) /\ info' = NoInfo
          ELSE IF res.crash THEN verdict' = "accept" /\ l' = Len(tr.toks) /\ info' = [c |-> "exception-raised", f |-> {}]
          ELSE IF res.errs # <<>> THEN verdict' = "accept" /\ l' = Len(tr.toks) /\ info' = [c |-> "error-reported", f |-> {}]
          ELSE LET f == Judge(tr.toks, tr.o, tr.out) IN
               IF f.j = 0 THEN verdict' = "accept" /\ l' = Len(tr.toks) /\ info' = [c |-> "faithful", f |-> {}]
               ELSE LET fired == Fired(tr.toks, tr.o, KnownDefects) IN
                    IF fired # {} /\ Faithful(tr.toks, tr.o, SerRun(tr.toks, tr.o, {}))
                    THEN verdict' = "finding" /\ l' = f.j /\ info' = [c |-> f.c, f |-> fired]
                    ELSE verdict' = "reject:property" /\ l' = f.j /\ info' = [c |-> f.c, f |-> fired]
Done == verdict # "run" /\ UNCHANGED vars
Next == Step \/ Done
Report == verdict # "run" => PrintT(ToJson([tid |-> tid, l |-> l, v |-> verdict, c |-> info.c, f |-> info.f]))
=============================================================================
