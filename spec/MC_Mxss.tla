------------------------------ MODULE MC_Mxss ------------------------------
(* Bounded-exhaustive exploration of the COMPOSED specification                               *)
(*    parse -> walk -> sanitize -> [omit optional tags] -> serialize -> re-parse              *)
(* over inputs  pre \o fragments \o post  where fragment k is drawn from the alphabet named   *)
(* alphas[k] (every prefix is a state; one exploration per entry of                            *)
(* Cfg.runs = [alphas, lists, pre, post, plan]): markup fragments of the mutation-XSS          *)
(* alphabets, and attribute VALUES (character-reference spellings behind a scheme name; long   *)
(* values with the quoting hazard in the tail, lengths around the size literals of the code).  In every state, for every first-parse mode x option vector x   *)
(* re-parse mode of the configuration file: the property (SafeTree and Corresponds on the     *)
(* re-parsed tree) - a theorem of the intended configuration (KnownDefects = {}) - and the    *)
(* export of the behaviour (input, output text, flat re-parsed trees, violated clauses) for   *)
(* replay through the real pipeline.                                                          *)
(* The configuration (fragments, allow-lists of the Filter instance projected on the names of *)
(* the alphabet, option vectors, modes) is DATA read from a JSON file: IOEnv.MXSS_CFG.        *)
EXTENDS Mxss, TLC, Json, IOUtils
CONSTANTS Export

Cfg == JsonDeserialize(IOEnv.MXSS_CFG)
ToSet(s) == {s[i] : i \in 1..Len(s)}
NsDec(x) == CASE x = <<-2>> -> NS_html [] x = <<-3>> -> NS_svg [] x = <<-4>> -> NS_mathml [] x = <<-5>> -> NS_xlink
              [] x = <<-6>> -> NS_xml [] x = <<-7>> -> NS_xmlns [] OTHER -> x
Pairs(s) == {<<NsDec(s[i][1]), s[i][2]>> : i \in 1..Len(s)}
Lof(r) == [el |-> Pairs(r.el), at |-> Pairs(r.at), uri |-> Pairs(r.uri), ref |-> Pairs(r.ref), loc |-> ToSet(r.loc),
           prot |-> ToSet(r.prot), ct |-> ToSet(r.ct), cp |-> ToSet(r.cp), ck |-> ToSet(r.ck), sp |-> ToSet(r.sp)]
\* Cfg.runs: Seq of [alphas, lists, pre, post, plan]: the explorations of this TLC run (one initial state each)
LDefault  == Lof(Cfg.lists.default)
LExtended == Lof(Cfg.lists.extended)
Firsts == Cfg.firsts            \* Seq of [cx, scr]
Opts == Cfg.opts                \* Seq of option vectors
Reparses == Cfg.reparses        \* Seq of [cx, scr]

VARIABLES src, n, run
vars == <<src, n, run>>
Init == src = <<>> /\ n = 0 /\ run \in 1..Len(Cfg.runs)
Next == /\ n < Len(Cfg.runs[run].alphas) /\ UNCHANGED run
        /\ \E f \in ToSet(Cfg.alphabets[Cfg.runs[run].alphas[n + 1]]) : src' = src \o f /\ n' = n + 1
Source == Cfg.runs[run].pre \o src \o Cfg.runs[run].post
L == IF Cfg.runs[run].lists = "default" THEN LDefault ELSE LExtended

\* Next to the configured pipeline (KnownDefects of the .cfg: {} = the intended design, or the listed deviations = the
\* code-faithful model) the same run evaluates the pipeline with exactly the deviations that matter for C10 repaired and
\* every other listed deviation of the code kept: the intended design AS A DELTA TO THE CODE.  Its output is what the
\* harness's neutralised re-runs of the real code must reproduce.
Relevant == MxssDefectNames \cup {"ser-attr-prefix-dropped", "ser-cdata-bare-name", "ser-noscript-raw"}
I == INSTANCE Mxss WITH KnownDefects <- KnownDefects \ Relevant

\* the tags passed by a are, in order, tags passed by b (same element, attributes not compared)
RECURSIVE SubFrom(_, _, _, _)
SubFrom(a, b, i, j) == IF i > Len(a) THEN TRUE ELSE IF j > Len(b) THEN FALSE
                       ELSE IF a[i].ns = b[j].ns /\ a[i].n = b[j].n THEN SubFrom(a, b, i + 1, j + 1) ELSE SubFrom(a, b, i, j + 1)
SubKeys(a, b) == SubFrom(a, b, 1, 1)

\* Cfg.plan: Seq of [f: index into Firsts, o: index into Opts, rs: Seq of indices into Reparses]
Plan == Cfg.plan
First(fi) == Parse(Source, Firsts[fi].cx, Firsts[fi].scr)
JudgeOut(out, ps, rs) ==
    [j \in 1..Len(rs) |->
        LET rp == Reparses[rs[j]]
            F  == Flat(Parse(out, rp.cx, rp.scr), rp.cx)
        IN [F |-> F, cl |-> Clauses(F, L, ps)]]
\* one entry of the plan: the configured pipeline, and the intended one (re-judged only where its output differs)
Entry(pi) ==
    LET e    == Plan[pi]
        toks == WalkRes(First(e.f), Firsts[e.f].cx)
        stC  == SanStream(toks, L)
        stI  == I!SanStream(toks, L)
        outC == Render(stC, Opts[e.o])
        outI == I!Render(stI, Opts[e.o])
        jC   == JudgeOut(outC, Passed(stC), e.rs)
        same == outI = outC /\ Passed(stI) = Passed(stC)
        jI   == IF same THEN jC ELSE JudgeOut(outI, Passed(stI), e.rs)
    IN [out |-> outC, rp |-> jC, iout |-> outI, isame |-> same, iok |-> \A j \in 1..Len(jI) : jI[j].cl = {},
        npass |-> Len(Passed(stC)), sub |-> SubKeys(Passed(stI), Passed(stC))]
\* the entries of the plan this exploration uses
Mine == Cfg.runs[run].plan
Runs == [k \in 1..Len(Mine) |-> Entry(Mine[k])]

\* THE THEOREM (intended design): the re-parsed tree is safe and every element corresponds to a passed tag
ThmSafeAndCorresponds == \A k \in 1..Len(Mine) : Runs[k].iok
\* the intended design only ever escapes MORE than the code: what it lets through, the code lets through
ThmIntendedOnlyEscapesMore == \A k \in 1..Len(Mine) : Runs[k].sub
ThmExport == Export => PrintT(ToJson([src |-> src, run |-> run, runs |-> Runs]))
=============================================================================
