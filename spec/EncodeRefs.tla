----------------------------- MODULE EncodeRefs -----------------------------
(* C15, serializer part.  HTMLSerializer.encode / htmlentityreplace_errors: every chunk the    *)
(* serializer yields is encoded on its own with the Python codec P found under the requested  *)
(* label; a character P cannot encode becomes a character reference (named when the table has *)
(* a one-code-point name for it, otherwise &#x<lower-case hex>;).  The reader decodes with W,  *)
(* the codec the WHATWG label table assigns to the same label, and resolves references only    *)
(* where the HTML syntax has them (data, RCDATA, attribute values - not raw text).             *)
(* Facts about P and W are INPUTS (computed by the harness from the codecs themselves):        *)
(*   pfail : set of code points P cannot encode                                                 *)
(*   mis   : sequence of [c, v, x]: P encodes c, W decodes those bytes to v # <<c>>;             *)
(*           x = TRUE when W itself round-trips or rejects c (writer/reader codec mismatch),    *)
(*           x = FALSE when W itself is lossy on c (a property of the codec: outside the domain) *)
(*   bom   : P writes a byte order mark on every encode call ("utf-16")                         *)
(*   ascii : W is ASCII-compatible (a <meta> in the bytes can be found)                          *)
(* Deviations of the code from the intended design (named branches, see known findings):       *)
(*   "ser-utf16-bom-per-chunk"       BOM in front of every chunk instead of once                *)
(*   "ser-rawtext-charref"           reference written inside script/style/... where the reader *)
(*                                   does not resolve it (intended: refuse, SerializeError)     *)
(*   "ser-encoder-decoder-mismatch"  characters that P writes as bytes which W reads differently *)
(*                                   (intended: a reference, as for any inexpressible character) *)
EXTENDS Unicode, Gen_Names, Gen_C15Refs
CONSTANT KnownDefects
EDefects == {"ser-utf16-bom-per-chunk", "ser-rawtext-charref", "ser-encoder-decoder-mismatch"}
On(d) == d \in KnownDefects
BOM == 65279

HexDigit(d) == IF d < 10 THEN 48 + d ELSE 87 + d
RECURSIVE Hex(_)
Hex(n) == IF n < 16 THEN <<HexDigit(n)>> ELSE Append(Hex(n \div 16), HexDigit(n % 16))
NumRef(c) == <<38, 35, 120>> \o Hex(c) \o <<59>>                              \* &#x..;
\* constant-level tables (TLC evaluates them once)
RefNamesOf == [c \in RefCps |-> {p[1] : p \in {q \in RefPairs : q[2] = c}}]
RefNameSet == {p[1] : p \in RefPairs}
RefValueOf == [n \in RefNameSet |-> (CHOOSE p \in RefPairs : p[1] = n)[2]]
NamesOf(c) == RefNamesOf[c]                                                  \* only for c \in RefCps

MisC(mis)       == {mis[i].c : i \in 1..Len(mis)}
MisRec(mis, c)  == mis[CHOOSE i \in 1..Len(mis) : mis[i].c = c]
\* characters the INTENDED writer must not write as bytes
MustRef(c, pfail, mis) == c \in pfail \/ (c \in MisC(mis) /\ MisRec(mis, c).x /\ ~On("ser-encoder-decoder-mismatch"))

-----------------------------------------------------------------------------
\* ---------- the writer as a function (used by the model checker) ----------
RefFor(c) == IF c \in RefCps THEN <<38>> \o (CHOOSE n \in NamesOf(c) : TRUE) \o <<59>> ELSE NumRef(c)
EncChar(c, pfail, mis) ==
    IF MustRef(c, pfail, mis) THEN RefFor(c)
    ELSE IF c \in MisC(mis) THEN MisRec(mis, c).v
    ELSE <<c>>
EncodeChunk(s, pfail, mis) == Flatten([i \in 1..Len(s) |-> EncChar(s[i], pfail, mis)])
\* what the serializer does to text / attribute values before encoding (xml.sax.saxutils.escape; replace("&", "&amp;"))
EscChar(c, quote) == IF c = 38 THEN <<38, 97, 109, 112, 59>>
                     ELSE IF quote = 0 /\ c = 60 THEN <<38, 108, 116, 59>>
                     ELSE IF quote = 0 /\ c = 62 THEN <<38, 103, 116, 59>>
                     ELSE IF quote = 34 /\ c = 34 THEN <<38, 113, 117, 111, 116, 59>>
                     ELSE IF quote = 39 /\ c = 39 THEN <<38, 35, 51, 57, 59>>
                     ELSE <<c>>
Escape(s, quote) == Flatten([i \in 1..Len(s) |-> EscChar(s[i], quote)])       \* quote = 0: text; 34 / 39: attribute value in that quote

\* ---------- the reader: references of the forms the writer can produce ----------
HexVal(c) == IF IsDigit(c) THEN c - 48 ELSE IF c >= 97 /\ c <= 102 THEN c - 87 ELSE c - 55
RECURSIVE HexNum(_, _)
HexNum(s, acc) == IF s = <<>> THEN acc ELSE HexNum(Tail(s), IF acc > 1114111 THEN acc ELSE acc * 16 + HexVal(s[1]))
RECURSIVE DecNum(_, _)
DecNum(s, acc) == IF s = <<>> THEN acc ELSE DecNum(Tail(s), IF acc > 1114111 THEN acc ELSE acc * 10 + (s[1] - 48))
RECURSIVE FindSemi(_, _)
FindSemi(s, i) == IF i > Len(s) THEN 0 ELSE IF s[i] = 59 THEN i ELSE IF IsAlnum(s[i]) \/ s[i] = 35 THEN FindSemi(s, i + 1) ELSE 0
\* value of the reference whose body (between & and ;) is b, or -1
RefValue(b) ==
    IF b = <<>> THEN -1
    ELSE IF b[1] = 35
         THEN IF Len(b) >= 3 /\ b[2] \in {120, 88} /\ \A k \in 3..Len(b) : IsHex(b[k]) THEN HexNum(SubSeq(b, 3, Len(b)), 0)
              ELSE IF Len(b) >= 2 /\ \A k \in 2..Len(b) : IsDigit(b[k]) THEN DecNum(Tail(b), 0)
              ELSE -1
         ELSE IF b \in RefNameSet THEN RefValueOf[b] ELSE -1
RECURSIVE DecodeRefs(_)
DecodeRefs(s) ==
    IF s = <<>> THEN <<>>
    ELSE IF s[1] # 38 THEN <<s[1]>> \o DecodeRefs(Tail(s))
    ELSE LET e == FindSemi(s, 2)
             v == IF e = 0 THEN -1 ELSE RefValue(SubSeq(s, 2, e - 1)) IN
         IF v < 0 THEN <<38>> \o DecodeRefs(Tail(s)) ELSE <<v>> \o DecodeRefs(Drop(s, e))

-----------------------------------------------------------------------------
\* ---------- the judge for one recorded chunk: un (text handed to encode) vs dec (bytes decoded with W) ----------
\* dec must be un with every character rendered as the code-faithful writer renders it; for a named
\* reference ANY one-code-point name of the character is accepted (which of several synonyms is html5lib's choice)
\* R = characters that must appear as a reference, M = characters that appear as their mis-decoding; the stretches
\* between such characters are compared as whole sequences
RefSet(s, pfail, mis) == {c \in Range(s) : MustRef(c, pfail, mis)}
RECURSIVE MatchFrom(_, _, _, _, _, _, _, _)
MatchFrom(un, i, dec, j, Sp, R, M, mis) ==
    LET N  == {k \in Sp : k >= i}
        nx == IF N = {} THEN Len(un) + 1 ELSE CHOOSE k \in N : \A m \in N : k <= m
        n  == nx - i IN
    /\ j + n - 1 <= Len(dec)
    /\ SubSeq(dec, j, j + n - 1) = SubSeq(un, i, nx - 1)
    /\ IF nx > Len(un) THEN j + n = Len(dec) + 1
       ELSE LET c == un[nx]  jj == j + n IN
            IF c \in R
            THEN IF c \in RefCps
                 THEN /\ jj <= Len(dec) /\ dec[jj] = 38
                      /\ LET e == FindSemi(dec, jj + 1) IN
                         /\ e # 0 /\ SubSeq(dec, jj + 1, e - 1) \in NamesOf(c)
                         /\ MatchFrom(un, nx + 1, dec, e + 1, Sp, R, M, mis)
                 ELSE StartsAt(dec, jj, NumRef(c)) /\ MatchFrom(un, nx + 1, dec, jj + Len(NumRef(c)), Sp, R, M, mis)
            ELSE LET v == MisRec(mis, c).v IN StartsAt(dec, jj, v) /\ MatchFrom(un, nx + 1, dec, jj + Len(v), Sp, R, M, mis)
Match(un, i, dec, j, pfail, mis) ==
    LET R  == RefSet(un, pfail, mis)
        M  == MisC(mis) \ R
        Sp == {k \in 1..Len(un) : un[k] \in R \cup M}
    IN IF Sp = {} THEN SubSeq(dec, j, Len(dec)) = SubSeq(un, i, Len(un))
       ELSE MatchFrom(un, i, dec, j, Sp, R, M, mis)
\* chunk number k (1-based) of a document written with a BOM-writing codec
BomPrefix(bom, k) == IF bom /\ (k = 1 \/ On("ser-utf16-bom-per-chunk")) THEN <<BOM>> ELSE <<>>
ChunkOk(ch, bom, pfail, mis) ==
    LET pre == BomPrefix(bom, ch.k) IN
    IsPrefixOf(pre, ch.dec) /\ Match(ch.un, 1, ch.dec, Len(pre) + 1, pfail, mis)

\* characters no reference can stand for (the reader maps &#x80;..&#x9f; through windows-1252 and surrogates to U+FFFD)
NoRef(c) == IsSurrogate(c) \/ (c >= 128 /\ c <= 159)
-----------------------------------------------------------------------------
\* ---------- facts read off the token stream that is serialized ----------
RawRead == {N_style, N_script, N_xmp, N_iframe, N_noembed, N_noframes, N_plaintext}     \* the reader resolves no references in their text
IsHtmlNs(ns) == ns = None \/ ns = NS_html
HasAny(s, C) == \E i \in 1..Len(s) : s[i] \in C
IsText(tok)  == tok.t \in {"Characters", "SpaceCharacters"}
\* names, comments, doctype fields are encoded strictly: an inexpressible character there cannot be written at all
StrictBad(toks, pfail) == pfail # {} /\
    \E i \in 1..Len(toks) : LET t == toks[i] IN
        \/ t.t \in {"StartTag", "EmptyTag", "EndTag"} /\ HasAny(t.n, pfail)
        \/ t.t \in {"StartTag", "EmptyTag"} /\ \E k \in 1..Len(t.a) : HasAny(t.a[k][2], pfail)
        \/ t.t = "Comment" /\ HasAny(t.d, pfail)
        \/ t.t = "Doctype" /\ (HasAny(t.n, pfail) \/ HasAny(t.p, pfail) \/ HasAny(t.s, pfail))
\* one pass with the stack of open elements (streams of a walker are balanced)
IsRawElem(e) == IsHtmlNs(e.ns) /\ e.n \in RawRead
RECURSIVE RawScan(_, _, _, _)
RawScan(toks, i, open, C) ==
    IF i > Len(toks) THEN FALSE
    ELSE LET t == toks[i] IN
         IF IsText(t) /\ open # <<>> /\ IsRawElem(Last(open)) /\ HasAny(t.d, C) THEN TRUE
         ELSE RawScan(toks, i + 1,
                      IF t.t = "StartTag" THEN Append(open, [n |-> t.n, ns |-> t.ns])
                      ELSE IF t.t = "EndTag" /\ open # <<>> THEN Front(open) ELSE open, C)
RawMust(toks, C) == C # {} /\ RawScan(toks, 1, <<>>, C)
RawMay(toks, C)  == C # {} /\ LET S == {j \in 1..Len(toks) : toks[j].t = "StartTag" /\ toks[j].n \in RawRead} IN
                    S # {} /\ \E i \in 1..Len(toks) : IsText(toks[i]) /\ HasAny(toks[i].d, C) /\ \E j \in S : j < i
AnyChar(toks, C) == C # {} /\
    \E i \in 1..Len(toks) : LET t == toks[i] IN
        \/ HasAny(t.d, C) \/ HasAny(t.n, C) \/ HasAny(t.p, C) \/ HasAny(t.s, C)
        \/ \E k \in 1..Len(t.a) : HasAny(t.a[k][2], C) \/ HasAny(t.a[k][3], C)
=============================================================================
