----------------------------- MODULE MC_XmlName -----------------------------
(* All names / comments / public identifiers up to MaxLen over a representative alphabet,     *)
(* built character by character.  Kind selects which coercion the run explores.               *)
EXTENDS XmlName, TLC, Json
CONSTANTS MaxLen, Kind, Export, CheckProperty
Alpha == CASE Kind = "name"    -> {97, 85, 48, 65, 58, 45, 32, 233, 183, 306, 128512}   \* a U 0 A : - space e-acute middot IJ astral
           [] Kind = "pattern" -> {85, 48, 65, 58}
           [] Kind = "comment" -> {45, 97, 32, 33}
           [] Kind = "pubid"   -> {97, 39, 34, 233, 32, 37, 9}
VARIABLE s
Init == s = <<>>
Next == Len(s) < MaxLen /\ \E c \in Alpha : s' = Append(s, c)

Flags == {TRUE, FALSE}
ThmName == (CheckProperty /\ Kind \in {"name", "pattern"} /\ s # <<>>) => NameProperty(s, ToXml(s))
ThmComment == Kind = "comment" => \A a, b \in Flags : (CheckProperty => CommentOK(CoerceComment(s, a, b), a, b))
ThmPubid == Kind = "pubid" => \A q \in Flags : PubidOK(CoercePubid(s, q), q)
                                                /\ ((\A i \in 1..Len(s) : IsPubidChar(s[i]) /\ (q => s[i] # 39)) => CoercePubid(s, q) = s)
ThmExport == Export =>
    CASE Kind \in {"name", "pattern"} -> s = <<>> \/ PrintT(ToJson([k |-> "name", inp |-> s, out |-> ToXml(s), back |-> FromXml(ToXml(s)),
                                                                 pat |-> HasPattern(s)]))
      [] Kind = "comment" -> PrintT(ToJson([k |-> "comment", inp |-> s,
                                 out |-> [a \in Flags |-> [b \in Flags |-> CoerceComment(s, a, b)]]]))
      [] Kind = "pubid" -> PrintT(ToJson([k |-> "pubid", inp |-> s, out |-> [q \in Flags |-> CoercePubid(s, q)]]))
=============================================================================
