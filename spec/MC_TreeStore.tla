----------------------------- MODULE MC_TreeStore -----------------------------
(* C04.  Bounded-exhaustive exploration of the three node stores.                              *)
(* Mode "parser": every sequence of <= MaxOps client operations (TreeStore.tla: the call       *)
(*   patterns html5lib's tree construction issues, with its stack discipline) that creates     *)
(*   <= MaxNodes nodes.  Theorems: no exception, rows / attributes / hasContent agree node by  *)
(*   node, AbsE = AbsD = abstract tree, the etree shadow list is in sync, the stores are        *)
(*   well formed.  INTENDED configuration: KnownDefects = {}.                                  *)
(* Mode "free": every sequence of <= MaxOps raw primitive calls on the two representations     *)
(*   (no discipline, exceptions included); only representation invariants are claimed; the     *)
(*   behaviours are exported so that the models of etree.py / dom.py are bound to the real      *)
(*   wrapper classes outside the parser's patterns too.                                        *)
(* Mode "lifecycle": one builder object over several parses, each abandoned at an arbitrary point (also in  *)
(*   the document prologue, before the root element exists) and followed by reset(); same theorems: after  *)
(*   reset() all three stores are the empty document again, whatever was left behind.                      *)
(* Every state is exported (history + predicted rows, attributes, exception, primitive log).   *)
EXTENDS TreeStore, TLC, Json
CONSTANTS MaxOps, MaxNodes, Mode, Theme, NsOn, Export, CheckNoTypeError

VARIABLES A, E, D, cl, hist, fin
vars == <<A, E, D, cl, hist, fin>>

Special == {N_div, N_table, N_html}                              \* the names of constants.specialElements that occur here
X == <<120>>
HtmlNsName == RootNs(NsOn)
Href(v) == PlainA(N_href, v)
XlinkHrefPlain(v) == PlainA(N_xlink \o <<58>> \o N_href, v)       \* "xlink:href" on an HTML element: a plain name
XlinkHrefNs(v) == Attr("xlink", N_xlink \o <<58>> \o N_href, N_href, v)
ElemChoices ==
    IF Theme = "structure" THEN {[n |-> N_b, ns |-> HtmlNsName, a |-> <<>>], [n |-> N_div, ns |-> HtmlNsName, a |-> <<>>],
                                 [n |-> N_table, ns |-> HtmlNsName, a |-> <<>>]}
    ELSE {[n |-> N_b, ns |-> HtmlNsName, a |-> <<Href(<<49>>)>>], [n |-> N_b, ns |-> HtmlNsName, a |-> <<Href(<<49>>), XlinkHrefPlain(<<50>>)>>],
          [n |-> N_b, ns |-> HtmlNsName, a |-> <<XlinkHrefPlain(<<50>>), PlainA(N_id, <<51>>), Href(<<49>>)>>],
          [n |-> N_div, ns |-> HtmlNsName, a |-> <<>>],
          [n |-> N_svg, ns |-> "svg", a |-> <<Href(<<49>>), XlinkHrefNs(<<50>>)>>]}
MergeChoices == IF Theme = "structure" THEN {} ELSE {<<Href(<<52>>)>>, <<XlinkHrefPlain(<<53>>), PlainA(N_id, <<54>>)>>}

FosChoices == IF cl.nm[Cur(cl)] \in TableInsertMode THEN {TRUE, FALSE} ELSE {FALSE}
Room(k) == cl.next + k - 1 <= MaxNodes
RECURSIVE FirstSpecial(_)
FirstSpecial(i) == IF i > Len(cl.open) THEN 0 ELSE IF cl.nm[cl.open[i]] \in Special THEN i ELSE FirstSpecial(i + 1)
Min(a, b) == IF a < b THEN a ELSE b
\* html5lib reaches step 9 only when the formatting element is in scope: no table between it and the top of the stack
AdoptChoices ==
    {[Op("adopt") EXCEPT !.i = i, !.j = FirstSpecial(i), !.mask = m] :
        i \in {i \in 2..Len(cl.open) : /\ cl.nm[cl.open[i]] = N_b
                                       /\ \A k \in i..Len(cl.open) : cl.nm[cl.open[k]] # N_table
                                       /\ FirstSpecial(i) # 0},
        m \in UNION {[1..k -> BOOLEAN] : k \in 0..3}}
AdoptOK(op) == /\ Len(op.mask) = Min(op.j - op.i - 1, 3)
               /\ Room(1 + Cardinality({k \in 1..Len(op.mask) : op.mask[k]}))
ParserOps ==
    {[Op("elem") EXCEPT !.n = c.n, !.ns = c.ns, !.a = c.a, !.fos = f] : c \in {c \in ElemChoices : Room(1)}, f \in FosChoices}
    \cup {[Op("text") EXCEPT !.d = X, !.fos = f] : f \in FosChoices}
    \cup {[Op("comment") EXCEPT !.d = X, !.where = wh] : wh \in {wh \in {"cur", "doc"} : Room(1)}}
    \cup {o \in {Op("pop")} : Len(cl.open) > 1}
    \cup {o \in {Op("detach")} : Len(cl.open) > 1}
    \cup {o \in AdoptChoices : AdoptOK(o)}
    \cup {o \in {Op("frag")} : Room(1)}
    \cup {[Op("recon") EXCEPT !.i = s, !.ns = HtmlNsName, !.fos = f] :
             s \in {s \in 3..(cl.next - 1) : cl.nm[s] = N_b /\ s \notin Range(cl.open) /\ Room(2)}, f \in FosChoices}
    \cup {[Op("merge") EXCEPT !.i = i, !.a = a] : i \in {i \in 1..2 : i <= Len(cl.open) /\ cl.nm[cl.open[i]] # N_svg}, a \in MergeChoices}   \* html / body only

\* ---- free mode: raw calls ----
Nodes == 2..(cl.next - 1)
Elems == {n \in Nodes : E.nd[n].k = "elem"}
RECURSIVE ReachE(_, _), ReachD(_, _)
ReachE(S, fuel) == IF fuel = 0 THEN S ELSE ReachE(S \cup UNION {Range(E.nd[n].kids) : n \in S}, fuel - 1)
DKidIds(n) == {D.nd[n].kids[i].i : i \in 1..Len(D.nd[n].kids)} \ {0}
ReachD(S, fuel) == IF fuel = 0 THEN S ELSE ReachD(S \cup UNION {DKidIds(n) : n \in S}, fuel - 1)
Below(n) == ReachE({n}, MaxNodes) \cup ReachD({n}, MaxNodes)       \* n and everything under it in either representation
NoCycle(par, child) == par \notin Below(child)
FreeCalls ==
    {NewCall(cl.next, "elem", HtmlNsName, N_b, <<>>, None, None) : z \in {z \in {1} : Room(1)}}
    \cup {NewCall(cl.next, "comment", "", <<>>, X, None, None) : z \in {z \in {1} : Room(1)}}
    \cup {Call("append", s, c, 0, <<>>) : s \in Elems \cup {1}, c \in {c \in Nodes : TRUE}}
    \cup {Call("before", s, c, r, <<>>) : s \in Elems, c \in Nodes, r \in Nodes}
    \cup {Call("remove", s, c, 0, <<>>) : s \in Elems, c \in Nodes}
    \cup {Call("text", s, 0, r, X) : s \in Elems, r \in Nodes \cup {0}}
    \cup {Call("reparent", s, c, 0, <<>>) : s \in Elems, c \in Elems}
    \cup {Call("clone", s, cl.next, 0, <<>>) : s \in {s \in Elems : Room(1)}}
    \cup {AttrsCall(s, <<PlainA(N_href, X)>>) : s \in {s \in Elems : E.nd[s].a = <<>>}}
    \cup {SetAttrCall(s, PlainA(N_id, X)) : s \in {s \in Elems : KeyIndex(E.nd[s].a, <<"", N_id>>, 1) = 0}}   \* would show attribute dicts shared by clones
FreeOK(c) ==
    CASE c.op \in {"append", "before"} -> c.s # c.c /\ NoCycle(c.s, c.c) /\ (c.op = "before" => c.r # c.c)
      [] c.op = "remove"   -> c.s # c.c
      [] c.op = "reparent" -> c.s # c.c /\ c.c \notin Below(c.s)
      [] OTHER -> TRUE

\* ---- lifecycle mode: ONE tree-builder object over several parses; a parse may be abandoned at any point, in particular in
\* the document prologue (comments / doctype in the Document, no root element yet); reset() starts the next one ----
LifeOps ==
    {[Op("comment") EXCEPT !.d = X, !.where = "doc"] : z \in {z \in {1} : Room(1)}}
    \cup (IF cl.open = <<>>
          THEN {[Op("doctype") EXCEPT !.n = N_html, !.where = wh, !.d = X] : wh \in {wh \in {"", "ids"} : Room(1)}}
               \cup {[Op("root") EXCEPT !.ns = HtmlNsName] : z \in {z \in {1} : Room(1)}}
          ELSE {[Op("elem") EXCEPT !.n = N_b, !.ns = HtmlNsName] : z \in {z \in {1} : Room(1)}}
               \cup {[Op("text") EXCEPT !.d = X], [Op("comment") EXCEPT !.d = X, !.where = "cur"]})
    \cup {o \in {Op("reset")} : hist # <<>> /\ hist[Len(hist)].t # "reset"}
LifeNext == \E op \in LifeOps :
                 /\ A' = StoreStep("A", A, cl, op) /\ E' = StoreStep("E", E, cl, op) /\ D' = StoreStep("D", D, cl, op)
                 /\ cl' = ClientStep(cl, op) /\ hist' = Append(hist, op)
                 /\ fin' = (E'.exc # "" \/ D'.exc # "")

Init == /\ hist = <<>> /\ fin = FALSE
        /\ IF Mode = "lifecycle" THEN A = AInit /\ E = EInit /\ D = DInit /\ cl = ClientInit0
           ELSE A = StoreInit("A", NsOn) /\ E = StoreInit("E", NsOn) /\ D = StoreInit("D", NsOn) /\ cl = ClientInit
ParserNext == \E op \in ParserOps :
                 /\ A' = StoreStep("A", A, cl, op) /\ E' = StoreStep("E", E, cl, op) /\ D' = StoreStep("D", D, cl, op)
                 /\ cl' = ClientStep(cl, op) /\ hist' = Append(hist, op)
                 /\ fin' = (op.t = "frag" \/ E'.exc # "" \/ D'.exc # "")
FreeNext == \E c \in {c \in FreeCalls : FreeOK(c)} :
                 /\ E' = EPrim(E, c) /\ D' = DPrim(D, c) /\ UNCHANGED A
                 /\ cl' = IF c.op \in {"new", "clone"} THEN [cl EXCEPT !.next = @ + 1, !.nm = Append(@, <<>>)] ELSE cl
                 /\ hist' = Append(hist, c)
                 /\ fin' = (E'.exc # "" \/ D'.exc # "")           \* an exception ends the behaviour
Next == ~fin /\ Len(hist) < MaxOps /\ CASE Mode = "parser" -> ParserNext [] Mode = "lifecycle" -> LifeNext [] OTHER -> FreeNext

\* ---- theorems ----
P == Mode \in {"parser", "lifecycle"}
ThmNoException == P => NoException(E, D)
ThmRows        == P /\ NoException(E, D) => RowsAgree(A, E, D, cl)
ThmRefinement  == P /\ NoException(E, D) => Refines(A, E, D, cl)
ThmViews       == P /\ NoException(E, D) => ViewsAgree(A, E, D, cl)
ThmWellFormed  == P => WellFormed(A.nodes) /\ NoCycles(A.nodes)
ThmShadow      == E.exc = "" => ShadowSync(E)
ThmDomConsistent == D.exc = "" => DomConsistent(D)
ThmNoTypeError == CheckNoTypeError => E.exc # "TypeError"          \* switched on only to obtain the API-level witness

\* compact primitive log: <<op, s, c, r, d, k, ns, n, a, p, q>>
LogView(c) == <<c.op, c.s, c.c, c.r, c.d, c.k, c.ns, c.n, c.a, c.p, c.q>>
Snap(w, S) == [rows |-> [n \in 1..(Len(S.nd)) |-> RowOf(w, S, n)], ats |-> [n \in 1..(Len(S.nd)) |-> AttrsOf(w, S, n)],
               exc |-> S.exc, log |-> [i \in 1..Len(S.log) |-> LogView(S.log[i])],
               abs |-> AbsOf(w, S, 1).c]                \* what harness/treeproj.py must read off the real document
\* (the dom log is left out when it equals the etree log: samelog)
ThmExport == Export => PrintT(ToJson([mode |-> Mode, nsOn |-> NsOn, hist |-> hist, e |-> Snap("E", E),
                                      d |-> IF D.log = E.log THEN [Snap("D", D) EXCEPT !.log = <<>>] ELSE Snap("D", D),
                                      samelog |-> (D.log = E.log)]))
=============================================================================
