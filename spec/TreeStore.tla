------------------------------- MODULE TreeStore -------------------------------
(* C04.  Three node stores driven by ONE client:                                               *)
(*   A  the abstract store of TreeOps.tla (what TreeConstruction.tla builds; the reference)    *)
(*   E  EtreeStore.tla (html5lib/treebuilders/etree.py)     D  DomStore.tla (treebuilders/dom.py)*)
(* The client is the backend-neutral part of html5lib's tree construction that touches nodes:  *)
(* base.TreeBuilder.insertElementNormal / insertElementTable / insertText / insertComment /    *)
(* getTableMisnestedNodePosition / getFragment / reconstructActiveFormattingElements (clone +   *)
(* insert), InBodyPhase.endTagFormatting steps 9-15 (adoption agency), startTagFrameset (body   *)
(* removal) and startTagBody / startTagHtml (attribute merge).  Wherever that code READS a node *)
(* (node.parent, hasContent, `name in attributes`, .attributes of a clone) each store answers   *)
(* from its own representation, so the primitive calls a store receives may differ per store.  *)
(* The client keeps the stack of open elements; which nodes are "in the list of active          *)
(* formatting elements" is a free choice of the caller (mask).                                 *)
EXTENDS EtreeStore, DomStore, Gen_Names

\* ---- the abstract store: TreeOps nodes + map from client ids to TreeOps indexes (text nodes take indexes too) ----
AInit == [nodes |-> <<DocNode>>, m |-> <<1>>, exc |-> "", log |-> <<>>]
AInv(a, x) == CHOOSE i \in 1..Len(a.m) : a.m[i] = x
APar(a, n) == LET p == a.nodes[a.m[n]].par IN IF p = 0 THEN 0 ELSE AInv(a, p)
AHasContent(a, n) == HasContent(a.nodes, a.m[n])
RECURSIVE TripleIndex(_, _, _)
TripleIndex(ts, t, i) == IF i > Len(ts) THEN 0 ELSE IF ts[i][1] = t[1] /\ ts[i][2] = t[2] THEN i ELSE TripleIndex(ts, t, i + 1)
AHasAttr(a, n, at) == TripleIndex(a.nodes[a.m[n]].a, CanonAttr(at), 1) # 0
RECURSIVE TriplesView(_)
TriplesView(ts) == IF ts = <<>> THEN <<>> ELSE <<PlainA(ts[1][2], ts[1][3])>> \o TriplesView(Tail(ts))
AAttrsView(a, n) == TriplesView(a.nodes[a.m[n]].a)
ANewNode(c) == CASE c.k = "comment" -> MkNode("comment", "", <<>>, <<>>, c.d)
                 [] c.k = "doctype" -> [MkNode("doctype", "", Str(c.n), <<>>, <<>>) EXCEPT !.p = Str(c.p), !.s = Str(c.q)]
                 [] OTHER           -> MkNode(c.k, HtmlNs(c.ns), c.n, <<>>, <<>>)
APrim(a, c) ==
    LET a0 == [a EXCEPT !.log = Append(@, c)]
        M(i) == IF i = 0 THEN 0 ELSE a.m[i]
    IN CASE c.op = "new"      -> [a0 EXCEPT !.nodes = Append(@, ANewNode(c)), !.m = Append(@, Len(a.nodes) + 1)]
         [] c.op = "attrs"    -> [a0 EXCEPT !.nodes[M(c.s)].a = CanonAttrs(DictFill(<<>>, c.a))]
         [] c.op = "setattr"  -> LET t == CanonAttr(c.a[1])  i == TripleIndex(a.nodes[M(c.s)].a, t, 1) IN
                                 IF i = 0 THEN [a0 EXCEPT !.nodes[M(c.s)].a = Append(@, t)] ELSE [a0 EXCEPT !.nodes[M(c.s)].a[i] = t]
         [] c.op = "append"   -> [a0 EXCEPT !.nodes = AppendChild(@, M(c.s), M(c.c))]
         [] c.op = "before"   -> [a0 EXCEPT !.nodes = InsertBefore(@, M(c.s), M(c.c), M(c.r))]
         [] c.op = "remove"   -> IF a.nodes[M(c.c)].par = M(c.s) THEN [a0 EXCEPT !.nodes = Detach(@, M(c.c))] ELSE a0   \* ASSUMED: removing a non-child has no effect (what dom.py's guard does; the DOM proper would raise NotFoundError)
         [] c.op = "text"     -> [a0 EXCEPT !.nodes = InsertText(@, M(c.s), M(c.r), c.d)]
         [] c.op = "clone"    -> LET x == a.nodes[M(c.s)] IN
                                 [a0 EXCEPT !.nodes = Append(@, MkNode(x.k, x.ns, x.n, x.a, <<>>)), !.m = Append(@, Len(a.nodes) + 1)]
         [] c.op = "reparent" -> [a0 EXCEPT !.nodes = ReparentKids(@, M(c.s), M(c.c))]
         [] c.op = "hasContent" -> a0
RECURSIVE ARowKids(_, _, _)
ARowKids(a, ks, row) == IF ks = <<>> THEN row
                        ELSE ARowKids(a, Tail(ks), Push(row, IF a.nodes[ks[1]].k = "text" THEN TextItem(a.nodes[ks[1]].d) ELSE Item(AInv(a, ks[1]))))
ARow(a, n) == ARowKids(a, a.nodes[a.m[n]].kids, <<>>)
AAttrs(a, n) == a.nodes[a.m[n]].a
AbsA(a, n) == Canon(a.nodes, a.m[n])

\* ---- one interface over the three stores ----
Prim(w, S, c) == CASE w = "A" -> APrim(S, c) [] w = "E" -> EPrim(S, c) [] w = "D" -> DPrim(S, c)
ParOf(w, S, n) == CASE w = "A" -> APar(S, n) [] w = "E" -> EPar(S, n) [] w = "D" -> DPar(S, n)
HasAttr(w, S, n, at) == CASE w = "A" -> AHasAttr(S, n, at) [] w = "E" -> EHasAttr(S, n, at) [] w = "D" -> DHasAttr(S, n, at)
AttrsView(w, S, n) == CASE w = "A" -> AAttrsView(S, n) [] w = "E" -> EAttrsView(S, n) [] w = "D" -> DAttrsView(S, n)
RowOf(w, S, n) == CASE w = "A" -> ARow(S, n) [] w = "E" -> ERow(S, n) [] w = "D" -> DRow(S, n)
AttrsOf(w, S, n) == CASE w = "A" -> AAttrs(S, n) [] w = "E" -> EAttrs(S, n) [] w = "D" -> DAttrs(S, n)
HasContentOf(w, S, n) == CASE w = "A" -> AHasContent(S, n) [] w = "E" -> EHasContent(S, n) [] w = "D" -> DHasContent(S, n)
AbsOf(w, S, n) == CASE w = "A" -> AbsA(S, n) [] w = "E" -> AbsE(S, n) [] w = "D" -> AbsD(S, n)
InitOf(w) == CASE w = "A" -> AInit [] w = "E" -> EInit [] w = "D" -> DInit
\* TreeBuilder.reset() at the start of every parse of a (re)used parser: the abstract tree starts empty
ResetOf(w, S) == CASE w = "A" -> AInit [] w = "E" -> EReset(S) [] w = "D" -> DReset(S)
RECURSIVE PrimAll(_, _, _)
PrimAll(w, S, cs) == IF cs = <<>> THEN S ELSE PrimAll(w, Prim(w, S, cs[1]), Tail(cs))

\* ---- the client (html5lib's backend-neutral code) ----
\* client state: open = stack of open elements (ids), nm = name of every node id (<<>> for non-elements), next = next fresh id
TableInsertMode == {N_table, N_tbody, N_tfoot, N_thead, N_tr}            \* constants.tableInsertModeElements
FosterCA == {N_table, N_tbody, N_tfoot, N_thead, N_tr}                   \* endTagFormatting step 10
Cur(cl) == cl.open[Len(cl.open)]
RECURSIVE LastNamed(_, _, _)
LastNamed(cl, name, i) == IF i = 0 THEN 0 ELSE IF cl.nm[cl.open[i]] = name THEN i ELSE LastNamed(cl, name, i - 1)
\* base.TreeBuilder.getTableMisnestedNodePosition: <<foster parent, insertBefore or 0>>
FosterPos(w, S, cl) ==
    LET ti == LastNamed(cl, N_table, Len(cl.open)) IN
    IF ti = 0 THEN <<cl.open[1], 0>>
    ELSE LET t == cl.open[ti]  p == ParOf(w, S, t) IN
         IF p # 0 THEN <<p, t>> ELSE <<cl.open[ti - 1], 0>>               \* `if lastTable.parent:` - the WRAPPER's pointer
FosterInsert(w, S, cl, id) ==
    LET fp == FosterPos(w, S, cl) IN
    IF fp[2] = 0 THEN Prim(w, S, Call("append", fp[1], id, 0, <<>>)) ELSE Prim(w, S, Call("before", fp[1], id, fp[2], <<>>))
UseFoster(cl, fos) == fos /\ cl.nm[Cur(cl)] \in TableInsertMode
\* `if node.parent: node.parent.removeChild(node)`
DetachViaParent(w, S, n) == LET p == ParOf(w, S, n) IN IF p = 0 THEN S ELSE Prim(w, S, Call("remove", p, n, 0, <<>>))

\* client operations: op = [t, n, ns, a, d, fos, i, j, mask, where]
Op(t) == [t |-> t, n |-> <<>>, ns |-> "", a |-> <<>>, d |-> <<>>, fos |-> FALSE, i |-> 0, j |-> 0, mask |-> <<>>, where |-> ""]

\* insertElementNormal / insertElementTable (when insertFromTable and the current node is table-ish)
InsertElemS(w, S, cl, id, ns, n, a, fos) ==
    LET S1 == Prim(w, Prim(w, S, NewCall(id, "elem", ns, n, <<>>, None, None)), AttrsCall(id, a)) IN
    IF UseFoster(cl, fos) THEN FosterInsert(w, S1, cl, id) ELSE Prim(w, S1, Call("append", Cur(cl), id, 0, <<>>))

\* the adoption agency from step 9 on.  st = [S, open, last, idx, cnt, next, mask]
RECURSIVE AdoptInner(_, _, _)
AdoptInner(w, st, fe) ==
    IF st.cnt >= 3 THEN st
    ELSE LET idx == st.idx - 1  node == st.open[idx] IN
         IF node # fe /\ ~Head(st.mask)                                    \* not in the list of active formatting elements
         THEN AdoptInner(w, [st EXCEPT !.open = RemoveAt(@, idx), !.cnt = @ + 1, !.idx = idx, !.mask = Tail(@)], fe)
         ELSE IF node = fe THEN [st EXCEPT !.cnt = @ + 1, !.idx = idx]     \* step 9.6
         ELSE LET id == st.next
                  S1 == Prim(w, st.S, Call("clone", node, id, 0, <<>>))    \* 9.8
                  S2 == DetachViaParent(w, S1, st.last)                    \* 9.9
                  S3 == Prim(w, S2, Call("append", id, st.last, 0, <<>>))
              IN AdoptInner(w, [st EXCEPT !.S = S3, !.open[idx] = id, !.last = id, !.next = id + 1, !.cnt = @ + 1, !.idx = idx,
                                          !.mask = Tail(@)], fe)
\* the store-independent part of the same run: the stack afterwards, the ids consumed, the names of the clones (in id order)
RECURSIVE AdoptStackInner(_, _, _)
AdoptStackInner(cl, st, fe) ==
    IF st.cnt >= 3 THEN st
    ELSE LET idx == st.idx - 1  node == st.open[idx] IN
         IF node # fe /\ ~Head(st.mask)
         THEN AdoptStackInner(cl, [st EXCEPT !.open = RemoveAt(@, idx), !.cnt = @ + 1, !.idx = idx, !.mask = Tail(@)], fe)
         ELSE IF node = fe THEN [st EXCEPT !.cnt = @ + 1, !.idx = idx]
         ELSE AdoptStackInner(cl, [st EXCEPT !.open[idx] = st.next, !.next = @ + 1, !.cnt = @ + 1, !.idx = idx, !.mask = Tail(@),
                                             !.names = Append(@, cl.nm[node])], fe)
AdoptStack(cl, op) ==
    LET fe == cl.open[op.i]  fb == cl.open[op.j]
        r  == AdoptStackInner(cl, [open |-> cl.open, idx |-> op.j, cnt |-> 0, next |-> cl.next, mask |-> op.mask, names |-> <<>>], fe)
        o1 == RemoveFirst(r.open, fe)
        o2 == InsertAt(o1, FirstIndexOf(o1, fb, 1) + 1, r.next)
    IN [open |-> o2, next |-> r.next + 1, names |-> Append(r.names, cl.nm[fe])]

AdoptRun(w, S, cl, op) ==
    LET i  == op.i
        fe == cl.open[i]
        j  == op.j
        fb == cl.open[j]
        ca == cl.open[i - 1]
        r  == AdoptInner(w, [S |-> S, open |-> cl.open, last |-> fb, idx |-> j, cnt |-> 0, next |-> cl.next, mask |-> op.mask], fe)
        cl1 == [cl EXCEPT !.open = r.open, !.nm = @ \o AdoptStack(cl, op).names]      \* clones carry the name of their source
        S1 == DetachViaParent(w, r.S, r.last)                               \* step 10
        S2 == IF cl.nm[ca] \in FosterCA THEN FosterInsert(w, S1, cl1, r.last) ELSE Prim(w, S1, Call("append", ca, r.last, 0, <<>>))
        id == r.next
        S3 == Prim(w, S2, Call("clone", fe, id, 0, <<>>))                   \* step 11
        S4 == Prim(w, S3, Call("reparent", fb, id, 0, <<>>))                \* step 12
        S5 == Prim(w, S4, Call("append", fb, id, 0, <<>>))                  \* step 13
        o1 == RemoveFirst(r.open, fe)                                       \* step 15
        o2 == InsertAt(o1, FirstIndexOf(o1, fb, 1) + 1, id)
    IN [S |-> S5, open |-> o2, next |-> id + 1]

\* effect of one client operation on one store
StoreStep(w, S, cl, op) ==
    CASE op.t = "elem"    -> InsertElemS(w, S, cl, cl.next, op.ns, op.n, op.a, op.fos)
      [] op.t = "text"    -> IF UseFoster(cl, op.fos)                                      \* base.TreeBuilder.insertText
                             THEN LET fp == FosterPos(w, S, cl) IN Prim(w, S, Call("text", fp[1], 0, fp[2], op.d))
                             ELSE Prim(w, S, Call("text", Cur(cl), 0, 0, op.d))
      [] op.t = "comment" -> LET par == CASE op.where = "doc" -> 1 [] op.where = "root" -> cl.open[1] [] OTHER -> Cur(cl) IN
                             Prim(w, Prim(w, S, NewCall(cl.next, "comment", "", <<>>, op.d, None, None)), Call("append", par, cl.next, 0, <<>>))
      [] op.t = "pop"     -> S
      [] op.t = "doctype" -> LET pq == IF op.where = "ids" THEN op.d ELSE None IN                    \* insertDoctype (prologue)
                             Prim(w, Prim(w, S, NewCall(cl.next, "doctype", "", op.n, <<>>, pq, pq)), Call("append", 1, cl.next, 0, <<>>))
      [] op.t = "root"    -> PrimAll(w, S, <<NewCall(cl.next, "elem", op.ns, N_html, <<>>, None, None), AttrsCall(cl.next, <<>>),   \* insertRoot
                                             Call("append", 1, cl.next, 0, <<>>)>>)
      [] op.t = "reset"   -> ResetOf(w, S)                                                         \* the parse is abandoned / finished; next parse
      [] op.t = "detach"  -> DetachViaParent(w, S, cl.open[2])                             \* startTagFrameset: body removed
      [] op.t = "adopt"   -> AdoptRun(w, S, cl, op).S
      [] op.t = "frag"    -> Prim(w, Prim(w, S, NewCall(cl.next, "frag", "", <<>>, <<>>, None, None)),     \* getFragment
                                  Call("reparent", cl.open[1], cl.next, 0, <<>>))
      [] op.t = "recon"   -> LET src == op.i                                               \* reconstruct: clone (dropped), insert a copy
                                 S1 == Prim(w, S, Call("clone", src, cl.next, 0, <<>>))
                             IN InsertElemS(w, S1, [cl EXCEPT !.next = @ + 1], cl.next + 1, op.ns, cl.nm[src], AttrsView(w, S1, cl.next), op.fos)
      [] op.t = "merge"   -> LET tgt == cl.open[op.i]                                      \* startTagHtml / startTagBody
                                 RECURSIVE Merge(_, _)
                                 Merge(S1, as) == IF as = <<>> THEN S1
                                                  ELSE Merge(IF HasAttr(w, S1, tgt, as[1]) THEN S1 ELSE Prim(w, S1, SetAttrCall(tgt, as[1])), Tail(as))
                             IN Merge(S, op.a)
      [] op.t = "hasContent" -> Prim(w, S, Call("hasContent", Cur(cl), 0, 0, <<>>))
\* effect on the client state (the same whatever the store)
ClientStep(cl, op) ==
    CASE op.t = "elem"    -> [cl EXCEPT !.open = Append(@, cl.next), !.nm = Append(@, op.n), !.next = @ + 1]
      [] op.t = "comment" -> [cl EXCEPT !.nm = Append(@, <<>>), !.next = @ + 1]
      [] op.t = "pop"     -> [cl EXCEPT !.open = Front(@)]
      [] op.t = "doctype" -> [cl EXCEPT !.nm = Append(@, <<>>), !.next = @ + 1]
      [] op.t = "root"    -> [cl EXCEPT !.open = <<cl.next>>, !.nm = Append(@, N_html), !.next = @ + 1]
      [] op.t = "reset"   -> [open |-> <<>>, nm |-> <<<<>>>>, next |-> 2, frag |-> 0]
      [] op.t = "detach"  -> [cl EXCEPT !.open = <<cl.open[1]>>]
      [] op.t = "adopt"   -> LET r == AdoptStack(cl, op) IN [cl EXCEPT !.open = r.open, !.next = r.next, !.nm = @ \o r.names]
      [] op.t = "frag"    -> [cl EXCEPT !.nm = Append(@, <<>>), !.next = @ + 1, !.frag = cl.next]
      [] op.t = "recon"   -> [cl EXCEPT !.open = Append(@, cl.next + 1), !.nm = @ \o <<cl.nm[op.i], cl.nm[op.i]>>, !.next = @ + 2]
      [] OTHER            -> cl

\* the state every parse starts from: Document (id 1) and the root html element (id 2) on the stack
RootNs(nsOn) == IF nsOn THEN "html" ELSE "none"
ClientInit0 == [open |-> <<>>, nm |-> <<<<>>>>, next |-> 2, frag |-> 0]      \* right after reset(): only the Document exists
ClientInit == [open |-> <<2>>, nm |-> <<<<>>, N_html>>, next |-> 3, frag |-> 0]
StoreInit(w, nsOn) == PrimAll(w, InitOf(w), <<NewCall(2, "elem", RootNs(nsOn), N_html, <<>>, None, None), AttrsCall(2, <<>>),
                                              Call("append", 1, 2, 0, <<>>)>>)

\* ---- the property at model level ----
Ids(cl) == 1..(cl.next - 1)
NoException(E, D) == E.exc = "" /\ D.exc = ""
RowsAgree(A, E, D, cl) == \A n \in Ids(cl) : /\ ERow(E, n) = ARow(A, n) /\ DRow(D, n) = ARow(A, n)
                                             /\ EAttrs(E, n) = AAttrs(A, n) /\ DAttrs(D, n) = AAttrs(A, n)
Refines(A, E, D, cl) == \A n \in {1} \cup (IF cl.frag = 0 THEN {} ELSE {cl.frag}) :
                            AbsE(E, n) = AbsA(A, n) /\ AbsD(D, n) = AbsA(A, n)
ViewsAgree(A, E, D, cl) == \A n \in Ids(cl) : /\ (E.nd[n].k \notin {"comment", "doctype"} =>        \* hasContent is only asked of elements
                                                    EHasContent(E, n) = AHasContent(A, n) /\ DHasContent(D, n) = AHasContent(A, n))
                                              /\ EPar(E, n) = APar(A, n)                 \* etree wrapper pointers are exact
=============================================================================
