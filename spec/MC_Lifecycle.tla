----------------------------- MODULE MC_Lifecycle -----------------------------
(* All histories of <= MaxCalls calls on ONE parser object over the documents of LifecycleDocs (each  *)
(* given as the real tokenizer delivers it: per read() of the source, the tokens the parser gets *)
(* before it asks for the next read; the harness re-derives this table from the real code in      *)
(* every run and reports any difference).  Every call is parse()/parseFragment() x strict on/off  *)
(* x the source raising at read `fail` (0 = never; the reads include the final empty ones).       *)
(*                                                                                                *)
(* Three parser records run in lock step: obj (the reused object), sh (the SHADOW: a brand-new    *)
(* object at every Begin, same arguments) and ns (a brand-new NON-strict object, for C16).        *)
(* Actions: Begin, Read (deliver / AbortSource), Step (one token: plain / RecordError /           *)
(* AbortStrict), Return.                                                                          *)
EXTENDS LifecycleDocs, TLC, Json
CONSTANTS MaxCalls, DocSet, LastProbe, Export

VARIABLES obj, sh, ns, cur, hist
vars == <<obj, sh, ns, cur, hist>>
Idle == [active |-> FALSE, doc |-> 0, strict |-> FALSE, fail |-> 0, r |-> 0, queue |-> <<>>]

Init == obj = NewParser /\ sh = NewParser /\ ns = NewParser /\ cur = Idle /\ hist = <<>>

Result(ps, out) == [out |-> out, items |-> IF out = "ok" THEN ps.items ELSE <<>>, errors |-> ps.errors]
Finish(o, s, n, out) ==
    /\ hist' = Append(hist, [doc |-> cur.doc, strict |-> cur.strict, fail |-> cur.fail, out |-> out,
                             items |-> IF out = "ok" THEN o.items ELSE <<>>, errors |-> o.errors,
                             eq |-> Result(o, out) = Result(s, IF s.aborted THEN "ParseError" ELSE out),
                             nsErrors |-> n.errors, fired |-> o.fired, outside |-> o.outside,
                             pend |-> o.pend, spaceH |-> o.spaceH])
    /\ cur' = Idle

Begin(d, strict, fail) ==
    /\ ~cur.active /\ Len(hist) < MaxCalls
    /\ (Docs[d].bytes \/ Docs[d].frag \in BadContainers) => fail = 0          \* a byte string is not a scripted source; a rejected call reads nothing
    /\ (LastProbe /\ Len(hist) = MaxCalls - 1 /\ MaxCalls > 1) => (~strict /\ fail = 0)
    /\ obj' = LcBegin(obj, Docs[d].frag, strict)
    /\ sh'  = LcBegin(NewParser, Docs[d].frag, strict)
    /\ ns'  = LcBegin(NewParser, Docs[d].frag, FALSE)
    /\ cur' = [active |-> TRUE, doc |-> d, strict |-> strict, fail |-> fail, r |-> 0, queue |-> <<>>]
    /\ UNCHANGED hist

Read ==      \* the tokenizer asks the source for the next chunk
    /\ cur.active /\ obj.phase # "rejected" /\ cur.queue = <<>> /\ cur.r < Len(Docs[cur.doc].reads) /\ cur.fail # cur.r + 1
    /\ cur' = [cur EXCEPT !.r = @ + 1, !.queue = Docs[cur.doc].reads[cur.r + 1]]
    /\ UNCHANGED <<obj, sh, ns, hist>>
AbortSource ==      \* ... and the source raises
    /\ cur.active /\ obj.phase # "rejected" /\ cur.queue = <<>> /\ cur.r < Len(Docs[cur.doc].reads) /\ cur.fail = cur.r + 1
    /\ Finish(obj, sh, ns, "SourceError")
    /\ UNCHANGED <<obj, sh, ns>>

StepCommon(kind) ==
    /\ cur.active /\ cur.queue # <<>>
    /\ LET tok == Head(cur.queue)
           o == Process(obj, tok)  s == Process(sh, tok)  n == Process(ns, tok)
       IN /\ obj' = o /\ sh' = s /\ ns' = n
          /\ CASE kind = "plain"  -> Len(o.errors) = Len(obj.errors) /\ ~o.aborted
               [] kind = "record" -> Len(o.errors) > Len(obj.errors) /\ ~o.aborted
               [] kind = "abort"  -> o.aborted
          /\ IF o.aborted THEN Finish(o, s, n, "ParseError")
             ELSE cur' = [cur EXCEPT !.queue = Tail(@)] /\ UNCHANGED hist
Step        == StepCommon("plain")
RecordError == StepCommon("record")
AbortStrict == StepCommon("abort")

Reject ==      \* an argument outside the domain: the call raises before the first read
    /\ cur.active /\ obj.phase = "rejected"
    /\ Finish(obj, sh, ns, "rejected")
    /\ UNCHANGED <<obj, sh, ns>>
Return ==
    /\ cur.active /\ obj.phase # "rejected" /\ cur.queue = <<>> /\ cur.r = Len(Docs[cur.doc].reads)
    /\ Finish(obj, sh, ns, "ok")
    /\ UNCHANGED <<obj, sh, ns>>

Next == \/ \E d \in DocSet, strict \in BOOLEAN : \E fail \in 0..Len(Docs[d].reads) : Begin(d, strict, fail)
        \/ Read \/ AbortSource \/ Step \/ RecordError \/ AbortStrict \/ Return \/ Reject

-----------------------------------------------------------------------------
\* --- theorems (to hold with KnownDefects = {}) ---
\* the reused object is, in everything reset() is responsible for, indistinguishable from a new one at every step
ThmLockstep == cur.active => PerParse(obj) = PerParse(sh)
\* history independence of what every call returns (tree, errors, outcome)
ThmHistoryIndependent == \A i \in 1..Len(hist) : hist[i].eq
\* pending table text exists only inside the in-table-text phase of a running call (or after an aborted one)
ThmPendingConfined ==
    obj.pend # <<>> => IF cur.active THEN obj.phase \in {"inTableText", "rejected"}       \* (a rejected call touches nothing)
                       ELSE hist # <<>> /\ Last(hist).out # "ok"
\* the documents stay inside the modelled vocabulary
ThmInside == ~obj.outside /\ ~sh.outside
\* C16 on the model: strict raises exactly when the non-strict run of the same input has recorded an error, the
\* error raised is the first one, nothing else raises; a source failure is the only other way out
ThmStrict == \A i \in 1..Len(hist) :
    LET h == hist[i] IN
    /\ h.out = "SourceError" => h.fail # 0
    /\ h.out \in {"ok", "ParseError", "SourceError", "rejected"}
    /\ h.out = "ParseError" => h.strict /\ StrictFirst(h.nsErrors, h.out, h.errors)
    /\ (h.strict /\ h.out = "ok") => h.nsErrors = <<>>
    /\ (~h.strict /\ h.out = "ok") => h.errors = h.nsErrors
\* a call with an out-of-domain argument is rejected on the reused and on the brand-new object alike, and changes nothing that lasts
ThmRejected == \A i \in 1..Len(hist) : (Docs[hist[i].doc].frag \in BadContainers) <=> hist[i].out = "rejected"
ThmDocs   == (Export /\ MaxCalls = 0) => PrintT(ToJson([docs |-> Docs]))
ThmExport == (Export /\ MaxCalls > 0 /\ ~cur.active /\ Len(hist) = MaxCalls) => PrintT(ToJson([hist |-> hist]))
=============================================================================
