------------------------------ MODULE Unicode ------------------------------
(* Shared data model: a character is a code point 0..1114111, text is Seq(Int).          *)
(* "None" (Python None / absent value) is the one-element sequence <<-1>>, which no text   *)
(* can equal.  Everything exchanged with the harness is built from these.                  *)
EXTENDS Naturals, Integers, Sequences, FiniteSets

None == <<-1>>
EOF_CP == -1

IsWs(c)        == c \in {9, 10, 12, 13, 32}          \* TAB LF FF CR SPACE  (HTML "ASCII whitespace")
IsUpper(c)     == c >= 65 /\ c <= 90
IsLower(c)     == c >= 97 /\ c <= 122
IsAlpha(c)     == IsUpper(c) \/ IsLower(c)
IsDigit(c)     == c >= 48 /\ c <= 57
IsAlnum(c)     == IsAlpha(c) \/ IsDigit(c)
IsHex(c)       == IsDigit(c) \/ (c >= 65 /\ c <= 70) \/ (c >= 97 /\ c <= 102)
IsSurrogate(c) == c >= 55296 /\ c <= 57343
IsNonchar(c)   == (c >= 64976 /\ c <= 65007) \/ (c % 65536 \in {65534, 65535} /\ c <= 1114111)
LowerC(c)      == IF IsUpper(c) THEN c + 32 ELSE c
UpperC(c)      == IF IsLower(c) THEN c - 32 ELSE c
Lower(s)       == [i \in 1..Len(s) |-> LowerC(s[i])]

AllWs(s)       == \A i \in 1..Len(s) : IsWs(s[i])
NoWs(s)        == \A i \in 1..Len(s) : ~IsWs(s[i])

IsPrefixOf(p, s) == Len(p) <= Len(s) /\ \A i \in 1..Len(p) : p[i] = s[i]
StartsAt(s, i, p) == i + Len(p) - 1 <= Len(s) /\ \A k \in 1..Len(p) : s[i + k - 1] = p[k]
Drop(s, n)     == SubSeq(s, n + 1, Len(s))           \* s without its first n elements
Take(s, n)     == SubSeq(s, 1, n)
Last(s)        == s[Len(s)]
Front(s)       == SubSeq(s, 1, Len(s) - 1)
Range(s)       == {s[i] : i \in 1..Len(s)}
Contains(s, x) == \E i \in 1..Len(s) : s[i] = x

\* lexicographic order on code-point sequences = Python's order on str
RECURSIVE SeqLess(_, _)
SeqLess(s, t) == IF s = <<>> THEN t # <<>>
                 ELSE IF t = <<>> THEN FALSE
                 ELSE IF s[1] # t[1] THEN s[1] < t[1]
                 ELSE SeqLess(Tail(s), Tail(t))

RECURSIVE Flatten(_)
Flatten(ss) == IF ss = <<>> THEN <<>> ELSE ss[1] \o Flatten(Tail(ss))
=============================================================================
