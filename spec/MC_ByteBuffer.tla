---------------------------- MODULE MC_ByteBuffer ----------------------------
(* Every sequence of <= MaxOps calls read(n) / seek(q) / tell() on a BufferedStream over the   *)
(* source <<1..N>> (position-identifying bytes) whose underlying read(k) returns any 1..k of    *)
(* the remaining bytes (short reads) or nothing at the end.  seek only after a read (the only  *)
(* client, HTMLBinaryInputStream, always reads first).  History entries: und = <<>> or        *)
(* <<<<size requested from the underlying stream, data it returned>>>>.                       *)
EXTENDS ByteBuffer, TLC, Json
CONSTANTS N, MaxRead, MaxOps, Export
Src == [i \in 1..N |-> i]
VARIABLES b, h, ok
Init == b = BInit /\ h = <<>> /\ ok = TRUE
Read(n) == LET p == ReadPlan(b, n)  c == Total(b) IN
           \E k \in 0..p.rem :
              /\ (p.rem > 0 /\ c < N) => k >= 1                     \* the underlying stream returns something unless at its end
              /\ c + k <= N
              /\ LET und == SubSeq(Src, c + 1, c + k)
                     r == BRead(b, n, und)
                     p0 == BTell(b)
                 IN /\ b' = r.b
                    /\ ok' = (ok /\ LikeFile(Src, p0, n, r.rv, r.b))
                    /\ h' = Append(h, [op |-> "read", n |-> n, und |-> IF r.used THEN <<<<p.rem, und>>>> ELSE <<>>, r |-> r.rv, t |-> BTell(r.b)])
Seek(q) == /\ b.buf # <<>> /\ q <= Total(b)
           /\ LET b2 == BSeek(b, q) IN
              /\ b' = b2 /\ ok' = (ok /\ b2.pi >= 0 /\ BTell(b2) = q)
              /\ h' = Append(h, [op |-> "seek", n |-> q, und |-> <<>>, r |-> <<>>, t |-> BTell(b2)])
Next == Len(h) < MaxOps /\ (\/ \E n \in 1..MaxRead : Read(n)
                            \/ \E q \in 0..N : Seek(q))
ThmFile == ok
ThmShape == ShapeOK(b)
ThmPrefix == HoldsPrefix(b, Src)
ThmExport == (Export /\ Len(h) = MaxOps) => PrintT(ToJson([h |-> h, n |-> N]))
=============================================================================
