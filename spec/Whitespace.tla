----------------------------- MODULE Whitespace -----------------------------
(* C17.  The whitespace filter: a depth-counter machine over walker tokens, and the          *)
(* property stated independently of the counter (ancestor-based, on concatenated text).      *)
EXTENDS Unicode, Gen_Names
CONSTANT KnownDefects      \* subset of {"ws-adjacent-text-tokens"}

Preserve == {N_pre, N_textarea, N_style, N_script, N_xmp, N_iframe, N_noembed, N_noframes, N_noscript}

\* collapse every maximal whitespace run of one string to one space
RECURSIVE Collapse(_)
Collapse(s) ==
    IF s = <<>> THEN <<>>
    ELSE IF IsWs(s[1])
         THEN IF Len(s) > 1 /\ IsWs(s[2]) THEN Collapse(Tail(s)) ELSE <<32>> \o Collapse(Tail(s))
         ELSE <<s[1]>> \o Collapse(Tail(s))

IsText(tok) == tok.t \in {"Characters", "SpaceCharacters"}

\* --- the machine (one token; state = depth counter + "previous output token was text ending in ws") ---
\* intended design: a whitespace run that continues across adjacent text tokens yields one space;
\* the code (named deviation "ws-adjacent-text-tokens") collapses each token on its own.
WsStep(st, tok) ==
    LET depth == st.depth IN
    IF tok.t = "StartTag" /\ (depth > 0 \/ tok.n \in Preserve)
        THEN [depth |-> depth + 1, prevWs |-> FALSE, out |-> tok]
    ELSE IF tok.t = "EndTag" /\ depth > 0
        THEN [depth |-> depth - 1, prevWs |-> FALSE, out |-> tok]
    ELSE IF depth = 0 /\ IsText(tok) /\ (tok.t = "Characters" \/ tok.d # <<>>)
        THEN LET c == IF tok.t = "SpaceCharacters" THEN <<32>> ELSE Collapse(tok.d)
                 c2 == IF "ws-adjacent-text-tokens" \notin KnownDefects /\ st.prevWs /\ c # <<>> /\ c[1] = 32
                       THEN Tail(c) ELSE c
                 pw == IF c = <<>> THEN st.prevWs ELSE Last(c) = 32
             IN [depth |-> 0, prevWs |-> pw, out |-> [tok EXCEPT !.d = c2]]
    ELSE [depth |-> depth, prevWs |-> (IsText(tok) /\ tok.d = <<>> /\ st.prevWs), out |-> tok]

WsInit == [depth |-> 0, prevWs |-> FALSE]

RECURSIVE WsRun(_, _)
WsRun(st, toks) == IF toks = <<>> THEN <<>>
                   ELSE LET r == WsStep(st, toks[1]) IN <<r.out>> \o WsRun([depth |-> r.depth, prevWs |-> r.prevWs], Tail(toks))
WsFilter(toks) == WsRun(WsInit, toks)

-----------------------------------------------------------------------------
\* --- the property, independent of the counter ---
\* stack of open element names after the first k tokens of a stream (streams of a walker are balanced)
RECURSIVE OpenAfter(_, _)
OpenAfter(toks, k) ==
    IF k = 0 THEN <<>>
    ELSE LET o == OpenAfter(toks, k - 1) t == toks[k] IN
         IF t.t = "StartTag" THEN Append(o, t.n)
         ELSE IF t.t = "EndTag" /\ o # <<>> THEN Front(o)
         ELSE o
InPreserve(toks, k) == \E i \in 1..Len(OpenAfter(toks, k)) : OpenAfter(toks, k)[i] \in Preserve

\* text runs: maximal intervals lo..hi of text tokens
IsRun(toks, lo, hi) == /\ lo <= hi /\ \A i \in lo..hi : IsText(toks[i])
                       /\ (lo = 1 \/ ~IsText(toks[lo - 1])) /\ (hi = Len(toks) \/ ~IsText(toks[hi + 1]))
RECURSIVE CatData(_, _, _)
CatData(toks, lo, hi) == IF lo > hi THEN <<>> ELSE toks[lo].d \o CatData(toks, lo + 1, hi)

OnlyWhitespaceChanges(inp, out) ==
    /\ Len(out) = Len(inp)
    /\ \A i \in 1..Len(inp) : IF IsText(inp[i]) THEN IsText(out[i]) /\ out[i].t = inp[i].t ELSE out[i] = inp[i]
    /\ \A lo, hi \in 1..Len(inp) : IsRun(inp, lo, hi) =>
          CatData(out, lo, hi) = IF InPreserve(inp, lo - 1) THEN CatData(inp, lo, hi)
                                 ELSE Collapse(CatData(inp, lo, hi))
CounterIsAncestors(inp) ==
    \A k \in 0..Len(inp) :
        LET RECURSIVE D(_)
            D(j) == IF j = 0 THEN WsInit
                    ELSE LET r == WsStep(D(j - 1), inp[j]) IN [depth |-> r.depth, prevWs |-> r.prevWs]
        IN (D(k).depth > 0) <=> InPreserve(inp, k)
Idempotent(inp) == WsFilter(WsFilter(inp)) = WsFilter(inp)
=============================================================================
