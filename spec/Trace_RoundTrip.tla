---------------------------- MODULE Trace_RoundTrip ----------------------------
(* C07, code -> spec.  One trace = one tree and a batch of outputs of the REAL serializer for   *)
(* it: {tree, chk, outs: [{o (code points of the decoded output), alpha, minb, prior}]}.        *)
(* prior = description of the unrelated document the long-lived real parser object was given    *)
(* immediately before it re-parsed this output (<<>>: a fresh parser); the verdict must not      *)
(* depend on it (RtParseAfter).                                                                   *)
(* The SPECIFICATION's parser (Pipeline!ParseDoc, code-faithful KnownDefects) reads every       *)
(* output back and the result must be the original tree (RtSame: attribute lists compared as    *)
(* sorted when alphabetical_attributes was on, canonical boolean values identified when          *)
(* minimize_boolean_attributes was on).                                                          *)
(* chk = TRUE (trees that do not come from the MC_RoundTrip generator: random trees, trees of    *)
(* parsed test inputs): the tree is first judged by CmConforming and by the fixpoint theorem;    *)
(* a tree outside the modelled class gets the verdict skip:... and decides nothing.              *)
(* Verdicts are total: accept | reject:tree (bad = <<[i, path]>>: output index and child-index    *)
(* path of the first differing node) | skip:nonconforming | skip:not-fixpoint.                   *)
EXTENDS RoundTrip, TLC, Json, IOUtils
Traces == JsonDeserialize(IOEnv.TRACE_FILE)
VARIABLES tid, verdict, bad
vars == <<tid, verdict, bad>>

RECURSIVE BadOuts(_, _, _)
BadOuts(tree, outs, i) ==
    IF i > Len(outs) THEN <<>>
    ELSE LET x == outs[i]
             got == RtParseAfter(x.prior, x.o)
         IN (IF RtSame(got, tree, x.alpha, x.minb) THEN <<>>
             ELSE <<[i |-> i, path |-> RtDiffPath(RtNorm(tree, x.alpha, x.minb), RtNorm(got, x.alpha, x.minb))]>>)
            \o BadOuts(tree, outs, i + 1)
Judge(tr) ==
    IF tr.chk /\ ~CmConforming(tr.tree) THEN [v |-> "skip:nonconforming", bad |-> <<>>]
    ELSE IF tr.chk /\ RtParse(RefSer(tr.tree)) # tr.tree THEN [v |-> "skip:not-fixpoint", bad |-> <<>>]
    ELSE LET b == BadOuts(tr.tree, tr.outs, 1) IN [v |-> IF b = <<>> THEN "accept" ELSE "reject:tree", bad |-> b]

Init == tid \in 1..Len(Traces) /\ verdict = "run" /\ bad = <<>>
Step == /\ verdict = "run"
        /\ LET j == Judge(Traces[tid]) IN verdict' = j.v /\ bad' = j.bad
        /\ UNCHANGED tid
Done == verdict # "run" /\ UNCHANGED vars
Next == Step \/ Done
Report == verdict # "run" => PrintT(ToJson([tid |-> tid, l |-> 0, v |-> verdict, bad |-> bad]))
=============================================================================
