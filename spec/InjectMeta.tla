----------------------------- MODULE InjectMeta -----------------------------
(* C15, filter part.  html5lib/filters/inject_meta_charset.py as a machine over walker        *)
(* tokens (state = pre_head / in_head / post_head, the flag meta_found, the pending queue),   *)
(* one ImStep per input token exactly as the generator performs it, and - independently of    *)
(* the machine - a whole-stream statement of what the filter is for:                          *)
(*   Exp(inp, enc)   rewrite every declaration carrier, expand an EmptyTag head, insert one   *)
(*                   <meta charset=enc> right after the head start tag iff head has none;     *)
(*   Declares / NoConflict / OthersUnchanged   the property clauses on (inp, out).            *)
(* The machine has no branch that deviates from this on the stated domain (Dom), so the       *)
(* intended and the code-faithful configuration coincide; KnownDefects is kept for the        *)
(* family's conventions and is not consulted.                                                 *)
EXTENDS Unicode, Gen_Names
CONSTANT KnownDefects

S_text_html_charset == <<116,101,120,116,47,104,116,109,108,59,32,99,104,97,114,115,101,116,61>>   \* "text/html; charset="

IsTag(tok, ty, lname) == tok.t = ty /\ tok.n # None /\ Lower(tok.n) = lname
MetaTok(enc) == [t |-> "EmptyTag", n |-> N_meta, ns |-> None, a |-> <<<<None, N_charset, enc>>>>,
                 d |-> <<>>, p |-> None, s |-> None]                 \* ASSUMED: injected tokens carry no namespace (as the code)
HeadStart(a) == [t |-> "StartTag", n |-> N_head, ns |-> None, a |-> a, d |-> <<>>, p |-> None, s |-> None]
HeadEnd      == [t |-> "EndTag", n |-> N_head, ns |-> None, a |-> <<>>, d |-> <<>>, p |-> None, s |-> None]

-----------------------------------------------------------------------------
\* ---------- what is done to ONE meta token (shared by the machine and by Exp) ----------
\* the code's loop over the attributes in order: first un-namespaced attribute whose lower-cased name is
\* "charset" wins (break); otherwise http-equiv (exact name) = content-type (any case) seen anywhere plus an
\* un-namespaced attribute "content" (exact name) => content replaced wholesale.
CharsetIdx(a) == LET I == {i \in 1..Len(a) : a[i][1] = None /\ Lower(a[i][2]) = N_charset}
                 IN IF I = {} THEN 0 ELSE CHOOSE i \in I : \A j \in I : i <= j
HasPragma(a)  == \E i \in 1..Len(a) : a[i][1] = None /\ a[i][2] = N_http_equiv /\ Lower(a[i][3]) = N_content_type
ContentIdx(a) == LET I == {i \in 1..Len(a) : a[i][1] = None /\ a[i][2] = N_content}
                 IN IF I = {} THEN 0 ELSE CHOOSE i \in I : TRUE          \* attribute keys are unique in a token
\* ASSUMED: a content-type pragma with a content attribute is a carrier even when content names no charset (it gets one)
IsCarrier(tok) == IsTag(tok, "EmptyTag", N_meta) /\ (CharsetIdx(tok.a) # 0 \/ (HasPragma(tok.a) /\ ContentIdx(tok.a) # 0))
RewriteMeta(tok, enc) ==
    LET ci == CharsetIdx(tok.a)  ki == ContentIdx(tok.a) IN
    IF ci # 0 THEN [tok EXCEPT !.a[ci][3] = enc]
    ELSE IF HasPragma(tok.a) /\ ki # 0 THEN [tok EXCEPT !.a[ki][3] = S_text_html_charset \o enc]   \* ASSUMED: whole value replaced
    ELSE tok

\* ---------- the machine ----------
ImInit == [state |-> "pre_head", found |-> FALSE, pending |-> <<>>]
\* result: [st, out]  (out = tokens yielded while this input token is consumed)
Tail_(st, tok) == IF st.state = "in_head" THEN [st |-> [st EXCEPT !.pending = Append(@, tok)], out |-> <<>>]
                  ELSE [st |-> st, out |-> <<tok>>]
ImStep(st, tok, enc) ==
    IF tok.t = "StartTag"
    THEN Tail_(IF IsTag(tok, "StartTag", N_head) THEN [st EXCEPT !.state = "in_head"] ELSE st, tok)
    ELSE IF tok.t = "EmptyTag"
    THEN IF IsTag(tok, "EmptyTag", N_meta)
         THEN Tail_([st EXCEPT !.found = @ \/ IsCarrier(tok)], RewriteMeta(tok, enc))
         ELSE IF IsTag(tok, "EmptyTag", N_head) /\ ~st.found
         THEN [st |-> [st EXCEPT !.found = TRUE], out |-> <<HeadStart(tok.a), MetaTok(enc), HeadEnd>>]   \* `continue`: not queued
         ELSE Tail_(st, tok)
    ELSE IF tok.t = "EndTag" /\ IsTag(tok, "EndTag", N_head) /\ st.pending # <<>>
    THEN [st |-> [state |-> "post_head", found |-> TRUE, pending |-> <<>>],
          out |-> <<st.pending[1]>> \o (IF st.found THEN <<>> ELSE <<MetaTok(enc)>>) \o Tail(st.pending) \o <<tok>>]
    ELSE Tail_(st, tok)

RECURSIVE ImRun(_, _, _)
ImRun(st, toks, enc) == IF toks = <<>> THEN <<>>
                        ELSE LET r == ImStep(st, toks[1], enc) IN r.out \o ImRun(r.st, Tail(toks), enc)
ImFilter(toks, enc) == ImRun(ImInit, toks, enc)            \* tokens still pending at the end are lost (as in the code)
RECURSIVE ImFinal(_, _, _)
ImFinal(st, toks, enc) == IF toks = <<>> THEN st ELSE ImFinal(ImStep(st, toks[1], enc).st, Tail(toks), enc)

-----------------------------------------------------------------------------
\* ---------- the domain of the property ----------
\* walker stream of a document with exactly one head element that is a child position of the stream (a
\* StartTag ... EndTag pair with no other head-named tag, or one EmptyTag head); no declaration carrier in
\* front of it; meta attribute names as the parser produces them (lower case).      ASSUMED (see DESIGN C15)
HeadIdx(toks)  == {i \in 1..Len(toks) : toks[i].n # None /\ Lower(toks[i].n) = N_head /\ toks[i].t \in {"StartTag", "EmptyTag", "EndTag"}}
LowerAttrs(tok) == \A i \in 1..Len(tok.a) : tok.a[i][2] = Lower(tok.a[i][2])
Dom(toks) ==
    LET H == HeadIdx(toks) IN
    /\ \/ \E i \in H : H = {i} /\ toks[i].t = "EmptyTag"
       \/ \E i, j \in H : i < j /\ H = {i, j} /\ toks[i].t = "StartTag" /\ toks[j].t = "EndTag"
    /\ \A k \in 1..Len(toks) : IsTag(toks[k], "EmptyTag", N_meta) =>
            /\ LowerAttrs(toks[k]) /\ toks[k].n = N_meta
            /\ (IsCarrier(toks[k]) => \E i \in H : i < k)
    /\ \A i \in H : toks[i].n = N_head
HeadOpen(toks)  == LET H == HeadIdx(toks) IN CHOOSE i \in H : \A j \in H : i <= j
HeadClose(toks) == LET H == HeadIdx(toks) IN CHOOSE i \in H : \A j \in H : j <= i

\* ---------- whole-stream statement of the transformation ----------
CarrierBetween(toks, lo, hi) == \E k \in (lo + 1)..(hi - 1) : IsCarrier(toks[k])
ExpTok(tok, isHeadOpen, carrierInHead, enc) ==
    IF IsTag(tok, "EmptyTag", N_meta) THEN <<RewriteMeta(tok, enc)>>
    ELSE IF isHeadOpen /\ tok.t = "EmptyTag" THEN <<HeadStart(tok.a), MetaTok(enc), HeadEnd>>
    ELSE IF isHeadOpen /\ ~carrierInHead THEN <<tok, MetaTok(enc)>>
    ELSE <<tok>>
Exp(toks, enc) ==
    LET ho == HeadOpen(toks)
        cih == CarrierBetween(toks, ho, HeadClose(toks))
    IN Flatten([i \in 1..Len(toks) |-> ExpTok(toks[i], i = ho, cih, enc)])

\* ---------- the property clauses, on (inp, out) only ----------
\* the standard's "extracting a character encoding from a meta element" applied to a content value
RECURSIVE SkipWs(_, _)
SkipWs(s, i) == IF i <= Len(s) /\ IsWs(s[i]) THEN SkipWs(s, i + 1) ELSE i
RECURSIVE UntilAny(_, _, _)
UntilAny(s, i, stop) == IF i > Len(s) \/ s[i] \in stop THEN i ELSE UntilAny(s, i + 1, stop)
RECURSIVE ExtractFrom(_, _)
ExtractFrom(s, pos) ==
    LET C == {i \in pos..(Len(s) - 6) : Lower(SubSeq(s, i, i + 6)) = N_charset} IN
    IF C = {} THEN None
    ELSE LET i == CHOOSE x \in C : \A y \in C : x <= y
             j == SkipWs(s, i + 7) IN
         IF j > Len(s) \/ s[j] # 61 THEN ExtractFrom(s, j)
         ELSE LET k == SkipWs(s, j + 1) IN
              IF k > Len(s) THEN None
              ELSE IF s[k] \in {34, 39}
                   THEN LET e == UntilAny(s, k + 1, {s[k]}) IN IF e > Len(s) THEN None ELSE SubSeq(s, k + 1, e - 1)
                   ELSE SubSeq(s, k, UntilAny(s, k, {9, 10, 12, 13, 32, 59}) - 1)
ExtractCharset(s) == ExtractFrom(s, 1)
\* the label a meta token declares (None if it declares nothing): charset attribute first, else the pragma
\* ASSUMED: with both present the charset attribute decides for every reader, so a stale charset= inside content is no conflict
StdDecl(tok) ==
    LET a == tok.a  ci == CharsetIdx(a)  ki == ContentIdx(a) IN
    IF ci # 0 THEN a[ci][3]
    ELSE IF HasPragma(a) /\ ki # 0 THEN ExtractCharset(a[ki][3]) ELSE None
IsMeta(tok) == IsTag(tok, "EmptyTag", N_meta)

Declares(out, enc) ==        \* a declaration of enc strictly inside the (single) head element of the output
    HeadIdx(out) # {} /\
    LET hs == HeadOpen(out)  he == HeadClose(out) IN
    /\ out[hs].t = "StartTag" /\ out[he].t = "EndTag"
    /\ \E k \in (hs + 1)..(he - 1) : IsMeta(out[k]) /\ StdDecl(out[k]) = enc
NoConflict(out, enc) == \A k \in 1..Len(out) : IsMeta(out[k]) => StdDecl(out[k]) \in {None, enc}
\* everything that is not a meta token is unchanged and in order (an EmptyTag head counts as its start+end pair)
RECURSIVE NonMeta(_)
NonMeta(toks) == IF toks = <<>> THEN <<>>
                 ELSE LET t == toks[1] IN
                      (IF IsMeta(t) THEN <<>>
                       ELSE IF IsTag(t, "EmptyTag", N_head) THEN <<HeadStart(t.a), HeadEnd>>
                       ELSE <<t>>) \o NonMeta(Tail(toks))
RECURSIVE Metas(_)
Metas(toks) == IF toks = <<>> THEN <<>> ELSE (IF IsMeta(toks[1]) THEN <<toks[1]>> ELSE <<>>) \o Metas(Tail(toks))
\* metas: the output's are the input's, in order, each either identical or differing in ONE attribute value
\* (charset / content), plus at most one extra <meta charset=enc>, present iff no carrier was inside head
OneValueDiffers(x, y) == /\ x.n = y.n /\ x.ns = y.ns /\ Len(x.a) = Len(y.a)
                         /\ \A i \in 1..Len(x.a) : x.a[i][1] = y.a[i][1] /\ x.a[i][2] = y.a[i][2]
                         /\ Cardinality({i \in 1..Len(x.a) : x.a[i][3] # y.a[i][3]}) <= 1
MetasAligned(inp, out, enc) ==
    LET mi == Metas(inp)  mo == Metas(out)
        extra == ~CarrierBetween(inp, HeadOpen(inp), HeadClose(inp)) IN
    IF extra
    THEN /\ Len(mo) = Len(mi) + 1
         /\ \E x \in 1..Len(mo) : /\ mo[x] = MetaTok(enc)
                                  /\ \A i \in 1..Len(mi) : OneValueDiffers(mi[i], mo[IF i < x THEN i ELSE i + 1])
    ELSE Len(mo) = Len(mi) /\ \A i \in 1..Len(mi) : OneValueDiffers(mi[i], mo[i])
OthersUnchanged(inp, out) == NonMeta(inp) = NonMeta(out)
Property(inp, out, enc) == Declares(out, enc) /\ NoConflict(out, enc) /\ OthersUnchanged(inp, out) /\ MetasAligned(inp, out, enc)
=============================================================================
