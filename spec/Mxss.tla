-------------------------------- MODULE Mxss --------------------------------
(* C10.  Sanitized markup stays safe when it is parsed again.                                  *)
(*                                                                                             *)
(* THE PIPELINE, step by step as html5lib performs it (each step is the model another property *)
(* already binds to the code; nothing is re-modelled here):                                    *)
(*   first parse   Pipeline!ParseDoc / ParseFrag          (html5parser.py, _tokenizer.py)      *)
(*   walk          Walk(canonical tree)                   (treewalkers/base.py: start/empty/end*)
(*                                                         tags, text split at the edges,      *)
(*                                                         comments, doctype)                  *)
(*   sanitize      SanStream = Sanitizer!SanitizeTok per token (filters/sanitizer.py): allowed *)
(*                 tag -> passes with filtered attributes, disallowed tag -> ONE Characters    *)
(*                 token holding the tag text, comment -> nothing                              *)
(*   omit tags     OptionalTags!OtFilter (only with omit_optional_tags; placed AFTER the       *)
(*                 sanitizer, serializer.py:255-260)                                           *)
(*   serialize     Serializer!SerRun (serializer.py: in_cdata by bare name, quoting, escaping) *)
(*   re-parse      Pipeline!ParseDoc / ParseFrag of the output, any container, any scripting   *)
(* THE PROPERTY, judged on the re-parsed tree:  SafeTree (the C09 predicate lifted to trees)    *)
(* and Corresponds (every element is accounted for by a tag the sanitizer let through, or is    *)
(* one of the precisely listed elements the parser creates by itself).                          *)
(* DEVIATIONS of the code from a design for which the property holds, as NAMED branches:        *)
(*   "mxss-escaped-parent-context"    an allowed tag is passed although its parent element was  *)
(*        escaped to text, so that on re-parsing it lands in a context that gives it another    *)
(*        namespace (<svg><foreignObject><input>: input becomes an SVG element)                 *)
(*   "mxss-foreign-parent-html-child" an allowed tag is passed although the TREE itself is not  *)
(*        re-parsable in place: an HTML element (the p / br the parser makes for </p>, </br>)   *)
(*        sits directly in a non-integration-point foreign element; written out, its start tag  *)
(*        breaks out of foreign content and everything after it changes namespace               *)
(*   serializer deviations of C08 that matter here: "ser-attr-prefix-dropped" (xlink:show is    *)
(*        written as show), "ser-cdata-bare-name", "ser-noscript-raw" (text written raw by bare *)
(*        element name; reachable only with allow-lists that admit such an element)             *)
(* The intended design (KnownDefects = {}) adds a namespace-context check to the sanitizer      *)
(* (NsValid: what DOMPurify does since its mXSS fixes): a tag that would not get its own        *)
(* namespace under its parent IN THE OUTPUT is escaped like a disallowed one.                   *)
(* The parser is html5lib's in BOTH configurations (ParserDefects = the listed tc-*/tok-*       *)
(* deviations): C10 speaks about re-parsing "by html5lib".                                      *)
EXTENDS Unicode, Gen_Names
CONSTANTS KnownDefects, ParserDefects
MxssDefectNames == {"mxss-escaped-parent-context", "mxss-foreign-parent-html-child"}

S   == INSTANCE Sanitizer WITH KnownDefects <- KnownDefects
Ser == INSTANCE Serializer WITH KnownDefects <- KnownDefects
OT  == INSTANCE OptionalTags WITH KnownDefects <- KnownDefects
P   == INSTANCE Pipeline WITH KnownDefects <- ParserDefects

On(d) == d \in KnownDefects

-----------------------------------------------------------------------------
\* ---------- walk: canonical tree [k, ns, n, a, d, p, s, c] -> walker tokens [t, n, ns, a, d, p, s] ----------
NsUri(ns)  == CASE ns = "html" -> NS_html [] ns = "svg" -> NS_svg [] ns = "math" -> NS_mathml [] OTHER -> None
AnsUri(a)  == CASE a = "xlink" -> NS_xlink [] a = "xml" -> NS_xml [] a = "xmlns" -> NS_xmlns [] OTHER -> None
TokAttrs(a) == IF a = <<>> THEN <<>> ELSE [i \in 1..Len(a) |-> <<AnsUri(a[i][1]), a[i][2], a[i][3]>>]
Tk(t, n, ns, a, d, p, s) == [t |-> t, n |-> n, ns |-> ns, a |-> a, d |-> d, p |-> p, s |-> s]
\* base.TreeWalker.text(): leading / trailing HTML space characters become SpaceCharacters tokens
RECURSIVE LeadWs(_, _)
LeadWs(d, i) == IF i > Len(d) \/ ~IsWs(d[i]) THEN i - 1 ELSE LeadWs(d, i + 1)
RECURSIVE TrailWs(_, _)
TrailWs(d, i) == IF i = 0 \/ ~IsWs(d[i]) THEN i ELSE TrailWs(d, i - 1)
TextToks(d) ==
    LET l == LeadWs(d, 1)                  \* number of leading space characters
        r == IF l = Len(d) THEN Len(d) ELSE TrailWs(d, Len(d))      \* last non-space index
    IN (IF l > 0 THEN <<Tk("SpaceCharacters", None, None, <<>>, SubSeq(d, 1, l), None, None)>> ELSE <<>>)
       \o (IF r > l THEN <<Tk("Characters", None, None, <<>>, SubSeq(d, l + 1, r), None, None)>> ELSE <<>>)
       \o (IF r > l /\ r < Len(d) THEN <<Tk("SpaceCharacters", None, None, <<>>, SubSeq(d, r + 1, Len(d)), None, None)>> ELSE <<>>)
\* treewalkers/base.py: void by html5lib's own table (Serializer!VoidNames = constants.voidElements), HTML namespace only
IsVoidEl(nd) == nd.ns = "html" /\ nd.n \in Ser!VoidNames
RECURSIVE WalkNode(_), WalkKids(_)
WalkKids(kids) == IF kids = <<>> THEN <<>> ELSE WalkNode(kids[1]) \o WalkKids(Tail(kids))
WalkNode(nd) ==
    CASE nd.k = "doc"     -> WalkKids(nd.c)
      [] nd.k = "doctype" -> <<Tk("Doctype", nd.n, None, <<>>, <<>>, nd.p, nd.s)>>
      [] nd.k = "text"    -> TextToks(nd.d)
      [] nd.k = "comment" -> <<Tk("Comment", None, None, <<>>, nd.d, None, None)>>
      [] OTHER ->
            IF IsVoidEl(nd) /\ nd.c = <<>>         \* (a void element with children: SerializeError token; outside every bound used here)
            THEN <<Tk("EmptyTag", nd.n, NsUri(nd.ns), TokAttrs(nd.a), <<>>, None, None)>>
            ELSE <<Tk("StartTag", nd.n, NsUri(nd.ns), TokAttrs(nd.a), <<>>, None, None)>> \o WalkKids(nd.c)
                 \o <<Tk("EndTag", nd.n, NsUri(nd.ns), <<>>, <<>>, None, None)>>
\* what html5lib.serialize() walks: a document (cx1 = None) or the list of children of a fragment
WalkRes(res, cx1) == IF cx1 = None THEN WalkNode(res) ELSE WalkKids(res)

-----------------------------------------------------------------------------
\* ---------- the namespace-context check of the intended design ----------
\* which namespace the HTML parser gives a start tag `name` when the element it becomes a child of is c = [ns, n, a]
\* (tree-construction dispatcher + "in foreign content" rules; Pipeline!UseMode / ForeignStart say the same about the code)
CtxRoot == [ns |-> NS_html, n |-> <<>>, a |-> <<>>]                          \* body / the fragment container: HTML content
EncodingOf(a) == LET I == {i \in 1..Len(a) : a[i][1] = None /\ a[i][2] = N_encoding} IN
                 IF I = {} THEN None ELSE Lower(a[CHOOSE i \in I : TRUE][3])
IsHtmlIPc(c) == \/ (c.ns = NS_svg /\ c.n \in {N_foreignObject, N_desc, N_title})
                \/ (c.ns = NS_mathml /\ c.n = N_annotation_xml /\ EncodingOf(c.a) \in {N_text_html, N_application_xhtml_xml})
IsMathTextIPc(c) == c.ns = NS_mathml /\ c.n \in {N_mi, N_mo, N_mn, N_ms, N_mtext}
IsHtmlNsT(ns) == ns = None \/ ns = NS_html
HtmlRules(c, name) == \/ IsHtmlNsT(c.ns) \/ IsHtmlIPc(c)
                      \/ (IsMathTextIPc(c) /\ name \notin {N_mglyph, N_malignmark})
                      \/ (c.ns = NS_mathml /\ c.n = N_annotation_xml /\ name = N_svg)
BreaksOut(tok) == LET nm == Lower(tok.n) IN
                  \/ nm \in P!BreakoutNames
                  \/ (nm = N_font /\ \E i \in 1..Len(tok.a) : tok.a[i][1] = None /\ Lower(tok.a[i][2]) \in {N_color, N_face, N_size})
\* "out" = the tag leaves foreign content (and pops its foreign ancestors): never the namespace of a foreign parent
PredictedNs(c, tok) ==
    LET nm == Lower(tok.n) IN
    IF HtmlRules(c, nm) THEN (IF nm = N_svg THEN NS_svg ELSE IF nm = N_math THEN NS_mathml ELSE NS_html)
    ELSE IF BreaksOut(tok) THEN <<"out">> ELSE c.ns
TokNs(tok) == IF tok.ns = None THEN NS_html ELSE tok.ns
NsValid(c, tok) == PredictedNs(c, tok) = TokNs(tok)

\* ---------- sanitize: the stream filter, with the intended check as a fold over the open elements ----------
\* stack entry: [pass: the start tag was let through, ns, n, a (as written: filtered if passed)]
Escaped(tok) == S!CharTok(S!TagText(tok))
NearestPassed(stack) == LET I == {i \in 1..Len(stack) : stack[i].pass} IN
                        IF I = {} THEN CtxRoot ELSE stack[CHOOSE i \in I : \A j \in I : j <= i]
RECURSIVE SanFold(_, _, _, _, _)
SanFold(toks, k, stack, out, L) ==
    IF k > Len(toks) THEN out
    ELSE LET tok == toks[k] IN
         IF tok.t \in {"StartTag", "EmptyTag"}
         THEN LET allowed == S!AllowedEl(tok, L)
                  r       == S!SanitizeTok(tok, L, KnownDefects)
                  treePar == IF stack = <<>> THEN CtxRoot ELSE Last(stack)
                  outPar  == NearestPassed(stack)
                  esc     == /\ allowed /\ ~NsValid(outPar, tok)
                             /\ IF NsValid(treePar, tok) THEN ~On("mxss-escaped-parent-context")
                                                         ELSE ~On("mxss-foreign-parent-html-child")
                  pass    == allowed /\ ~esc /\ r.r = "tok"
                  emitted == IF esc THEN <<Escaped(tok)>> ELSE IF r.r = "tok" THEN <<r.tok>> ELSE <<>>
                  entry   == [pass |-> pass, ns |-> tok.ns, n |-> tok.n, a |-> IF pass THEN r.tok.a ELSE tok.a]
              IN SanFold(toks, k + 1, IF tok.t = "StartTag" THEN Append(stack, entry) ELSE stack, out \o emitted, L)
         ELSE IF tok.t = "EndTag"
         THEN LET pass == stack # <<>> /\ Last(stack).pass
                  rest == IF stack = <<>> THEN <<>> ELSE Front(stack)
              IN SanFold(toks, k + 1, rest, Append(out, IF pass THEN tok ELSE Escaped(tok)), L)
         ELSE IF tok.t = "Comment" THEN SanFold(toks, k + 1, stack, out, L)
         ELSE SanFold(toks, k + 1, stack, Append(out, tok), L)
SanStream(toks, L) == SanFold(toks, 1, <<>>, <<>>, L)
\* the tags the sanitizer let through
Passed(st) == SelectSeq(st, LAMBDA t : t.t \in {"StartTag", "EmptyTag"})

\* ---------- serialize ----------
\* o = [qav, qc, ltattr, escrc, minbool, solidus, spacesol, resolve, omit]
Render(st, o) == Ser!SerRun(IF o.omit THEN OT!OtFilter(st, KnownDefects) ELSE st, o, KnownDefects).out

\* ---------- parse ----------
Parse(src, cx, scripting) ==
    LET s == Ser!NormNL(src) IN            \* input-stream preprocessing
    P!Result(IF cx = None THEN P!ParseDoc(s, scripting) ELSE P!ParseFrag(s, cx, scripting))

-----------------------------------------------------------------------------
\* ---------- THE PROPERTY on a re-parsed tree ----------
\* The tree as a flat list of its element (and comment) nodes: [ns, n (None for a comment), a, pns, pn (the parent element;
\* for the top level of a fragment the container, for the root of a document None), nk (number of children)],
\* namespaces as URIs, attributes <<namespace URI or None, local name, value>> (the walker-token data model).
RECURSIVE FlatKids(_, _, _)
FlatKids(kids, pns, pn) ==
    IF kids = <<>> THEN <<>>
    ELSE LET x == kids[1] IN
         (IF x.k = "elem"
          THEN <<[ns |-> NsUri(x.ns), n |-> x.n, a |-> TokAttrs(x.a), pns |-> pns, pn |-> pn, nk |-> Len(x.c)]>>
               \o FlatKids(x.c, NsUri(x.ns), x.n)
          ELSE IF x.k = "comment" THEN <<[ns |-> None, n |-> None, a |-> <<>>, pns |-> pns, pn |-> pn, nk |-> 0]>>
          ELSE <<>>)
         \o FlatKids(Tail(kids), pns, pn)
Flat(res, cx) == IF cx = None THEN FlatKids(res.c, None, None) ELSE FlatKids(res, NS_html, cx)

IsComment(e) == e.n = None
ElKey(e) == <<e.ns, e.n>>
\* Elements the PARSER creates without any tag for them (HTML standard, tree construction):
\* ASSUMED (reading of "corresponds to a tag the sanitizer let through"): exactly the following elements need no tag.
\*  (a) html, head, body: "before html" / "before head" / "after head" insert them for every document, and the fragment
\*      algorithm's root; tags with these names only ever merge attributes into them.  They are not on html5lib's
\*      allow-list and are therefore written as text, so every such element of a re-parsed tree is parser-made.
\*      Their ATTRIBUTES are judged like any other.
\*  (b) tbody under table ("in table": a tr / td / th start tag acts as if <tbody> had been seen), tr under
\*      tbody / thead / tfoot ("in table body": td / th acts as if <tr>), colgroup under table (<col>): only without
\*      attributes and only under that parent.
\*  (c) an empty attribute-less p: "in body" end tag p with no p in button scope acts as if <p> had been seen
\*      (the serializer writes </p> for every p; when the re-parser has already closed that p - a p inside a p or
\*      inside a table in quirks mode is written faithfully but cannot be read back - the end tag makes a new empty p).
\*  (d) formatting elements (a b big code em font i nobr s small strike strong tt u): "reconstruct the active formatting
\*      elements" and the adoption agency CLONE an element that a passed tag created, whenever the tag nesting cannot be
\*      read back as written (<b><p>x</b> ...).  A clone needs an original: at least one passed tag of that name.
ParserMade(e) == /\ e.ns = NS_html
                 /\ \/ e.n \in {N_html, N_head, N_body}
                    \/ (e.n \in {N_tbody, N_colgroup} /\ e.a = <<>> /\ e.pns = NS_html /\ e.pn = N_table)
                    \/ (e.n = N_tr /\ e.a = <<>> /\ e.pns = NS_html /\ e.pn \in {N_tbody, N_thead, N_tfoot})
                    \/ (e.n = N_p /\ e.a = <<>> /\ e.nk = 0)
IsFormatting(e) == e.ns = NS_html /\ e.n \in {N_a, N_b, N_big, N_code, N_em, N_font, N_i, N_nobr, N_s, N_small, N_strike,
                                              N_strong, N_tt, N_u}
Count(seq, Q(_)) == Cardinality({i \in 1..Len(seq) : Q(seq[i])})
\* An attribute of a re-parsed element that a passed tag of the same element name carries IDENTICALLY came through the
\* sanitizer unchanged.  ASSUMED (division of labour with C09): for such an attribute the allow-list and URI-scheme clauses are still judged here; its data: content
\* type and its CSS are C09's question (its open findings data-content-type-after-stripping and css-url-function-survives live
\* there): they are not effects of serialisation and re-parsing.
SameAsPassed(e, x, passed) == \E i \in 1..Len(passed) : passed[i].n = e.n /\ passed[i].ns = e.ns
                                                         /\ \E j \in 1..Len(passed[i].a) : passed[i].a[j] = x
AttrClausesT(e, x, L, passed) ==
    IF SameAsPassed(e, x, passed)
    THEN (IF S!AttrKey(x) \in L.at THEN {} ELSE {"attribute"})
         \cup (IF S!AttrKey(x) \in (L.uri \cup S!StdUriAttrs) /\ ~S!UriSchemeSafe(x[3], L.prot) THEN {"uri-scheme"} ELSE {})
    ELSE S!AttrSafeClauses(x, L)
PseudoTok(e) == [t |-> "StartTag", n |-> e.n, ns |-> e.ns, a |-> e.a, d |-> <<>>, p |-> None, s |-> None]
Viol(c, e, k) == [c |-> c, e |-> IF IsComment(e) THEN <<>> ELSE e.n, ns |-> IF IsComment(e) THEN <<>> ELSE e.ns, k |-> k]
\* SafeTree: the violated clauses of one node (C09's SafeTok clauses, on tree nodes)
NodeClauses(e, L, passed) ==
    IF IsComment(e) THEN {Viol("comment", e, <<>>)}
    ELSE (IF e.ns = NS_html /\ e.n \in {N_html, N_head, N_body} THEN {}       \* ASSUMED: see ParserMade (a)
          ELSE IF S!AllowedEl(PseudoTok(e), L) THEN {} ELSE {Viol("element", e, <<>>)})
         \cup UNION {{Viol(c, e, e.a[i][2]) : c \in AttrClausesT(e, e.a[i], L, passed)} : i \in 1..Len(e.a)}
\* Corresponds: per element key, the elements that are not parser-made are covered by as many passed tags
CorrClauses(F, passed) ==
    LET keys == {ElKey(F[i]) : i \in {j \in 1..Len(F) : ~IsComment(F[j])}} IN
    UNION {LET np == Count(passed, LAMBDA t : <<t.ns, t.n>> = key)
               ne == Count(F, LAMBDA e : ~IsComment(e) /\ ElKey(e) = key /\ ~ParserMade(e))
               e0 == F[CHOOSE i \in 1..Len(F) : ~IsComment(F[i]) /\ ElKey(F[i]) = key]
           IN IF IsFormatting(e0) THEN (IF ne > 0 /\ np = 0 THEN {Viol("unmatched", e0, <<>>)} ELSE {})
              ELSE IF ne > np THEN {Viol("unmatched", e0, <<>>)} ELSE {} : key \in keys}
\* all violated clauses of a re-parsed tree F (flat), given the allow-lists L and the passed tags
Clauses(F, L, passed) == UNION {NodeClauses(F[i], L, passed) : i \in 1..Len(F)} \cup CorrClauses(F, passed)
SafeTree(F, L, passed)    == \A i \in 1..Len(F) : NodeClauses(F[i], L, passed) = {}
Corresponds(F, passed)    == CorrClauses(F, passed) = {}
Holds(F, L, passed)       == Clauses(F, L, passed) = {}
=============================================================================
