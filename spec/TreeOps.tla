------------------------------- MODULE TreeOps -------------------------------
(* Abstract DOM used by TreeConstruction: a flat store of nodes, each with a parent and an   *)
(* ordered child list, plus the node primitives tree construction issues (append, insert     *)
(* before, remove, insert text with merging, reparent children, clone) and the canonical     *)
(* nested form that is compared with the projection of the real trees.                       *)
EXTENDS Unicode

\* node kinds: "doc" "elem" "text" "comment" "doctype";  ns: "html" "svg" "math" ("" for non-elements)
MkNode(k, ns, n, a, d) == [k |-> k, ns |-> ns, n |-> n, a |-> a, d |-> d, par |-> 0, kids |-> <<>>, p |-> <<>>, s |-> <<>>]
DocNode == MkNode("doc", "", <<>>, <<>>, <<>>)

RECURSIVE IndexOf(_, _)
IndexOf(seq, x) == IF seq = <<>> THEN 0 ELSE IF seq[Len(seq)] = x THEN Len(seq)
                   ELSE IndexOf(SubSeq(seq, 1, Len(seq) - 1), x)          \* LAST index of x in seq (0 if absent)
RECURSIVE FirstIndexOf(_, _, _)
FirstIndexOf(seq, x, i) == IF i > Len(seq) THEN 0 ELSE IF seq[i] = x THEN i ELSE FirstIndexOf(seq, x, i + 1)
RemoveAt(seq, i) == SubSeq(seq, 1, i - 1) \o SubSeq(seq, i + 1, Len(seq))
InsertAt(seq, i, x) == SubSeq(seq, 1, i - 1) \o <<x>> \o SubSeq(seq, i, Len(seq))     \* x becomes seq[i]
RemoveFirst(seq, x) == LET i == FirstIndexOf(seq, x, 1) IN IF i = 0 THEN seq ELSE RemoveAt(seq, i)

\* ---- structural primitives on the node store ----
Detach(nodes, id) ==
    LET p == nodes[id].par IN
    IF p = 0 THEN nodes
    ELSE [nodes EXCEPT ![p].kids = RemoveFirst(@, id), ![id].par = 0]
AppendChild(nodes, par, id) ==
    LET n1 == Detach(nodes, id) IN [n1 EXCEPT ![par].kids = Append(@, id), ![id].par = par]
\* insert id as a child of par before ref (ref = 0: append)
InsertBefore(nodes, par, id, ref) ==
    IF ref = 0 THEN AppendChild(nodes, par, id)
    ELSE LET n1 == Detach(nodes, id)
             i  == FirstIndexOf(n1[par].kids, ref, 1)
         IN [n1 EXCEPT ![par].kids = InsertAt(@, i, id), ![id].par = par]
\* text: appended to / inserted before ref in par; merges with an adjacent preceding text node
InsertText(nodes, par, ref, s) ==
    IF s = <<>> THEN nodes
    ELSE LET ks  == nodes[par].kids
             pos == IF ref = 0 THEN Len(ks) + 1 ELSE FirstIndexOf(ks, ref, 1)
             prev == IF pos > 1 THEN ks[pos - 1] ELSE 0
         IN IF prev # 0 /\ nodes[prev].k = "text"
            THEN [nodes EXCEPT ![prev].d = @ \o s]
            ELSE LET id == Len(nodes) + 1
                     n1 == Append(nodes, [MkNode("text", "", <<>>, <<>>, s) EXCEPT !.par = par])
                 IN [n1 EXCEPT ![par].kids = InsertAt(@, pos, id)]
\* move all children of `from` to the end of `to`
\* (a template's contents node is not a child in the DOM sense: it stays)
RECURSIVE ReparentKidsFrom(_, _, _, _)
ReparentKidsFrom(nodes, from, to, i) ==
    IF i > Len(nodes[from].kids) THEN nodes
    ELSE LET k == nodes[from].kids[i] IN
         IF nodes[k].k = "content" THEN ReparentKidsFrom(nodes, from, to, i + 1)
         ELSE ReparentKidsFrom(AppendChild(nodes, to, k), from, to, i)
ReparentKids(nodes, from, to) == ReparentKidsFrom(nodes, from, to, 1)
HasContent(nodes, id) == nodes[id].kids # <<>>

\* ---- canonical nested form (adjacent text merged, node ids forgotten) ----
RECURSIVE Canon(_, _), CanonKids(_, _, _)
Canon(nodes, id) ==
    LET nd == nodes[id] IN
    [k |-> nd.k, ns |-> nd.ns, n |-> nd.n, a |-> nd.a, d |-> nd.d, p |-> nd.p, s |-> nd.s,
     c |-> CanonKids(nodes, nd.kids, <<>>)]
CanonKids(nodes, ks, acc) ==
    IF ks = <<>> THEN acc
    ELSE LET x == Canon(nodes, ks[1]) IN
         IF x.k = "text" /\ acc # <<>> /\ acc[Len(acc)].k = "text"
         THEN CanonKids(nodes, Tail(ks), [acc EXCEPT ![Len(acc)].d = @ \o x.d])
         ELSE CanonKids(nodes, Tail(ks), Append(acc, x))

\* ---- well-formedness of the store (model-level theorem) ----
WellFormed(nodes) ==
    /\ nodes[1].k = "doc" /\ nodes[1].par = 0
    /\ \A i \in 1..Len(nodes) :
          /\ \A j \in 1..Len(nodes[i].kids) : nodes[nodes[i].kids[j]].par = i
          /\ \A j, l \in 1..Len(nodes[i].kids) : j # l => nodes[i].kids[j] # nodes[i].kids[l]
          /\ (nodes[i].par # 0 => \E j \in 1..Len(nodes[nodes[i].par].kids) : nodes[nodes[i].par].kids[j] = i)
          /\ (nodes[i].k \in {"text", "comment", "doctype"} => nodes[i].kids = <<>>)
RECURSIVE Acyclic(_, _, _)
Acyclic(nodes, id, fuel) == fuel > 0 /\ (nodes[id].par = 0 \/ Acyclic(nodes, nodes[id].par, fuel - 1))
NoCycles(nodes) == \A i \in 1..Len(nodes) : Acyclic(nodes, i, Len(nodes))
=============================================================================
