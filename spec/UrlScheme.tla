------------------------------ MODULE UrlScheme ------------------------------
(* C09, URL part.                                                                             *)
(*  (1) THE ORACLE  BrowserScheme(v): the scheme a browser resolves for attribute value v     *)
(*      (WHATWG URL standard, basic URL parser: strip leading/trailing C0-control-or-space,   *)
(*      remove every TAB/LF/CR, "scheme start state"/"scheme state"), and BrowserDataType(v): *)
(*      the MIME type essence the "data: URL processor" of the Fetch standard resolves.       *)
(*      Neither looks at html5lib.                                                            *)
(*  (2) THE CODE  UriVerdict(v, prot, ct, D): what sanitizer.Filter.allowed_token does with a *)
(*      URI-valued attribute, step by step (unescape, strip regex, lower, U+FFFD removal,     *)
(*      urllib.parse.urlparse of Python >= 3.10, protocol test, data_content_type regex),     *)
(*      with its deviation from the property as a named branch (D = set of deviation names).  *)
EXTENDS PyText
CONSTANT KnownDefects
UrlDefectNames == {"data-content-type-after-stripping"}

U_data      == <<100, 97, 116, 97>>                               \* "data"
U_base64    == <<98, 97, 115, 101, 54, 52>>                       \* "base64"
U_sbase64   == <<59, 98, 97, 115, 101, 54, 52>>                   \* ";base64"
U_scharset  == <<59, 99, 104, 97, 114, 115, 101, 116, 61>>        \* ";charset="
U_textplain == <<116, 101, 120, 116, 47, 112, 108, 97, 105, 110>> \* "text/plain"

-----------------------------------------------------------------------------
\* (1) the browser
IsC0Space(c)    == c >= 0 /\ c <= 32
IsTabNl(c)      == c \in {9, 10, 13}
IsSchemeChar(c) == IsAlnum(c) \/ c \in {43, 45, 46}               \* ASCII alphanumeric + - .
RECURSIVE LeadEnd(_, _)       \* first index >= i that is not C0-or-space
LeadEnd(s, i) == IF i <= Len(s) /\ IsC0Space(s[i]) THEN LeadEnd(s, i + 1) ELSE i
RECURSIVE TrailStart(_, _)    \* last index <= i that is not C0-or-space
TrailStart(s, i) == IF i >= 1 /\ IsC0Space(s[i]) THEN TrailStart(s, i - 1) ELSE i
BrowserPre(v) == SelectSeq(SubSeq(v, LeadEnd(v, 1), TrailStart(v, Len(v))), LAMBDA c : ~IsTabNl(c))
RECURSIVE SchemeRunEnd(_, _)  \* first index >= i that is not a scheme character
SchemeRunEnd(s, i) == IF i <= Len(s) /\ IsSchemeChar(s[i]) THEN SchemeRunEnd(s, i + 1) ELSE i
SchemeOfPre(p) == IF p = <<>> \/ ~IsAlpha(p[1]) THEN None
                  ELSE LET k == SchemeRunEnd(p, 2) IN
                       IF k <= Len(p) /\ p[k] = 58 THEN Lower(SubSeq(p, 1, k - 1)) ELSE None
BrowserScheme(v) == SchemeOfPre(BrowserPre(v))                     \* None = no scheme (relative reference)

IsHttpTokenC(c) == IsAlnum(c) \/ c \in {33, 35, 36, 37, 38, 39, 42, 43, 45, 46, 94, 95, 96, 124, 126}
IsHttpWs(c)     == c \in {9, 10, 13, 32}
AllTok(s)       == \A i \in 1..Len(s) : IsHttpTokenC(s[i])
RECURSIVE LwsEnd(_, _)
LwsEnd(s, i) == IF i <= Len(s) /\ IsWs(s[i]) THEN LwsEnd(s, i + 1) ELSE i
RECURSIVE TwsStart(_, _)
TwsStart(s, i) == IF i >= 1 /\ IsWs(s[i]) THEN TwsStart(s, i - 1) ELSE i
StripAsciiWs(s) == SubSeq(s, LwsEnd(s, 1), TwsStart(s, Len(s)))
RECURSIVE SpStart(_, _)       \* last index <= i that is not U+0020
SpStart(s, i) == IF i >= 1 /\ s[i] = 32 THEN SpStart(s, i - 1) ELSE i
\* "if mimeType ends with ';', zero or more U+0020, and an ASCII case-insensitive 'base64'": remove that
DropBase64(m) == LET n == Len(m) IN
                 IF n >= 7 /\ Lower(SubSeq(m, n - 5, n)) = U_base64
                 THEN LET k == SpStart(m, n - 6) IN IF k >= 1 /\ m[k] = 59 THEN SubSeq(m, 1, k - 1) ELSE m
                 ELSE m
\* "parse a MIME type" down to the essence; failure -> text/plain (the data: URL processor's fallback)
MimeEssence(m0) ==
    LET m == StripAsciiWs(m0)
        sl == IndexOf(m, 1, 47)
    IN IF sl <= 1 THEN U_textplain
       ELSE LET ty == SubSeq(m, 1, sl - 1)
                se == FirstOf(m, sl + 1, {59})
                st == SubSeq(m, sl + 1, TwsStart(m, se - 1))
            IN IF ~AllTok(ty) \/ st = <<>> \/ ~AllTok(st) THEN U_textplain
               ELSE Lower(ty) \o <<47>> \o Lower(st)
\* only meaningful when BrowserScheme(v) = "data".  None = no comma: the URL fails to load at all.
\* ASSUMED (simplification): the URL parser's percent-encoding of C0 controls / non-ASCII inside the opaque
\* path is not modelled; such code points make the MIME type unparsable here (-> text/plain) whereas a
\* browser would see e.g. "%01" (a token) and resolve an unknown type.  Both are "not what the code judged".
BrowserDataType(v) ==
    LET p == BrowserPre(v)
        col == IndexOf(p, 1, 58)
        h == FirstOf(p, col + 1, {35})
        body == SubSeq(p, col + 1, h - 1)
        cm == IndexOf(body, 1, 44)
    IN IF cm = 0 THEN None
       ELSE LET m1 == DropBase64(StripAsciiWs(SubSeq(body, 1, cm - 1)))
                m2 == IF m1 # <<>> /\ m1[1] = 59 THEN U_textplain \o m1 ELSE m1
            IN MimeEssence(m2)

\* THE PROPERTY for one URI-valued attribute value: allowed scheme or none; data: only with allowed types
UriSchemeSafe(v, prot) == LET s == BrowserScheme(v) IN s = None \/ s \in prot
UriDataSafe(v, ct)     == BrowserScheme(v) = U_data => (LET t == BrowserDataType(v) IN t = None \/ t \in ct)
UriSafe(v, prot, ct)   == UriSchemeSafe(v, prot) /\ UriDataSafe(v, ct)

-----------------------------------------------------------------------------
\* (2) the code
\* re.sub("[`\x00-\x20\x7f-\xa0\s]+", '', unescape(v)).lower().replace("�", "")
StripC(c) == c = 96 \/ c <= 32 \/ (c >= 127 /\ c <= 160) \/ PySpace(c)
CodeView(v) == SelectSeq(LowerPy(SelectSeq(SaxUnescape(v), LAMBDA c : ~StripC(c))), LAMBDA c : c # 65533)
\* urlsplit: i = url.find(':'); i > 0, url[0] ASCII alpha, url[:i] all scheme_chars  (no leading C0/space or
\* TAB/LF/CR is left in a CodeView, so urlsplit's own lstrip/removal is the identity)
PySchemeLen(cv) == LET i == IndexOf(cv, 1, 58) IN
                   IF i > 1 /\ IsAlpha(cv[1]) /\ \A k \in 1..(i - 1) : IsSchemeChar(cv[k]) THEN i - 1 ELSE 0
HasNetloc(r)  == Len(r) >= 2 /\ r[1] = 47 /\ r[2] = 47
NetlocEnd(r)  == FirstOf(r, 3, {47, 63, 35})
\* urlsplit raises ValueError (-> the attribute is deleted) for unbalanced/invalid [..] hosts and for non-ASCII
\* hosts whose NFKC form contains / ? # @ : ; neither IPv6 syntax nor NFKC is modelled, so for such values the
\* model allows "drop" besides its own verdict.
NetlocHas(r, c) == \E i \in 3..(NetlocEnd(r) - 1) : r[i] = c
\* "[" without "]" or the reverse: ValueError("Invalid IPv6 URL") for certain
BracketError(r) == HasNetloc(r) /\ (NetlocHas(r, 91) # NetlocHas(r, 93))
NetlocExotic(r) == HasNetloc(r) /\ ((NetlocHas(r, 91) /\ NetlocHas(r, 93)) \/ \E i \in 3..(NetlocEnd(r) - 1) : r[i] >= 128)
PyPath(r) == LET a == IF HasNetloc(r) THEN NetlocEnd(r) ELSE 1 IN SubSeq(r, a, FirstOf(r, a, {35, 63}) - 1)
\* data_content_type: ^([-a-zA-Z0-9.]+/[-a-zA-Z0-9.]+)(;charset=X(;base64)?|(;base64)?(;charset=X)?),.*$
IsCtC(c) == IsAlnum(c) \/ c \in {45, 46}
IsCsC(c) == IsAlnum(c) \/ c = 45
RECURSIVE CtRunEnd(_, _)
CtRunEnd(s, i) == IF i <= Len(s) /\ IsCtC(s[i]) THEN CtRunEnd(s, i + 1) ELSE i
RECURSIVE CsRunEnd(_, _)
CsRunEnd(s, i) == IF i <= Len(s) /\ IsCsC(s[i]) THEN CsRunEnd(s, i + 1) ELSE i
CharsetAt(s, q) == IF StartsAt(s, q, U_scharset) THEN (LET e == CsRunEnd(s, q + 9) IN IF e > q + 9 THEN e ELSE 0) ELSE 0
Base64At(s, q)  == IF StartsAt(s, q, U_sbase64) THEN q + 7 ELSE 0
CommaAt(s, q)   == q >= 1 /\ q <= Len(s) /\ s[q] = 44
ParamsOK(s, q) ==
    \/ CommaAt(s, q)
    \/ LET c == CharsetAt(s, q) IN c > 0 /\ (CommaAt(s, c) \/ (LET b == Base64At(s, c) IN b > 0 /\ CommaAt(s, b)))
    \/ LET b == Base64At(s, q) IN b > 0 /\ (CommaAt(s, b) \/ (LET c == CharsetAt(s, b) IN c > 0 /\ CommaAt(s, c)))
NoMatch == [ok |-> FALSE, ct |-> <<>>]
DataMatch(path) ==
    LET a == CtRunEnd(path, 1) IN
    IF a = 1 \/ a > Len(path) \/ path[a] # 47 THEN NoMatch
    ELSE LET b == CtRunEnd(path, a + 1) IN
         IF b = a + 1 \/ ~ParamsOK(path, b) THEN NoMatch ELSE [ok |-> TRUE, ct |-> SubSeq(path, 1, b - 1)]

\* "keep" | "drop" | "raise".  "raise": `del attrs[attr]` runs twice (protocol test, then data: test) -> KeyError.
\* ASSUMED: an exception of the filter is not an unsafe OUTPUT (the property speaks about output only), so the
\* KeyError is modelled as the code's behaviour, not listed as a finding of C09.
UriVerdict(v, prot, ct, D) ==
    LET cv == CodeView(v)
        n == PySchemeLen(cv)
    IN IF BracketError(IF n = 0 THEN cv ELSE SubSeq(cv, n + 2, Len(cv))) THEN "drop"     \* except ValueError: del attrs[attr]
       ELSE IF n = 0 THEN "keep"
       ELSE LET sch == SubSeq(cv, 1, n)
                r == SubSeq(cv, n + 2, Len(cv))
                isdata == sch = U_data
                m == IF isdata THEN DataMatch(PyPath(r)) ELSE NoMatch
                bad1 == sch \notin prot
                bad2 == isdata /\ (~m.ok \/ m.ct \notin ct)
                \* deviation: the content type is matched on the stripped, lower-cased view, so characters the
                \* strip regex removes (` U+007F-U+00A0, inner spaces, Unicode spaces, U+FFFD) may sit inside the type
                \* the browser resolves.  Intended: keep only if the browser resolves the very type that was judged.
                bad3 == isdata /\ m.ok /\ "data-content-type-after-stripping" \notin D
                        /\ BrowserScheme(v) = U_data /\ BrowserDataType(v) # m.ct
            IN IF bad1 /\ bad2 THEN "raise" ELSE IF bad1 \/ bad2 \/ bad3 THEN "drop" ELSE "keep"
UriMayAlsoDrop(v) == LET cv == CodeView(v) n == PySchemeLen(cv) IN
                     NetlocExotic(IF n = 0 THEN cv ELSE SubSeq(cv, n + 2, Len(cv)))
=============================================================================
