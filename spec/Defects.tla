------------------------------- MODULE Defects -------------------------------
(* The one declaration shared by every mechanism spec: the set of NAMED deviations of the     *)
(* code that are enabled.  {} = the intended design; the names listed in known_findings.json  *)
(* = the code-faithful model.                                                                 *)
CONSTANT KnownDefects
=============================================================================
