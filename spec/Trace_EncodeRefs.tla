-------------------------- MODULE Trace_EncodeRefs --------------------------
(* One trace = one document serialized by the real HTMLSerializer with an output encoding and *)
(* parsed again by the real parser with no hints.  Recorded by the harness:                    *)
(*   bom, ascii, pfail, mis   facts about the label's codecs (see EncodeRefs.tla)              *)
(*   out        the token stream that was serialized (output of the inject-meta filter)        *)
(*   strictdoc  the document is one of the harness's own layouts (contexts are simple, so the  *)
(*              raw-text prediction is exact); FALSE for corpus / soup documents               *)
(*   raised     serialization raised UnicodeEncodeError                                        *)
(*   chunks     [k, un, dec]: chunk number, text handed to encode, bytes decoded with W - every *)
(*              chunk that contains a non-ASCII character or whose decoding differs from un     *)
(*   nchunks    number of chunks; encOk: documentEncoding = W; diff: "same" | "raw" | "other"   *)
(*              (re-parsed bytes vs re-parsed unencoded serialization of the same stream)       *)
(* One transition per chunk (ChunkOk), then the document-level judgement.  Verdicts are total.  *)
EXTENDS EncodeRefs, TLC, Json, IOUtils
Traces == JsonDeserialize(IOEnv.TRACE_FILE)
VARIABLES tid, l, verdict, found
vars == <<tid, l, verdict, found>>
ToSet(s) == {s[i] : i \in 1..Len(s)}

Init == tid \in 1..Len(Traces) /\ l = 1 /\ verdict = "run" /\ found = {}
\* result: <<verdict, findings>>
Final(tr) ==
    LET pf == ToSet(tr.pfail)
        mc == MisC(tr.mis)
        mx == {tr.mis[i].c : i \in {k \in 1..Len(tr.mis) : tr.mis[k].x}}
    IN
    IF tr.raised # StrictBad(tr.out, pf) THEN <<"reject:raise", {}>>
    ELSE IF tr.raised THEN <<"accept", {}>>                       \* nothing was written: no reference can stand in a name / comment
    ELSE LET encExp == tr.bom \/ tr.ascii IN                      \* ASSUMED: UTF-16 without BOM is not self-describing (reader falls back)
    IF tr.encOk # encExp THEN <<"reject:encoding", {}>>
    ELSE IF ~encExp THEN <<"accept", {}>>
    ELSE IF \E c \in pf : NoRef(c) THEN <<"accept", {}>>          \* ASSUMED: outside the reach of character references
    ELSE LET bomBroken == tr.bom /\ tr.nchunks > 1
             misAny == AnyChar(tr.out, mc)
             fx == (IF bomBroken THEN {"ser-utf16-bom-per-chunk"} ELSE {})
                   \cup (IF AnyChar(tr.out, mx) THEN {"ser-encoder-decoder-mismatch"} ELSE {})
         IN
    IF bomBroken THEN (IF tr.diff = "same" THEN <<"reject:tree-same-despite-bom", {}>> ELSE <<"finding", fx>>)
    ELSE IF misAny THEN (IF tr.diff = "same" THEN <<"accept", {}>> ELSE IF fx = {} THEN <<"accept", {}>> ELSE <<"finding", fx>>)
    ELSE IF tr.strictdoc /\ RawMust(tr.out, pf)
         THEN IF ~On("ser-rawtext-charref") THEN <<"reject:rawtext-reference-written", {}>>
              ELSE IF tr.diff = "raw" THEN <<"finding", {"ser-rawtext-charref"}>> ELSE <<"reject:tree-rawtext", {}>>
    ELSE IF tr.diff = "raw"
         THEN IF On("ser-rawtext-charref") /\ RawMay(tr.out, pf) THEN <<"finding", {"ser-rawtext-charref"}>>
              ELSE <<"reject:tree-rawtext", {}>>
    ELSE IF tr.diff = "same" THEN <<"accept", {}>> ELSE <<"reject:tree", {}>>
Step ==
    /\ verdict = "run"
    /\ LET tr == Traces[tid] IN
       IF l > Len(tr.chunks)
       THEN LET r == Final(tr) IN verdict' = r[1] /\ found' = r[2] /\ UNCHANGED <<tid, l>>
       ELSE IF ChunkOk(tr.chunks[l], tr.bom, ToSet(tr.pfail), tr.mis)
            THEN l' = l + 1 /\ UNCHANGED <<tid, verdict, found>>
            ELSE verdict' = "reject:chunk" /\ UNCHANGED <<tid, l, found>>
Done == verdict # "run" /\ UNCHANGED vars
Next == Step \/ Done
Report == verdict # "run" => PrintT(ToJson([tid |-> tid, l |-> l, v |-> verdict, f |-> found]))
=============================================================================
