--------------------------- MODULE MC_AlphaAttrs ---------------------------
(* Bounded-exhaustive exploration: token streams of up to MaxTags tags (with an optional     *)
(* non-tag token in between), each tag carrying every insertion order of every attribute     *)
(* set of up to MaxAttrs attributes over Universe.  Each reached state is also exported as a *)
(* behaviour (input stream, expected output stream) and replayed into ONE real filter        *)
(* instance, so memory between tokens (which the design forbids) is observable.              *)
EXTENDS AlphaAttrs, TLC, Json
CONSTANTS MaxAttrs, MaxTags, Big, Export

NSs    == IF Big THEN {None, <<120, 108>>, <<120>>, <<121>>} ELSE {None, <<120>>}    \* None "xl" "x" "y"
Locals == IF Big THEN {<<97>>, <<98>>, <<104, 114, 101, 102>>, <<120, 97>>} ELSE {<<97>>, <<98>>}
Values == IF Big THEN {<<>>, <<49>>} ELSE {<<49>>}
Universe == {<<n, l, v>> : n \in NSs, l \in Locals, v \in Values}

VARIABLES done, attrs
Mk(t, as) == [t |-> t, n |-> <<97>>, ns |-> None, a |-> as, d |-> <<>>, p |-> None, s |-> None]
Tok == Mk("StartTag", attrs)
Stream == Append(done, Tok)
NTags == Cardinality({i \in 1..Len(done) : IsTag(done[i])}) + 1

Init == done = <<>> /\ attrs = <<>>
Add(at) == /\ Len(attrs) < MaxAttrs
           /\ \A i \in 1..Len(attrs) : <<attrs[i][1], attrs[i][2]>> # <<at[1], at[2]>>
           /\ attrs' = Append(attrs, at) /\ UNCHANGED done
NewTag == /\ NTags < MaxTags /\ attrs # <<>>
          /\ \/ done' = Append(done, Tok)
             \/ done' = done \o <<Tok, [Mk("Characters", <<>>) EXCEPT !.d = <<98, 32, 97>>, !.n = None]>>
             \/ done' = Append(done, Mk("EmptyTag", attrs))
          /\ attrs' = <<>>
Next == (\E at \in Universe : Add(at)) \/ NewTag

RECURSIVE MapStep(_)
MapStep(toks) == IF toks = <<>> THEN <<>> ELSE <<AlphaStep(toks[1])>> \o MapStep(Tail(toks))

\* theorems
ThmOnlyReorders == OnlyReorders(Tok, AlphaStep(Tok))
\* order independence: the output is determined by the SET of attributes when no two share a key
KeysDistinct(as) == \A i, j \in 1..Len(as) : i # j => AKey(as[i]) # AKey(as[j])
ThmOrderIndependent ==
    KeysDistinct(attrs) =>
        \A i \in 1..Len(attrs) - 1 :
            LET sw == [attrs EXCEPT ![i] = attrs[i + 1], ![i + 1] = attrs[i]]
            IN SortAttrs(sw) = SortAttrs(attrs)
ThmExport == Export => PrintT(ToJson([inp |-> Stream, out |-> MapStep(Stream)]))
=============================================================================
