--------------------------- MODULE MC_AlphaAttrs ---------------------------
(* Bounded-exhaustive exploration: every insertion order of every attribute set of up to    *)
(* MaxAttrs attributes over Universe.  Each reached state is also exported as a behaviour   *)
(* (input token, expected output token) to be replayed into the real filter.                *)
EXTENDS AlphaAttrs, TLC, Json
CONSTANTS MaxAttrs, Export

NSs    == {None, <<120, 108>>, <<120>>, <<121>>}                       \* None "xl" "x" "y"
Locals == {<<97>>, <<98>>, <<104, 114, 101, 102>>, <<120, 97>>}       \* a b href xa
Values == {<<>>, <<49>>}
Universe == {<<n, l, v>> : n \in NSs, l \in Locals, v \in Values}

VARIABLES attrs
Tok == [t |-> "StartTag", n |-> <<97>>, ns |-> None, a |-> attrs, d |-> <<>>, p |-> None, s |-> None]

Init == attrs = <<>>
Add(at) == /\ Len(attrs) < MaxAttrs
           /\ \A i \in 1..Len(attrs) : <<attrs[i][1], attrs[i][2]>> # <<at[1], at[2]>>
           /\ attrs' = Append(attrs, at)
Next == \E at \in Universe : Add(at)

\* theorems
ThmOnlyReorders == OnlyReorders(Tok, AlphaStep(Tok))
\* order independence: the output is determined by the SET of attributes when no two share a key
KeysDistinct(as) == \A i, j \in 1..Len(as) : i # j => AKey(as[i]) # AKey(as[j])
ThmOrderIndependent ==
    KeysDistinct(attrs) =>
        \A i \in 1..Len(attrs) - 1 :
            LET sw == [attrs EXCEPT ![i] = attrs[i + 1], ![i + 1] = attrs[i]]
            IN SortAttrs(sw) = SortAttrs(attrs)
ThmExport == Export => PrintT(ToJson([inp |-> Tok, out |-> AlphaStep(Tok)]))
=============================================================================
