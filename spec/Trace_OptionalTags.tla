------------------------- MODULE Trace_OptionalTags -------------------------
(* Streams recorded from the real filter: inp (walker stream) and out (what the filter        *)
(* yielded).  One transition per input token: the code-faithful machine decides keep/drop,    *)
(* the recorded output must agree (aligned by the pointer o), and every drop is judged by     *)
(* MayOmit; an illegal drop that a listed deviation explains is a finding, otherwise reject.  *)
(* Traces with judge = FALSE (artificial concatenations used to expose hidden state in the    *)
(* filter object) are only compared with the machine.                                         *)
EXTENDS OptionalTags, TLC, Json, IOUtils
Traces == JsonDeserialize(IOEnv.TRACE_FILE)
VARIABLES tid, l, o, open, mask, found, verdict
vars == <<tid, l, o, open, mask, found, verdict>>

Init == /\ tid \in 1..Len(Traces) /\ l = 1 /\ o = 1 /\ open = <<>> /\ mask = <<>> /\ found = {} /\ verdict = "run"
Step ==
    /\ verdict = "run"
    /\ LET tr == Traces[tid]  inp == tr.inp  out == tr.out IN
       IF l > Len(inp)
       THEN /\ verdict' = IF o = Len(out) + 1 THEN (IF found = {} THEN "accept" ELSE "finding") ELSE "reject:extra-output"
            /\ UNCHANGED <<tid, l, o, open, mask, found>>
       ELSE LET tok == inp[l]
                par == IF tok.t = "EndTag"
                       THEN (IF Len(open) >= 2 THEN open[Len(open) - 1] ELSE [n |-> None, ns |-> None])
                       ELSE (IF open = <<>> THEN [n |-> None, ns |-> None] ELSE Last(open))
                drop == Drops(tok, At(inp, l - 1), At(inp, l + 1), par, KnownDefects)
                newopen == IF tok.t = "StartTag" THEN Append(open, [n |-> tok.n, ns |-> tok.ns])
                           ELSE IF tok.t = "EndTag" /\ open # <<>> THEN Front(open) ELSE open
                m2 == Append(mask, ~drop)
            IN IF drop
               THEN \* the code must have dropped it too: out[o] is then the next kept token (checked when we get there)
                    LET legal == IF tok.t = "StartTag"
                                 THEN MayOmitStart(inp, l, m2 \o [i \in 1..(Len(inp) - l) |-> TRUE])
                                 ELSE MayOmitEnd(inp, l)
                        ex == {d \in KnownDefects : ~Drops(tok, At(inp, l - 1), At(inp, l + 1), par, KnownDefects \ {d})}
                    IN IF legal \/ ~tr.judge THEN /\ l' = l + 1 /\ open' = newopen /\ mask' = m2 /\ UNCHANGED <<tid, o, found, verdict>>
                       ELSE IF ex # {} THEN /\ l' = l + 1 /\ open' = newopen /\ mask' = m2 /\ found' = found \cup ex
                                            /\ UNCHANGED <<tid, o, verdict>>
                       ELSE verdict' = "reject:property" /\ UNCHANGED <<tid, l, o, open, mask, found>>
               ELSE IF o > Len(out) \/ out[o] # tok
                    THEN verdict' = "reject:step" /\ UNCHANGED <<tid, l, o, open, mask, found>>
                    ELSE /\ l' = l + 1 /\ o' = o + 1 /\ open' = newopen /\ mask' = m2 /\ UNCHANGED <<tid, found, verdict>>
Done == verdict # "run" /\ UNCHANGED vars
Next == Step \/ Done
Report == verdict # "run" => PrintT(ToJson([tid |-> tid, l |-> l, v |-> verdict, f |-> found]))
=============================================================================
