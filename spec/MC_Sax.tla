-------------------------------- MODULE MC_Sax --------------------------------
(* C19, model level: every tree of TreeGen x every container as the starting node.              *)
(* Intended configuration: the events of ToSax(Walk(t)) are accepted by SaxOK and rebuild to    *)
(* the tree without comments and doctype.  Code-faithful configuration: failures on parser      *)
(* shapes are explained by a listed walker deviation; (stream, events) exported for replay.     *)
EXTENDS TreeGen, Sax, Json
CONSTANTS Export, CheckProperty

Init == GenInit
Next == GenNext
Sub(p) == NodeAt(T, p)
S(p)   == ToSax(Walk(Sub(p), KnownDefects))
ThmSaxOK   == CheckProperty => \A p \in Starts : ParsedShape(Sub(p)) => SaxOK(S(p))
ThmSaxTree == CheckProperty => \A p \in Starts : ParsedShape(Sub(p)) => SaxTreeOK(S(p), Sub(p))
ThmSaxExplained == \A p \in Starts : (ParsedShape(Sub(p)) /\ SaxClause(S(p), Sub(p)) # "ok")
                                         => FiredOn(Sub(p), KnownDefects) # {}
ThmExport == Export => PrintT(ToJson([tree |-> T,
                 runs |-> {[path |-> p, stream |-> Walk(Sub(p), KnownDefects), evs |-> S(p),
                            clause |-> IF ParsedShape(Sub(p)) THEN SaxClause(S(p), Sub(p)) ELSE "nonparsed"] : p \in Starts}]))
=============================================================================
