-------------------------- MODULE MC_OptionalTags ---------------------------
(* Two bounded-exhaustive explorations of the optional-tags machine:                          *)
(*  Mode = "window":  every (parent, preceding sibling, current tag, following token) window   *)
(*                    over the name sets below, built in four phases;                          *)
(*  Mode = "seq":     every balanced stream of <= MaxLen tokens over a small structural        *)
(*                    alphabet (tables / lists / select), token by token.                      *)
(* Theorem (intended design, KnownDefects = {}):  RemovesOnlyOmissible.  With the code-faithful *)
(* KnownDefects every final stream is exported with the machine's output and, per illegally    *)
(* removed token, the set of listed deviations that explain it.                                *)
EXTENDS OptionalTags, TLC, Json
CONSTANTS Mode, Wide, MaxLen, Alphabet, Export, CheckProperty

T(t, n, ns, a, d) == [t |-> t, n |-> n, ns |-> ns, a |-> a, d |-> d, p |-> None, s |-> None]
St(n)  == T("StartTag", n, NS_html, <<>>, <<>>)
StA(n) == T("StartTag", n, NS_html, <<<<None, N_id, <<120>>>>>>, <<>>)
StN(n, ns) == T("StartTag", n, ns, <<>>, <<>>)
En(n)  == T("EndTag", n, NS_html, <<>>, <<>>)
EnN(n, ns) == T("EndTag", n, ns, <<>>, <<>>)
Em(n)  == T("EmptyTag", n, NS_html, <<>>, <<>>)
Txt    == T("Characters", None, None, <<>>, <<120>>)
Spc    == T("SpaceCharacters", None, None, <<>>, <<32>>)
Cmt    == T("Comment", None, None, <<>>, <<99>>)

Omissible == {N_html, N_head, N_body, N_li, N_dt, N_dd, N_p, N_rt, N_rp, N_optgroup, N_option, N_colgroup,
              N_thead, N_tbody, N_tfoot, N_tr, N_td, N_th}
HtmlSubstrings == {N_m, N_h, N_t, N_l, N_ht, N_tm, N_ml, N_htm, N_tml, <<>>}
CurNames  == IF Wide THEN Omissible \cup HtmlSubstrings \cup {N_div, N_a, N_span, N_caption, N_table, N_ul}
             ELSE {N_html, N_head, N_body, N_p, N_li, N_dd, N_dt, N_option, N_optgroup, N_colgroup, N_tbody,
                   N_thead, N_tfoot, N_tr, N_td, N_m, N_div}
NextNames == IF Wide THEN PFollowersStd \cup PFollowersCode \cup Omissible
                          \cup {N_script, N_style, N_template, N_span, N_a, N_caption, N_col, N_noscript, N_title}
             ELSE {N_p, N_div, N_dialog, N_li, N_dd, N_option, N_optgroup, N_colgroup, N_col, N_tbody,
                   N_tfoot, N_tr, N_td, N_script, N_template, N_span, N_body}
NextEmpty == IF Wide THEN {N_col, N_hr, N_meta, N_link, N_br, N_img} ELSE {N_col, N_hr, N_meta, N_link}
Parents   == IF Wide THEN {[n |-> N_div, ns |-> NS_html], [n |-> N_a, ns |-> NS_html], [n |-> N_noscript, ns |-> NS_html],
                           [n |-> N_video, ns |-> NS_html], [n |-> <<120, 45, 102>>, ns |-> NS_html],
                           [n |-> N_a, ns |-> NS_svg], [n |-> N_div, ns |-> None]}
             ELSE {[n |-> N_div, ns |-> NS_html], [n |-> N_a, ns |-> NS_html], [n |-> N_a, ns |-> NS_svg]}
PrevSibs  == IF Wide THEN {N_tbody, N_thead, N_tfoot, N_colgroup, N_p, N_li, N_div} ELSE {N_tbody, N_colgroup}
CurNs     == IF Wide THEN {NS_html, None, NS_svg} ELSE {NS_html, NS_svg}

VARIABLES toks, ph, open
vars == <<toks, ph, open>>

\* ---------------- window mode ----------------
WInit == toks = <<>> /\ ph = 0 /\ open = <<>>
WParent == /\ ph = 0 /\ ph' = 1
           /\ \/ toks' = <<>> /\ open' = <<>>
              \/ \E p \in Parents : toks' = <<StN(p.n, p.ns)>> /\ open' = <<p>>
WPrev == /\ ph = 1 /\ ph' = 2 /\ UNCHANGED open
         /\ \/ toks' = toks
            \/ \E x \in {Txt, Spc, Cmt, Em(N_br)} : toks' = Append(toks, x)
            \/ \E q \in PrevSibs : toks' = toks \o <<St(q), En(q)>>
            \/ \E q \in PrevSibs : toks' = toks \o <<St(q), Txt, En(q)>>
WCur == /\ ph = 2 /\ ph' = 3 /\ UNCHANGED open
        /\ \E n \in CurNames, ns \in CurNs :
              \/ toks' = Append(toks, StN(n, ns))
              \/ ns = NS_html /\ toks' = Append(toks, StA(n))
              \/ toks' = toks \o <<StN(n, ns), EnN(n, ns)>>
              \/ toks' = toks \o <<StN(n, ns), Txt, EnN(n, ns)>>
WNext == /\ ph = 3 /\ ph' = 4 /\ UNCHANGED open
         /\ \/ toks' = toks
            \/ \E x \in {Txt, Spc, Cmt} : toks' = Append(toks, x)
            \/ open # <<>> /\ Last(toks).t = "EndTag" /\ toks' = Append(toks, EnN(open[1].n, open[1].ns))
            \/ Last(toks).t = "StartTag" /\ toks' = Append(toks, EnN(Last(toks).n, Last(toks).ns))
            \/ \E m \in NextNames : toks' = Append(toks, St(m)) \/ toks' = Append(toks, StA(m))
            \/ \E m \in {N_li, N_p, N_td, N_tr} : toks' = Append(toks, StN(m, NS_svg))
            \/ \E m \in NextEmpty : toks' = Append(toks, Em(m))
WNextAct == WParent \/ WPrev \/ WCur \/ WNext

\* ---------------- sequence mode ----------------
SeqNames == CASE Alphabet = "table"  -> {N_table, N_colgroup, N_tbody, N_thead, N_tfoot, N_tr, N_td}
              [] Alphabet = "list"   -> {N_ul, N_li, N_p, N_a, N_dl, N_dt, N_dd, N_div}
              [] Alphabet = "select" -> {N_select, N_optgroup, N_option, N_ruby, N_rt, N_rp, N_body, N_head, N_html}
SeqOthers == CASE Alphabet = "table" -> {Em(N_col), Spc, Txt}
               [] Alphabet = "list"  -> {Txt, Spc, Em(N_hr)}
               [] Alphabet = "select" -> {Txt, Cmt, Spc, Em(N_meta)}
SInit == toks = <<>> /\ ph = 4 /\ open = <<>>
SPush(tok) == Len(toks) < MaxLen /\ toks' = Append(toks, tok) /\ UNCHANGED ph
SNextAct == \/ \E n \in SeqNames : SPush(St(n)) /\ open' = Append(open, [n |-> n, ns |-> NS_html])
            \/ open # <<>> /\ SPush(En(Last(open).n)) /\ open' = Front(open)
            \/ \E x \in SeqOthers : SPush(x) /\ UNCHANGED open

Init == IF Mode = "window" THEN WInit ELSE SInit
Next == IF Mode = "window" THEN WNextAct ELSE SNextAct

Final == ph = 4
Mask == KeepMask(toks, KnownDefects)
Illegal == {i \in 1..Len(toks) : ~Mask[i] /\ ~MayOmit(toks, i, Mask)}
ThmProperty   == (CheckProperty /\ Final) => Illegal = {}
ThmSubsequence == Final => \A i \in 1..Len(toks) : (~Mask[i]) => toks[i].t \in {"StartTag", "EndTag"}
ThmExplained  == Final => \A i \in Illegal : Explains(toks, i, KnownDefects) # {}
\* wide windows: export every stream from which the machine drops a token, and a deterministic 1/16 sample of the rest
RECURSIVE TokHash(_)
TokHash(ts) == IF ts = <<>> THEN 0 ELSE (Len(ts[1].n) * 7 + (IF ts[1].n = <<>> \/ ts[1].n = None THEN 0 ELSE ts[1].n[1]) + 3 * TokHash(Tail(ts))) % 1009
Selected == ~Wide \/ (\E i \in 1..Len(toks) : ~Mask[i]) \/ TokHash(toks) % 16 = 0
ThmExport == (Export /\ Final /\ Selected) =>
    PrintT(ToJson([inp |-> toks, out |-> OtFilter(toks, KnownDefects),
                   ill |-> [i \in Illegal |-> Explains(toks, i, KnownDefects)]]))
=============================================================================
