------------------------------ MODULE Encoding ------------------------------
(* C06.  How html5lib picks the decoder of a byte stream, one operator per implementation    *)
(* step: HTMLBinaryInputStream.detectBOM / determineEncoding (the precedence chain), reset() *)
(* (the decoder is created), InHeadPhase.startTagMeta + changeEncoding (late meta, restart). *)
(* State = [pc, enc, conf, pos, with, from, restarts]:                                       *)
(*   enc/conf  charEncoding = (encoding, "tentative" | "certain"); "none"/"undetermined" before *)
(*   pos       read position of the raw byte stream                                          *)
(*   with/from the encoding the current decoder was created with and the byte offset it      *)
(*             starts at (what the tree is really built from)                                *)
(* D = set of enabled deviations ({} = intended design, listed findings = code-faithful).    *)
EXTENDS Prescan

EncodingDefects == {
    "bom-utf32-shadows-utf16",     \* FF FE 00 00 / 00 00 FE FF are taken for UTF-32 BOMs: no encoding results, 4 bytes stay skipped
    "latemeta-utf16-no-switch",    \* a late <meta charset=utf-16> while tentative does nothing (should mean UTF-8)
    "bom-seek-past-end" }          \* a 2-byte input that is just a UTF-16 BOM: seek(3) on a non-seekable source raises
DefectNames == PrescanDefects \cup EncodingDefects

-----------------------------------------------------------------------------
\* --- BOM sniffing on concrete bytes (detectBOM).  Result [enc, seek] ---
Take3(data) == SubSeq(data, 1, IF Len(data) < 3 THEN Len(data) ELSE 3)
Take4(data) == SubSeq(data, 1, IF Len(data) < 4 THEN Len(data) ELSE 4)
Take2(data) == SubSeq(data, 1, IF Len(data) < 2 THEN Len(data) ELSE 2)
BomOf(s) == CASE s = <<239, 187, 191>> -> "utf-8"
              [] s = <<255, 254>> -> "utf-16le"
              [] s = <<254, 255>> -> "utf-16be"
              [] s = <<255, 254, 0, 0>> -> "utf-32le"
              [] s = <<0, 0, 254, 255>> -> "utf-32be"
              [] OTHER -> "none"
\* the code tests data[:3], then data[:4], then data[:2] against ONE table (so a 2-byte document that is a
\* UTF-16 BOM is found by the first test, with seek 3: harmless, nothing follows)
DetectBom(data, D) ==
    LET b3 == BomOf(Take3(data))  b4 == BomOf(Take4(data))  b2 == BomOf(Take2(data)) IN
    IF b3 # "none" THEN [bom |-> b3, seek |-> IF Len(data) < 3 THEN Len(data) ELSE 3]
    ELSE IF b4 # "none" THEN [bom |-> b4, seek |-> 4]
    ELSE IF b2 # "none" THEN [bom |-> b2, seek |-> 2]
    ELSE [bom |-> "none", seek |-> 0]
\* the first table test (data[:3]) finds a 2-byte BOM with seek = 3, past the end of the input: harmless on a
\* seekable source, but html5lib's BufferedStream (wrapped around sources that cannot seek) asserts
BomSeekFails(data, src, D) == "bom-seek-past-end" \in D /\ src = "pipe" /\ Len(data) < 3 /\ BomOf(Take3(data)) # "none"
BomLen(bom) == CASE bom = "utf-8" -> 3 [] bom \in {"utf-16le", "utf-16be"} -> 2 [] bom \in {"utf-32le", "utf-32be"} -> 4 [] OTHER -> 0

\* what the BOM step yields: [enc, pos].  The standard knows three BOMs; FF FE 00 00 is a UTF-16LE BOM
\* followed by U+0000, and 00 00 FE FF is no BOM at all.
BomStep(b, D) ==
    IF b.bom \in {"utf-8", "utf-16le", "utf-16be"} THEN [enc |-> b.bom, pos |-> b.seek]
    ELSE IF b.bom \in {"utf-32le", "utf-32be"}
         THEN (IF "bom-utf32-shadows-utf16" \in D THEN [enc |-> "none", pos |-> 4]
               ELSE IF b.bom = "utf-32le" THEN [enc |-> "utf-16le", pos |-> 2] ELSE [enc |-> "none", pos |-> 0])
    ELSE [enc |-> "none", pos |-> 0]

-----------------------------------------------------------------------------
\* --- the precedence chain.  src = resolved sources:                                           ---
\* ---   [bom: [bom, seek], override, transport, parent, likely, default: encoding name | "none",  ---
\* ---    detector: "off" | encoding name | "none"  (verdict of the optional detector),              ---
\* ---    abs: BOOLEAN; abs = TRUE: meta0 = result of the prescan (abstract models);               ---
\* ---                  abs = FALSE: data = the bytes, the prescan runs when the chain reaches it]  ---
MetaOf(src, pos, D) == IF src.abs THEN src.meta0 ELSE PrescanWindow(Window(src.data, pos), D)
\* held: the character layer under the decoder (HTMLUnicodeInputStream.readChunk) is holding back the last character
\* of the chunk it has read (a CR or a lead surrogate at the very end of a chunk waits for the next chunk)
EncInit == [pc |-> "bom", enc |-> "none", conf |-> "undetermined", pos |-> 0, with |-> "none", from |-> 0, restarts |-> 0,
            held |-> FALSE]
ChunkRead(st, endsHeld) == [st EXCEPT !.held = endsHeld]
Decide(st, e, c) == [st EXCEPT !.pc = "ready", !.enc = e, !.conf = c]

EncStep(st, src, D) ==
    CASE st.pc = "bom" ->
            LET r == BomStep(src.bom, D) IN
            IF r.enc # "none" THEN [Decide(st, r.enc, "certain") EXCEPT !.pos = r.pos]
            ELSE [st EXCEPT !.pc = "override", !.pos = r.pos]
      [] st.pc = "override" ->
            IF src.override # "none" THEN Decide(st, src.override, "certain") ELSE [st EXCEPT !.pc = "transport"]
      [] st.pc = "transport" ->
            IF src.transport # "none" THEN Decide(st, src.transport, "certain") ELSE [st EXCEPT !.pc = "meta"]
      [] st.pc = "meta" ->                       \* read 1024 bytes from the current position, then seek(0)
            LET m == MetaOf(src, st.pos, D) IN
            IF m # "none" THEN [Decide(st, m, "tentative") EXCEPT !.pos = 0] ELSE [st EXCEPT !.pc = "parent", !.pos = 0]
      [] st.pc = "parent" ->
            IF src.parent # "none" /\ ~IsUtf16(src.parent) THEN Decide(st, src.parent, "tentative") ELSE [st EXCEPT !.pc = "likely"]
      [] st.pc = "likely" ->
            IF src.likely # "none" THEN Decide(st, src.likely, "tentative") ELSE [st EXCEPT !.pc = "detect"]
      [] st.pc = "detect" ->                     \* the optional statistical detector (chardet), an oracle-supplied input:
            \* src.detector = "off" (useChardet false / package not importable), else the encoding its verdict names or
            \* "none" (no verdict, or a name the label table does not know).  The detector is fed the raw stream (it may
            \* read it to the end); whatever it says, the stream is rewound, so the document is decoded from its first byte.
            IF src.detector = "off" THEN [st EXCEPT !.pc = "default"]
            ELSE IF src.detector # "none" THEN [Decide(st, src.detector, "tentative") EXCEPT !.pos = 0]
            ELSE [st EXCEPT !.pc = "default", !.pos = 0]
      [] st.pc = "default" ->
            IF src.default # "none" THEN Decide(st, src.default, "tentative") ELSE [st EXCEPT !.pc = "fallback"]
      [] st.pc = "fallback" -> Decide(st, "windows-1252", "tentative")
      [] st.pc = "ready" -> [st EXCEPT !.pc = "parsing", !.with = st.enc, !.from = st.pos]       \* reset(): decoder created
      [] OTHER -> st

RECURSIVE RunChain(_, _, _)
RunChain(st, src, D) == IF st.pc = "parsing" THEN st ELSE RunChain(EncStep(st, src, D), src, D)
Determine(src, D) == RunChain(EncInit, src, D)

\* the documented order, declaratively: the first source that yields an encoding
Chain(src) == <<
    [e |-> BomStep(src.bom, {}).enc, c |-> "certain"],
    [e |-> src.override, c |-> "certain"],
    [e |-> src.transport, c |-> "certain"],
    [e |-> MetaOf(src, 0, {}), c |-> "tentative"],
    [e |-> IF IsUtf16(src.parent) THEN "none" ELSE src.parent, c |-> "tentative"],
    [e |-> src.likely, c |-> "tentative"],
    [e |-> IF src.detector = "off" THEN "none" ELSE src.detector, c |-> "tentative"],
    [e |-> src.default, c |-> "tentative"],
    [e |-> "windows-1252", c |-> "tentative"] >>
FirstApplicable(src) ==
    LET ch == Chain(src) i == CHOOSE i \in 1..9 : ch[i].e # "none" /\ \A j \in 1..(i - 1) : ch[j].e = "none" IN ch[i]
\* bytes the decoder must start at: just after a (standard) BOM
IntendedFrom(src) == BomStep(src.bom, {}).pos

\* resolved sources of a concrete call: data = the bytes, kw = the five *_encoding arguments (label or None)
Sources(data, kw, D) ==
    [bom |-> DetectBom(data, D), abs |-> FALSE, data |-> data,
     override |-> GetEncoding(kw.o), transport |-> GetEncoding(kw.t), parent |-> GetEncoding(kw.p),
     likely |-> GetEncoding(kw.l), default |-> GetEncoding(kw.d),
     detector |-> IF kw.det.on THEN GetEncoding(kw.det.label) ELSE "off"]

-----------------------------------------------------------------------------
\* --- a meta start tag processed by the "in head" rules (InHeadPhase.startTagMeta) ---
\* attrs = [cs, he, ct]: value of charset / http-equiv (code points) / content (UTF-8 bytes), or None.
\* Which label, if any, is handed to changeEncoding.  [call |-> BOOLEAN, label |-> label or None]
\* ASSUMED: html5lib looks at http-equiv/content only when there is NO charset attribute at all ("elif");
\* the standard's "Otherwise, if ..." may also apply when the charset attribute names no encoding.
MetaCall(st, attrs, D) ==
    IF st.conf # "tentative" THEN [call |-> FALSE, label |-> None]
    ELSE IF attrs.cs # None THEN [call |-> TRUE, label |-> attrs.cs]
    ELSE IF attrs.ct # None /\ attrs.he # None /\ Lower(attrs.he) = S_contenttype
         THEN [call |-> TRUE, label |-> Extract(attrs.ct, D)]     \* same extraction algorithm as the prescan
    ELSE [call |-> FALSE, label |-> None]

\* changeEncoding(label) -> new state; pc = "restart" when the parse is restarted
\* ASSUMED (follows the code, not in the property text): a tentative UTF-16 decoder is replaced like any other
\* (the standard just confirms it), and a late x-user-defined is not mapped to windows-1252.
ChangeEncoding(st, label, D) ==
    LET e0 == GetEncoding(label) IN
    IF e0 = "none" THEN st
    ELSE IF IsUtf16(e0) /\ "latemeta-utf16-no-switch" \in D THEN st
    ELSE LET e == IF IsUtf16(e0) THEN "utf-8" ELSE e0 IN
         IF e = st.enc THEN [st EXCEPT !.conf = "certain"]
         ELSE [st EXCEPT !.pc = "restart", !.enc = e, !.conf = "certain", !.pos = 0, !.with = e, !.from = 0,
                         !.restarts = @ + 1,
                         !.held = FALSE]      \* reset(): nothing read in the abandoned pass survives
MetaTag(st, attrs, D) ==
    LET c == MetaCall(st, attrs, D) IN IF c.call THEN ChangeEncoding(st, c.label, D) ELSE st
\* HTMLParser._parse: on _ReparseException reset and run the main loop again
Restarted(st) == [st EXCEPT !.pc = "parsing"]

\* does a meta element with these attributes carry a declaration that the "in head" rules act on while the
\* encoding is tentative (a known label; UTF-16 counts: it means UTF-8)
Declares(attrs, D) ==
    LET c == MetaCall([conf |-> "tentative"], attrs, D) IN
    c.call /\ GetEncoding(c.label) # "none" /\ ~(IsUtf16(GetEncoding(c.label)) /\ "latemeta-utf16-no-switch" \in D)

\* --- the property's clauses on one state / one step ---
\* a restart re-reads the bytes from offset 0 with the new decoder and an empty character layer, whatever the
\* abandoned pass had read (this is what makes the result the tree of the bytes in the reported encoding for
\* every entry point: parse, and parseFragment where leading characters are significant)
RestartIsFresh(st) == st.pc = "restart" => (~st.held /\ st.from = 0 /\ st.pos = 0 /\ st.with = st.enc)
CertainStable(st, st2) == st.conf = "certain" => (st2.enc = st.enc /\ st2.conf = "certain")
ReportedIsUsed(st) == st.with = st.enc
\* a declaration met while tentative: afterwards certain, and the decoder is the declared encoding (UTF-16 => UTF-8)
LateMetaEffect(st, label, st2) ==
    (st.conf = "tentative" /\ GetEncoding(label) # "none") =>
        LET e == IF IsUtf16(GetEncoding(label)) THEN "utf-8" ELSE GetEncoding(label) IN
        /\ st2.conf = "certain" /\ st2.enc = e /\ st2.with = e
        /\ (st2.pc = "restart") = (e # st.enc)
=============================================================================
