---------------------------- MODULE MC_UrlScheme ----------------------------
(* Every attribute value that is a concatenation of <= MaxLen fragments of the chosen         *)
(* alphabet, built fragment by fragment (every prefix is a state).                            *)
(* Theorems (invariants of every state):                                                      *)
(*   ThmInvariance  BrowserScheme is invariant under TAB/LF/CR inserted anywhere, leading and *)
(*                  trailing C0-control-or-space, and ASCII case;                             *)
(*   ThmNeverMisses whatever the code keeps is safe for the browser (scheme clause) - this    *)
(*                  must hold on the code-faithful configuration too;                         *)
(*   ThmDataType    whatever the code keeps is safe (data: content-type clause) - holds on    *)
(*                  the intended configuration (KnownDefects = {}) only;                      *)
(*   ThmExplained   every unsafe keep of the code-faithful model is safe in the intended one. *)
EXTENDS UrlScheme, TLC, Json
CONSTANTS MaxLen, Alphabet, Export, CheckProperty

F(s) == s
Wide == {
    <<106, 97, 118, 97>>, <<115, 99, 114, 105, 112, 116>>,                     \* java script
    <<74, 65, 86, 65, 83, 67, 82, 73, 80, 84>>,                                \* JAVASCRIPT
    <<100, 97, 116, 97>>, <<104, 116, 116, 112>>,                              \* data http
    <<58>>, <<9>>, <<10>>, <<13>>, <<32>>, <<1>>, <<65533>>, <<160>>,          \* : TAB LF CR SP U+0001 U+FFFD(NUL) NBSP
    <<37, 48, 97>>, <<47, 47>>,                                                \* %0a //
    <<116, 101, 120, 116, 47, 104, 116, 109, 108>>,                            \* text/html
    <<105, 109, 97, 103, 101, 47, 112, 110, 103>>,                             \* image/png
    <<59, 98, 97, 115, 101, 54, 52>>, <<44, 120>>, <<35>>,                     \* ;base64 ,x #
    <<96>>, <<8232>>, <<38, 108, 116, 59>>, <<63>>, <<59, 99, 104, 97, 114, 115, 101, 116, 61, 120>>   \* ` U+2028 &lt; ? ;charset=x
}
Narrow == { <<106, 97, 118, 97>>, <<115, 99, 114, 105, 112, 116>>, <<58>>, <<9>>, <<32>>, <<1>>, <<100, 97, 116, 97>>, <<120>> }
Data == { <<100, 97, 116, 97, 58>>, <<105, 109, 97, 103, 101, 47>>, <<112, 110, 103>>, <<112, 96, 110, 103>>,     \* data: image/ png p`ng
          <<116, 101, 120, 116, 47, 104, 116, 109, 108>>, <<44>>, <<59, 98, 97, 115, 101, 54, 52>>,              \* text/html , ;base64
          <<32>>, <<12>>, <<73, 77, 65, 71, 69, 47>>,                                                            \* SP FF IMAGE/
          <<59, 99, 104, 97, 114, 115, 101, 116, 61, 120>> }                                                    \* ;charset=x
Frags == CASE Alphabet = "wide" -> Wide [] Alphabet = "narrow" -> Narrow [] Alphabet = "data" -> Data

\* allow-list variants the verdict is computed for (1: data allowed; 2: no data: -> the double delete; 3: narrow types)
U_http == <<104, 116, 116, 112>>
U_png  == <<105, 109, 97, 103, 101, 47, 112, 110, 103>>
Prot(k) == IF k = 2 THEN {U_http} ELSE {U_http, U_data}
Ct(k)   == IF k = 3 THEN {U_png} ELSE {U_png, U_textplain}
Variants == {1, 2, 3}

VARIABLES v, n
Init == v = <<>> /\ n = 0
Next == n < MaxLen /\ \E f \in Frags : v' = v \o f /\ n' = n + 1

Insert(s, p, c) == SubSeq(s, 1, p - 1) \o <<c>> \o SubSeq(s, p, Len(s))
Upper(s) == [i \in 1..Len(s) |-> UpperC(s[i])]
ThmInvariance ==
    LET b == BrowserScheme(v) IN
    /\ \A p \in 1..(Len(v) + 1), c \in {9, 10, 13} : BrowserScheme(Insert(v, p, c)) = b
    /\ \A c \in {0, 1, 12, 31, 32} : BrowserScheme(<<c>> \o v) = b /\ BrowserScheme(v \o <<c>>) = b
    /\ (v # <<>> => BrowserScheme(Upper(v)) = b /\ BrowserScheme(Lower(v)) = b)
    /\ (b # None => Len(b) >= 1 /\ \A i \in 1..Len(b) : IsSchemeChar(b[i]) /\ ~IsUpper(b[i]))
Kept(k) == UriVerdict(v, Prot(k), Ct(k), KnownDefects) = "keep"
ThmNeverMisses == \A k \in Variants : Kept(k) => UriSchemeSafe(v, Prot(k))
ThmDataType    == CheckProperty => \A k \in Variants : Kept(k) => UriDataSafe(v, Ct(k))
ThmExplained   == \A k \in Variants : (Kept(k) /\ ~UriDataSafe(v, Ct(k))) => UriVerdict(v, Prot(k), Ct(k), {}) # "keep"
ThmExport == Export =>
    PrintT(ToJson([v |-> v, bs |-> BrowserScheme(v), alsodrop |-> UriMayAlsoDrop(v),
                   verdict |-> [k \in Variants |-> UriVerdict(v, Prot(k), Ct(k), KnownDefects)],
                   unsafe |-> {k \in Variants : Kept(k) /\ ~UriSafe(v, Prot(k), Ct(k))}]))
=============================================================================
