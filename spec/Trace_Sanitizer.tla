--------------------------- MODULE Trace_Sanitizer ---------------------------
(* Token streams recorded from the real sanitizer.Filter.  One trace = one allow-list         *)
(* configuration L (the lists of the Filter instance, projected on the names the cases        *)
(* mention) and a sequence of cases [inp, out, exc]; one transition per case.  Per case, token *)
(* by token: (1) the code's output must equal the code-faithful model (SanitizeTok with the    *)
(* configured KnownDefects; "drop" is also accepted where urlsplit may raise ValueError);      *)
(* (2) structure: disallowed tag -> one Characters token, comments vanish; (3) the OUTPUT is   *)
(* judged by the safety predicate.  An unsafe output token that the intended model             *)
(* (KnownDefects = {}) would not produce is a finding named by the deviations that fired;      *)
(* any other disagreement rejects.  Verdicts are total: every case of every trace is judged.   *)
EXTENDS Sanitizer, TLC, Json, IOUtils
Traces == JsonDeserialize(IOEnv.TRACE_FILE)
ToSet(s) == {s[i] : i \in 1..Len(s)}
\* compact encoding of the batch (JSON parsing dominates the run time): namespaces as one-element codes, absent
\* token fields have their default, an output token identical to input token i is written [same |-> i]
NsDec(x) == CASE x = <<-2>> -> NS_html [] x = <<-3>> -> NS_svg [] x = <<-4>> -> NS_mathml [] x = <<-5>> -> NS_xlink
              [] x = <<-6>> -> NS_xml [] x = <<-7>> -> NS_xmlns [] OTHER -> x
Has(x, f) == f \in DOMAIN x
ExpAttrs(a) == IF a = <<>> THEN <<>> ELSE [i \in 1..Len(a) |-> <<NsDec(a[i][1]), a[i][2], a[i][3]>>]
Exp(x) == [t |-> x.t, n |-> IF Has(x, "n") THEN x.n ELSE None, ns |-> IF Has(x, "ns") THEN NsDec(x.ns) ELSE None,
           a |-> IF Has(x, "a") THEN ExpAttrs(x.a) ELSE <<>>, d |-> IF Has(x, "d") THEN x.d ELSE <<>>,
           p |-> IF Has(x, "p") THEN x.p ELSE None, s |-> IF Has(x, "s") THEN x.s ELSE None]
InpOf(c) == IF c.inp = <<>> THEN <<>> ELSE [i \in 1..Len(c.inp) |-> Exp(c.inp[i])]
OutOf(c, inp) == IF c.out = <<>> THEN <<>>
                 ELSE [j \in 1..Len(c.out) |-> IF Has(c.out[j], "same") THEN inp[c.out[j].same] ELSE Exp(c.out[j])]
Pairs(s) == {<<NsDec(s[i][1]), s[i][2]>> : i \in 1..Len(s)}
Lof(r) == [el |-> Pairs(r.el), at |-> Pairs(r.at), uri |-> Pairs(r.uri), ref |-> Pairs(r.ref), loc |-> ToSet(r.loc),
           prot |-> ToSet(r.prot), ct |-> ToSet(r.ct), cp |-> ToSet(r.cp), ck |-> ToSet(r.ck), sp |-> ToSet(r.sp)]
VARIABLES tid, l, bad, verdict
vars == <<tid, l, bad, verdict>>

Res(v, i, cl, f) == [v |-> v, i |-> i, cl |-> cl, f |-> f]
Fired(tok, L) == {d \in KnownDefects : SanitizeTok(tok, L, KnownDefects \ {d}) # SanitizeTok(tok, L, KnownDefects)}
JudgeCase(c, L) ==
    LET inp == InpOf(c)
        out == OutOf(c, inp)
        RECURSIVE W(_, _, _)
        W(i, o, f) ==
            IF i > Len(inp)
            THEN IF c.exc THEN Res("reject:code-raised", i, {}, f)
                 ELSE IF o # Len(out) + 1 THEN Res("reject:extra-output", i, {}, f)
                 ELSE Res(IF f = {} THEN "accept" ELSE "finding", i, {}, f)
            ELSE LET r0 == SanitizeTok(inp[i], L, KnownDefects)
                     \* the model raises, the code did not (here): urlsplit may have raised ValueError first (attribute deleted)
                     r == IF r0.r = "raise" /\ ~(c.exc /\ o = Len(out) + 1) THEN SanitizeTokV(inp[i], L, KnownDefects, TRUE) ELSE r0
                 IN
                 IF r.r = "raise" THEN Res(IF c.exc /\ o = Len(out) + 1 THEN (IF f = {} THEN "accept" ELSE "finding") ELSE "reject:model-raises", i, {}, f)
                 ELSE IF r.r = "none" THEN W(i + 1, o, f)
                 ELSE IF o > Len(out) THEN Res("reject:missing-output", i, {}, f)
                 ELSE IF ~AgreesTok(inp[i], r.tok, out[o], L) THEN Res("reject:step", i, {}, f)
                 ELSE IF ~InertImage(inp[i], out[o], L) THEN Res("reject:inert", i, {}, f)
                 ELSE LET cl == TokClauses(out[o], L) IN
                      IF cl = {} THEN W(i + 1, o + 1, f)
                      ELSE LET fr == Fired(inp[i], L) IN
                           IF fr # {} /\ SafeTok(SanitizeTok(inp[i], L, {}).tok, L) THEN W(i + 1, o + 1, f \cup fr)
                           ELSE Res("reject:property", i, cl, f)
    IN W(1, 1, {})

Init == tid \in 1..Len(Traces) /\ l = 1 /\ bad = <<>> /\ verdict = "run"
Step == /\ verdict = "run"
        /\ LET tr == Traces[tid] IN
           IF l > Len(tr.cases) THEN verdict' = (IF bad = <<>> THEN "accept" ELSE "issues") /\ UNCHANGED <<tid, l, bad>>
           ELSE LET r == JudgeCase(tr.cases[l], Lof(tr.L)) IN
                /\ bad' = IF r.v = "accept" THEN bad ELSE Append(bad, [c |-> l, r |-> r])
                /\ l' = l + 1 /\ UNCHANGED <<tid, verdict>>
Done == verdict # "run" /\ UNCHANGED vars
Next == Step \/ Done
Report == verdict # "run" => PrintT(ToJson([tid |-> tid, l |-> l, v |-> verdict, f |-> bad]))
=============================================================================
