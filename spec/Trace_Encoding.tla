--------------------------- MODULE Trace_Encoding --------------------------
(* Traces recorded from the real code.  Two kinds of trace:                                    *)
(*  k = "parse":  one HTMLParser.parse(bytes, **kwargs) or parseFragment(bytes, container, **kwargs) *)
(*     call (ep = "parse" | "fragment", container): the same stream, hooks and clauses apply to   *)
(*     both entry points; in a fragment the very first characters are significant.                *)
(*     data   first bytes of the input (at least the prescan window)                           *)
(*     src    how the bytes were handed over: "bytes", "bytesio" or "pipe" (read() only)        *)
(*     raised the stream constructor and parse() raised AssertionError (then nothing else)      *)
(*     kw     [o, t, p, l, d]: the five *_encoding arguments as code points, or None;          *)
(*            det = [on, label]: the optional detector (a stand-in chardet module the harness    *)
(*            injects) was consulted, and the encoding name of its verdict (or None)             *)
(*     e0,c0,skip0   charEncoding and raw-stream position of a freshly built                    *)
(*                   HTMLBinaryInputStream (= before the first character is decoded)            *)
(*     ev     one record per meta start tag that reached InHeadPhase.startTagMeta, in order     *)
(*            (both passes): attributes cs/he/ct, charEncoding before (be,bc) and after (ae,ac), *)
(*            calls = arguments of the changeEncoding calls it made, r = it restarted the parse, *)
(*            hb/ha = the stream held back a chunk-final character before / after the event      *)
(*     e,c    documentEncoding / confidence when parse() returned;  ds = the live decoder       *)
(*            object belongs to that encoding;  restarts = number of restarts                   *)
(*     tf     tree = tree of parse(stream-decoded bytes[from:], e), from = where the model says  *)
(*            the decoder starts (harness: skip0, or 0 after a restart)                          *)
(*     tp     tree = tree of parse(bytes decoded as e after stripping a standard BOM) and e is   *)
(*            the BOM's encoding if there is one   (the property's clause)                       *)
(*     tm     the HTML meta elements of the RETURNED TREE in document order (attributes cs/he/ct), *)
(*            projected from the etree by the harness - independent of the hook behind ev         *)
(*  k = "extract": one ContentAttrParser(EncodingBytes(v)).parse() call: v, out.                *)
(* Every trace gets exactly one verdict.  The code must equal the code-faithful model           *)
(* (KnownDefects) at every step: the initial determination, then one MetaTag step per recorded  *)
(* event (same operators as MC_Encoding), then the final observation.  Where the intended model *)
(* ({}) differs from the code-faithful one at a step, the deviations responsible are collected  *)
(* (fk) and the verdict is "finding".                                                           *)
(* The whole run of a trace is evaluated by the state predicate Report (TLC memoises LET        *)
(* definitions in state predicates but not in actions, which matters for 1024-byte windows);    *)
(* the behaviour of the spec is just: pick a trace, judge it, stop.                             *)
EXTENDS Encoding, TLC, Json, IOUtils
CONSTANT KnownDefects
Traces == JsonDeserialize(IOEnv.TRACE_FILE)
VARIABLES tid, done
vars == <<tid, done>>
D == KnownDefects

\* which of the listed deviations in Cand explain that F(D) # F({}): those whose removal alone changes the
\* code-faithful result, else those that alone change the intended result
Attrib(F(_), Cand) ==
    LET base == F(D)
        one == {d \in Cand : F(D \ {d}) # base}
    IN  IF one # {} THEN one ELSE LET zero == F({}) IN {d \in Cand : F({d}) # zero}
LateCand == D \cap {"latemeta-utf16-no-switch", "prescan-content-semicolon", "prescan-charset-retry"}

Obs(s) == [enc |-> s.enc, conf |-> s.conf, from |-> s.from]
InitOf(tr, DD) == Determine(Sources(tr.data, tr.kw, DD), DD)
R(l, v, st, fk) == [l |-> l, v |-> v, st |-> st, fk |-> fk]

\* step 0: the initial determination
StepInit(tr) ==
    LET f == InitOf(tr, D)
        fi == InitOf(tr, {})
        skip == IF Len(tr.data) < f.from THEN Len(tr.data) ELSE f.from
        OI(DD) == Obs(InitOf(tr, DD))
    IN  IF tr.raised \/ BomSeekFails(tr.data, tr.src, D)
        THEN (IF tr.raised /\ BomSeekFails(tr.data, tr.src, D) THEN R(0, "finding", f, {"bom-seek-past-end"})
              ELSE R(0, "reject:raised", f, {}))
        ELSE IF tr.e0 # f.enc \/ tr.c0 # f.conf THEN R(0, "reject:init-encoding", f, {})
        ELSE IF tr.skip0 # skip THEN R(0, "reject:init-position", f, {})
        ELSE R(1, "run", f,
               IF Obs(fi) = Obs(f) THEN {}
               ELSE IF BomStep(DetectBom(tr.data, D), D) # BomStep(DetectBom(tr.data, {}), {}) THEN {"bom-utf32-shadows-utf16"}
               ELSE Attrib(OI, D \cap PrescanDefects))

\* step l (1..Len(ev)): one meta start tag in the "in head" rules
StepEvent(tr, r) ==
    LET ev == tr.ev[r.l]
        attrs == [cs |-> ev.cs, he |-> ev.he, ct |-> ev.ct]
        sr == IF r.st.pc = "restart" THEN Restarted(r.st) ELSE r.st
        s0 == ChunkRead(sr, ev.hb)          \* chunk reads between two metas are inputs of the trace
        call == MetaCall(s0, attrs, D)
        s2 == MetaTag(s0, attrs, D)
        Eff(DD) == LET x == MetaTag(s0, attrs, DD) IN <<x.enc, x.conf, x.pc>>
    IN  IF ev.be # s0.enc \/ ev.bc # s0.conf THEN R(r.l, "reject:event-before", r.st, r.fk)
        ELSE IF ev.calls # (IF call.call THEN <<call.label>> ELSE <<>>) THEN R(r.l, "reject:event-call", r.st, r.fk)
        ELSE IF ev.ae # s2.enc \/ ev.ac # s2.conf \/ ev.r # (s2.pc = "restart") THEN R(r.l, "reject:event-after", r.st, r.fk)
        ELSE IF ev.ha # s2.held THEN R(r.l, "reject:event-held-character", r.st, r.fk)   \* a restart leaves nothing held back
        ELSE IF ~CertainStable(s0, [enc |-> ev.ae, conf |-> ev.ac]) THEN R(r.l, "reject:certain-changed", r.st, r.fk)
        ELSE R(r.l + 1, "run", s2, IF Eff({}) = Eff(D) THEN r.fk ELSE r.fk \cup Attrib(Eff, LateCand))

\* --- independent clause: the result tree against the recorded events ---
\* Every meta element of the result tree was inserted by the "in head" meta rule, i.e. it is one of the metas
\* met in the final pass (as a bag: foster parenting can reorder, and a body replaced by a frameset takes its
\* metas with it, so the tree may hold fewer).  And a parse that ends tentative has no declaring meta in its tree.
LastRestart(ev) == IF \E i \in 1..Len(ev) : ev[i].r THEN CHOOSE i \in 1..Len(ev) : ev[i].r /\ \A j \in (i + 1)..Len(ev) : ~ev[j].r ELSE 0
FinalMet(ev) == LET lr == LastRestart(ev) IN [i \in 1..(Len(ev) - lr) |-> [cs |-> ev[lr + i].cs, he |-> ev[lr + i].he, ct |-> ev[lr + i].ct]]
Count(seq, x) == Cardinality({i \in 1..Len(seq) : seq[i] = x})
TreeMetasMet(tr) == LET fm == FinalMet(tr.ev) IN \A i \in 1..Len(tr.tm) : Count(tr.tm, tr.tm[i]) <= Count(fm, tr.tm[i])
TentativeHasNoDeclaration(tr) == tr.c = "tentative" => \A i \in 1..Len(tr.tm) : ~Declares(tr.tm[i], D)

\* last step: what parse() returned
StepFinal(tr, r) ==
    LET bomdev == BomStep(DetectBom(tr.data, D), D) # BomStep(DetectBom(tr.data, {}), {})
        sf == IF r.st.pc = "restart" THEN Restarted(r.st) ELSE r.st        \* pass 2 may meet no meta at all
        v == IF tr.e # sf.enc \/ tr.c # sf.conf THEN "reject:final-encoding"
             ELSE IF tr.restarts # sf.restarts THEN "reject:restarts"
             ELSE IF tr.from # sf.from THEN "reject:final-position"
             ELSE IF ~tr.ds THEN "reject:decoder-is-not-the-reported-encoding"
             ELSE IF ~tr.tf THEN "reject:tree"
             ELSE IF ~TreeMetasMet(tr) THEN "reject:tree-meta-not-met-by-in-head-rules"
             ELSE IF ~TentativeHasNoDeclaration(tr) THEN "reject:tentative-but-tree-has-declaring-meta"
             ELSE IF ~tr.tp /\ ~("bom-utf32-shadows-utf16" \in D /\ bomdev) THEN "reject:tree-property"
             ELSE IF ~tr.tp THEN "finding"
             ELSE IF r.fk # {} THEN "finding" ELSE "accept"
    IN  R(r.l, v, sf, IF v = "finding" /\ r.fk = {} THEN {"bom-utf32-shadows-utf16"} ELSE r.fk)

RECURSIVE RunFrom(_, _)
RunFrom(tr, r) == IF r.v # "run" THEN r
                  ELSE IF r.l <= Len(tr.ev) THEN RunFrom(tr, StepEvent(tr, r))
                  ELSE StepFinal(tr, r)

JudgeExtract(tr) ==
    LET f == Extract(tr.v, D)
        E(DD) == Extract(tr.v, DD)
    IN  IF tr.out # f THEN R(1, "reject:extract", EncInit, {})
        ELSE IF Extract(tr.v, {}) # f THEN R(1, "finding", EncInit, Attrib(E, LateCand))
        ELSE R(1, "accept", EncInit, {})

Judge(tr) == IF tr.k = "extract" THEN JudgeExtract(tr) ELSE RunFrom(tr, StepInit(tr))

Init == tid \in 1..Len(Traces) /\ done = FALSE
Step == ~done /\ done' = TRUE /\ UNCHANGED tid
Done == done /\ UNCHANGED vars
Next == Step \/ Done
Report == done => LET j == Judge(Traces[tid]) IN PrintT(ToJson([tid |-> tid, l |-> j.l, v |-> j.v, keys |-> j.fk]))
=============================================================================
