---------------------------- MODULE Trace_TreeStore ----------------------------
(* C04, code -> spec.  Primitive-call traces recorded from the REAL builder node classes        *)
(* (call-through wrappers installed by harness/treestore.py) during real parses:                *)
(*   [b ("E" etree | "D" dom), frag, ev : Seq(event), tree : projection of the returned result] *)
(* event = the call (op, s, c, r, d, k, ns, n, a, p, q; arguments as node ids) + what the harness *)
(* observed on the real nodes right after it: row (content of the receiver: child ids and text   *)
(* runs), row2 (content of the target of reparentChildren), at (attributes of the touched node), *)
(* par (wrapper .parent of argument c), hc (result of hasContent), exc (exception class or "").  *)
(* One transition per event steps the builder's representation model X (EtreeStore / DomStore)   *)
(* and the abstract TreeOps store A with the same call and judges                                *)
(*   step-*    the real nodes equal the representation model (code = code-faithful model)        *)
(*   refine-*  the representation equals the abstract store (the refinement, i.e. the property)  *)
(* and at the end AbsX(root) = AbsA(root) = the recorded projection.  Verdicts are total.        *)
(* pat collects the call patterns that fall outside the discipline MC_TreeStore assumes.         *)
EXTENDS TreeStore, TLC, Json, IOUtils
Traces == JsonDeserialize(IOEnv.TRACE_FILE)
VARIABLES tid, l, A, X, found, pat, verdict
vars == <<tid, l, A, X, found, pat, verdict>>

ToCall(ev) == [op |-> ev.op, s |-> ev.s, c |-> ev.c, r |-> ev.r, d |-> ev.d, k |-> ev.k, ns |-> ev.ns, n |-> ev.n, a |-> ev.a,
               p |-> ev.p, q |-> ev.q]
Init == /\ tid \in 1..Len(Traces) /\ l = 1 /\ A = AInit /\ X = InitOf(Traces[tid].b)
        /\ found = {} /\ pat = {} /\ verdict = "run"

RECURSIVE StripAttrs(_), StripAll(_)
StripAttrs(t) == [t EXCEPT !.a = <<>>, !.c = StripAll(t.c), !.n = IF t.k = "doctype" THEN <<>> ELSE @]
StripAll(ts) == IF ts = <<>> THEN <<>> ELSE <<StripAttrs(ts[1])>> \o StripAll(Tail(ts))
Collision == "dom-colon-attr-collision"
DoctypeColon == "dom-doctype-name-colon"
FindingOf(f) == "finding:" \o (IF Collision \in f THEN Collision ELSE DoctypeColon)

\* patterns outside the modelled discipline (reported, not rejected: the step checks do not depend on them)
Patterns(w, ev) ==
    (IF ev.op = "reparent" /\ (RowOf(w, X, ev.c) # <<>> \/ ParOf(w, X, ev.c) # 0) THEN {"reparent-into-used-node"} ELSE {})
    \cup (IF ev.op = "text" /\ ev.d = <<>> THEN {"empty-text"} ELSE {})
    \cup (IF ev.op \in {"append", "before"} /\ w = "E" /\ EPar(X, ev.c) # 0 THEN {"etree-insert-of-attached-node"} ELSE {})
    \cup (IF ev.op = "remove" /\ APar(A, ev.c) # ev.s THEN {"remove-of-non-child"} ELSE {})

Final(tr, w) ==
    LET frag == IF tr.frag THEN Len(X.nd) ELSE 1                      \* getFragment creates the fragment node last
        ax == AbsOf(w, X, frag).c
        aa == AbsA(A, frag).c
    IN IF tr.frag /\ X.nd[Len(X.nd)].k # "frag" THEN "reject:no-fragment-node"
       ELSE IF ax # tr.tree THEN "reject:final-model"
       ELSE IF aa = tr.tree THEN (IF found # {} THEN FindingOf(found) ELSE IF pat = {} THEN "accept" ELSE "accept-with-patterns")
       ELSE IF found # {} /\ StripAll(aa) = StripAll(tr.tree) THEN FindingOf(found)
       ELSE "reject:final-refine"

Step ==
    /\ verdict = "run"
    /\ LET tr == Traces[tid]  w == tr.b IN
       IF l > Len(tr.ev) THEN verdict' = Final(tr, w) /\ UNCHANGED <<tid, l, A, X, found, pat>>
       ELSE LET ev == tr.ev[l]
                c  == ToCall(ev)
                X1 == Prim(w, X, c)
                A1 == APrim(A, c)
                node == IF ev.op \in {"new", "clone"} THEN ev.c ELSE ev.s
                bad == \* first failing clause, "" if none
                    IF ev.op \in {"new", "clone"} /\ ev.c # Len(X.nd) + 1 THEN "reject:ids"
                    ELSE IF X1.exc # ev.exc THEN "reject:step-exception"
                    ELSE IF ev.exc # "" THEN ""
                    ELSE IF RowOf(w, X1, node) # ev.row THEN "reject:step-row"
                    ELSE IF ev.op = "reparent" /\ RowOf(w, X1, ev.c) # ev.row2 THEN "reject:step-row2"
                    ELSE IF AttrsOf(w, X1, node) # ev.at THEN "reject:step-attrs"
                    ELSE IF ev.c # 0 /\ ParOf(w, X1, ev.c) # ev.par THEN "reject:step-parent"
                    ELSE IF ev.op = "hasContent" /\ HasContentOf(w, X1, node) # ev.hc THEN "reject:step-hasContent"
                    ELSE IF ARow(A1, node) # ev.row THEN "reject:refine-row"
                    ELSE IF ev.op = "reparent" /\ ARow(A1, ev.c) # ev.row2 THEN "reject:refine-row2"
                    ELSE IF ev.op = "hasContent" /\ AHasContent(A1, node) # ev.hc THEN "reject:refine-hasContent"
                    ELSE IF w = "E" /\ ev.c # 0 /\ APar(A1, ev.c) # ev.par THEN "reject:refine-parent"
                    ELSE IF AAttrs(A1, node) # ev.at /\ ~(w = "D" /\ Collision \in KnownDefects) THEN "reject:refine-attrs"
                    ELSE ""
            IN IF bad # "" THEN verdict' = bad /\ UNCHANGED <<tid, l, A, X, found, pat>>
               ELSE IF ev.exc # "" THEN verdict' = "accept-exception" /\ X' = X1 /\ A' = A1 /\ UNCHANGED <<tid, l, found, pat>>
               ELSE /\ l' = l + 1 /\ X' = X1 /\ A' = A1
                    /\ found' = found \cup (IF AAttrs(A1, node) # ev.at THEN {Collision} ELSE {})
                                      \cup (IF w = "D" /\ ev.op = "new" /\ ev.k = "doctype" /\ DoctypeName(ev.n) # ev.n THEN {DoctypeColon} ELSE {})
                    /\ pat' = pat \cup Patterns(w, ev)
                    /\ UNCHANGED <<tid, verdict>>
Done == verdict # "run" /\ UNCHANGED vars
Next == Step \/ Done
Report == verdict # "run" => PrintT(ToJson([tid |-> tid, l |-> l, v |-> verdict, p |-> pat, f |-> found]))
=============================================================================
