---------------------------- MODULE Trace_Skeleton ----------------------------
(* C03: result trees recorded from the real parser on ARBITRARY inputs (the specification    *)
(* does not re-parse them): each recorded document must have the skeleton the property        *)
(* states, each recorded fragment must be a well-formed forest.                               *)
EXTENDS TreeConstruction, TLC, Json, IOUtils
Traces == JsonDeserialize(IOEnv.TRACE_FILE)
VARIABLES tid, verdict
vars == <<tid, verdict>>
RECURSIVE NodeOK(_)
NodeOK(x) == /\ x.k \in {"elem", "text", "comment", "doctype"}
             /\ (x.k = "elem" => x.n # <<>> /\ x.ns \in {"html", "svg", "math"} /\ \A i \in 1..Len(x.c) : NodeOK(x.c[i]))
             /\ (x.k # "elem" => x.c = <<>>)
             /\ (x.k = "text" => x.d # <<>>)
Judge(tr) ==
    IF tr.doc
    THEN IF ~(\A i \in 1..Len(tr.tree.c) : NodeOK(tr.tree.c[i])) THEN "reject:node"
         ELSE IF ~SkeletonRelaxed(tr.tree) THEN "reject:skeleton"
         ELSE IF ~Skeleton(tr.tree) THEN "finding:skel-noframes-after-frameset"
         ELSE "accept"
    ELSE IF \A i \in 1..Len(tr.tree) : NodeOK(tr.tree[i]) /\ tr.tree[i].k # "doctype" THEN "accept" ELSE "reject:node"
Init == tid \in 1..Len(Traces) /\ verdict = "run"
Step == verdict = "run" /\ verdict' = Judge(Traces[tid]) /\ UNCHANGED tid
Done == verdict # "run" /\ UNCHANGED vars
Next == Step \/ Done
Report == verdict # "run" => PrintT(ToJson([tid |-> tid, l |-> 0, v |-> verdict]))
=============================================================================
