----------------------------- MODULE MC_Schedule -----------------------------
(* Every interleaving of the two parsers' steps; each complete schedule is exported and then        *)
(* enforced on two real threads (a baton handed over inside the sources' read()).                   *)
EXTENDS Schedule, Json
CONSTANT Export
ThmExport == (Export /\ Finished) =>
    PrintT(ToJson([sched |-> sched, calls |-> <<call[1], call[2]>>,
                   res |-> <<Res(ps[1], out[1]), Res(ps[2], out[2])>>]))
=============================================================================
