------------------------------ MODULE Trace_Walker ------------------------------
(* C11, code -> spec.  One trace = one walk of a real tree by a real walker whose navigation is *)
(* the tree's own pointers (the DOM walker), recorded as                                        *)
(*   [sub    : harness/proj.py projection of the walked subtree (flat form), text segmentation kept, *)
(*    stream : tokens the walker emitted,   lint : did the real lint.Filter accept them,        *)
(*    other, hasOther : the other walker's stream for the same document and starting node       *)
(*                      (only when both builders built the same tree)]                          *)
(* Verdict (total):                                                                             *)
(*   reject:stream      the stream differs from Walk(sub, KnownDefects) (l = first differing token)*)
(*   reject:lint-model  the real Lint verdict differs from LintOK                               *)
(*   reject:concat      treewalkers.concatenateCharacterTokens(stream) (field concat) differs   *)
(*                      from Concat(stream)                                                     *)
(*   accept             the property holds on the recorded stream                               *)
(*   accept:nonparsed   not a parser shape (a void element with children): only exactness judged *)
(*   finding            the property fails (c = clause), the intended model would satisfy it,   *)
(*                      and the listed deviations f separate the two                            *)
(*   reject:property    the property fails and no listed deviation explains it                  *)
EXTENDS Walker, TLC, Json, IOUtils
Traces == JsonDeserialize(IOEnv.TRACE_FILE)
VARIABLES tid, l, verdict, c, f
vars == <<tid, l, verdict, c, f>>

Init == tid \in 1..Len(Traces) /\ l = 0 /\ verdict = "run" /\ c = "-" /\ f = {}
Judge ==
    /\ verdict = "run"
    /\ LET tr   == Traces[tid]
           sub  == Unflat(tr.sub, 1)
           ref  == Walk(sub, KnownDefects)
           good == Walk(sub, {})
       IN IF tr.stream # ref
          THEN verdict' = "reject:stream" /\ l' = FirstDiff(tr.stream, ref) /\ UNCHANGED <<c, f>>
          ELSE IF tr.lint # LintOK(tr.stream, KnownDefects)
          THEN verdict' = "reject:lint-model" /\ l' = Len(tr.stream) /\ UNCHANGED <<c, f>>
          ELSE IF tr.concat # Concat(tr.stream)
          THEN verdict' = "reject:concat" /\ l' = FirstDiff(tr.concat, Concat(tr.stream)) /\ UNCHANGED <<c, f>>
          ELSE IF ~ParsedShape(sub)
          THEN verdict' = "accept:nonparsed" /\ l' = Len(tr.stream) /\ UNCHANGED <<c, f>>
          ELSE LET cl == PropertyClause(tr.stream, sub, tr.lint, tr.other, tr.hasOther) IN
               /\ l' = Len(tr.stream) /\ c' = cl
               /\ IF cl = "ok" THEN verdict' = "accept" /\ f' = {}
                  ELSE IF FiredOn(sub, KnownDefects) # {}
                          /\ PropertyClause(good, sub, LintOK(good, {}), <<>>, FALSE) = "ok"
                  THEN verdict' = "finding" /\ f' = FiredOn(sub, KnownDefects)
                  ELSE verdict' = "reject:property" /\ f' = {}
    /\ UNCHANGED tid
Done == verdict # "run" /\ UNCHANGED vars
Next == Judge \/ Done
Report == verdict # "run" => PrintT(ToJson([tid |-> tid, l |-> l, v |-> verdict, c |-> c, f |-> f]))
=============================================================================
