---------------------------- MODULE MC_Encoding ----------------------------
(* Bounded-exhaustive exploration of the encoding lifecycle over ABSTRACT inputs: a BOM kind, *)
(* the five *_encoding arguments as label ids, and a document that is a sequence of meta       *)
(* declarations (label id + form) of which the first nwin lie in the prescan window.           *)
(* Mode "lazy":    an input is chosen at the moment the implementation consults it (every       *)
(*                 prefix of the decision chain is a state; never-consulted arguments stay      *)
(*                 "unset" and are filled with arbitrary labels by the harness);                *)
(* Mode "product": the complete vector (BOM x 5 arguments x in-window declaration) is chosen    *)
(*                 up front: the full finite product.                                           *)
(* Label ids stand for the concrete labels of Conc (resolved through the real label table).    *)
EXTENDS Encoding, TLC, Json
CONSTANTS KnownDefects, Mode, Labels, Detectors, DeclLabels, Forms, BomKinds, MaxWin, MaxDecl, Edge, Export, CheckProperty

D == KnownDefects
Conc(l) == CASE l = "A" -> <<107, 111, 105, 56, 45, 114>>                     \* koi8-r
             [] l = "B" -> <<105, 115, 111, 45, 56, 56, 53, 57, 45, 50>>      \* iso-8859-2
             [] l = "utf8" -> <<117, 116, 102, 45, 56>>
             [] l = "w1252" -> <<119, 105, 110, 100, 111, 119, 115, 45, 49, 50, 53, 50>>
             [] l = "utf16" -> <<117, 116, 102, 45, 49, 54>>                  \* utf-16 (= utf-16le)
             [] l = "utf16be" -> <<117, 116, 102, 45, 49, 54, 98, 101>>
             [] l = "xud" -> <<120, 45, 117, 115, 101, 114, 45, 100, 101, 102, 105, 110, 101, 100>>
             [] l = "bogus" -> <<98, 111, 103, 117, 115>>
             [] l = "empty" -> <<>>
             [] OTHER -> None                                                 \* "none" (argument absent) / "unset"
ArgNames == {"o", "t", "p", "l", "d"}       \* the five *_encoding arguments; args.c = the detector's verdict ("off" or a label id)
S_ContentType == <<67, 111, 110, 116, 101, 110, 116, 45, 84, 121, 112, 101>>                 \* Content-Type
S_prefix == <<116, 101, 120, 116, 47, 104, 116, 109, 108, 59, 32, 99, 104, 97, 114, 115, 101, 116, 61>>   \* text/html; charset=
\* a declaration = [l: label id, f: form]; forms: charset attribute, http-equiv pragma, content= without http-equiv
AttrsOf(d) == CASE d.f = "charset"  -> [cs |-> Conc(d.l), he |-> None, ct |-> None]
                [] d.f = "pragma"   -> [cs |-> None, he |-> S_ContentType, ct |-> S_prefix \o Conc(d.l)]
                [] d.f = "nopragma" -> [cs |-> None, he |-> None, ct |-> S_prefix \o Conc(d.l)]
DeclEnc(d) == IF d.f = "nopragma" THEN "none" ELSE GetEncoding(Conc(d.l))
Decls == [l : DeclLabels, f : Forms]
\* prescan of well-formed declarations: the first one in the window that names an encoding
AbsPrescan(ds, n, DD) ==
    IF \E k \in 1..n : DeclEnc(ds[k]) # "none"
    THEN MapMeta(DeclEnc(ds[CHOOSE k \in 1..n : DeclEnc(ds[k]) # "none" /\ \A j \in 1..(k - 1) : DeclEnc(ds[j]) = "none"]), DD)
    ELSE "none"

\* edge: the document is such that the first chunk of each pass ends in a character that is held back (Edge: the
\* values explored; the harness builds a document with a CR at the real chunk boundary of the implementation)
VARIABLES bomk, args, decls, nwin, st, i, init, log, edge
vars == <<bomk, args, decls, nwin, st, i, init, log, edge>>

Src(b, a, ds, n, DD) ==
    [bom |-> [bom |-> IF b = "unset" THEN "none" ELSE b, seek |-> BomLen(b)],
     override |-> GetEncoding(Conc(a.o)), transport |-> GetEncoding(Conc(a.t)), parent |-> GetEncoding(Conc(a.p)),
     likely |-> GetEncoding(Conc(a.l)), default |-> GetEncoding(Conc(a.d)),
     detector |-> IF a.c \in {"off", "unset"} THEN "off" ELSE GetEncoding(Conc(a.c)),
     abs |-> TRUE, meta0 |-> AbsPrescan(ds, IF n < 0 THEN 0 ELSE n, DD)]

Unset == [a \in ArgNames \cup {"c"} |-> "unset"]
WinSeqs == UNION {[1..k -> Decls] : k \in 0..MaxWin}
Init ==
    /\ st = EncInit /\ i = 0 /\ init = EncInit /\ log = <<>> /\ edge \in Edge
    /\ IF Mode = "product"
       THEN /\ bomk \in BomKinds /\ \E a \in [ArgNames -> Labels], c \in Detectors : args = (a @@ ("c" :> c))
            /\ decls \in WinSeqs /\ nwin = Len(decls)
       ELSE bomk = "unset" /\ args = Unset /\ decls = <<>> /\ nwin = -1

ArgOf(pc) == CASE pc = "override" -> "o" [] pc = "transport" -> "t" [] pc = "parent" -> "p" [] pc = "likely" -> "l" [] pc = "default" -> "d" [] pc = "detect" -> "c"
Chain1(b2, a2, ds2, n2) ==
    LET s2 == EncStep(st, Src(b2, a2, ds2, n2, D), D) IN
    /\ bomk' = b2 /\ args' = a2 /\ decls' = ds2 /\ nwin' = n2 /\ st' = s2
    /\ init' = IF s2.pc = "parsing" THEN s2 ELSE init
    /\ UNCHANGED <<i, log, edge>>
StepChain ==
    \/ st.pc = "bom" /\ \E b \in (IF Mode = "product" THEN {bomk} ELSE BomKinds) : Chain1(b, args, decls, nwin)
    \/ st.pc \in {"override", "transport", "parent", "likely", "default", "detect"} /\
       \E l \in (IF Mode = "product" THEN {args[ArgOf(st.pc)]} ELSE IF st.pc = "detect" THEN Detectors ELSE Labels) :
           Chain1(bomk, [args EXCEPT ![ArgOf(st.pc)] = l], decls, nwin)
    \/ st.pc = "meta" /\ \E ds \in (IF Mode = "product" THEN {decls} ELSE WinSeqs) : Chain1(bomk, args, ds, Len(ds))
    \/ st.pc \in {"fallback", "ready"} /\ Chain1(bomk, args, decls, nwin)
\* the tree builder meets the next meta start tag (every declaration of the document, in order, in each pass)
Meet(ds2) ==
    LET d == ds2[i + 1]
        s2 == MetaTag(st, AttrsOf(d), D)
    IN  /\ decls' = ds2 /\ st' = s2 /\ i' = i + 1
        /\ log' = Append(log, [be |-> st.enc, bc |-> st.conf, d |-> d, e |-> s2.enc, c |-> s2.conf, r |-> s2.pc = "restart",
                                hb |-> st.held, ha |-> s2.held])
        /\ UNCHANGED <<bomk, args, nwin, init, edge>>
\* the first chunk of a pass is read before the first token
StepChunk == st.pc = "parsing" /\ i = 0 /\ st.held # edge /\ st' = ChunkRead(st, edge)
             /\ UNCHANGED <<bomk, args, decls, nwin, i, init, log, edge>>
StepParse ==
    /\ st.pc = "parsing" /\ (i = 0 => st.held = edge)
    /\ \/ i < Len(decls) /\ Meet(decls)
       \/ /\ Mode = "lazy" /\ i = Len(decls) /\ st.restarts = 0
          /\ Len(decls) < (IF init.conf = "certain" THEN 1 ELSE MaxDecl)      \* one declaration is enough to see that certain ignores it
          /\ \E d \in Decls : Meet(Append(decls, d))
       \/ i = Len(decls) /\ st' = [st EXCEPT !.pc = "done"] /\ UNCHANGED <<bomk, args, decls, nwin, i, init, log, edge>>
StepRestart == st.pc = "restart" /\ st' = Restarted(st) /\ i' = 0 /\ UNCHANGED <<bomk, args, decls, nwin, init, log, edge>>
Next == StepChain \/ StepChunk \/ StepParse \/ StepRestart
Spec == Init /\ [][Next]_vars

-----------------------------------------------------------------------------
\* theorems (checked on the intended configuration, KnownDefects = {})
SrcNow == Src(bomk, args, decls, nwin, {})
Determined == st.pc \in {"parsing", "restart", "done"}
\* 1. the first applicable source of the documented order wins, with the documented confidence,
\*    and the decoder starts right after the byte-order mark
ThmPrecedence == (CheckProperty /\ Determined) =>
    /\ init.enc = FirstApplicable(SrcNow).e /\ init.conf = FirstApplicable(SrcNow).c
    /\ init.from = IntendedFrom(SrcNow) /\ init.with = init.enc
\* 2. documentEncoding (= enc) is the encoding the current decoder was created with; after a restart the
\*    decoder starts at byte 0 (there is no BOM then)
ThmReported == (CheckProperty /\ Determined) => (ReportedIsUsed(st) /\ st.from = IntendedFrom(SrcNow))
\* 3. a declaration met while tentative makes the encoding certain and restarts exactly when it differs
ThmLateMeta == (CheckProperty /\ log # <<>>) =>
    LET ev == log[Len(log)]
        b == [enc |-> ev.be, conf |-> ev.bc]
        lab == IF ev.d.f = "nopragma" THEN None ELSE Conc(ev.d.l)
    IN  LateMetaEffect(b, lab, [enc |-> ev.e, conf |-> ev.c, with |-> ev.e, pc |-> IF ev.r THEN "restart" ELSE "parsing"])
        /\ ((ev.bc = "tentative" /\ GetEncoding(lab) = "none") => (ev.e = ev.be /\ ev.c = "tentative" /\ ~ev.r))
ThmRestartOnce == st.restarts <= 1 /\ (st.restarts = 1 => st.conf = "certain")
\* 3a. the restarted pass starts from byte 0 with nothing carried over from the abandoned pass
ThmRestartFresh == RestartIsFresh(st)
\* 3b. every declaration of the document is met during tree construction, so a parse that ends with a tentative
\*     encoding has met no declaration that names an encoding (UTF-16 counts)
ThmNoDeclLeft == (CheckProperty /\ st.pc = "done" /\ st.conf = "tentative") =>
    \A k \in 1..Len(decls) : ~Declares(AttrsOf(decls[k]), {})
\* 4. a certain encoding is never changed by document content (action property)
ThmCertainStable == [][CertainStable(st, st')]_vars
ThmExport == (Export /\ st.pc = "done") =>
    PrintT(ToJson([bom |-> bomk, args |-> args, decls |-> decls, nwin |-> nwin,
                   e0 |-> init.enc, c0 |-> init.conf, from0 |-> init.from,
                   e |-> st.enc, c |-> st.conf, restarts |-> st.restarts, from |-> st.from, log |-> log, edge |-> edge]))
=============================================================================
