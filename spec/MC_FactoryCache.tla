--------------------------- MODULE MC_FactoryCache ---------------------------
(* All sequences of <= MaxLen factory requests in ONE process: getTreeBuilder("etree") with fullTree absent / True /     *)
(* False, getTreeBuilder("dom"), getTreeWalker("etree"), each followed by a parse with namespaceHTMLElements on or off    *)
(* on a new HTMLParser built from what the factory returned.  ThmFactoryKeyed: what a request gets (does parse() return   *)
(* the whole document or the html element) is a function of the option VALUES of that request, whatever was requested    *)
(* before, in whatever order.  Holds for KeyNamesOnly = FALSE; TLC refutes it for TRUE.  Every sequence is exported and   *)
(* executed in one process (and both orders of the two fullTree values in fresh interpreters).                            *)
EXTENDS Lifecycle, TLC, Json
CONSTANTS MaxLen, KeyNamesOnly, Export
Reqs == {[kind |-> "tb-etree", full |-> f, ns |-> n] : f \in {"absent", "true", "false"}, n \in BOOLEAN}
        \cup {[kind |-> "tb-dom", full |-> "absent", ns |-> TRUE], [kind |-> "tw-etree", full |-> "absent", ns |-> TRUE]}
VARIABLES cache, hist
Init == cache = <<>> /\ hist = <<>>
Request(r) == /\ Len(hist) < MaxLen
              /\ LET st == FactoryStep(cache, r, KeyNamesOnly) IN
                 /\ cache' = st.cache
                 /\ hist' = Append(hist, [kind |-> r.kind, full |-> r.full, ns |-> r.ns, got |-> st.full])
Next == \E r \in Reqs : Request(r)
ThmFactoryKeyed == \A i \in 1..Len(hist) : hist[i].got = FullOf(hist[i])
ThmExport == (Export /\ Len(hist) = MaxLen) => PrintT(ToJson([hist |-> hist]))
=============================================================================
