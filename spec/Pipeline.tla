------------------------------- MODULE Pipeline -------------------------------
(* Parse == TreeConstruction o Tokenizer with the two feedback edges: the tree builder sets   *)
(* the tokenizer state after certain start tags, and the tokenizer asks whether the current   *)
(* node is foreign when it meets "<![CDATA[".  Characters are handed over when the next       *)
(* non-character token is complete (and before any "<!" decision), which is observably the    *)
(* same as handing them over one by one.                                                      *)
EXTENDS Tokenizer, TreeConstruction, Gen_Quirks

CdataNow(ps) == ps.open # <<>> /\ CurNd(ps).ns # "html"

\* feed all complete tokens in ts.out to the tree builder (all of them when `all`, else all but a trailing Character token)
RECURSIVE Drain(_, _, _)
Drain(ts, ps, all) ==
    IF ts.out = <<>> THEN [ts |-> ts, ps |-> ps]
    ELSE LET tok == ts.out[1] IN
         IF ~all /\ Len(ts.out) = 1 /\ tok.t = "Character" THEN [ts |-> ts, ps |-> ps]
         ELSE LET p1 == TreeStep(ps, tok, ts.bk[1], QuirksTables)
                  t1 == [ts EXCEPT !.out = Tail(@), !.bk = Tail(@)]
                  t2 == IF tok.t = "StartTag" /\ p1.tokReq # "" THEN [t1 EXCEPT !.st = p1.tokReq] ELSE t1
              IN Drain(t2, p1, all)

RECURSIVE PRun(_, _, _)
PRun(ts, ps, src) ==
    IF ts.done THEN LET r == Drain(ts, ps, TRUE) IN TreeEof(r.ps)
    ELSE LET flushAll == ts.st = "markupDecl"
             r  == Drain(ts, ps, flushAll)
             t1 == [r.ts EXCEPT !.cdataOk = CdataNow(r.ps)]
         IN PRun(TStep(t1, src), r.ps, src)

\* the same, stopping at the end of the input BEFORE end-of-file is processed (used to compute state covers)
RECURSIVE PPause(_, _, _)
PPause(ts, ps, src) ==
    IF ts.done \/ ts.i > Len(src)
    THEN LET r == Drain(ts, ps, TRUE) IN [ts |-> r.ts, ps |-> r.ps]
    ELSE LET flushAll == ts.st = "markupDecl"
             r  == Drain(ts, ps, flushAll)
             t1 == [r.ts EXCEPT !.cdataOk = CdataNow(r.ps)]
         IN PPause(TStep(t1, src), r.ps, src)
PauseDoc(src, scripting) == PPause(TInit("data", None, FALSE), PInit(scripting, None), src)
PauseFrag(src, inner, scripting) == PPause(TInit(FragmentTokState(inner, scripting), None, FALSE), PInit(scripting, inner), src)

\* document parse / fragment parse of a code-point string
ParseDoc(src, scripting) == PRun(TInit("data", None, FALSE), PInit(scripting, None), src)
ParseFrag(src, inner, scripting) ==
    PRun(TInit(FragmentTokState(inner, scripting), None, FALSE), PInit(scripting, inner), src)
=============================================================================
