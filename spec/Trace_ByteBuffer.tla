--------------------------- MODULE Trace_ByteBuffer ---------------------------
(* Calls on real BufferedStream objects (recorded while real parses read non-seekable byte     *)
(* sources, and from scripted clients).  Trace = [src, ev]; event = [op, n, und, r, t]:         *)
(* op "read"/"seek", n = argument, und = <<size asked, data returned>> for each underlying read  *)
(* during the call, r = returned bytes, t = tell() afterwards.  Each event must agree with the machine    *)
(* AND behave like a seekable file over src.                                                   *)
EXTENDS ByteBuffer, TLC, Json, IOUtils
Traces == JsonDeserialize(IOEnv.TRACE_FILE)
VARIABLES tid, l, b, verdict
vars == <<tid, l, b, verdict>>
Init == tid \in 1..Len(Traces) /\ l = 1 /\ b = BInit /\ verdict = "run"
Stop(v) == verdict' = v /\ UNCHANGED <<tid, l, b>>
Step == /\ verdict = "run"
        /\ LET tr == Traces[tid] IN
           IF l > Len(tr.ev) THEN Stop(IF HoldsPrefix(b, tr.src) THEN "accept" ELSE "reject:buffer-not-prefix")
           ELSE LET e == tr.ev[l] IN
             IF e.op = "read" THEN
                LET p == ReadPlan(b, e.n)
                    und == IF e.und = <<>> THEN <<>> ELSE e.und[1][2]
                    r == BRead(b, e.n, und)
                IN IF Len(e.und) # (IF p.rem = 0 THEN 0 ELSE 1) THEN Stop("reject:underlying-reads")
                   ELSE IF e.und # <<>> /\ e.und[1][1] # p.rem THEN Stop("reject:underlying-size")
                   ELSE IF r.rv # e.r THEN Stop("reject:result")
                   ELSE IF BTell(r.b) # e.t THEN Stop("reject:tell")
                   ELSE IF ~ShapeOK(r.b) THEN Stop("reject:shape")
                   ELSE IF ~(Len(e.r) <= e.n /\ e.r = SubSeq(tr.src, BTell(b) + 1, BTell(b) + Len(e.r)) /\ e.t = BTell(b) + Len(e.r))
                        THEN Stop("reject:property-like-file")
                   ELSE b' = r.b /\ l' = l + 1 /\ UNCHANGED <<tid, verdict>>
             ELSE IF e.op = "seek" THEN
                IF b.buf = <<>> \/ e.n > Total(b) THEN Stop("reject:seek-precondition")
                ELSE LET b2 == BSeek(b, e.n) IN
                     IF b2.pi < 0 \/ BTell(b2) # e.t THEN Stop("reject:tell")
                     ELSE IF e.t # e.n THEN Stop("reject:property-seek")
                     ELSE b' = b2 /\ l' = l + 1 /\ UNCHANGED <<tid, verdict>>
             ELSE Stop("reject:unknown-event")
Done == verdict # "run" /\ UNCHANGED vars
Next == Step \/ Done
Report == verdict # "run" => PrintT(ToJson([tid |-> tid, l |-> l, v |-> verdict]))
=============================================================================
