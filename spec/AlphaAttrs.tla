---------------------------- MODULE AlphaAttrs -----------------------------
(* C18.  The alphabetical-attributes filter as a one-token-at-a-time machine.              *)
(* A walker token is a record [t, n, ns, a, d, p, s]; a = attributes in order, each         *)
(* <<namespace-or-None, local name, value>>.  The filter has no memory between tokens.      *)
EXTENDS Unicode

NsKey(ns)  == IF ns = None THEN <<>> ELSE ns           \* "namespace or empty string"
AKey(at)   == <<NsKey(at[1]), at[2]>>
KeyLess(x, y) == \/ SeqLess(AKey(x)[1], AKey(y)[1])
                 \/ (AKey(x)[1] = AKey(y)[1] /\ SeqLess(AKey(x)[2], AKey(y)[2]))

\* stable insertion sort (what sorted(items, key=..) computes)
RECURSIVE InsertSorted(_, _)
InsertSorted(srt, at) ==
    IF srt = <<>> THEN <<at>>
    ELSE IF KeyLess(at, srt[1]) THEN <<at>> \o srt
    ELSE <<srt[1]>> \o InsertSorted(Tail(srt), at)

RECURSIVE SortAttrs(_)
SortAttrs(as) == IF as = <<>> THEN <<>> ELSE InsertSorted(SortAttrs(Front(as)), Last(as))

IsTag(tok) == tok.t \in {"StartTag", "EmptyTag"}
AlphaStep(tok) == IF IsTag(tok) THEN [tok EXCEPT !.a = SortAttrs(tok.a)] ELSE tok

-----------------------------------------------------------------------------
\* the property, stated declaratively (independent of the sorting procedure above)
SamePairs(as, bs)  == Len(as) = Len(bs) /\ Range(as) = Range(bs)
Ordered(bs)        == \A i \in 1..Len(bs) - 1 : KeyLess(bs[i], bs[i + 1]) \/ AKey(bs[i]) = AKey(bs[i + 1])
DistinctNames(as)  == \A i, j \in 1..Len(as) : i # j => <<as[i][1], as[i][2]>> # <<as[j][1], as[j][2]>>
OnlyReorders(tok, out) ==
    IF IsTag(tok)
    THEN /\ [out EXCEPT !.a = <<>>] = [tok EXCEPT !.a = <<>>]
         /\ SamePairs(tok.a, out.a) /\ Ordered(out.a)
    ELSE out = tok
=============================================================================
