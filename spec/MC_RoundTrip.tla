------------------------------ MODULE MC_RoundTrip ------------------------------
(* C07, model level.  Generator of conforming documents as a state machine over the stack of   *)
(* open elements: Add(ch) appends a node the content model allows at the current position      *)
(* (opening it when it is a non-void element), Close closes the current element when its        *)
(* content model is satisfied.  Documents are built in document order, so every document is     *)
(* reached exactly once; a state with an empty stack is a complete document T.                  *)
(* Themes keep the alphabets small: each theme has a start stack, a candidate set and a bound   *)
(* on the number of added nodes (Bound(theme) + Extra).  CmChildOK decides what is allowed.     *)
(* Theorems on every complete document (parser configuration = KnownDefects):                   *)
(*   ThmConforming  the recursive judge accepts what the generator built                        *)
(*   ThmFixpoint    RtParse(RefSer(T)) = T                (T is a fixpoint of parse o serialize) *)
(*   ThmOmit        RtParse(RtSerOmit(T, OtDefects)) = T  (optional-tag omission is invisible;   *)
(*                  OtDefects = {}: the intended filter; = listed names: must FAIL = witness)    *)
EXTENDS RoundTrip, TLC, Json, IOUtils
CONSTANTS Themes, Extra, Less, Deep, Deeper, TextLen, Export, OtDefects, CheckOmit

Fr(nd, cx, kids) == [nd |-> nd, cx |-> cx, kids |-> kids]
Top(st) == st[Len(st)]
Push(st, nd) == Append(st, Fr(nd, CmEnter(Top(st).cx, nd), <<>>))
Leaf(st, nd) == [st EXCEPT ![Len(st)].kids = Append(@, nd)]
Filled(nd, kids) == [nd EXCEPT !.c = kids]

X == <<120>>
Sp == <<32>>
TitleNd == Filled(CmElem(N_title), <<CmText(<<116>>)>>)
HeadT == Filled(CmElem(N_head), <<TitleNd>>)
Head0 == CmElem(N_head)
DocStart(kids) == <<Fr(CmDoc(<<>>), CmDocCx, kids)>>
HtmlOpen == Push(DocStart(<<CmDoctype(<<>>, <<>>)>>), CmElem(N_html))
BodyOpen(head) == Push(Leaf(HtmlOpen, head), CmElem(N_body))
E(n) == CmElem(n)
EA(n, a) == CmElemA("html", n, a)
At(n, v) == CmAttr(n, v)

\* ---- text alphabets ----
Atoms == {<<120>>, <<32>>, <<10>>, <<60>>, <<38>>, <<34>>, <<39>>, <<233>>, <<128512>>, <<97, 109, 112, 59>>}
RECURSIVE AtomSeqs(_)
AtomSeqs(k) == IF k = 0 THEN {<<>>} ELSE LET S == AtomSeqs(k - 1) IN S \cup {s \o a : s \in S, a \in Atoms}
DangerTexts == {CmText(d) : d \in AtomSeqs(TextLen) \ {<<>>}}
\* attribute values: the quoting danger set
Values == {<<>>, <<120>>, <<32>>, <<97, 32, 98>>, <<39>>, <<34>>, <<34, 39>>, <<61>>, <<60>>, <<62>>, <<96>>, <<38>>,
           <<38, 97, 109, 112, 59>>, <<97, 38, 98>>, <<38, 108, 116>>, <<233>>, <<128512>>, <<47>>, <<120, 47>>, <<10>>, <<9>>,
           <<160>>, <<97, 61, 98>>, <<120, 62, 121>>, <<38, 35, 51, 56, 59>>, <<8232>>,
           <<201, 120>>, <<201, 61>>, <<233, 120>>}      \* (capital E acute + alphanumeric / '=': the entity the ascii codec error handler writes must end in ';')
FewValues == {<<>>, <<120>>, <<97, 32, 98>>, <<34>>, <<38>>, <<233>>}

\* ---- element names handed in by the harness (file named by the environment variable C07_NAMES: a JSON array of names) ----
\* They only WIDEN the candidate alphabet of the theme "names" (every name the serializer / optional-tags filter of the tree
\* under test special-cases, plus fixed extras); CmChildOK decides which of them the content model admits and as what
\* (a modelled flow element, an extension element, or not at all).
NameList == JsonDeserialize(IOEnv.C07_NAMES)
HandedNames == {NameList[i] : i \in 1..Len(NameList)}

\* ---- themes ----
Cand(th) ==
    CASE th = "blocks" -> {E(N_div), E(N_p), EA(N_p, <<At(N_id, X)>>), E(N_a), E(N_ul), E(N_li), E(N_dialog), E(N_hr), CmText(X)}
      [] th = "table" -> {E(N_caption), E(N_colgroup), E(N_col), E(N_thead), E(N_tbody), EA(N_tbody, <<At(N_id, X)>>), E(N_tfoot),
                          E(N_tr), E(N_td), E(N_th), CmText(X), CmText(Sp), CmComment(<<99>>)}
      [] th = "lists" -> {E(N_ul), E(N_li), E(N_dl), E(N_dt), E(N_dd), E(N_p), CmText(X), CmText(Sp)}
      [] th = "ruby" -> {E(N_rt), E(N_rp), E(N_span), CmText(X), CmText(Sp)}
      [] th = "select" -> {E(N_option), EA(N_option, <<At(N_selected, <<>>)>>), E(N_optgroup),
                           EA(N_optgroup, <<At(N_disabled, N_disabled)>>), CmText(X), CmText(Sp), CmComment(<<99>>)}
      [] th = "head" -> {E(N_title), EA(N_meta, <<At(N_charset, <<117, 116, 102, 45, 56>>)>>), EA(N_meta, <<At(A_itemprop, X), At(N_content, X)>>),
                         EA(N_link, <<At(A_rel, <<115, 116, 121, 108, 101, 115, 104, 101, 101, 116>>), At(N_href, X)>>),
                         E(N_style), E(N_script), EA(N_base, <<At(N_href, X)>>), E(N_body), EA(N_body, <<At(N_class, X)>>), E(N_p),
                         CmText(X), CmText(Sp), CmComment(<<99>>)}
      [] th = "forms" -> {E(N_form), E(N_fieldset), E(N_legend), E(N_label), E(N_button), EA(N_input, <<At(N_disabled, <<>>)>>),
                          E(N_textarea), E(N_select), E(N_option), E(N_details), E(N_summary), E(N_p), CmText(X)}
      [] th = "phrasing" -> {E(N_p), E(N_span), E(N_a), E(N_br), EA(N_img, <<At(A_alt, X)>>), E(N_pre), E(N_h1),
                             CmText(X), CmText(<<32, 120, 32>>), CmText(<<10>>)}
      [] th = "sections" -> {E(N_section), E(N_main), E(N_address), E(N_blockquote), E(N_h1), E(N_hr), E(N_figure),
                             E(N_figcaption), E(N_p), CmText(X)}
      [] th = "foreign" -> {CmElemA("svg", N_svg, <<>>), CmElemA("svg", N_svg, <<At(A_viewBox, <<48, 32, 48, 32, 49, 32, 49>>)>>),
                            CmElemA("svg", N_g, <<>>), CmElemA("svg", N_title, <<>>), CmElemA("svg", N_desc, <<>>),
                            CmElemA("svg", N_foreignObject, <<>>), CmElemA("svg", N_a, <<<<"xlink", N_href, X>>>>),
                            CmElemA("math", N_math, <<>>), CmElemA("math", N_mi, <<>>), CmElemA("math", N_mtext, <<>>),
                            CmElemA("math", N_annotation_xml, <<At(N_encoding, N_text_html)>>),
                            E(N_div), E(N_p), E(N_b), CmText(X), CmText(<<60>>)}
      [] th = "names" -> {E(nm) : nm \in HandedNames}
      [] th = "text" -> DangerTexts \cup {E(N_body)}           \* (elements are free in this theme: only text counts)
      [] th = "attrs" -> {EA(N_div, <<At(N_title, v)>>) : v \in Values} \cup {EA(N_input, <<At(N_value, v)>>) : v \in Values}
                         \cup {EA(N_img, <<At(A_alt, v), At(N_src, w)>>) : v, w \in FewValues}
                         \cup {EA(N_span, <<At(N_title, v), At(N_class, w)>>) : v, w \in FewValues}
                         \cup {EA(N_input, <<At(N_disabled, <<>>)>>), EA(N_input, <<At(N_disabled, N_disabled)>>),
                               EA(N_input, <<At(N_value, X), At(N_checked, N_checked)>>), EA(N_input, <<At(N_type, N_hidden), At(N_hidden, N_hidden)>>),
                               EA(N_details, <<At(A_open, <<>>)>>), EA(N_ol, <<At(A_reversed, A_reversed)>>),
                               EA(N_script, <<At(A_async, A_async), At(N_src, X)>>), EA(N_br, <<At(N_class, X)>>), EA(N_br, <<At(N_class, <<120, 47>>)>>),
                               E(N_summary), CmText(X)}
      [] th = "doc" -> {CmDoctype(pr[1], pr[2]) : pr \in CmDoctypes} \cup
                       {E(N_html), EA(N_html, <<At(N_lang, X)>>), E(N_head), E(N_body), CmText(X), CmText(Sp), CmComment(<<99>>), CmComment(<<>>)}
      [] OTHER -> {}

Starts(th) ==
    CASE th = "table" -> {Push(BodyOpen(HeadT), E(N_table))}
      [] th = "ruby" -> {Push(Push(BodyOpen(HeadT), E(N_p)), E(N_ruby))}
      [] th = "select" -> {Push(BodyOpen(HeadT), E(N_select))}
      [] th = "head" -> {Push(HtmlOpen, E(N_head))}
      [] th = "text" -> {Push(BodyOpen(HeadT), E(N_p)), Push(BodyOpen(HeadT), E(N_pre)), Push(BodyOpen(HeadT), E(N_textarea)),
                         Push(BodyOpen(HeadT), E(N_script)), Push(Push(HtmlOpen, E(N_head)), E(N_style)),
                         Push(Push(BodyOpen(HeadT), E(N_select)), E(N_option)), Push(Push(HtmlOpen, E(N_head)), E(N_title)),
                         BodyOpen(HeadT)}
      [] th = "doc" -> {DocStart(<<>>)}
      [] th = "names" -> {Leaf(BodyOpen(HeadT), Filled(E(N_p), <<CmText(X)>>)),          \* <p>x</p> then the name
                          Leaf(Push(BodyOpen(HeadT), E(N_p)), CmText(X)),                 \* the name inside <p>x
                          BodyOpen(Head0),                                                \* the name first in body, empty head
                          Leaf(Push(BodyOpen(HeadT), E(N_div)), Filled(E(N_p), <<CmText(X)>>))}   \* <div><p>x</p> then the name
      [] th = "attrs" -> {BodyOpen(HeadT), BodyOpen(Head0)}
      [] OTHER -> {BodyOpen(HeadT)}
Bound(th) ==
    (CASE th \in {"blocks", "lists", "phrasing", "sections", "forms"} -> 4
       [] th \in {"table", "select", "ruby", "foreign"} -> 4
       [] th = "head" -> 4
       [] th = "doc" -> 6
       [] th = "text" -> 1
       [] th = "attrs" -> 1
       [] th = "names" -> 1
       [] OTHER -> 3) + (IF th \in {"text", "attrs"} THEN 0 ELSE (IF th = "names" THEN 0 ELSE Extra - Less) + (IF th \in Deep THEN 1 ELSE 0) + (IF th \in Deeper THEN 1 ELSE 0))

VARIABLES theme, stack, n
vars == <<theme, stack, n>>
Init == theme \in Themes /\ stack \in Starts(theme) /\ n = 0
Add(ch) ==
    /\ n < Bound(theme)
    /\ CmChildOK(Top(stack).cx, Top(stack).kids, ch) = TRUE        \* (= TRUE: evaluated as a value, not split as an action)
    /\ stack' = IF ch.k = "elem" /\ CmModelOf(Top(stack).cx, ch) # "void" THEN Push(stack, ch) ELSE Leaf(stack, ch)
    /\ n' = n + (IF theme = "text" /\ ch.k = "elem" THEN 0 ELSE 1) /\ UNCHANGED theme
Close ==
    /\ Len(stack) > 1
    /\ CmCloseOK(Top(stack).cx, Top(stack).kids) = TRUE
    /\ stack' = Leaf(SubSeq(stack, 1, Len(stack) - 1), Filled(Top(stack).nd, Top(stack).kids))
    /\ UNCHANGED <<theme, n>>
Next == Close \/ \E ch \in Cand(theme) : Add(ch)

Complete == Len(stack) = 1 /\ CmCloseOK(CmDocCx, stack[1].kids)
T == CmDoc(stack[1].kids)

ThmConforming == Complete => CmConforming(T)
ThmFixpoint   == Complete => RtParse(RefSer(T)) = T
ThmOmit       == (Complete /\ CheckOmit) => RtParse(RtSerOmit(T, OtDefects)) = T
ThmExport     == (Complete /\ Export) => PrintT(ToJson([theme |-> theme, tree |-> T]))
=============================================================================
