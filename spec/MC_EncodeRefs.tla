---------------------------- MODULE MC_EncodeRefs ----------------------------
(* Every text of <= MaxLen characters over an alphabet that contains the reference syntax      *)
(* itself (& # x ; digits), markup characters, an expressible non-ASCII character, an           *)
(* inexpressible one with a named reference, an inexpressible astral one without, and one that  *)
(* the writer's codec and the reader's codec disagree about.  Model of one round trip:          *)
(* escape (text / attribute value in either quote) -> encode -> [bytes] -> decode -> resolve    *)
(* references (or not, in raw text).  Theorems (intended design, KnownDefects = {}):            *)
(*   ThmRoundTrip   reading back what was written gives the text, in text and attribute context *)
(*   ThmExpressible nothing inexpressible is written as bytes                                    *)
(*   ThmRaw         in raw text either the text is written unchanged or writing is refused       *)
(*   ThmBom         a document written as two chunks with a BOM-writing codec reads back as the  *)
(*                  concatenation (exactly one BOM, in front)                                    *)
(*   ThmJudge       the relational chunk judge of the trace spec accepts the writer's output      *)
(* With the code-faithful KnownDefects the first four fail; those runs are the model-level        *)
(* witnesses of the listed findings.  Every text is exported and replayed into the real          *)
(* serializer (results judged by Trace_EncodeRefs).                                               *)
EXTENDS EncodeRefs, TLC, Json
CONSTANTS MaxLen, Export, CheckProperty

Alphabet == {97, 49, 38, 35, 120, 59, 60, 34, 39, 233, 8364, 128512, 1071}   \* a 1 & # x ; < " ' e-acute euro U+1F600 CYRILLIC YA
PFail == {8364, 128512}
Mis   == <<[c |-> 1071, v |-> <<12491>>, x |-> TRUE]>>                    \* label big5: Python big5 bytes of U+042F read by big5hkscs as U+30CB

VARIABLES s
Init == s = <<>>
Next == Len(s) < MaxLen /\ \E c \in Alphabet : s' = Append(s, c)

Written(q) == EncodeChunk(Escape(s, q), PFail, Mis)
Quotes == {0, 34, 39}
NeedsRef == \E i \in 1..Len(s) : MustRef(s[i], PFail, Mis) \/ (s[i] \in MisC(Mis) /\ ~On("ser-encoder-decoder-mismatch"))
RawWritten == IF ~On("ser-rawtext-charref") /\ NeedsRef THEN None ELSE EncodeChunk(s, PFail, Mis)
Splits == {<<SubSeq(s, 1, k), SubSeq(s, k + 1, Len(s))>> : k \in 0..Len(s)}
ReadDoc(w) == IF w # <<>> /\ w[1] = BOM THEN Tail(w) ELSE w

ThmRoundTrip   == CheckProperty => \A q \in Quotes : DecodeRefs(Written(q)) = s
ThmExpressible == CheckProperty => \A q \in Quotes : \A i \in 1..Len(Written(q)) : Written(q)[i] \notin PFail \cup {12491}
ThmRaw         == CheckProperty => RawWritten \in {None, s}
ThmBom         == CheckProperty => \A sp \in Splits :
                      ReadDoc(BomPrefix(TRUE, 1) \o sp[1] \o BomPrefix(TRUE, 2) \o sp[2]) = s
ThmJudge       == \A q \in Quotes : Match(Escape(s, q), 1, Written(q), 1, PFail, Mis)
ThmExport      == Export => PrintT(ToJson([s |-> s]))
=============================================================================
