------------------------------ MODULE Trace_Tree ------------------------------
(* Result trees recorded from the real parser on arbitrary inputs: {src, cx, scripting, tree}. *)
(* The specification parses src itself (Pipeline) and compares the canonical trees; for         *)
(* documents it also judges the C03 skeleton on the RECORDED tree.                              *)
EXTENDS Pipeline, TLC, Json, IOUtils
Traces == JsonDeserialize(IOEnv.TRACE_FILE)
VARIABLES tid, verdict
vars == <<tid, verdict>>
Judge(tr) ==
    LET ps == IF tr.cx = None THEN ParseDoc(tr.src, tr.scripting) ELSE ParseFrag(tr.src, tr.cx, tr.scripting)
        exp == Result(ps)
    IN IF exp # tr.tree THEN "reject:tree"
       ELSE IF Snapshot(ps) # tr.snap THEN "reject:snapshot"
       ELSE IF ~(WellFormed(ps.nodes) /\ StackOK(ps)) THEN "reject:theorem"
       ELSE IF tr.cx = None /\ ~SkeletonRelaxed(tr.tree) THEN "reject:skeleton"
       ELSE IF tr.cx = None /\ ~Skeleton(tr.tree) THEN "finding:skel-noframes-after-frameset"
       ELSE "accept"
Init == tid \in 1..Len(Traces) /\ verdict = "run"
Step == verdict = "run" /\ verdict' = Judge(Traces[tid]) /\ UNCHANGED tid
Done == verdict # "run" /\ UNCHANGED vars
Next == Step \/ Done
Report == verdict # "run" => PrintT(ToJson([tid |-> tid, l |-> 0, v |-> verdict]))
=============================================================================
