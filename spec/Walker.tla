------------------------------- MODULE Walker -------------------------------
(* C11 / C19 shared model.                                                                     *)
(*                                                                                             *)
(* Abstract tree (what harness/proj.py produces): a node is a record                           *)
(*   [k, ns, name, attrs, data, pub, sys, kids]   k \in {"doc","doctype","elem","text","comment"}*)
(* with kids a sequence of nodes (nested).  A DOM keeps one node per Text node, so a tree may   *)
(* hold adjacent / empty text nodes ("unmerged"); Canon(t) is the canonical tree.              *)
(* Walker tokens: records [t, n, ns, a, d, p, s] (harness/tok.py).                             *)
(*                                                                                             *)
(*  Walk(t, D)        the token stream of the subtree t: denotational reference                *)
(*  NrStep / DomRun   html5lib/treewalkers/base.py NonRecursiveTreeWalker.__iter__ as a        *)
(*                    small-step machine over an abstract navigation interface (one navigation *)
(*                    call per step); DOM navigation = paths into the nested tree              *)
(*  LintStep / LintOK html5lib/filters/lint.py as an acceptor                                  *)
(*  WellFormed        the clauses of the property, stated without reference to Lint            *)
(*  Rebuild, Canon    tree rebuilt from a stream; canonical tree                               *)
(*  Concat            adjacent character tokens concatenated                                   *)
(* D = KnownDefects: named deviations of the code from the intended design.                    *)
EXTENDS Unicode, Gen_Names
CONSTANT KnownDefects
WalkerDefectNames == {"walker-legacy-void-names", "etree-clark-empty-part", "etree-clark-raw-name"}

-----------------------------------------------------------------------------
\* ---------- void elements ----------
\* HTML standard, "void elements" (text of the html5lib 1.1 era; `param` was dropped from the list later) \* ASSUMED
VoidStd == {N_area, N_base, N_br, N_col, N_embed, N_hr, N_img, N_input, N_link, N_meta, N_param, N_source,
            N_track, N_wbr}
\* names html5lib additionally treats as void: never / no longer void in the standard, and its own parser
\* builds `event-source` as an ordinary container
VoidLegacy == {N_command, N_event_source}
Void(D) == VoidStd \cup (IF "walker-legacy-void-names" \in D THEN VoidLegacy ELSE {})
Falsy(x) == x = None \/ x = <<>>                       \* Python `not x` for str-or-None
IsVoidElem(ns, n, D) == (Falsy(ns) \/ ns = NS_html) /\ n \in Void(D)

\* ---------- tokens ----------
Tk(t, n, ns, a, d, p, s) == [t |-> t, n |-> n, ns |-> ns, a |-> a, d |-> d, p |-> p, s |-> s]
TStart(ns, n, a)  == Tk("StartTag", n, ns, a, <<>>, None, None)
TEmpty(ns, n, a)  == Tk("EmptyTag", n, ns, a, <<>>, None, None)
TEnd(ns, n)       == Tk("EndTag", n, ns, <<>>, <<>>, None, None)
TChars(d)         == Tk("Characters", None, None, <<>>, d, None, None)
TSpace(d)         == Tk("SpaceCharacters", None, None, <<>>, d, None, None)
TComment(d)       == Tk("Comment", None, None, <<>>, d, None, None)
TDoctype(n, p, s) == Tk("Doctype", n, None, <<>>, <<>>, p, s)
\* base.TreeWalker.error(): note the type is "SerializeError" (Lint and the serializer know "SerializerError")
VoidHasChildrenMsg == <<86,111,105,100,32,101,108,101,109,101,110,116,32,104,97,115,32,99,104,105,108,100,114,101,110>>
TError(d)         == Tk("SerializeError", None, None, <<>>, d, None, None)
IsText(tok)       == tok.t \in {"Characters", "SpaceCharacters"}

\* ---------- base.TreeWalker.text(): lstrip / rstrip of the five HTML space characters ----------
RECURSIVE LeadWs(_)
LeadWs(d) == IF d = <<>> \/ ~IsWs(d[1]) THEN 0 ELSE 1 + LeadWs(Tail(d))
RECURSIVE TrailWsFrom(_, _)
TrailWsFrom(d, i) == IF i = 0 \/ ~IsWs(d[i]) THEN 0 ELSE 1 + TrailWsFrom(d, i - 1)
TextTokens(d) ==
    LET l      == LeadWs(d)
        left   == SubSeq(d, 1, l)
        rest   == SubSeq(d, l + 1, Len(d))
        r      == TrailWsFrom(rest, Len(rest))
        middle == SubSeq(rest, 1, Len(rest) - r)
        right  == SubSeq(rest, Len(rest) - r + 1, Len(rest))
    IN (IF left # <<>> THEN <<TSpace(left)>> ELSE <<>>)
       \o (IF middle # <<>> THEN <<TChars(middle)>> ELSE <<>>)
       \o (IF right # <<>> THEN <<TSpace(right)>> ELSE <<>>)

-----------------------------------------------------------------------------
\* ---------- abstract tree ----------
Node(k, ns, name, attrs, data, pub, sys, kids) ==
    [k |-> k, ns |-> ns, name |-> name, attrs |-> attrs, data |-> data, pub |-> pub, sys |-> sys, kids |-> kids]
DocNode(kids)            == Node("doc", None, None, <<>>, <<>>, None, None, kids)
ElemNode(ns, n, a, kids) == Node("elem", ns, n, a, <<>>, None, None, kids)
TextNode(d)              == Node("text", None, None, <<>>, d, None, None, <<>>)
CommentNode(d)           == Node("comment", None, None, <<>>, d, None, None, <<>>)
DoctypeNode(n, p, s)     == Node("doctype", None, n, <<>>, <<>>, p, s, <<>>)
IsContainer(nd)          == nd.k \in {"doc", "elem"}

\* child list with DOM text merging: empty text vanishes, text after text is concatenated
AddKid(kids, kid) ==
    IF kid.k # "text" THEN Append(kids, kid)
    ELSE IF kid.data = <<>> THEN kids
    ELSE IF kids # <<>> /\ kids[Len(kids)].k = "text"
         THEN [kids EXCEPT ![Len(kids)].data = @ \o kid.data]
    ELSE Append(kids, kid)
RECURSIVE MergeKids(_, _)
MergeKids(acc, kids) == IF kids = <<>> THEN acc ELSE MergeKids(AddKid(acc, kids[1]), Tail(kids))
RECURSIVE Canon(_)
Canon(nd) == [nd EXCEPT !.kids = MergeKids(<<>>, [i \in 1..Len(nd.kids) |-> Canon(nd.kids[i])])]

\* trace files carry trees flat (preorder list, kids = indices) because JSON readers limit nesting depth
RECURSIVE Unflat(_, _)
Unflat(F, i) == Node(F[i].k, F[i].ns, F[i].name, F[i].attrs, F[i].data, F[i].pub, F[i].sys,
                     [j \in 1..Len(F[i].kids) |-> Unflat(F, F[i].kids[j])])

RECURSIVE NodeAt(_, _)
NodeAt(nd, path) == IF path = <<>> THEN nd ELSE NodeAt(nd.kids[path[1]], Tail(path))

\* the shapes a parser can produce: an element the standard calls void has no children
RECURSIVE ParsedShape(_)
ParsedShape(nd) == /\ (nd.k = "elem" /\ IsVoidElem(nd.ns, nd.name, {})) => nd.kids = <<>>
                   /\ \A i \in 1..Len(nd.kids) : ParsedShape(nd.kids[i])
RECURSIVE HasLegacyVoidWithKids(_)
HasLegacyVoidWithKids(nd) ==
    \/ nd.k = "elem" /\ IsVoidElem(nd.ns, nd.name, {"walker-legacy-void-names"})
       /\ ~IsVoidElem(nd.ns, nd.name, {}) /\ nd.kids # <<>>
    \/ \E i \in 1..Len(nd.kids) : HasLegacyVoidWithKids(nd.kids[i])

-----------------------------------------------------------------------------
\* ---------- Walk: the reference stream of a subtree ----------
RECURSIVE Walk(_, _), WalkKids(_, _)
WalkKids(kids, D) == IF kids = <<>> THEN <<>> ELSE Walk(kids[1], D) \o WalkKids(Tail(kids), D)
Walk(nd, D) ==
    CASE nd.k = "doc"     -> WalkKids(nd.kids, D)
      [] nd.k = "doctype" -> <<TDoctype(nd.name, nd.pub, nd.sys)>>
      [] nd.k = "text"    -> TextTokens(nd.data)
      [] nd.k = "comment" -> <<TComment(nd.data)>>
      [] nd.k = "elem"    ->
            IF IsVoidElem(nd.ns, nd.name, D)
            THEN <<TEmpty(nd.ns, nd.name, nd.attrs)>>
                 \o (IF nd.kids # <<>> THEN <<TError(VoidHasChildrenMsg)>> ELSE <<>>)    \* children are skipped
            ELSE <<TStart(nd.ns, nd.name, nd.attrs)>> \o WalkKids(nd.kids, D) \o <<TEnd(nd.ns, nd.name)>>

-----------------------------------------------------------------------------
\* ---------- NonRecursiveTreeWalker.__iter__ as a small-step machine ----------
\* Navigation interface: Det(c) = node details [type, ns, name, attrs, data, pub, sys, hasChildren],
\* FC / NS / PN = getFirstChild / getNextSibling / getParentNode, IsStart(c) = `self.tree is currentNode`.
\* `none` is the backend's "no node" cursor.  State: [cur, ph, out, ev]; ph \in {"visit","leave","ascend","done"};
\* ev = the navigation call made by the step that produced this state ([op, cin, cout]) or NoEv.
Details(type, ns, name, attrs, data, pub, sys, hc) ==
    [type |-> type, ns |-> ns, name |-> name, attrs |-> attrs, data |-> data, pub |-> pub, sys |-> sys, hc |-> hc]

NrStep(Det(_), FC(_), NS(_), PN(_), IsStart(_), none, noev, st, D) ==
    LET det  == Det(st.cur)
        void == det.type = "elem" /\ IsVoidElem(det.ns, det.name, D)
    IN
    IF st.ph = "visit" THEN
        LET toks == CASE det.type = "doctype" -> <<TDoctype(det.name, det.pub, det.sys)>>
                      [] det.type = "text"    -> TextTokens(det.data)
                      [] det.type = "comment" -> <<TComment(det.data)>>
                      [] det.type = "doc"     -> <<>>
                      [] det.type = "elem"    ->
                            IF void THEN <<TEmpty(det.ns, det.name, det.attrs)>>
                                         \o (IF det.hc THEN <<TError(VoidHasChildrenMsg)>> ELSE <<>>)
                            ELSE <<TStart(det.ns, det.name, det.attrs)>>
            descend == det.type = "doc" \/ (det.type = "elem" /\ ~void /\ det.hc)
        IN IF descend
           THEN LET fc == FC(st.cur) IN
                [cur |-> IF fc # none THEN fc ELSE st.cur, ph |-> IF fc # none THEN "visit" ELSE "leave",
                 out |-> st.out \o toks, ev |-> [op |-> "fc", cin |-> st.cur, cout |-> fc]]
           ELSE [cur |-> st.cur, ph |-> "leave", out |-> st.out \o toks, ev |-> noev]
    ELSE IF st.ph = "leave" THEN
        LET toks == IF det.type = "elem" /\ ~void THEN <<TEnd(det.ns, det.name)>> ELSE <<>> IN
        IF IsStart(st.cur)
        THEN [cur |-> none, ph |-> "done", out |-> st.out \o toks, ev |-> noev]
        ELSE LET ns == NS(st.cur) IN
             [cur |-> IF ns # none THEN ns ELSE st.cur, ph |-> IF ns # none THEN "visit" ELSE "ascend",
              out |-> st.out \o toks, ev |-> [op |-> "ns", cin |-> st.cur, cout |-> ns]]
    ELSE IF st.ph = "ascend" THEN
        LET pn == PN(st.cur) IN
        [cur |-> pn, ph |-> IF pn # none THEN "leave" ELSE "done", out |-> st.out,
         ev |-> [op |-> "pn", cin |-> st.cur, cout |-> pn]]
    ELSE st

\* ---------- DOM backend: cursors are child-index paths into the nested tree (real parent/sibling pointers) ----------
NoPath == <<-1>>
NoDomEv == [op |-> "-", cin |-> NoPath, cout |-> NoPath]
DomDetails(T, p) ==
    LET nd == NodeAt(T, p) IN
    Details(nd.k, nd.ns, nd.name, nd.attrs, nd.data, nd.pub, nd.sys, nd.kids # <<>>)       \* hasChildNodes()
DomFirstChild(T, p)  == IF NodeAt(T, p).kids # <<>> THEN Append(p, 1) ELSE NoPath
DomNextSibling(T, p) == IF p = <<>> THEN NoPath
                        ELSE IF p[Len(p)] < Len(NodeAt(T, Front(p)).kids) THEN Append(Front(p), p[Len(p)] + 1)
                        ELSE NoPath
DomParent(T, p)      == IF p = <<>> THEN NoPath ELSE Front(p)
DomStep(T, start, st, D) ==
    NrStep(LAMBDA c : DomDetails(T, c), LAMBDA c : DomFirstChild(T, c), LAMBDA c : DomNextSibling(T, c),
           LAMBDA c : DomParent(T, c), LAMBDA c : c = start, NoPath, NoDomEv, st, D)
DomInit(start) == [cur |-> start, ph |-> "visit", out |-> <<>>, ev |-> NoDomEv]
DomRun(T, start, D) ==
    LET RECURSIVE Run(_)
        Run(st) == IF st.ph = "done" THEN st.out ELSE Run(DomStep(T, start, st, D))
    IN Run(DomInit(start))

-----------------------------------------------------------------------------
\* ---------- filters/lint.py: one token; state = [open, ok] ----------
LintStrOrNone(x) == TRUE                       \* every value of the data model is a str or None
LintStep(st, tok, D) ==
    LET ty == tok.t IN
    IF ~st.ok THEN st
    ELSE IF ty \in {"StartTag", "EmptyTag"} THEN
        LET void == IsVoidElem(tok.ns, tok.n, D)
            ok == /\ tok.ns # <<>>
                  /\ tok.n # None /\ tok.n # <<>>
                  /\ (IF void THEN ty = "EmptyTag" ELSE ty = "StartTag")
                  /\ \A i \in 1..Len(tok.a) : /\ tok.a[i][1] # <<>>
                                              /\ tok.a[i][2] # None /\ tok.a[i][2] # <<>>
                                              /\ tok.a[i][3] # None
        IN [open |-> IF ok /\ ty = "StartTag" THEN Append(st.open, <<tok.ns, tok.n>>) ELSE st.open, ok |-> ok]
    ELSE IF ty = "EndTag" THEN
        LET ok == /\ tok.ns # <<>>
                  /\ tok.n # None /\ tok.n # <<>>
                  /\ ~IsVoidElem(tok.ns, tok.n, D)
                  /\ st.open # <<>> /\ st.open[Len(st.open)] = <<tok.ns, tok.n>>
        IN [open |-> IF ok THEN Front(st.open) ELSE st.open, ok |-> ok]
    ELSE IF ty = "Comment" THEN [st EXCEPT !.ok = tok.d # None]
    ELSE IF ty \in {"Characters", "SpaceCharacters"} THEN
        [st EXCEPT !.ok = tok.d # None /\ tok.d # <<>> /\ (ty = "SpaceCharacters" => AllWs(tok.d))]
    \* lint.py tests `name` where it means publicId / systemId: a doctype WITHOUT a name that carries an identifier is
    \* rejected.  No parser produces one (an identifier needs a name before it); the acceptor follows the code.
    ELSE IF ty = "Doctype" THEN [st EXCEPT !.ok = (tok.p = None \/ tok.n # None) /\ (tok.s = None \/ tok.n # None)]
    ELSE IF ty = "Entity" THEN [st EXCEPT !.ok = tok.n # None]
    ELSE IF ty = "SerializerError" THEN [st EXCEPT !.ok = tok.d # None]
    ELSE [st EXCEPT !.ok = FALSE]                                   \* "Unknown token type"
LintInit == [open |-> <<>>, ok |-> TRUE]
RECURSIVE LintRun(_, _, _)
LintRun(st, toks, D) == IF toks = <<>> THEN st ELSE LintRun(LintStep(st, toks[1], D), Tail(toks), D)
LintOK(toks, D) == LintRun(LintInit, toks, D).ok          \* note: Lint never checks that everything was closed

-----------------------------------------------------------------------------
\* ---------- the property's well-formedness clauses, stated directly ----------
RECURSIVE OpenStack(_, _)
\* [st, bad]: stack of <<ns, name>> after the stream; bad once an end tag does not match the innermost open element
OpenStack(o, toks) ==
    IF toks = <<>> \/ o.bad THEN o
    ELSE LET tok == toks[1]  st == o.st IN
         OpenStack(IF tok.t = "StartTag" THEN [o EXCEPT !.st = Append(st, <<tok.ns, tok.n>>)]
                   ELSE IF tok.t = "EndTag"
                        THEN (IF st # <<>> /\ st[Len(st)] = <<tok.ns, tok.n>> THEN [o EXCEPT !.st = Front(st)]
                              ELSE [o EXCEPT !.bad = TRUE])
                   ELSE o, Tail(toks))
Balanced(toks) == LET o == OpenStack([st |-> <<>>, bad |-> FALSE], toks) IN ~o.bad /\ o.st = <<>>
KnownTypes == {"StartTag", "EndTag", "EmptyTag", "Characters", "SpaceCharacters", "Comment", "Doctype"}
TypesOK(toks)  == \A i \in 1..Len(toks) : toks[i].t \in KnownTypes
VoidOK(toks)   == \A i \in 1..Len(toks) :
                      (toks[i].t \in {"StartTag", "EndTag", "EmptyTag"} /\ IsVoidElem(toks[i].ns, toks[i].n, {}))
                          => toks[i].t = "EmptyTag"
NamesOK(toks)  == \A i \in 1..Len(toks) :
                      toks[i].t \in {"StartTag", "EndTag", "EmptyTag"} =>
                          /\ toks[i].n # None /\ toks[i].n # <<>> /\ toks[i].ns # <<>>
                          /\ \A j \in 1..Len(toks[i].a) : toks[i].a[j][2] # None /\ toks[i].a[j][2] # <<>>
                                                          /\ toks[i].a[j][1] # <<>>
TextSplitOK(toks) == \A i \in 1..Len(toks) :
                      /\ IsText(toks[i]) => toks[i].d # None
                      /\ toks[i].t = "SpaceCharacters" => (toks[i].d # <<>> /\ AllWs(toks[i].d))
                      /\ toks[i].t = "Characters" => (toks[i].d # <<>> /\ ~IsWs(toks[i].d[1])
                                                      /\ ~IsWs(toks[i].d[Len(toks[i].d)]))
WellFormed(toks) == TypesOK(toks) /\ Balanced(toks) /\ VoidOK(toks) /\ NamesOK(toks) /\ TextSplitOK(toks)
FirstBadClause(toks) ==
    IF ~TypesOK(toks) THEN "types" ELSE IF ~Balanced(toks) THEN "balance" ELSE IF ~VoidOK(toks) THEN "void"
    ELSE IF ~NamesOK(toks) THEN "names" ELSE IF ~TextSplitOK(toks) THEN "textsplit" ELSE "ok"

-----------------------------------------------------------------------------
\* ---------- Rebuild: the tree a consumer reconstructs from a stream ----------
AddTop(stack, kid) == [stack EXCEPT ![Len(stack)].kids = AddKid(@, kid)]
RbStep(stack, tok) ==
    CASE tok.t = "StartTag" -> Append(stack, ElemNode(tok.ns, tok.n, tok.a, <<>>))
      [] tok.t = "EmptyTag" -> AddTop(stack, ElemNode(tok.ns, tok.n, tok.a, <<>>))
      [] tok.t = "EndTag"   -> IF Len(stack) >= 2 THEN AddTop(Front(stack), stack[Len(stack)]) ELSE stack
      [] IsText(tok)        -> AddTop(stack, TextNode(tok.d))
      [] tok.t = "Comment"  -> AddTop(stack, CommentNode(tok.d))
      [] tok.t = "Doctype"  -> AddTop(stack, DoctypeNode(tok.n, tok.p, tok.s))
      [] OTHER              -> stack
RECURSIVE RbRun(_, _), RbClose(_)
RbRun(stack, toks) == IF toks = <<>> THEN stack ELSE RbRun(RbStep(stack, toks[1]), Tail(toks))
RbClose(stack) == IF Len(stack) = 1 THEN stack[1] ELSE RbClose(AddTop(Front(stack), stack[Len(stack)]))
Rebuild(toks) == RbClose(RbRun(<<DocNode(<<>>)>>, toks))
\* the rebuilt forest equals the walked subtree (canonical form)
AsForest(nd) == IF nd.k = "doc" THEN Canon(nd).kids ELSE <<Canon(nd)>>
RebuildOK(toks, nd) == Rebuild(toks).kids = AsForest(nd)

\* ---------- adjacent character tokens concatenated ----------
RECURSIVE ConcatAcc(_, _)
ConcatAcc(acc, toks) ==
    IF toks = <<>> THEN acc
    ELSE LET tok == toks[1] IN
         IF IsText(tok) /\ acc # <<>> /\ acc[Len(acc)].t = "Characters"
         THEN ConcatAcc([acc EXCEPT ![Len(acc)].d = @ \o tok.d], Tail(toks))
         ELSE ConcatAcc(Append(acc, IF IsText(tok) THEN TChars(tok.d) ELSE tok), Tail(toks))
Concat(toks) == ConcatAcc(<<>>, toks)
\* minidom cannot hold an empty doctype name (it stores None); None and "" are identified for doctypes   \* ASSUMED
NormId(x) == IF x = None THEN <<>> ELSE x
NormDoctypes(toks) == [i \in 1..Len(toks) |->
                          IF toks[i].t = "Doctype"
                          THEN [toks[i] EXCEPT !.n = NormId(@), !.p = NormId(@), !.s = NormId(@)] ELSE toks[i]]
SameModuloText(a, b) == Concat(NormDoctypes(a)) = Concat(NormDoctypes(b))

-----------------------------------------------------------------------------
\* ---------- verdict of one recorded walk (used by the Trace_* specs) ----------
\* stream: what the real walker emitted for subtree nd; lintReal: did the real lint.Filter accept it;
\* other/hasOther: the other walker's stream for the same document (only when both builders built the same tree)
FirstDiff(a, b) == LET S == {i \in 1..(IF Len(a) < Len(b) THEN Len(a) ELSE Len(b)) : a[i] # b[i]}
                   IN IF S = {} THEN (IF Len(a) < Len(b) THEN Len(a) ELSE Len(b)) + 1
                      ELSE CHOOSE i \in S : \A j \in S : i <= j
PropertyClause(stream, nd, lintReal, other, hasOther) ==
    IF ~WellFormed(stream) THEN FirstBadClause(stream)
    ELSE IF ~lintReal THEN "lint"
    ELSE IF ~RebuildOK(stream, nd) THEN "rebuild"
    ELSE IF hasOther /\ ~SameModuloText(stream, other) THEN "crosswalker"
    ELSE "ok"
\* the deviations that separate the code-faithful stream from the intended one on this subtree
FiredOn(nd, D) == {d \in D : Walk(nd, D) # Walk(nd, D \ {d})}
=============================================================================
