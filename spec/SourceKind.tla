------------------------------ MODULE SourceKind ------------------------------
(* C05, the stream factory HTMLInputStream(source, **kwargs) and the hand-over of the source:   *)
(* which stream class a source gets, which encoding is in force when one is DECLARED (so that   *)
(* it is "certain"), and WHERE in the source reading starts, for every source kind the factory  *)
(* can meet, every way of declaring, and every state of the source object at hand-over.         *)
(*                                                                                               *)
(* A source kind is a record [name, yields, seek, mode]:                                         *)
(*   yields  what read() returns: "text" | "bytes"       (the ONLY thing classification may use) *)
(*   seek    stream.seek(stream.tell()) works                                                    *)
(*   mode    the object's .mode attribute: "none" (absent) | "r" | "rb" | "int" (not a string) -  *)
(*           real file objects carry one, and it need not say what read() returns (a zip member  *)
(*           has "r" and yields bytes, a codecs.open() reader has "rb" and yields text)          *)
(* State at hand-over, pos: "start" | "mid" (the caller consumed a prefix) | "end" (exhausted)   *)
(*           | "closed".                                                                         *)
(* Encoding labels are atoms; "none" = not given; a BOM (sniffed where reading starts) can only  *)
(* be utf-8 / utf-16le / utf-16be.  Precedence among the certain declarations: BOM, override,   *)
(* transport (the tentative sources belong to C06).                                             *)
(*                                                                                               *)
(* Result [out, enc, conf, from]: from = where the document starts: "current" (the position at   *)
(* hand-over - the file-object convention, and the only reading every source kind of the        *)
(* property can implement) | "start" (absolute offset 0) | "start+bom" (absolute offset = length *)
(* of the BOM that was sniffed at the CURRENT position).                                        *)
(* Named deviation of the code: "seekable-bytes-rewound" - detectBOM() sniffs at the current     *)
(* position and then seeks to an ABSOLUTE offset (0, or the BOM length), so a seekable byte      *)
(* stream that is not at its start is read from (near) its beginning, while the same bytes from  *)
(* a non-seekable stream, or the same characters from a text stream, are read from the current  *)
(* position.                                                                                     *)
EXTENDS Naturals
CONSTANT KnownDefects
Modes == {"none", "r", "rb", "int"}
K(n, y, s, m) == [name |-> n, yields |-> y, seek |-> s, mode |-> m]
\* objects that are not streams (no position, cannot be closed)
Plain == {K("str", "text", FALSE, "none"), K("bytes", "bytes", FALSE, "none")}
\* real library objects, with the attributes they really have (the harness verifies these claims on the objects)
Library == {K("stringio", "text", TRUE, "none"), K("textiowrapper", "text", TRUE, "none"), K("textfile", "text", TRUE, "r"),
            K("codecsopen", "text", TRUE, "rb"), K("gziptext", "text", TRUE, "none"),
            K("bytesio", "bytes", TRUE, "none"), K("binfile", "bytes", TRUE, "rb"), K("rawfile", "bytes", TRUE, "rb"),
            K("bufferedreader", "bytes", TRUE, "none"), K("zipmember", "bytes", TRUE, "r"), K("gzipbin", "bytes", TRUE, "int"),
            K("httpresponse", "bytes", FALSE, "none"), K("httpchunked", "bytes", FALSE, "none"),
            K("addinfourl", "bytes", FALSE, "none")}
\* duck-typed sources: every combination of what read() yields, seekability and a truthful / lying / odd .mode
\* (seek = FALSE: no seek/tell at all for mode "none", seekable()/tell() that raise otherwise; short reads)
Duck == {K("duck", y, s, m) : y \in {"text", "bytes"}, s \in BOOLEAN, m \in Modes}
Kinds == Plain \cup Library \cup Duck
\* closing is meaningful (and every read(), also read(0), then raises ValueError) for the io-backed objects
\* (a closed HTTPResponse reads as empty; a closed codecs.open() reader answers read(0) without touching the file)
Closable(k) == k \in Library /\ k.name \notin {"httpresponse", "httpchunked", "addinfourl", "codecsopen"}

Open(k, bom, ov, tr, pos, D) ==
    IF pos = "closed" THEN [out |-> "ValueError", enc |-> "none", conf |-> "none", from |-> "none"]
    ELSE IF k.yields = "text"
    THEN IF ov # "none" \/ tr # "none"
         THEN [out |-> "TypeError", enc |-> "none", conf |-> "none", from |-> "none"]     \* an encoding cannot be set for text
         ELSE [out |-> "unicode", enc |-> "utf-8", conf |-> "certain", from |-> "current"]
    ELSE [out |-> "binary", enc |-> IF bom # "none" THEN bom ELSE IF ov # "none" THEN ov ELSE tr, conf |-> "certain",
          from |-> IF "seekable-bytes-rewound" \in D /\ k.seek /\ pos # "start"
                   THEN (IF bom # "none" THEN "start+bom" ELSE "start") ELSE "current"]

\* the explored domain: an encoding is declared for byte sources; a BOM is only there when something is left to read
Declared(k, bom, ov, tr, pos) ==
    /\ k \in Plain => pos = "start"
    /\ pos = "closed" => Closable(k)
    /\ IF k.yields = "text" THEN bom = "none"
       ELSE /\ (bom # "none" \/ ov # "none" \/ tr # "none")
            /\ pos \in {"end", "closed"} => (bom = "none")
\* the property at this level: only what read() yields matters - not the attributes, not seekability, not the library
KindIndependent(bom, ov, tr, pos, D) ==
    \A k1, k2 \in Kinds : (k1.yields = k2.yields /\ Declared(k1, bom, ov, tr, pos) /\ Declared(k2, bom, ov, tr, pos))
                          => Open(k1, bom, ov, tr, pos, D) = Open(k2, bom, ov, tr, pos, D)
\* and the document always starts where the caller left the source
FromCurrent(k, bom, ov, tr, pos, D) == Open(k, bom, ov, tr, pos, D).from \in {"current", "none"}
=============================================================================
