------------------------------ MODULE SourceKind ------------------------------
(* C05, the stream factory HTMLInputStream(source, **kwargs): which stream class a source kind  *)
(* gets and which encoding is in force when one is DECLARED (so that it is "certain"), for      *)
(* every source kind the factory distinguishes and every way of declaring.  Encoding labels are *)
(* atoms here; "none" = not given.  A BOM can only be utf-8 / utf-16le / utf-16be.              *)
(* Precedence among the certain declarations: BOM, then override_encoding, then                 *)
(* transport_encoding (as documented by html5lib; the tentative sources belong to C06).         *)
EXTENDS Naturals
TextKinds == {"str", "stringio", "shorttext"}
ByteKinds == {"bytes", "bytesio", "nonseekable", "shortbytes", "httpresponse", "httpchunked", "addinfourl"}
Kinds == TextKinds \cup ByteKinds

\* what opening source kind k with the given declarations yields
Open(k, bom, ov, tr) ==
    IF k \in TextKinds
    THEN IF ov # "none" \/ tr # "none"
         THEN [out |-> "TypeError", enc |-> "none", conf |-> "none"]          \* an encoding cannot be set for text
         ELSE [out |-> "unicode", enc |-> "utf-8", conf |-> "certain"]        \* charEncoding of a text stream
    ELSE [out |-> "binary", enc |-> IF bom # "none" THEN bom ELSE IF ov # "none" THEN ov ELSE tr, conf |-> "certain"]

Declared(k, bom, ov, tr) == IF k \in TextKinds THEN bom = "none" ELSE (bom # "none" \/ ov # "none" \/ tr # "none")
\* the property at this level: the byte source kinds are interchangeable
KindIndependent(bom, ov, tr) == \A k1, k2 \in ByteKinds : Open(k1, bom, ov, tr) = Open(k2, bom, ov, tr)
=============================================================================
