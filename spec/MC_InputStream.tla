--------------------------- MODULE MC_InputStream ---------------------------
(* Every source text of <= MaxLen code points over Alpha, delivered under EVERY read schedule   *)
(* (the source is built lazily: each read returns any non-empty piece of <= MaxPiece code       *)
(* points, or end-of-source; so every prefix is a state), against every client call sequence    *)
(* of <= MaxOps calls of the kinds the tokenizer issues: char(), charsUntil(set, opposite) with *)
(* the tokenizer's stop sets, and unget() of the characters obtained by the immediately         *)
(* preceding char() calls in LIFO order (EOF included).  One TLC action per implementation      *)
(* step that matters: call start, each read, unget.                                             *)
EXTENDS InputStream, TLC, Json
CONSTANTS Alpha, MaxPiece, MaxLen, MaxOps, Export, Check

Pieces == UNION {[1..n -> Alpha] : n \in 1..MaxPiece}
Letters == <<65, 90, 97, 98, 122>>                           \* stands for asciiLetters (only membership matters)
UntilOps == {UntilOp(<<38, 60, 0>>, FALSE),                 \* data / rcdata: up to & < NUL
             UntilOp(<<9, 10, 12, 13, 32>>, TRUE),           \* run of space characters
             UntilOp(Letters, TRUE)}                         \* run of ASCII letters
Idle == [k |-> "idle", set |-> <<>>, opp |-> FALSE, acc |-> <<>>]

VARIABLES s, raw, pend, prd, cs, eof, h, nops
vars == <<s, raw, pend, prd, cs, eof, h, nops>>

Init == /\ s = IsInit /\ raw = <<>> /\ pend = Idle /\ prd = <<>> /\ cs = <<>> /\ eof = FALSE /\ h = <<>> /\ nops = 0

Ev(o, rds, res, t) == [op |-> o.k, a |-> o.set, opp |-> o.opp, rd |-> rds, r |-> res, st |-> Obs(t), ne |-> t.errs,
                       pos |-> Pos(t), ch |-> t.chunk]
Finish(t, res, o, rds) ==
    /\ s' = t /\ pend' = Idle /\ prd' = <<>>
    /\ cs' = IF o.k = "char" THEN Append(cs, res[1]) ELSE <<>>
    /\ nops' = nops + 1
    /\ h' = IF Export THEN Append(h, Ev(o, rds, res, t)) ELSE h

Start(o) == /\ pend = Idle /\ nops < MaxOps
            /\ LET d == Drive(s, o) IN
               IF d.st = "done" THEN Finish(d.s, d.res, o, <<>>)
               ELSE s' = d.s /\ pend' = d.o /\ prd' = <<>> /\ UNCHANGED <<cs, h, nops>>
            /\ UNCHANGED <<raw, eof>>

Feed(data) == /\ pend # Idle
              /\ LET r == ReadChunk(s, data)  rds == Append(prd, data) IN
                 IF ~r.ok THEN Finish(r.s, EofRes(pend), pend, rds)
                 ELSE LET d == Drive(r.s, pend) IN
                      IF d.st = "done" THEN Finish(d.s, d.res, pend, rds)
                      ELSE s' = d.s /\ pend' = d.o /\ prd' = rds /\ UNCHANGED <<cs, h, nops>>
              /\ raw' = raw \o data /\ eof' = (eof \/ data = <<>>)
ReadData == \E p \in Pieces : ~eof /\ Len(raw) + Len(p) <= MaxLen /\ Feed(p)
ReadEof == Feed(<<>>)

UngetAct == /\ pend = Idle /\ cs # <<>> /\ nops < MaxOps
            /\ LET c == Last(cs)  t == Unget(s, c) IN
               /\ s' = t /\ cs' = Front(cs) /\ nops' = nops + 1
               /\ h' = IF Export THEN Append(h, [op |-> "unget", a |-> <<c>>, opp |-> FALSE, rd |-> <<>>, r |-> <<>>,
                                                st |-> Obs(t), ne |-> t.errs, pos |-> Pos(t), ch |-> t.chunk]) ELSE h
            /\ UNCHANGED <<raw, pend, prd, eof>>

Next == \/ Start(CharOp) \/ (\E o \in UntilOps : Start(o)) \/ ReadData \/ ReadEof \/ UngetAct

-----------------------------------------------------------------------------
\* Theorems (invariants).  On the intended design (KnownDefects = {}) all of them hold; each listed
\* deviation falsifies the one that names its effect.
ThmRefine   == "refine" \in Check => Refines(s, raw)
ThmPosition == ("position" \in Check /\ pend = Idle) => (GhostOK(s) /\ PositionOK(s))
ThmErrors   == ("errors" \in Check /\ pend = Idle) => ErrorsOK(s)
ThmTotal    == (eof /\ pend = Idle /\ Buffered(s) = <<>> /\ s.held = <<>> /\ s.ug = 0) => s.errs = InvalidCount(raw)
ThmUnget    == ("unget" \in Check /\ pend = Idle /\ cs # <<>> /\ Last(cs) # EOF_CP) => UngetThenChar(s, Last(cs))
ThmDiscipline == (pend = Idle /\ cs # <<>>) => UngetOK(s, Last(cs))
ThmNoDeviation == KnownDefects = {} => s.fired = {}
ThmExport   == (Export /\ nops = MaxOps /\ pend = Idle) => PrintT(ToJson([h |-> h, raw |-> raw]))
=============================================================================
