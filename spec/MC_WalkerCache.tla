---------------------------- MODULE MC_WalkerCache ----------------------------
(* All histories of <= MaxCalls render calls in ONE process over documents given as their sequences  *)
(* of whitespace runs, each call with strip_whitespace on or off.  Theorem (ThmTokensOwned): what a   *)
(* call emits for every run is what the same call emits in a fresh process - " " when stripping,      *)
(* the run itself otherwise - whatever was rendered before.  It holds for TokenCache = FALSE (the code *)
(* as it is: no process-wide token cache) and TLC refutes it for TokenCache = TRUE, which is the       *)
(* model-level demonstration that a shared mutable token is exactly what this theorem excludes.        *)
(* Every history is exported and rendered by real walkers + serializers in one process.                *)
EXTENDS SerLifecycle, TLC, Json
CONSTANTS MaxCalls, TokenCache, Export
NL == "nl"  SP == "sp"  NLSP == "nlsp"           \* "\n", " ", "\n  " (names, the harness maps them to text)
Runs(d) == CASE d = 1 -> <<NL>>                  \* <i>a</i>\n<i>b</i>
             [] d = 2 -> <<NL, NL>>              \* <pre><b>x</b>\n<b>y</b>\n</pre>   (whitespace inside pre is kept by the filter,
             [] d = 3 -> <<NLSP, SP, NL>>        \*  but it is the same cached dict)
             [] d = 4 -> <<SP>>
Pre(d) == d = 2
VARIABLES cache, hist
Init == cache = EmptyCache /\ hist = <<>>
\* the whitespace filter leaves runs inside pre alone
Call(d, strip) ==
    /\ Len(hist) < MaxCalls
    /\ LET eff == strip /\ ~Pre(d)
           w == WsWalk(cache, Runs(d), eff, TokenCache)
           f == WsWalk(EmptyCache, Runs(d), eff, TokenCache)
       IN /\ cache' = w.cache
          /\ hist' = Append(hist, [doc |-> d, strip |-> strip, out |-> w.out, eq |-> w.out = f.out])
Next == \E d \in 1..4, strip \in BOOLEAN : Call(d, strip)
ThmTokensOwned == \A i \in 1..Len(hist) : hist[i].eq
ThmExport == (Export /\ Len(hist) = MaxCalls) => PrintT(ToJson([hist |-> hist]))
=============================================================================
