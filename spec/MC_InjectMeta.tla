--------------------------- MODULE MC_InjectMeta ---------------------------
(* Bounded-exhaustive exploration of the inject-meta-charset machine.                         *)
(*  Mode = "layout": Pre \o <head> hc </head> \o Post for every head content hc of <= MaxLen   *)
(*                   tokens over the in-head alphabet, built token by token (every prefix a    *)
(*                   state), x every choice of wrapper (head as Start/End pair or as EmptyTag, *)
(*                   with/without html and body around it, meta/comment after the head);      *)
(*  Mode = "free":   every token sequence of <= MaxLen tokens over the full alphabet, well     *)
(*                   formed or not (several heads, no head, meta before head, end tags without *)
(*                   start tags, upper-case names, namespaced attributes).                     *)
(*  Mode = "content": <html><head> M </head>.. where M is a meta whose content VALUE is built     *)
(*                   fragment by fragment (every prefix a state) from the pieces of a Content-  *)
(*                   Type value: media type, separators, the parameter name charset in several  *)
(*                   letter cases and with U+017F, '=', blank, both quotes, labels; M is a       *)
(*                   pragma (http-equiv first / content first) or a non-carrier (name=).         *)
(* Theorems: the machine refines the whole-stream transformation Exp and satisfies the         *)
(* property clauses on Dom; queue invariant; nothing is lost on balanced streams; idempotence. *)
(* Every state is exported (inp, enc, out) for replay into the real filter.                    *)
EXTENDS InjectMeta, TLC, Json
CONSTANTS Mode, Alpha, MaxLen, Export, EncName

Enc == IF EncName = "utf-8" THEN <<117,116,102,45,56>> ELSE <<107,111,105,56,45,114>>      \* "utf-8" / "koi8-r"
Foo == <<108,97,116,105,110,50>>                                                           \* "latin2"
T(t, n, ns, a, d) == [t |-> t, n |-> n, ns |-> ns, a |-> a, d |-> d, p |-> None, s |-> None]
A(k, v) == <<None, k, v>>
S_ct      == <<67,111,110,116,101,110,116,45,84,121,112,101>>                               \* "Content-Type"
S_old     == <<116,101,120,116,47,104,116,109,108,59,32,99,104,97,114,115,101,116,61,108,97,116,105,110,50>>  \* "text/html; charset=latin2"
S_nochar  == <<116,101,120,116,47,104,116,109,108>>                                         \* "text/html"
S_refresh == <<114,101,102,114,101,115,104>>                                                \* "refresh"
S_CHARSET == <<67,72,65,82,83,69,84>>
S_HEAD    == <<72,69,65,68>>
S_HTTPEQ  == <<72,84,84,80,45,69,81,85,73,86>>

MetaC    == T("EmptyTag", N_meta, NS_html, <<A(N_charset, Foo)>>, <<>>)
MetaSame == T("EmptyTag", N_meta, NS_html, <<A(N_charset, Enc)>>, <<>>)
MetaP    == T("EmptyTag", N_meta, NS_html, <<A(N_http_equiv, S_ct), A(N_content, S_old)>>, <<>>)
MetaPrev == T("EmptyTag", N_meta, NS_html, <<A(N_content, S_nochar), A(N_http_equiv, N_content_type)>>, <<>>)   \* content first, no charset in it
MetaN    == T("EmptyTag", N_meta, NS_html, <<A(N_name, <<120>>), A(N_content, S_old)>>, <<>>)                   \* not a declaration
MetaR    == T("EmptyTag", N_meta, NS_html, <<A(N_http_equiv, S_refresh), A(N_content, S_old)>>, <<>>)          \* other pragma
MetaPC   == T("EmptyTag", N_meta, NS_html, <<A(N_http_equiv, N_content_type), A(N_content, S_old), A(N_charset, Foo)>>, <<>>)
MetaNoCt == T("EmptyTag", N_meta, NS_html, <<A(N_http_equiv, N_content_type)>>, <<>>)                          \* pragma without content
MetaUp   == T("EmptyTag", N_meta, NS_html, <<A(S_CHARSET, Foo)>>, <<>>)                                         \* outside Dom
MetaUpP  == T("EmptyTag", N_meta, NS_html, <<A(S_HTTPEQ, N_content_type), A(N_content, S_old)>>, <<>>)         \* outside Dom
MetaNs   == T("EmptyTag", N_meta, NS_html, <<<<NS_xlink, N_charset, Foo>>>>, <<>>)                              \* namespaced attribute
TitleS   == T("StartTag", N_title, NS_html, <<>>, <<>>)
TitleE   == T("EndTag", N_title, NS_html, <<>>, <<>>)
Txt      == T("Characters", None, None, <<>>, <<120, 233>>)
Spc      == T("SpaceCharacters", None, None, <<>>, <<10>>)
Cmt      == T("Comment", None, None, <<>>, <<99>>)
HeadS    == T("StartTag", N_head, NS_html, <<>>, <<>>)
HeadSA   == T("StartTag", N_head, NS_html, <<A(N_id, <<104>>)>>, <<>>)
HeadE    == T("EndTag", N_head, NS_html, <<>>, <<>>)
HeadEm   == T("EmptyTag", N_head, None, <<>>, <<>>)
HeadEmA  == T("EmptyTag", N_head, None, <<A(N_id, <<104>>)>>, <<>>)
HeadUp   == T("StartTag", S_HEAD, NS_html, <<>>, <<>>)
HtmlS    == T("StartTag", N_html, NS_html, <<>>, <<>>)
HtmlE    == T("EndTag", N_html, NS_html, <<>>, <<>>)
BodyS    == T("StartTag", N_body, NS_html, <<>>, <<>>)
BodyE    == T("EndTag", N_body, NS_html, <<>>, <<>>)
Doct     == [t |-> "Doctype", n |-> N_html, ns |-> None, a |-> <<>>, d |-> <<>>, p |-> None, s |-> None]

InHead == IF Alpha = "core" THEN {MetaC, MetaP, MetaN, TitleS, Txt, Cmt}
          ELSE {MetaC, MetaSame, MetaP, MetaPrev, MetaN, MetaR, MetaPC, MetaNoCt, MetaNs, TitleS, TitleE, Txt, Spc, Cmt}
Free   == {MetaC, MetaP, MetaN, MetaUp, MetaUpP, TitleS, Txt, Cmt, HeadS, HeadE, HeadEm, HeadUp, HtmlS, BodyS}
Wraps  == {  \* <<pre, head start (or <<>> when the head is an EmptyTag placed in pre), head end, post>>
    <<<<HtmlS>>, <<HeadS>>, <<HeadE>>, <<BodyS, BodyE, HtmlE>>>>,
    <<<<Doct, Cmt, HtmlS, Spc>>, <<HeadSA>>, <<HeadE>>, <<Spc, BodyS, MetaC, Txt, BodyE, HtmlE>>>>,
    <<<<>>, <<HeadS>>, <<HeadE>>, <<>>>>,
    <<<<HtmlS>>, <<HeadS>>, <<HeadE>>, <<BodyS, MetaP, BodyE, HtmlE>>>>,
    <<<<HtmlS, HeadEm>>, <<>>, <<>>, <<BodyS, BodyE, HtmlE>>>>,
    <<<<HeadEmA>>, <<>>, <<>>, <<MetaC>>>> }

\* the theorems of one stream, evaluated once per state (chk) with the stream, the machine's output and Dom shared
Check(stream) ==
    LET d   == Dom(stream)
        out == ImFilter(stream, Enc)
        fin == ImFinal(ImInit, stream, Enc)
    IN [dom      |-> d,
        out      |-> out,
        refines  |-> (d => out = Exp(stream, Enc)),
        property |-> (d => Property(stream, out, Enc)),
        queue    |-> ((fin.state = "in_head") <=> (fin.pending # <<>>)),
        lost     |-> (d => fin.pending = <<>> /\ fin.found),
        idem     |-> (d => ImFilter(out, Enc) = out)]

\* ---- content mode: pieces of a Content-Type value
Frags == { <<116,101,120,116,47,104,116,109,108>>, <<59,32>>, N_charset, S_CHARSET, <<67,104,65,114,83,101,116>>,
           <<99,104,97,114,383,101,116>>, <<61>>, <<32>>, <<34>>, <<39>>, Foo, <<120>> }
CMeta(shape, v) ==
    IF shape = 1 THEN T("EmptyTag", N_meta, NS_html, <<A(N_http_equiv, S_ct), A(N_content, v)>>, <<>>)
    ELSE IF shape = 2 THEN T("EmptyTag", N_meta, NS_html, <<A(N_content, v), A(N_http_equiv, N_content_type)>>, <<>>)
    ELSE T("EmptyTag", N_meta, NS_html, <<A(N_name, <<120>>), A(N_content, v)>>, <<>>)
CStream(h, shape) == <<HtmlS, HeadS>> \o (IF shape = 2 THEN <<TitleS, Txt, TitleE>> ELSE <<>>) \o <<CMeta(shape, Flatten(h))>>
                     \o <<HeadE, BodyS, BodyE, HtmlE>>

VARIABLES hc, w, chk
vars == <<hc, w, chk>>
StreamOf(h, ww) == IF Mode = "content" THEN CStream(h, ww) ELSE IF Mode = "layout" THEN ww[1] \o ww[2] \o (IF ww[2] = <<>> THEN <<>> ELSE h) \o ww[3] \o ww[4] ELSE h
Stream == StreamOf(hc, w)
Init == /\ hc = <<>> /\ w \in (IF Mode = "layout" THEN Wraps ELSE IF Mode = "content" THEN (IF Alpha = "core" THEN {1} ELSE {1, 2, 3}) ELSE {<<>>})
        /\ chk = Check(StreamOf(hc, w))
Next == /\ Len(hc) < MaxLen /\ UNCHANGED w
        /\ (Mode = "layout" => w[2] # <<>>)
        /\ \E tok \in (IF Mode = "layout" THEN InHead ELSE IF Mode = "content" THEN Frags ELSE Free) : hc' = Append(hc, tok)
        /\ chk' = Check(StreamOf(hc', w))

ThmInDomain    == Mode \in {"layout", "content"} => chk.dom
ThmRefines     == chk.refines            \* Dom(Stream) => ImFilter(Stream) = Exp(Stream)
ThmProperty    == chk.property           \* Dom(Stream) => Declares /\ NoConflict /\ OthersUnchanged /\ MetasAligned
ThmQueue       == chk.queue              \* in_head  <=>  pending queue non-empty
ThmNothingLost == chk.lost               \* Dom(Stream) => queue flushed and a declaration accounted for
ThmIdempotent  == chk.idem               \* Dom(Stream) => filtering the output again changes nothing
ThmExport      == Export => PrintT(ToJson([inp |-> Stream, enc |-> Enc, out |-> chk.out, dom |-> chk.dom]))
=============================================================================
