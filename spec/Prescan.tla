------------------------------ MODULE Prescan ------------------------------
(* C06.  The WHATWG "prescan a byte stream to determine its encoding" algorithm (June-2020    *)
(* text, transcribed from memory: the standard is not available offline), the "get an         *)
(* attribute" sub-algorithm, the "extract a character encoding from a meta element" algorithm *)
(* and "get an encoding" (label table from webencodings = Gen_Encodings).                     *)
(*                                                                                            *)
(* Shape: position-based operators that mirror html5lib's EncodingParser / EncodingBytes /    *)
(* ContentAttrParser step by step (positions are 0-based like the code's; "running off the    *)
(* end" = the code's StopIteration = the standard's "runs out of bytes => abort").  Every     *)
(* operator takes D, the set of enabled deviations: D = {} is the INTENDED design (the        *)
(* standard), D = the listed known findings is the CODE-FAITHFUL model.                       *)
(*                                                                                            *)
(* ASSUMED clauses (both configurations follow the code; marked `ASSUMED` where they occur):  *)
(*  - '<' also ends an unquoted attribute value and a tag name (the tag-name '<' is reprocessed) *)
(*  - "runs out of bytes" is read literally: any step that would move the position past the   *)
(*    end of the window aborts the prescan with no result - also when the closing quote of an *)
(*    attribute value is the very last byte of the window                                     *)
(*  - the newer "<?x" UTF-16 XML-declaration sniffing step of the prescan is not modelled     *)
EXTENDS Unicode, Gen_Encodings

PrescanDefects == {
    "prescan-comment-needs-second-dashes",  \* <!--> and <!---> do not end the comment (search for --> starts after <!--)
    "prescan-meta-slash",                   \* <meta/ is not a meta
    "prescan-meta-prefix-not-a-tag",        \* <metaX ...> is not consumed as a tag (its attributes are scanned as markup)
    "prescan-lt-skips-next-byte",           \* '<' + non-letter: the byte after '<' is skipped unexamined (<<meta ...>)
    "prescan-endtag-name-offset",           \* </x: the letter test looks at the SECOND byte after '</'
    "prescan-duplicate-attr",               \* duplicate attributes of a meta are processed (the standard skips them)
    "prescan-meta-early-return",            \* returns at the first attribute that completes a declaration
    "prescan-invalid-charset-ignored",      \* charset=<unknown label> is ignored instead of making the meta fail
    "prescan-x-user-defined",               \* x-user-defined is not mapped to windows-1252
    "prescan-content-semicolon",            \* unquoted charset value in content= does not stop at ';'
    "prescan-charset-retry" }               \* 'charset' not followed by '=' in content=: gives up instead of searching on

Ws == {9, 10, 12, 13, 32}
SkipSet == Ws \cup {47}                     \* get-an-attribute step 1: whitespace and '/'
NameEnd == Ws \cup {61, 47, 62}             \* '=' (non-empty name), whitespace, '/', '>'
\* ASSUMED: html5lib also ends an unquoted attribute value and a tag name at '<' (spacesAngleBrackets;
\* for the tag name the '<' is then reprocessed).  I believe the current standard has only whitespace
\* and '>' in both places, but cannot confirm offline, so both configurations follow the code.
ValueEnd == Ws \cup {60, 62}
TagNameEnd == Ws \cup {60, 62}
IsLetter(b) == (b >= 97 /\ b <= 122) \/ (b >= 65 /\ b <= 90)

S_meta == <<60, 109, 101, 116, 97>>                                   \* <meta
S_cmtopen == <<60, 33, 45, 45>>                                      \* <!--
S_cmtclose == <<45, 45, 62>>                                         \* -->
S_endopen == <<60, 47>>                                              \* </
S_bang == <<60, 33>>                                                 \* <!
S_pi == <<60, 63>>                                                   \* <?
S_charset == <<99, 104, 97, 114, 115, 101, 116>>                     \* charset
S_content == <<99, 111, 110, 116, 101, 110, 116>>                    \* content
S_httpequiv == <<104, 116, 116, 112, 45, 101, 113, 117, 105, 118>>   \* http-equiv
S_contenttype == <<99, 111, 110, 116, 101, 110, 116, 45, 116, 121, 112, 101>>   \* content-type

-----------------------------------------------------------------------------
\* --- get an encoding (webencodings.lookup / html5lib lookupEncoding) ---
RECURSIVE StripL(_)
StripL(s) == IF s # <<>> /\ s[1] \in Ws THEN StripL(Tail(s)) ELSE s
RECURSIVE StripR(_)
StripR(s) == IF s # <<>> /\ s[Len(s)] \in Ws THEN StripR(SubSeq(s, 1, Len(s) - 1)) ELSE s
\* label: a code-point / byte sequence, or None.  Result: an encoding name or "none".
GetEncoding(label) ==
    IF label = None THEN "none"
    ELSE LET l == Lower(StripR(StripL(label))) IN IF l \in DOMAIN LabelTable THEN LabelTable[l] ELSE "none"
IsUtf16(e) == e \in {"utf-16le", "utf-16be"}

\* --- position helpers (0-based positions; n = Len(w) means "not found / past the end") ---
\* Reference definitions:
FirstInRef(w, p, S) ==
    IF \E q \in p..(Len(w) - 1) : w[q + 1] \in S
    THEN CHOOSE q \in p..(Len(w) - 1) : w[q + 1] \in S /\ \A r \in p..(q - 1) : w[r + 1] \notin S
    ELSE Len(w)
FirstNotInRef(w, p, S) ==
    IF \E q \in p..(Len(w) - 1) : w[q + 1] \notin S
    THEN CHOOSE q \in p..(Len(w) - 1) : w[q + 1] \notin S /\ \A r \in p..(q - 1) : w[r + 1] \in S
    ELSE Len(w)
MatchAt(w, p, s) == p >= 0 /\ p + Len(s) <= Len(w) /\ \A k \in 1..Len(s) : w[p + k] = s[k]
FindSeqRef(w, p, s) ==           \* bytes.index(s, p): first match at or after p, or -1
    IF \E q \in p..(Len(w) - Len(s)) : MatchAt(w, q, s)
    THEN CHOOSE q \in p..(Len(w) - Len(s)) : MatchAt(w, q, s) /\ \A r \in p..(q - 1) : ~MatchAt(w, r, s)
    ELSE -1
\* The same functions through SequencesExt!SelectInSeq (index of the first element satisfying a test, 0 if
\* none), for which TLC has a Java implementation: a 1024-byte window costs milliseconds instead of tens of
\* milliseconds.  MC_Prescan checks them against the reference definitions (ThmHelpers).
LOCAL SX == INSTANCE SequencesExt
FirstIn(w, p, S) ==
    IF p >= Len(w) THEN Len(w)
    ELSE LET i == SX!SelectInSeq(SubSeq(w, p + 1, Len(w)), LAMBDA b : b \in S) IN IF i = 0 THEN Len(w) ELSE p + i - 1
FirstNotIn(w, p, S) ==
    IF p >= Len(w) THEN Len(w)
    ELSE LET i == SX!SelectInSeq(SubSeq(w, p + 1, Len(w)), LAMBDA b : b \notin S) IN IF i = 0 THEN Len(w) ELSE p + i - 1
RECURSIVE FindSeq(_, _, _)
FindSeq(w, p, s) ==
    LET q == FirstIn(w, IF p < 0 THEN 0 ELSE p, {s[1]}) IN
    IF q + Len(s) > Len(w) THEN -1 ELSE IF MatchAt(w, q, s) THEN q ELSE FindSeq(w, q + 1, s)
Bytes(w, lo, hi) == SubSeq(w, lo + 1, hi)          \* bytes lo .. hi-1

-----------------------------------------------------------------------------
\* --- extracting a character encoding from a meta element's content (ContentAttrParser.parse) ---
\* v: the (lower-cased) attribute value.  Result: the label (a byte sequence) or None.
RECURSIVE ExtractFrom(_, _, _)
ExtractFrom(v, from, D) ==
    LET n == Len(v)
        j == FindSeq(v, from, S_charset)
    IN  IF j < 0 THEN None
        ELSE LET p1 == FirstNotIn(v, j + 7, Ws) IN          \* skip whitespace after the word
             IF p1 >= n THEN None
             ELSE IF v[p1 + 1] # 61
                  THEN (IF "prescan-charset-retry" \in D THEN None ELSE ExtractFrom(v, p1, D))
             ELSE LET p3 == FirstNotIn(v, p1 + 1, Ws) IN   \* skip whitespace after '='
                  IF p3 >= n THEN None
                  ELSE IF v[p3 + 1] \in {34, 39}
                       THEN LET g == FirstIn(v, p3 + 1, {v[p3 + 1]}) IN
                            IF g >= n THEN None ELSE Bytes(v, p3 + 1, g)      \* unmatched quote: nothing
                       ELSE Bytes(v, p3, FirstIn(v, p3, IF "prescan-content-semicolon" \in D THEN Ws ELSE Ws \cup {59}))
Extract(v, D) == ExtractFrom(Lower(v) \o <<>>, 0, D)

-----------------------------------------------------------------------------
\* --- get an attribute (EncodingParser.getAttribute) ---
\* result kinds: "attr" (name, value, position afterwards), "none" (no attribute; position), "stop" (ran out of bytes)
AStop == [k |-> "stop", name |-> <<>>, value |-> <<>>, p |-> 0]
ANone(p) == [k |-> "none", name |-> <<>>, value |-> <<>>, p |-> p]
AAttr(nm, v, p) == [k |-> "attr", name |-> nm, value |-> v, p |-> p]

\* steps 8-12: position q is at the '='
AttrValue(w, nm, q) ==
    LET n == Len(w) IN
    IF q + 1 >= n THEN AStop                                                \* step 8: advance past '='
    ELSE LET r == FirstNotIn(w, q + 1, Ws) IN                               \* step 9
         IF r >= n THEN ANone(n)
         ELSE IF w[r + 1] \in {34, 39}                                      \* step 10: quoted
              THEN LET g == FirstIn(w, r + 1, {w[r + 1]}) IN
                   IF g + 1 >= n THEN AStop                                 \* no closing quote, or nothing after it (ASSUMED: literal "runs out of bytes")
                   ELSE AAttr(nm, Bytes(w, r + 1, g), g + 1)
         ELSE IF w[r + 1] = 62 THEN AAttr(nm, <<>>, r)
         ELSE LET e == FirstIn(w, r + 1, ValueEnd) IN                       \* step 11: unquoted
              IF e >= n THEN AStop ELSE AAttr(nm, Bytes(w, r, e), e)

GetAttr(w, p) ==
    LET n == Len(w) IN
    IF p >= n THEN AStop
    ELSE LET q0 == FirstNotIn(w, p, SkipSet) IN                             \* step 1
         IF q0 >= n \/ w[q0 + 1] = 62 THEN ANone(q0)                        \* step 2
         ELSE LET e == FirstIn(w, q0 + 1, NameEnd)                          \* step 4 (a leading '=' belongs to the name)
                  nm == Bytes(w, q0, e)
              IN  IF e >= n THEN AStop
                  ELSE IF w[e + 1] = 61 THEN AttrValue(w, nm, e)
                  ELSE IF w[e + 1] \in {47, 62} THEN AAttr(nm, <<>>, e)
                  ELSE LET q1 == FirstNotIn(w, e, Ws) IN                    \* step 6: spaces
                       IF q1 >= n THEN AStop
                       ELSE IF w[q1 + 1] = 61 THEN AttrValue(w, nm, q1)
                       ELSE AAttr(nm, <<>>, q1 - 1)                         \* step 7 (the code steps one byte back)

RECURSIVE SkipAttrs(_, _)
SkipAttrs(w, p) == LET a == GetAttr(w, p) IN IF a.k = "attr" THEN SkipAttrs(w, a.p) ELSE a

-----------------------------------------------------------------------------
\* --- the meta element: got pragma / need pragma / charset ---
MapMeta(e, D) ==
    IF IsUtf16(e) THEN "utf-8"
    ELSE IF e = "x-user-defined" /\ "prescan-x-user-defined" \notin D THEN "windows-1252"
    ELSE e
MetaInit == [seen |-> {}, got |-> FALSE, need |-> "null", cs |-> "null"]
\* one attribute.  out = "cont" (go on with the next attribute) or the encoding to return at once.
MetaStep(ms, a, D) ==
    LET early == "prescan-meta-early-return" \in D
        dups  == "prescan-duplicate-attr" \in D
        ms1   == [ms EXCEPT !.seen = @ \cup {a.name}]
    IN  IF a.name \in ms.seen /\ ~dups THEN [ms |-> ms, out |-> "cont"]
        ELSE IF a.name = S_httpequiv THEN
                LET g == IF dups THEN a.value = S_contenttype ELSE (ms.got \/ a.value = S_contenttype) IN
                IF early /\ g /\ ms.need = "true" THEN [ms |-> ms1, out |-> MapMeta(ms.cs, D)]
                ELSE [ms |-> [ms1 EXCEPT !.got = g], out |-> "cont"]
        ELSE IF a.name = S_charset THEN
                LET e == GetEncoding(a.value) IN
                IF e = "none" /\ "prescan-invalid-charset-ignored" \in D THEN [ms |-> ms1, out |-> "cont"]
                ELSE IF e # "none" /\ early THEN [ms |-> ms1, out |-> MapMeta(e, D)]
                ELSE [ms |-> [ms1 EXCEPT !.cs = IF e = "none" THEN "failure" ELSE e, !.need = "false"], out |-> "cont"]
        ELSE IF a.name = S_content THEN
                LET e == GetEncoding(Extract(a.value, D))
                    take == e # "none" /\ (ms.cs = "null" \/ (dups /\ ms.need = "true"))
                IN  IF ~take THEN [ms |-> ms1, out |-> "cont"]
                    ELSE IF early /\ ms.got THEN [ms |-> ms1, out |-> MapMeta(e, D)]
                    ELSE [ms |-> [ms1 EXCEPT !.cs = e, !.need = "true"], out |-> "cont"]
        ELSE [ms |-> ms1, out |-> "cont"]
\* "processing" step at the end of the attributes
MetaEnd(ms, D) ==
    IF "prescan-meta-early-return" \in D THEN "cont"
    ELSE IF ms.need = "null" \/ (ms.need = "true" /\ ~ms.got) \/ ms.cs = "failure" THEN "cont"
    ELSE MapMeta(ms.cs, D)

\* the same machine over an explicit attribute list (used for the model-level theorem MetaDecl)
RECURSIVE MetaList(_, _, _)
MetaList(attrs, ms, D) ==
    IF attrs = <<>> THEN MetaEnd(ms, D)
    ELSE LET r == MetaStep(ms, attrs[1], D) IN IF r.out # "cont" THEN r.out ELSE MetaList(Tail(attrs), r.ms, D)
\* declarative reading of the standard: only the FIRST attribute of each name counts; a charset attribute
\* decides alone; otherwise content= needs http-equiv=content-type; attribute order is irrelevant
FirstVal(attrs, nm) == IF \E i \in 1..Len(attrs) : attrs[i].name = nm
                       THEN attrs[CHOOSE i \in 1..Len(attrs) : attrs[i].name = nm /\ \A j \in 1..(i - 1) : attrs[j].name # nm].value
                       ELSE None
MetaDecl(attrs) ==
    LET c == FirstVal(attrs, S_charset)  t == FirstVal(attrs, S_content)  h == FirstVal(attrs, S_httpequiv) IN
    IF c # None THEN (IF GetEncoding(c) = "none" THEN "cont" ELSE MapMeta(GetEncoding(c), {}))
    ELSE IF t # None /\ h = S_contenttype /\ GetEncoding(Extract(t, {})) # "none" THEN MapMeta(GetEncoding(Extract(t, {})), {})
    ELSE "cont"

-----------------------------------------------------------------------------
\* --- the scanner (EncodingParser.getEncoding).  Scan(w, p, D): the code's `for _ in self.data` with  ---
\* --- _position = p, i.e. the next byte looked at is p + 1.  Result: an encoding name or "none".     ---
RECURSIVE Scan(_, _, _), MetaAttrs(_, _, _, _), TagFrom(_, _, _), OtherFrom(_, _, _)

\* <!x ...>, <?x ...>, </ + non-letter: advance to the first '>' at or after pos
OtherFrom(w, pos, D) == LET g == FirstIn(w, pos, {62}) IN IF g >= Len(w) THEN "none" ELSE Scan(w, g, D)

\* a tag whose name starts at pos: skip the name, then all attributes
TagFrom(w, pos, D) ==
    LET r == FirstIn(w, pos, TagNameEnd) IN
    IF r >= Len(w) THEN "none"
    ELSE IF w[r + 1] = 60 THEN Scan(w, r - 1, D)                        \* ASSUMED (see TagNameEnd): '<' is reprocessed
    ELSE LET a == SkipAttrs(w, r) IN IF a.k = "stop" THEN "none" ELSE Scan(w, a.p, D)

MetaAttrs(w, p, ms, D) ==
    LET a == GetAttr(w, p) IN
    IF a.k = "stop" \/ (a.k = "none" /\ a.p >= Len(w)) THEN "none"      \* ran out of bytes: abort
    ELSE IF a.k = "none" THEN (LET r == MetaEnd(ms, D) IN IF r = "cont" THEN Scan(w, a.p, D) ELSE r)
    ELSE LET r == MetaStep(ms, a, D) IN IF r.out # "cont" THEN r.out ELSE MetaAttrs(w, a.p, r.ms, D)

Scan(w, p, D) ==
    LET n == Len(w)
        q == FirstIn(w, p + 1, {60})
    IN  IF q >= n THEN "none"
        ELSE IF MatchAt(w, q, S_cmtopen) THEN
            \* the '>' must be preceded by two '-' and come after the '<'; the two '-' may be those of '<!--'
            LET from == IF "prescan-comment-needs-second-dashes" \in D THEN q + 4 ELSE q + 2
                j == FindSeq(w, from, S_cmtclose)
            IN  IF j < 0 THEN "none" ELSE Scan(w, j + 2, D)
        ELSE IF MatchAt(w, q, S_meta) THEN
            LET pos == q + 5 IN
            IF pos >= n THEN "none"
            ELSE IF w[pos + 1] \in Ws THEN MetaAttrs(w, pos, MetaInit, D)
            ELSE IF w[pos + 1] = 47
                 THEN (IF "prescan-meta-slash" \in D THEN Scan(w, pos, D) ELSE MetaAttrs(w, pos, MetaInit, D))
            ELSE (IF "prescan-meta-prefix-not-a-tag" \in D THEN Scan(w, pos, D) ELSE TagFrom(w, q + 1, D))
        ELSE IF MatchAt(w, q, S_endopen) THEN
            LET pos == q + 2 IN
            IF "prescan-endtag-name-offset" \in D
            THEN (IF pos + 1 >= n THEN "none"
                  ELSE IF IsLetter(w[pos + 2]) THEN TagFrom(w, pos + 1, D) ELSE OtherFrom(w, pos, D))
            ELSE (IF pos >= n THEN "none"
                  ELSE IF IsLetter(w[pos + 1]) THEN TagFrom(w, pos, D) ELSE OtherFrom(w, pos, D))
        ELSE IF MatchAt(w, q, S_bang) \/ MatchAt(w, q, S_pi) THEN OtherFrom(w, q + 2, D)
        ELSE LET pos == q + 1 IN
             IF pos >= n THEN "none"
             ELSE IF IsLetter(w[pos + 1]) THEN TagFrom(w, pos, D)
             ELSE Scan(w, IF "prescan-lt-skips-next-byte" \in D THEN pos ELSE q, D)   \* "any other byte: do nothing"

\* the prescan of one window (at most 1024 bytes; the caller cuts it)
\* (Lower(w) \o <<>>: makes TLC build the lower-cased window once, as a tuple)
PrescanWindow(w, D) == Scan(Lower(w) \o <<>>, -1, D)
WindowSize == 1024
Window(data, pos) == SubSeq(data, pos + 1, IF Len(data) < pos + WindowSize THEN Len(data) ELSE pos + WindowSize)

\* which enabled deviations explain a difference between the code-faithful and the intended result
PrescanResp(w, D) ==
    LET base == PrescanWindow(w, D)
        one == {d \in D : PrescanWindow(w, D \ {d}) # base}
    IN  IF one # {} THEN one ELSE LET zero == PrescanWindow(w, {}) IN {d \in D : PrescanWindow(w, {d}) # zero}
=============================================================================
