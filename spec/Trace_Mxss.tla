----------------------------- MODULE Trace_Mxss -----------------------------
(* Runs recorded from the REAL pipeline  parse -> walk -> sanitizer.Filter -> HTMLSerializer   *)
(* -> parse / parseFragment.  One trace = one allow-list configuration L (the lists of the     *)
(* Filter instance, projected on the names the cases mention) and a sequence of cases          *)
(*    [ps : the tags the real sanitizer let through, as <<ns, name, attrs>>,                    *)
(*     rp : the re-parsed trees, each [cx, F] with F the flat projection of the real tree:      *)
(*          <<ns, name, attrs, parent ns, parent name, number of children>> per element and     *)
(*          <<None, None, <<>>, .., .., 0>> per comment node (harness/props/c10.py: flat())]    *)
(* One transition per case.  The decision procedure is Mxss!Clauses: SafeTree and Corresponds   *)
(* on every recorded tree.  Verdicts are total: every case of every trace is judged and the     *)
(* violated (clause, construct) pairs are returned for every re-parse of every rejected case.   *)
(* No prediction is made here (the parser, serializer and sanitizer models are bound to the     *)
(* code by C01, C08, C09 and by the replay of MC_Mxss); the constants KnownDefects /            *)
(* ParserDefects are not consulted by the judge.                                                *)
EXTENDS Mxss, TLC, Json, IOUtils
Traces == JsonDeserialize(IOEnv.TRACE_FILE)
ToSet(s) == {s[i] : i \in 1..Len(s)}
NsDec(x) == CASE x = <<-2>> -> NS_html [] x = <<-3>> -> NS_svg [] x = <<-4>> -> NS_mathml [] x = <<-5>> -> NS_xlink
              [] x = <<-6>> -> NS_xml [] x = <<-7>> -> NS_xmlns [] OTHER -> x
Pairs(s) == {<<NsDec(s[i][1]), s[i][2]>> : i \in 1..Len(s)}
Lof(r) == [el |-> Pairs(r.el), at |-> Pairs(r.at), uri |-> Pairs(r.uri), ref |-> Pairs(r.ref), loc |-> ToSet(r.loc),
           prot |-> ToSet(r.prot), ct |-> ToSet(r.ct), cp |-> ToSet(r.cp), ck |-> ToSet(r.ck), sp |-> ToSet(r.sp)]
ExpAttrs(a) == IF a = <<>> THEN <<>> ELSE [i \in 1..Len(a) |-> <<NsDec(a[i][1]), a[i][2], a[i][3]>>]
ExpPassed(ps) == IF ps = <<>> THEN <<>>
                 ELSE [i \in 1..Len(ps) |-> [t |-> "StartTag", ns |-> NsDec(ps[i][1]), n |-> ps[i][2], a |-> ExpAttrs(ps[i][3])]]
ExpFlat(F) == IF F = <<>> THEN <<>>
              ELSE [i \in 1..Len(F) |-> [ns |-> NsDec(F[i][1]), n |-> F[i][2], a |-> ExpAttrs(F[i][3]),
                                         pns |-> NsDec(F[i][4]), pn |-> F[i][5], nk |-> F[i][6]]]

VARIABLES tid, l, bad, verdict
vars == <<tid, l, bad, verdict>>

\* the violated clauses of every re-parse of one case ({} everywhere = the property holds for the case)
JudgeCase(c, L) ==
    LET ps == ExpPassed(c.ps) IN
    [j \in 1..Len(c.rp) |-> Clauses(ExpFlat(c.rp[j].F), L, ps)]
Rejected(js) == \E j \in 1..Len(js) : js[j] # {}

Init == tid \in 1..Len(Traces) /\ l = 1 /\ bad = <<>> /\ verdict = "run"
Step == /\ verdict = "run"
        /\ LET tr == Traces[tid] IN
           IF l > Len(tr.cases) THEN verdict' = (IF bad = <<>> THEN "accept" ELSE "issues") /\ UNCHANGED <<tid, l, bad>>
           ELSE LET js == JudgeCase(tr.cases[l], Lof(tr.L)) IN
                /\ bad' = IF Rejected(js) THEN Append(bad, [c |-> l, cl |-> js]) ELSE bad
                /\ l' = l + 1 /\ UNCHANGED <<tid, verdict>>
Done == verdict # "run" /\ UNCHANGED vars
Next == Step \/ Done
Report == verdict # "run" => PrintT(ToJson([tid |-> tid, l |-> l, v |-> verdict, f |-> bad]))
=============================================================================
