----------------------------- MODULE EtreeWalker -----------------------------
(* C11.  html5lib/treewalkers/etree.py: the walker over an ElementTree, where text lives in   *)
(* .text / .tail and a "node" is the cursor tuple (element, index in parent, stack of         *)
(* ancestor elements, flag).                                                                   *)
(*                                                                                             *)
(* ElementTree shape E (harness/proj.py etree_shape): flat preorder sequence of                *)
(*   [tag \in {"elem","doc","doctype","comment"}, raw (raw tag), attrs (<<raw key, value>>),     *)
(*    text, tail, pub, sys, kids (indices), par]                                               *)
(* Cursor: [el, key, parents, flag \in {"none","text","tail"}, bare];  bare = the Element      *)
(* object itself (not a tuple): only the start node is ever bare.                               *)
(*                                                                                             *)
(* AbsE(E, i) is the abstract tree the ElementTree denotes (independent of the walker);        *)
(* the refinement theorem is  EtRun(E, start, {}) = Walk(AbsE(E, start), {}).                  *)
EXTENDS Walker

Truthy(s) == s # None /\ s # <<>>
LBRACE == 123
RBRACE == 125
FirstIndex(s, c) == CHOOSE i \in 1..Len(s) : s[i] = c /\ \A j \in 1..(i - 1) : s[j] # c

\* ElementTree's Clark notation "{uri}local".  What the ElementTree denotes (also harness/proj.py clark()):
\* a namespaced name only when both parts are non-empty.
ClarkDenotes(raw) ==
    IF raw # <<>> /\ raw[1] = LBRACE /\ Contains(raw, RBRACE)
    THEN LET i == FirstIndex(raw, RBRACE) IN
         IF i > 2 /\ i < Len(raw) THEN [ns |-> SubSeq(raw, 2, i - 1), local |-> SubSeq(raw, i + 1, Len(raw))]
         ELSE [ns |-> None, local |-> raw]
    ELSE [ns |-> None, local |-> raw]
\* what getNodeDetails does: tag_regexp = "{([^}]*)}(.*)" splits whenever the name starts with "{" and has a "}",
\* also when one part is empty (deviation "etree-clark-empty-part": namespace "" / empty local name reach the stream).
\* Bound: names contain no U+000A (the tokenizer cannot produce one; "." would stop there).
ClarkSplit(raw, D) ==
    IF "etree-clark-empty-part" \in D
    THEN IF raw # <<>> /\ raw[1] = LBRACE /\ Contains(raw, RBRACE)
         THEN LET i == FirstIndex(raw, RBRACE) IN [ns |-> SubSeq(raw, 2, i - 1), local |-> SubSeq(raw, i + 1, Len(raw))]
         ELSE [ns |-> None, local |-> raw]
    ELSE ClarkDenotes(raw)

-----------------------------------------------------------------------------
\* ---------- the tree an ElementTree denotes ----------
RECURSIVE AbsE(_, _), AbsKids(_, _, _)
AbsAttrs(attrs) == [j \in 1..Len(attrs) |->
                       LET c == ClarkDenotes(attrs[j][1]) IN <<c.ns, c.local, attrs[j][2]>>]
AbsKids(E, kids, acc) ==
    IF kids = <<>> THEN acc
    ELSE LET k == kids[1]
             a1 == Append(acc, AbsE(E, k))
             a2 == IF Truthy(E[k].tail) THEN Append(a1, TextNode(E[k].tail)) ELSE a1
         IN AbsKids(E, Tail(kids), a2)
AbsE(E, i) ==
    LET e == E[i]
        inner == AbsKids(E, e.kids, IF Truthy(e.text) THEN <<TextNode(e.text)>> ELSE <<>>)
    IN CASE e.tag = "doc"     -> DocNode(inner)
         [] e.tag = "doctype" -> DoctypeNode(e.text, e.pub, e.sys)
         [] e.tag = "comment" -> CommentNode(e.text)
         [] e.tag = "elem"    -> LET c == ClarkDenotes(e.raw) IN ElemNode(c.ns, c.local, AbsAttrs(e.attrs), inner)

-----------------------------------------------------------------------------
\* ---------- cursors ----------
Cur(el, key, parents, flag) == [el |-> el, key |-> key, parents |-> parents, flag |-> flag, bare |-> FALSE]
Bare(el) == [el |-> el, key |-> -1, parents |-> <<>>, flag |-> "none", bare |-> TRUE]
NoCur == [el |-> 0, key |-> -1, parents |-> <<>>, flag |-> "none", bare |-> TRUE]        \* Python None
NoEtEv == [op |-> "-", cin |-> NoCur, cout |-> NoCur]
IndexIn(kids, x) == CHOOSE i \in 1..Len(kids) : kids[i] = x          \* list(parent).index(x): elements are unique

\* getNodeDetails(node)
EtDetails(E, c, D) ==
    IF ~c.bare /\ c.flag \in {"text", "tail"}
    THEN Details("text", None, None, <<>>, IF c.flag = "text" THEN E[c.el].text ELSE E[c.el].tail, None, None, FALSE)
    ELSE LET e == E[c.el] IN
         CASE e.tag = "doc"     -> Details("doc", None, None, <<>>, <<>>, None, None, FALSE)
           [] e.tag = "doctype" -> Details("doctype", None, e.text, <<>>, <<>>, e.pub, e.sys, FALSE)
           [] e.tag = "comment" -> Details("comment", None, None, <<>>, e.text, None, None, FALSE)
           [] e.tag = "elem"    ->
                 LET nm == ClarkSplit(e.raw, D)
                     at == [j \in 1..Len(e.attrs) |->
                               LET a == ClarkSplit(e.attrs[j][1], D) IN <<a.ns, a.local, e.attrs[j][2]>>]
                 IN Details("elem", nm.ns, nm.local, at, <<>>, None, None,
                            Len(e.kids) > 0 \/ Truthy(e.text))                       \* len(node) or node.text

\* getFirstChild(node)
EtFirstChild(E, c) ==
    IF c.flag \in {"text", "tail"} THEN NoCur
    ELSE IF Truthy(E[c.el].text) THEN Cur(c.el, c.key, c.parents, "text")
    ELSE IF Len(E[c.el].kids) > 0 THEN Cur(E[c.el].kids[1], 0, Append(c.parents, c.el), "none")
    ELSE NoCur

\* getNextSibling(node)
EtNextSibling(E, c) ==
    IF c.bare THEN NoCur
    ELSE IF c.flag = "text"
         THEN IF Len(E[c.el].kids) > 0 THEN Cur(E[c.el].kids[1], 0, Append(c.parents, c.el), "none") ELSE NoCur
    ELSE IF Truthy(E[c.el].tail) /\ c.flag # "tail" THEN Cur(c.el, c.key, c.parents, "tail")
    ELSE LET sibs == E[c.parents[Len(c.parents)]].kids IN
         IF c.key < Len(sibs) - 1 THEN Cur(sibs[c.key + 2], c.key + 1, c.parents, "none") ELSE NoCur

\* getParentNode(node)
EtParent(E, c) ==
    IF c.bare THEN NoCur
    ELSE IF c.flag = "text"
         THEN IF c.parents = <<>> THEN Bare(c.el) ELSE Cur(c.el, c.key, c.parents, "none")
    ELSE LET parent == c.parents[Len(c.parents)]
             rest   == Front(c.parents)
         IN IF rest = <<>> THEN Bare(parent)
            ELSE Cur(parent, IndexIn(E[rest[Len(rest)]].kids, parent) - 1, rest, "none")

EtStep(E, start, st, D) ==
    NrStep(LAMBDA c : EtDetails(E, c, D), LAMBDA c : EtFirstChild(E, c), LAMBDA c : EtNextSibling(E, c),
           LAMBDA c : EtParent(E, c), LAMBDA c : c = Bare(start), NoCur, NoEtEv, st, D)
EtInit(start) == [cur |-> Bare(start), ph |-> "visit", out |-> <<>>, ev |-> NoEtEv]
EtRun(E, start, D) ==
    LET RECURSIVE Run(_)
        Run(st) == IF st.ph = "done" THEN st.out ELSE Run(EtStep(E, start, st, D))
    IN Run(EtInit(start))

\* ---------- what a cursor stands for (refinement mapping) and its invariant ----------
RECURSIVE AncestorsUpTo(_, _, _)
\* ancestors of element i strictly below-or-equal start, outermost first, excluding i itself
AncestorsUpTo(E, i, start) == IF i = start \/ i = 0 THEN <<>> ELSE Append(AncestorsUpTo(E, E[i].par, start), E[i].par)
CursorInv(E, start, c) ==
    \/ c = NoCur
    \/ c = Bare(start)
    \/ /\ ~c.bare /\ c.el \in 1..Len(E)
       /\ c.parents = AncestorsUpTo(E, c.el, start)
       /\ IF c.el = start THEN c.flag = "text" /\ c.key = -1
          ELSE c.key = IndexIn(E[E[c.el].par].kids, c.el) - 1
       /\ c.flag = "text" => Truthy(E[c.el].text)
       /\ c.flag = "tail" => Truthy(E[c.el].tail)

-----------------------------------------------------------------------------
\* ---------- raw names that leak into Clark notation ("etree-clark-raw-name") ----------
\* html5lib's etree builder writes "{uri}local" only for elements of the three namespaces of the parser and for the
\* adjusted foreign attributes (xlink / xml / xmlns); every other name of the document is stored RAW.  A raw
\* attribute name "{x}y" is therefore indistinguishable from Clark notation: the walker (correctly, for an
\* ElementTree) reports (x, y), the dom walker reports (None, "{x}y") for the same document.  UnClark(stream) is the
\* stream with every namespace the builder cannot have written folded back into the raw name: what the document said.
BuilderElemNs == {NS_html, NS_svg, NS_mathml}
BuilderAttrNs == {NS_xlink, NS_xml, NS_xmlns}
RawName(ns, local) == <<LBRACE>> \o ns \o <<RBRACE>> \o local
UnClarkTok(tok) ==
    IF tok.t \notin {"StartTag", "EmptyTag", "EndTag"} THEN tok
    ELSE LET t1 == IF tok.ns = None \/ tok.ns \in BuilderElemNs THEN tok
                   ELSE [tok EXCEPT !.ns = None, !.n = RawName(tok.ns, tok.n)]
         IN [t1 EXCEPT !.a = [j \in 1..Len(tok.a) |->
                                 IF tok.a[j][1] = None \/ tok.a[j][1] \in BuilderAttrNs THEN tok.a[j]
                                 ELSE <<None, RawName(tok.a[j][1], tok.a[j][2]), tok.a[j][3]>>]]
UnClark(toks) == [i \in 1..Len(toks) |-> UnClarkTok(toks[i])]

\* the deviations that change the stream of this ElementTree
EtFiredOn(E, start, D) == {d \in D : EtRun(E, start, D) # EtRun(E, start, D \ {d})}
=============================================================================
