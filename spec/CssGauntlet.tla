----------------------------- MODULE CssGauntlet -----------------------------
(* C09, CSS part.                                                                             *)
(*  (1) THE PROPERTY  CssSafe(style, L): a style value keeps only allowed properties /        *)
(*      keywords and never url(), read the way a browser tokenises it.                        *)
(*  (2) THE CODE  SanitizeCss(style, L, D): sanitizer.Filter.sanitize_css step by step; each  *)
(*      regular expression is modelled by its effect on the code-point sequence (the          *)
(*      arguments why greedy/lazy/backtracking matching is deterministic here are given next  *)
(*      to each operator).  D = set of deviation names that are switched on.                  *)
(* L.cp, L.ck, L.sp: allowed CSS properties, keywords, SVG properties (sets of texts).        *)
EXTENDS UrlScheme
CssDefectNames == {"css-url-function-survives"}

C_url == <<117, 114, 108>>
C_rgb == <<114, 103, 98, 40>>                                       \* "rgb("
C_background == <<98, 97, 99, 107, 103, 114, 111, 117, 110, 100>>
C_border  == <<98, 111, 114, 100, 101, 114>>
C_margin  == <<109, 97, 114, 103, 105, 110>>
C_padding == <<112, 97, 100, 100, 105, 110, 103>>
ShorthandFamilies == {C_background, C_border, C_margin, C_padding}
Units == {<<99, 109>>, <<101, 109>>, <<101, 120>>, <<105, 110>>, <<109, 109>>, <<112, 99>>, <<112, 116>>, <<112, 120>>,
          <<37>>, <<44>>, <<41>>}                                   \* cm em ex in mm pc pt px % , )

IsPropC(c) == c = 45 \/ PyWord(c)                                   \* [-\w]
RECURSIVE PropRunEnd(_, _)
PropRunEnd(s, i) == IF i <= Len(s) /\ IsPropC(s[i]) THEN PropRunEnd(s, i + 1) ELSE i
FirstSegment(p) == SubSeq(p, 1, FirstOf(p, 1, {45}) - 1)            \* prop.split('-')[0]

\* the numeric / colour literal of the keyword test, as a position-set automaton (exact for a backtracking
\* matcher: a position set is the set of all places where the prefix of the pattern can end):
\*   ^(#[0-9a-fA-F]+|rgb\(\d+%?,\d*%?,?\d*%?\)?|\d{0,2}\.?\d{0,2}(cm|em|ex|in|mm|pc|pt|px|%|,|\))?)$
KwLiteral(k) ==
    LET n == Len(k)
        Opt(S, c)  == S \cup {p + 1 : p \in {q \in S : q <= n /\ k[q] = c}}
        Req(S, c)  == {p + 1 : p \in {q \in S : q <= n /\ k[q] = c}}
        DigStar(S) == {q \in 1..(n + 1) : \E p \in S : p <= q /\ \A j \in p..(q - 1) : PyDigit(k[j])}
        DigPlus(S) == {q \in DigStar(S) : \E p \in S : p < q /\ \A j \in p..(q - 1) : PyDigit(k[j])}
        Dig02(S)   == {q \in 1..(n + 1) : \E p \in S : p <= q /\ q <= p + 2 /\ \A j \in p..(q - 1) : PyDigit(k[j])}
        OptUnit(S) == S \cup {q \in 1..(n + 1) : \E p \in S : p < q /\ SubSeq(k, p, q - 1) \in Units}
        hex == n >= 2 /\ k[1] = 35 /\ \A j \in 2..n : IsHex(k[j])
        rgb == StartsAt(k, 1, C_rgb)
               /\ (n + 1) \in Opt(Opt(DigStar(Opt(Opt(DigStar(Req(Opt(DigPlus({5}), 37), 44)), 37), 44)), 37), 41)
        num == (n + 1) \in OptUnit(Dig02(Opt(Dig02({1}), 46)))
    IN hex \/ rgb \/ num
KwOK(k, L) == k \in L.ck \/ KwLiteral(k)

-----------------------------------------------------------------------------
\* (1) the property
IsIdentC(c) == IsAlnum(c) \/ c \in {45, 95} \/ c >= 128
\* a url( function token: "url" ASCII-case-insensitively, immediately followed by "(", not the tail of a longer identifier
UrlFnAt(s, i) == /\ i + 3 <= Len(s) /\ LowerC(s[i]) = 117 /\ LowerC(s[i + 1]) = 114 /\ LowerC(s[i + 2]) = 108 /\ s[i + 3] = 40
                 /\ (i = 1 \/ ~IsIdentC(s[i - 1]))
HasUrlFn(s) == \E i \in 1..Len(s) : UrlFnAt(s, i)
\* one declaration "prop : value" (already cut at the semicolons)
\* ASSUMED: keywords are separated by any Unicode whitespace (Python's notion, which the code uses); a browser
\* separates on ASCII whitespace only and would treat e.g. "red<U+2003>solid" as one unknown identifier, which
\* makes the declaration invalid, i.e. harmless.
DeclSafe(piece, L) ==
    LET d == TrimPy(piece) IN
    d = <<>> \/
    LET w == PropRunEnd(d, 1)
        j == SkipWs(d, w)
    IN /\ w > 1 /\ j <= Len(d) /\ d[j] = 58
       /\ LET prop == Lower(SubSeq(d, 1, w - 1))                    \* CSS property names are ASCII case-insensitive
              val == SubSeq(d, j + 1, Len(d))
          IN \/ prop \in L.cp
             \/ prop \in L.sp
             \/ (FirstSegment(prop) \in ShorthandFamilies /\ \A i \in 1..Len(SplitWs(val)) : KwOK(SplitWs(val)[i], L))
RECURSIVE PiecesFrom(_, _)
PiecesFrom(s, i) == IF i > Len(s) + 1 THEN <<>>
                    ELSE LET e == FirstOf(s, i, {59}) IN <<SubSeq(s, i, e - 1)>> \o PiecesFrom(s, e + 1)
CssNoEscape(s) == \A i \in 1..Len(s) : s[i] # 92      \* a backslash could spell url( or a property name through CSS escapes
CssNoUrl(s)    == ~HasUrlFn(s)
CssDeclsOK(s, L) == LET ps == PiecesFrom(s, 1) IN \A i \in 1..Len(ps) : DeclSafe(ps[i], L)
CssSafe(s, L)  == CssNoEscape(s) /\ CssNoUrl(s) /\ CssDeclsOK(s, L)

-----------------------------------------------------------------------------
\* (2) the code
\* step 1: re.sub(r'url\s*\(\s*[^\s)]+?\s*\)\s*', ' ', style).  Index after a match starting at i, 0 if none.
\* The lazy run [^\s)]+? must be followed by \s*\) : a run that stops early is followed by a run character, which is
\* neither, so only the maximal run can succeed; the two greedy \s* cannot usefully give anything back.
RECURSIVE UrlArgEnd(_, _)
UrlArgEnd(s, i) == IF i <= Len(s) /\ ~PySpace(s[i]) /\ s[i] # 41 THEN UrlArgEnd(s, i + 1) ELSE i
CssUrlEnd(s, i) ==
    IF ~StartsAt(s, i, C_url) THEN 0
    ELSE LET j == SkipWs(s, i + 3) IN
         IF j > Len(s) \/ s[j] # 40 THEN 0
         ELSE LET k == SkipWs(s, j + 1)
                  m == UrlArgEnd(s, k)
                  q == SkipWs(s, m)
              IN IF m > k /\ q <= Len(s) /\ s[q] = 41 THEN SkipWs(s, q + 1) ELSE 0
RECURSIVE CssStripUrlFrom(_, _)
CssStripUrlFrom(s, i) == IF i > Len(s) THEN <<>>
                         ELSE LET e == CssUrlEnd(s, i) IN
                              IF e > 0 THEN <<32>> \o CssStripUrlFrom(s, e) ELSE <<s[i]>> \o CssStripUrlFrom(s, i + 1)
CssStripUrl(s) == IF \E i \in 1..Len(s) : s[i] = 40 THEN CssStripUrlFrom(s, 1) ELSE s

\* step 2, the gauntlet: ^([:,;#%.\sa-zA-Z0-9!]|\w-\w|'[\s\w]+'|"[\s\w]+"|\([\d,\s]+\))*$  -- does a tiling exist?
G1(c) == c \in {58, 44, 59, 35, 37, 46, 33} \/ PySpace(c) \/ (c < 128 /\ IsAlnum(c))
RECURSIVE QuotedEnd(_, _)     \* first index >= i that is not in [\s\w]
QuotedEnd(s, i) == IF i <= Len(s) /\ (PySpace(s[i]) \/ PyWord(s[i])) THEN QuotedEnd(s, i + 1) ELSE i
RECURSIVE ParenEnd(_, _)      \* first index >= i that is not in [\d,\s]
ParenEnd(s, i) == IF i <= Len(s) /\ (PyDigit(s[i]) \/ s[i] = 44 \/ PySpace(s[i])) THEN ParenEnd(s, i + 1) ELSE i
RECURSIVE Tiles(_, _)
Tiles(s, i) ==
    i > Len(s) \/
    LET c == s[i] IN
    \/ (G1(c) /\ Tiles(s, i + 1))
    \/ (PyWord(c) /\ i + 2 <= Len(s) /\ s[i + 1] = 45 /\ PyWord(s[i + 2]) /\ Tiles(s, i + 3))
    \/ (c \in {39, 34} /\ LET e == QuotedEnd(s, i + 1) IN e > i + 1 /\ e <= Len(s) /\ s[e] = c /\ Tiles(s, e + 1))
    \/ (c = 40 /\ LET e == ParenEnd(s, i + 1) IN e > i + 1 /\ e <= Len(s) /\ s[e] = 41 /\ Tiles(s, e + 1))
Gauntlet(s) == Tiles(s, 1)

\* step 3: ^\s*([-\w]+\s*:[^:;]*(;\s*|$))*$ .  Every piece is forced: the property run must be maximal (it is followed by
\* \s*:), [^:;]* must run to the next ':' ';' or the end (stopping earlier leaves a character that is neither ';' nor end).
RECURSIVE DeclSyntax(_, _)
DeclSyntax(s, i) ==
    i > Len(s) \/
    LET w == PropRunEnd(s, i)
        j == SkipWs(s, w)
    IN /\ w > i /\ j <= Len(s) /\ s[j] = 58
       /\ LET e == FirstOf(s, j + 1, {58, 59}) IN
          e > Len(s) \/ (s[e] = 59 /\ DeclSyntax(s, SkipWs(s, e + 1)))
Syntax(s) == DeclSyntax(s, SkipWs(s, 1))

\* step 4: re.findall(r"([-\w]+)\s*:\s*([^:;]*)", style), scanning left to right
RECURSIVE Decls(_, _)
Decls(s, i) ==
    IF i > Len(s) THEN <<>>
    ELSE LET w == PropRunEnd(s, i) IN
         IF w = i THEN Decls(s, i + 1)
         ELSE LET j == SkipWs(s, w) IN
              IF j > Len(s) \/ s[j] # 58 THEN Decls(s, w)          \* no ':' after this run: no later start inside it can match either
              ELSE LET k == SkipWs(s, j + 1)
                       e == FirstOf(s, k, {58, 59})
                   IN <<[p |-> SubSeq(s, i, w - 1), v |-> SubSeq(s, k, e - 1)]>> \o Decls(s, e)
KeepDecl(d, L) ==
    /\ d.v # <<>>
    /\ \/ LowerPy(d.p) \in L.cp
       \/ (LowerPy(FirstSegment(d.p)) \in ShorthandFamilies /\ \A i \in 1..Len(SplitWs(d.v)) : KwOK(SplitWs(d.v)[i], L))
       \/ LowerPy(d.p) \in L.sp
RECURSIVE JoinDecls(_, _, _)
JoinDecls(ds, i, L) ==
    IF i > Len(ds) THEN <<>>
    ELSE IF KeepDecl(ds[i], L)
         THEN LET rest == JoinDecls(ds, i + 1, L) IN
              ds[i].p \o <<58, 32>> \o ds[i].v \o <<59>> \o (IF rest = <<>> THEN <<>> ELSE <<32>> \o rest)
         ELSE JoinDecls(ds, i + 1, L)

SanitizeCss(style, L, D) ==
    LET s1 == CssStripUrl(style) IN
    IF ~Gauntlet(s1) \/ ~Syntax(s1) THEN <<>>
    \* deviation: step 1 is case-sensitive and needs a non-space argument, so URL(1), Url(1,2), url( ), url( 1 2 ) reach the
    \* output of an allowed property.  Intended: a style that still contains a url( token is dropped altogether.
    ELSE IF "css-url-function-survives" \notin D /\ HasUrlFn(s1) THEN <<>>
    ELSE JoinDecls(Decls(s1, 1), 1, L)
=============================================================================
