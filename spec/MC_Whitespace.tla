--------------------------- MODULE MC_Whitespace ---------------------------
(* All balanced walker streams of <= MaxLen tokens over a small alphabet (built token by     *)
(* token, so every prefix is a state); theorems checked in every state; every state exported. *)
EXTENDS Whitespace, TLC, Json
CONSTANTS MaxLen, Export, CheckProperty

Names == {N_pre, N_textarea, N_script, N_div}
CharData  == {<<120>>, <<32, 120>>, <<120, 32, 9, 121>>, <<120, 160, 32, 32>>, <<10, 32>>}   \* "x" " x" "x \ty" "x<nbsp>  " "\n "
SpaceData == {<<32>>, <<10, 9>>, <<13>>, <<12, 32>>, <<>>}

T(t, n, d) == [t |-> t, n |-> n, ns |-> None, a |-> <<>>, d |-> d, p |-> None, s |-> None]
VARIABLES inp, open
vars == <<inp, open>>
Init == inp = <<>> /\ open = <<>>
Push(tok) == Len(inp) < MaxLen /\ inp' = Append(inp, tok)
Next == \/ \E n \in Names : Push(T("StartTag", n, <<>>)) /\ open' = Append(open, n)
        \/ open # <<>> /\ Push(T("EndTag", Last(open), <<>>)) /\ open' = Front(open)
        \/ \E d \in CharData : Push(T("Characters", None, d)) /\ UNCHANGED open
        \/ \E d \in SpaceData : Push(T("SpaceCharacters", None, d)) /\ UNCHANGED open
        \/ Push(T("EmptyTag", <<98, 114>>, <<>>)) /\ UNCHANGED open
        \/ Push(T("Comment", None, <<32, 32>>)) /\ UNCHANGED open

ThmCounter    == CounterIsAncestors(inp)
ThmProperty   == CheckProperty => OnlyWhitespaceChanges(inp, WsFilter(inp))
ThmIdempotent == Idempotent(inp)
ThmExport     == Export => PrintT(ToJson([inp |-> inp, out |-> WsFilter(inp)]))
=============================================================================
