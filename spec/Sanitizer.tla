------------------------------ MODULE Sanitizer ------------------------------
(* C09.  The sanitizer filter at token level.                                                 *)
(*  (1) THE PROPERTY  SafeTok / SafeStream over an OUTPUT token stream, given the allow-lists *)
(*      as data (a record L of sets, taken from the Filter instance; html5lib's lists are     *)
(*      never copied into the spec).                                                          *)
(*  (2) THE CODE  SanitizeTok(tok, L, D): sanitize_token / allowed_token / disallowed_token   *)
(*      step by step.  The filter keeps no state between tokens, so a stream is the image of  *)
(*      its tokens (comments vanish).                                                         *)
(* L = [el, at, uri, ref : sets of <<namespace, name>>;  loc : set of names (see Step4);      *)
(*      prot, ct, cp, ck, sp : sets of texts]                                                 *)
EXTENDS CssGauntlet, Gen_Names
DefectNames == UrlDefectNames \cup CssDefectNames

A_style == <<115, 116, 121, 108, 101>>
K_style == <<None, A_style>>
K_xlinkhref == <<NS_xlink, N_href>>
\* Attributes the HTML / SVG / XML Base specifications define as URL-valued, whatever the filter's own
\* attr_val_is_uri says (independent floor for the URI clause; the harness never narrows attr_val_is_uri).
StdUriAttrs == {<<None, N_href>>, <<None, N_src>>, <<None, N_action>>,
                <<None, <<99, 105, 116, 101>>>>,                                  \* cite
                <<None, <<112, 111, 115, 116, 101, 114>>>>,                       \* poster
                <<None, <<108, 111, 110, 103, 100, 101, 115, 99>>>>,              \* longdesc
                <<None, <<98, 97, 99, 107, 103, 114, 111, 117, 110, 100>>>>,      \* background
                <<None, <<112, 105, 110, 103>>>>,                                 \* ping
                <<None, <<102, 111, 114, 109, 97, 99, 116, 105, 111, 110>>>>,     \* formaction
                <<NS_xlink, N_href>>, <<NS_xml, <<98, 97, 115, 101>>>>}           \* xlink:href xml:base

IsTag(tok) == tok.t \in {"StartTag", "EndTag", "EmptyTag"}
AttrKey(x) == <<x[1], x[2]>>
\* ASSUMED (follows the code): a tag without namespace (trees built with namespaceHTMLElements=False) is looked up as HTML
AllowedEl(tok, L) == <<tok.ns, tok.n>> \in L.el \/ (tok.ns = None /\ <<NS_html, tok.n>> \in L.el)

-----------------------------------------------------------------------------
\* (1) the property
AttrSafeClauses(x, L) ==
    (IF AttrKey(x) \in L.at THEN {} ELSE {"attribute"})
    \cup (IF AttrKey(x) \in (L.uri \cup StdUriAttrs) /\ ~UriSchemeSafe(x[3], L.prot) THEN {"uri-scheme"} ELSE {})
    \cup (IF AttrKey(x) \in (L.uri \cup StdUriAttrs) /\ ~UriDataSafe(x[3], L.ct) THEN {"data-type"} ELSE {})
    \cup (IF AttrKey(x) = K_style /\ ~CssNoEscape(x[3]) THEN {"css-escape"} ELSE {})
    \cup (IF AttrKey(x) = K_style /\ ~CssNoUrl(x[3]) THEN {"css-url"} ELSE {})
    \cup (IF AttrKey(x) = K_style /\ ~CssDeclsOK(x[3], L) THEN {"css-declaration"} ELSE {})
\* set of violated clauses of one output token ({} = safe)
TokClauses(tok, L) ==
    IF tok.t = "Comment" THEN {"comment"}
    ELSE IF IsTag(tok)
         THEN (IF AllowedEl(tok, L) THEN {} ELSE {"element"})
              \cup UNION {AttrSafeClauses(tok.a[i], L) : i \in 1..Len(tok.a)}
         ELSE {}
SafeTok(tok, L) == TokClauses(tok, L) = {}
SafeStream(out, L) == \A i \in 1..Len(out) : SafeTok(out[i], L)
\* "disallowed tags survive only as inert text": what one input token may become
IsSubseqByKey(b, a) ==      \* attribute list b keeps a subsequence of the keys of a, in order
    LET RECURSIVE M(_, _)
        M(i, j) == IF i > Len(b) THEN TRUE ELSE IF j > Len(a) THEN FALSE
                   ELSE IF AttrKey(b[i]) = AttrKey(a[j]) THEN M(i + 1, j + 1) ELSE M(i, j + 1)
    IN M(1, 1)
InertImage(inp, out, L) ==
    IF IsTag(inp)
    THEN IF AllowedEl(inp, L) THEN out.t = inp.t /\ out.n = inp.n /\ out.ns = inp.ns /\ IsSubseqByKey(out.a, inp.a)
         ELSE out.t = "Characters"
    ELSE out = inp

-----------------------------------------------------------------------------
\* (2) the code
NsPrefix(ns) == CASE ns = NS_xlink -> <<120, 108, 105, 110, 107>> [] ns = NS_xml -> <<120, 109, 108>>
                  [] ns = NS_xmlns -> <<120, 109, 108, 110, 115>> [] ns = NS_html -> <<104, 116, 109, 108>>
                  [] ns = NS_svg -> <<115, 118, 103>> [] ns = NS_mathml -> <<109, 97, 116, 104>>
                  [] OTHER -> <<63>>            \* the code raises KeyError; walker streams of parsed input never get here
RECURSIVE AttrText(_, _)
AttrText(a, i) == IF i > Len(a) THEN <<>>
                  ELSE <<32>> \o (IF a[i][1] = None THEN a[i][2] ELSE NsPrefix(a[i][1]) \o <<58>> \o a[i][2])
                       \o <<61, 34>> \o SaxEscape(a[i][3]) \o <<34>> \o AttrText(a, i + 1)
\* disallowed_token: the tag as text.  (walker tokens carry no "selfClosing" key, so "/>" is never produced)
TagText(tok) == IF tok.t = "EndTag" THEN <<60, 47>> \o tok.n \o <<62>>
                ELSE <<60>> \o tok.n \o AttrText(tok.a, 1) \o <<62>>
CharTok(d) == [t |-> "Characters", n |-> None, ns |-> None, a |-> <<>>, d |-> d, p |-> None, s |-> None]

\* attrs[attr] = re.sub(r'url\s*\(\s*[^#\s][^)]+?\)', ' ', unescape(attrs[attr])): after "url", \s*, "(", \s*, one character that is
\* neither '#' nor whitespace, then AT LEAST ONE more character other than ')', up to the first ')'.
SvgUrlEnd(s, i) ==
    IF ~StartsAt(s, i, C_url) THEN 0
    ELSE LET j == SkipWs(s, i + 3) IN
         IF j > Len(s) \/ s[j] # 40 THEN 0
         ELSE LET k == SkipWs(s, j + 1) IN
              IF k + 1 > Len(s) \/ s[k] = 35 \/ s[k + 1] = 41 THEN 0
              ELSE LET e == IndexOf(s, k + 2, 41) IN IF e = 0 THEN 0 ELSE e + 1
RECURSIVE SvgRefFrom(_, _)
SvgRefFrom(s, i) == IF i > Len(s) THEN <<>>
                    ELSE LET e == SvgUrlEnd(s, i) IN
                         IF e > 0 THEN <<32>> \o SvgRefFrom(s, e) ELSE <<s[i]>> \o SvgRefFrom(s, i + 1)
SvgRefSub(v) == LET u == SaxUnescape(v) IN IF \E i \in 1..Len(u) : u[i] = 40 THEN SvgRefFrom(u, 1) ELSE u
\* re.search(r'^\s*[^#\s].*', v): the first non-whitespace character exists and is not '#'
NonLocalRef(v) == LET k == SkipWs(v, 1) IN k <= Len(v) /\ v[k] # 35

\* ve: the code is known not to have raised KeyError, so wherever the model says "raise" but cannot tell whether urlsplit
\* raised ValueError first (UriMayAlsoDrop), it did: that attribute was deleted by the except clause
UriV(x, L, D, ve) == IF AttrKey(x) \in L.uri
                     THEN (LET v == UriVerdict(x[3], L.prot, L.ct, D) IN
                           IF ve /\ v = "raise" /\ UriMayAlsoDrop(x[3]) THEN "drop" ELSE v)
                     ELSE "keep"
MapAttrs(a, F(_)) == IF a = <<>> THEN <<>> ELSE [i \in 1..Len(a) |-> F(a[i])]
Step1(a, L)    == SelectSeq(a, LAMBDA x : AttrKey(x) \in L.at)                 \* remove forbidden attributes
Raises(a, L, D, ve) == \E i \in 1..Len(a) : UriV(a[i], L, D, ve) = "raise"
Step2(a, L, D, ve) == SelectSeq(a, LAMBDA x : UriV(x, L, D, ve) = "keep")              \* remove disallowed URL values
Step3(a, L)    == MapAttrs(a, LAMBDA x : IF AttrKey(x) \in L.ref THEN <<x[1], x[2], SvgRefSub(x[3])>> ELSE x)
\* `token["name"] in self.svg_allow_local_href`: a NAME is looked up in the list, so the default list (a set of
\* (None, name) PAIRS) never matches and the step is dead with the defaults; L.loc holds only the entries that are names.
Step4(a, n, L) == IF n \in L.loc THEN SelectSeq(a, LAMBDA x : ~(AttrKey(x) = K_xlinkhref /\ NonLocalRef(x[3]))) ELSE a
Step5(a, L, D) == MapAttrs(a, LAMBDA x : IF AttrKey(x) = K_style THEN <<x[1], x[2], SanitizeCss(x[3], L, D)>> ELSE x)

\* [r |-> "tok" | "none" | "raise", tok |-> output token]
SanitizeTokV(tok, L, D, ve) ==
    IF IsTag(tok)
    THEN IF AllowedEl(tok, L)
         THEN IF tok.t = "EndTag" THEN [r |-> "tok", tok |-> tok]
              ELSE LET a1 == Step1(tok.a, L) IN
                   IF Raises(a1, L, D, ve) THEN [r |-> "raise", tok |-> tok]
                   ELSE [r |-> "tok", tok |-> [tok EXCEPT !.a = Step5(Step4(Step3(Step2(a1, L, D, ve), L), tok.n, L), L, D)]]
         ELSE [r |-> "tok", tok |-> CharTok(TagText(tok))]
    ELSE IF tok.t = "Comment" THEN [r |-> "none", tok |-> tok]
    ELSE [r |-> "tok", tok |-> tok]
SanitizeTok(tok, L, D) == SanitizeTokV(tok, L, D, FALSE)

\* Every attribute is judged on its own: what the filter does with one attribute never depends on the OTHER attributes of
\* the element (their values, their number, their order, or the order in which a set of them is visited).  The image of a
\* tag is the concatenation of the images of its one-attribute tags; the tag raises iff one of them does.
RECURSIVE CatImages(_, _, _, _)
CatImages(tok, i, L, D) ==
    IF i > Len(tok.a) THEN <<>>
    ELSE LET one == SanitizeTok([tok EXCEPT !.a = <<tok.a[i]>>], L, D) IN
         (IF one.r = "tok" THEN one.tok.a ELSE <<>>) \o CatImages(tok, i + 1, L, D)
AttrsIndependent(tok, L, D) ==
    (IsTag(tok) /\ tok.t # "EndTag" /\ AllowedEl(tok, L)) =>
        LET r == SanitizeTok(tok, L, D)
            anyRaise == \E i \in 1..Len(tok.a) : SanitizeTok([tok EXCEPT !.a = <<tok.a[i]>>], L, D).r = "raise"
        IN (r.r = "raise") = anyRaise /\ (r.r = "tok" => r.tok.a = CatImages(tok, 1, L, D))

\* attribute values for which the model also allows "drop" (urlsplit ValueError, see UrlScheme)
MayAlsoDrop(x, L) == AttrKey(x) \in L.uri /\ UriMayAlsoDrop(x[3])
\* does the observed output token agree with the model's (up to MayAlsoDrop)?
AgreesTok(inp, pred, out, L) ==
    IF ~(IsTag(inp) /\ inp.t # "EndTag" /\ AllowedEl(inp, L) /\ \E i \in 1..Len(inp.a) : MayAlsoDrop(inp.a[i], L))
    THEN out = pred
    ELSE /\ out.t = pred.t /\ out.n = pred.n /\ out.ns = pred.ns /\ out.d = pred.d
         /\ IsSubseqByKey(out.a, pred.a)
         /\ \A i \in 1..Len(pred.a) :
               \/ \E j \in 1..Len(out.a) : out.a[j] = pred.a[i]
               \/ \E k \in 1..Len(inp.a) : AttrKey(inp.a[k]) = AttrKey(pred.a[i]) /\ MayAlsoDrop(inp.a[k], L)
=============================================================================
