-------------------------- MODULE Trace_InjectMeta --------------------------
(* Streams recorded from the real inject_meta_charset filter: enc (requested encoding), inp   *)
(* (tokens fed) and out (tokens it yielded).  One transition per input token: the machine's   *)
(* yield for that token must be the next recorded output tokens (pointer o).  At the end the  *)
(* recorded output must be exhausted and, when the input is in the property's domain, the     *)
(* property clauses and the whole-stream transformation are judged on the RECORDED output.    *)
EXTENDS InjectMeta, TLC, Json, IOUtils
Traces == JsonDeserialize(IOEnv.TRACE_FILE)
VARIABLES tid, l, o, st, verdict
vars == <<tid, l, o, st, verdict>>

Init == tid \in 1..Len(Traces) /\ l = 1 /\ o = 1 /\ st = ImInit /\ verdict = "run"
Final(tr) ==
    IF ~Dom(tr.inp) THEN "accept"
    ELSE IF tr.out # Exp(tr.inp, tr.enc) THEN "reject:transformation"
    ELSE IF ~Declares(tr.out, tr.enc) THEN "reject:declares"
    ELSE IF ~NoConflict(tr.out, tr.enc) THEN "reject:conflict"
    ELSE IF ~OthersUnchanged(tr.inp, tr.out) THEN "reject:others-changed"
    ELSE IF ~MetasAligned(tr.inp, tr.out, tr.enc) THEN "reject:metas"
    ELSE IF st.pending # <<>> \/ ~st.found THEN "reject:queue"
    ELSE "accept"
Step ==
    /\ verdict = "run"
    /\ LET tr == Traces[tid] IN
       IF l > Len(tr.inp)
       THEN /\ verdict' = IF o # Len(tr.out) + 1 THEN "reject:extra-output" ELSE Final(tr)
            /\ UNCHANGED <<tid, l, o, st>>
       ELSE LET r == ImStep(st, tr.inp[l], tr.enc)
                n == Len(r.out) IN
            IF o + n - 1 > Len(tr.out) \/ SubSeq(tr.out, o, o + n - 1) # r.out
            THEN verdict' = "reject:step" /\ UNCHANGED <<tid, l, o, st>>
            ELSE l' = l + 1 /\ o' = o + n /\ st' = r.st /\ UNCHANGED <<tid, verdict>>
Done == verdict # "run" /\ UNCHANGED vars
Next == Step \/ Done
Report == verdict # "run" => PrintT(ToJson([tid |-> tid, l |-> l, v |-> verdict]))
=============================================================================
