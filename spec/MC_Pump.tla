------------------------------- MODULE MC_Pump -------------------------------
(* C03, depth pumping derived from the model: for every (prefix, start tag) pair TLC checks   *)
(* whether repeating the tag strictly grows the stack of open elements (1, 2, 3 repetitions).  *)
(* The harness then drives the real parser with prefix . tag^k . suffix for k in the           *)
(* thousands: the inputs that can build pathological depth are found from the specification.   *)
EXTENDS Pipeline, TLC, Json
INSTANCE MC_Tree_frags
VARIABLES pre, tg
Init == pre \in ThemeFrags("pump_prefixes") /\ tg \in ThemeFrags("pump_tokens")
Next == UNCHANGED <<pre, tg>>
Depth(src) == Len(PauseDoc(src, FALSE).ps.open)
Grows == LET d0 == Depth(pre) d1 == Depth(pre \o tg) d2 == Depth(pre \o tg \o tg) d3 == Depth(pre \o tg \o tg \o tg)
         IN d1 > d0 /\ d2 > d1 /\ d3 > d2
ThmExport == Grows => PrintT(ToJson([pre |-> pre, tg |-> tg]))
=============================================================================
