------------------------- MODULE Trace_NumericTable --------------------------
(* C14, numeric references: the harness records, for a contiguous range of reference values,  *)
(* the character the real tokenizer produced; each chunk is checked against NumericRef in one  *)
(* constant-level evaluation (no state explosion).  One initial state per chunk.               *)
EXTENDS Tokenizer, TLC, Json, IOUtils
Traces == JsonDeserialize(IOEnv.TRACE_FILE)     \* [lo |-> first value, vals |-> <<decoded code point per value>>]
VARIABLES tid, l, verdict
vars == <<tid, l, verdict>>
RECURSIVE FirstBad(_, _, _)
FirstBad(lo, vals, k) == IF k > Len(vals) THEN 0 ELSE IF NumericRef(Sat(lo + k - 1)) # vals[k] THEN k ELSE FirstBad(lo, vals, k + 1)
Init == tid \in 1..Len(Traces) /\ l = 0 /\ verdict = "run"
Step == /\ verdict = "run" /\ UNCHANGED tid
        /\ LET tr == Traces[tid] b == FirstBad(tr.lo, tr.vals, 1) IN
           IF b = 0 THEN verdict' = "accept" /\ l' = Len(tr.vals) ELSE verdict' = "reject:value" /\ l' = tr.lo + b - 1
Done == verdict # "run" /\ UNCHANGED vars
Next == Step \/ Done
Report == verdict # "run" => PrintT(ToJson([tid |-> tid, l |-> l, v |-> verdict]))
\* model-level theorem: a numeric reference never yields NUL, a surrogate or something beyond U+10FFFF
ThmRange == \A v \in 0..1114112 : LET r == NumericRef(v) IN r > 0 /\ r <= 1114111 /\ ~IsSurrogate(r)
=============================================================================
