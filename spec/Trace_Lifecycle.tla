---------------------------- MODULE Trace_Lifecycle ----------------------------
(* Call histories recorded from ONE real HTMLParser object.  One TLC step per call.               *)
(*                                                                                                *)
(* kind "vocab": documents inside the vocabulary of Lifecycle.tla.  Each call carries the tokens   *)
(* the real tokenizer delivered in that very call (the recorder sits in front of the unmodified    *)
(* main loop).  The code-faithful machine is re-run on them from the model object carried across   *)
(* the calls; outcome, tree, error codes, the persistent fields read back from the object after    *)
(* the call, and "equal to a brand-new object's result" must all be what the machine says.         *)
(*                                                                                                *)
(* kind "wide": arbitrary inputs (the machine cannot predict the tree).  The harness records the   *)
(* persistent fields before and after each call and two exact comparisons made on the real code:   *)
(* eqFresh (result = brand-new object's result) and eqSeeded (result = result of a brand-new object *)
(* whose persistent fields were set to the recorded snapshot).  Clauses judged here: the snapshot  *)
(* is the COMPLETE carried state (eqSeeded), history independence (eqFresh) unless the listed      *)
(* deviation explains it (pending text at Begin), ThmPendingConfined on the recorded fields; for a *)
(* seeded subset `sub` says whether a FRESH INTERPRETER returned the same (process-wide caches).   *)
(* Verdicts: accept | finding:table-text-survives-abort | outside | reject:<clause>.              *)
EXTENDS Lifecycle, TLC, Json, IOUtils
Traces == JsonDeserialize(IOEnv.TRACE_FILE)
VARIABLES tid, l, obj, found, verdict
vars == <<tid, l, obj, found, verdict>>

Init == tid \in 1..Len(Traces) /\ l = 1 /\ obj = NewParser /\ found = FALSE /\ verdict = "run"

Res(ps, out) == [out |-> out, items |-> IF out = "ok" THEN ps.items ELSE <<>>, errors |-> ps.errors]
OutOf(ps, recorded) == IF ps.aborted THEN "ParseError" ELSE recorded

\* verdict of one vocabulary call, "" = fine
VocabCall(c, tb, o1, s1) ==
    IF o1.outside THEN "outside"
    ELSE IF (c.frag \in BadContainers) # (c.out = "rejected") THEN "reject:argument-domain"
    ELSE IF c.out = "rejected" THEN (IF c.toks # <<>> THEN "reject:argument-domain"
                                     ELSE IF c.pend # o1.pend \/ c.spaceH # o1.spaceH THEN "reject:persistent-fields"
                                     ELSE IF ~c.eqFresh THEN "reject:history-dependence" ELSE "")
    ELSE IF c.out \notin {"ok", "ParseError", "SourceError"} THEN "reject:exception-class"
    ELSE IF (c.out = "ParseError") # o1.aborted THEN "reject:strict-outcome"
    ELSE IF o1.aborted /\ (c.toks = <<>> \/ Run(LcBegin(obj, c.frag, c.strict), Front(c.toks)).aborted) THEN "reject:abort-point"
    ELSE IF (c.out = "ok") # (o1.phase = "done") THEN "reject:completion"
    ELSE IF c.errors # o1.errors THEN "reject:errors"
    ELSE IF c.out = "ok" /\ c.items # TreeView(o1, tb) THEN "reject:tree"
    ELSE IF c.pend # o1.pend \/ c.spaceH # o1.spaceH THEN "reject:persistent-fields"
    ELSE IF c.eqFresh # (Res(o1, c.out) = Res(s1, OutOf(s1, c.out))) THEN "reject:fresh-equality"
    ELSE IF ~c.eqFresh /\ o1.fired = {} THEN "reject:history-dependence"
    ELSE ""
WideCall(c) ==
    IF ~c.eqSeeded THEN "reject:unexplained-state"
    ELSE IF ~c.eqFresh /\ ~(c.pendBegin # <<>> /\ "table-text-survives-abort" \in KnownDefects) THEN "reject:history-dependence"
    ELSE IF c.out = "ok" /\ c.pend # <<>> /\ c.pend # c.pendBegin THEN "reject:pending-after-return"
    ELSE IF c.sub = "ne" /\ c.eqFresh THEN "reject:fresh-interpreter"
    ELSE IF c.sub = "eq" /\ ~c.eqFresh THEN "reject:fresh-object-vs-fresh-interpreter"
    ELSE ""

Step ==
    /\ verdict = "run"
    /\ LET tr == Traces[tid] IN
       IF l > Len(tr.calls)
       THEN verdict' = (IF found THEN "finding:table-text-survives-abort" ELSE "accept") /\ UNCHANGED <<tid, l, obj, found>>
       ELSE LET c == tr.calls[l] IN
            IF tr.kind = "vocab"
            THEN LET o1 == Run(LcBegin(obj, c.frag, c.strict), c.toks)
                     s1 == Run(LcBegin(NewParser, c.frag, c.strict), c.toks)
                     v  == VocabCall(c, tr.tb, o1, s1)
                 IN IF v # "" THEN verdict' = v /\ UNCHANGED <<tid, l, obj, found>>
                    ELSE l' = l + 1 /\ obj' = o1 /\ found' = (found \/ ~c.eqFresh) /\ UNCHANGED <<tid, verdict>>
            ELSE LET v == WideCall(c) IN
                 IF v # "" THEN verdict' = v /\ UNCHANGED <<tid, l, obj, found>>
                 ELSE l' = l + 1 /\ found' = (found \/ ~c.eqFresh) /\ UNCHANGED <<tid, obj, verdict>>
Done == verdict # "run" /\ UNCHANGED vars
Next == Step \/ Done
Report == verdict # "run" => PrintT(ToJson([tid |-> tid, l |-> l, v |-> verdict]))
=============================================================================
