----------------------------- MODULE Trace_Strict -----------------------------
(* C16.  One trace = one input parsed by real HTMLParser objects non-strictly and strictly (same   *)
(* arguments, document or fragment).  Recorded: the non-strict outcome and errors (code, line,     *)
(* column, names of the supplied variables; plus, looked up in html5lib's OWN message table E -    *)
(* this clause is a consistency check of the code, E is not an oracle - whether the code has a      *)
(* template and which variables the template needs), the strict outcome (exception class), whether  *)
(* the strict object's .errors is exactly the first non-strict error, whether str(exception) is     *)
(* E[code] % variables; the line lengths of the newline-normalised input.  For generated conforming *)
(* documents: how many non-ambiguous bare ampersands / omitted caption end tags they contain.       *)
(*                                                                                                  *)
(* Clauses = the strict theorems of Lifecycle.tla (StrictIff, StrictClass, StrictFirst) plus:       *)
(* template exists and its variables are supplied; position within (1,0)..(lines, last column);     *)
(* conforming => no errors.  Deviations of the code (named, CONSTANT KnownDefects):                 *)
(*   "strict-keyerror-missing-template"  a recorded code has no entry in E: strict raises KeyError   *)
(*   "error-position-past-eof"           characters un-got after the stream hit EOF are counted twice *)
(*                                       by position(): errors recorded afterwards lie `slack` columns *)
(*                                       past the end of the last line, where slack = length of the    *)
(*                                       input's tail after its last "<!" (a withheld final lead        *)
(*                                       surrogate not counted) when that tail is "-", a                *)
(*                                       proper prefix of "doctype" or of "[CDATA[" (computed from the  *)
(*                                       input text; root cause shared with C05 unget-prepend-position) *)
(*   "amp-not-ambiguous-reported"        '&' + letters without ';' records expected-named-entity      *)
(*   "caption-implicit-end-reported"     a table-structure start tag that implies </caption> records  *)
(*                                       an error even when the caption is the current node           *)
(* ThmCallingConvention: a call is determined by WHAT is passed, not how: the container as keyword or positional      *)
(* argument, its name in any letter case (element names are ASCII case-insensitive; Lifecycle.tla LowerName), the      *)
(* default scripting=False spelled out, the text as str / text file object / UTF-8 bytes with the encoding stated all   *)
(* denote the same call; `convEq` says that outcome and error list equal those of the plain keyword call, and every     *)
(* clause below is judged on the call as it was spelled (so a conforming fragment must be error-free however spelled).  *)
(* Verdicts: accept | finding (with the set f of deviation names used) | crash (the NON-strict parse  *)
(* raised: totality is C03's) | reject:<clause>.                                                      *)
EXTENDS Lifecycle, TLC, Json, IOUtils
Traces == JsonDeserialize(IOEnv.TRACE_FILE)
VARIABLES tid, verdict, f
vars == <<tid, verdict, f>>
Has(d) == d \in KnownDefects

SubsetSeq(a, b) == \A i \in 1..Len(a) : \E j \in 1..Len(b) : b[j] = a[i]
TemplateOK(e) == e.has /\ SubsetSeq(e.need, e.keys)
PosIn(e, lines) == e.l >= 1 /\ e.l <= Len(lines) /\ e.c >= 0 /\ e.c <= lines[e.l]
PosPast(e, lines, slack) == slack > 0 /\ e.l = Len(lines) /\ e.c = lines[e.l] + slack
Codes(errs) == [i \in 1..Len(errs) |-> errs[i].code]
Count(s, x) == Cardinality({i \in 1..Len(s) : s[i] = x})

\* what strict mode does, as the code does it: ParseError(E[code] % datavars) is built from the FIRST error
\* the deviation "strict-keyerror-missing-template" is about exactly these two tokenizer sites (after-attribute-value and
\* after-attribute-name at EOF); any OTHER code without a template is a new defect, not this one
MissingCodes == {"unexpected-EOF-after-attribute-value", "expected-end-of-tag-but-got-eof"}
KnownMissing(e) == ~e.has /\ e.code \in MissingCodes /\ Has("strict-keyerror-missing-template")
StrictOutcome(errs) ==
    IF errs = <<>> THEN "ok"
    ELSE IF KnownMissing(errs[1]) THEN "KeyError"
    ELSE "ParseError"

Judge(tr) ==
    LET errs == tr.ns.errs
        codes == Codes(errs)
        fKey == IF \E i \in 1..Len(errs) : ~errs[i].has THEN {"strict-keyerror-missing-template"} ELSE {}
        newMissing == \E i \in 1..Len(errs) : ~errs[i].has /\ ~KnownMissing(errs[i])
        fPos == IF \E i \in 1..Len(errs) : ~PosIn(errs[i], tr.lines) THEN {"error-position-past-eof"} ELSE {}
        fAmp == IF tr.conf.is /\ tr.conf.amp > 0 THEN {"amp-not-ambiguous-reported"} ELSE {}
        fCap == IF tr.conf.is /\ tr.conf.cap > 0 THEN {"caption-implicit-end-reported"} ELSE {}
        used == fKey \cup fPos \cup fAmp \cup fCap
    IN
    IF ~tr.convEq THEN [v |-> "reject:calling-convention", f |-> {}]
    ELSE IF tr.ns.out # "ok" THEN [v |-> "crash", f |-> {}]
    ELSE IF tr.st.out # StrictOutcome(errs) THEN
         [v |-> IF ~StrictClass(tr.st.out) THEN "reject:exception-class" ELSE "reject:strict-iff", f |-> {}]
    ELSE IF tr.st.out = "ParseError" /\ ~(tr.st.same /\ tr.st.msg) THEN [v |-> "reject:first-error", f |-> {}]
    ELSE IF tr.st.out = "ok" /\ tr.st.nerr # 0 THEN [v |-> "reject:strict-iff", f |-> {}]
    ELSE IF newMissing THEN [v |-> "reject:no-template", f |-> {}]
    ELSE IF \E i \in 1..Len(errs) : errs[i].has /\ ~SubsetSeq(errs[i].need, errs[i].keys) THEN [v |-> "reject:template-variables", f |-> {}]
    ELSE IF \E i \in 1..Len(errs) : ~PosIn(errs[i], tr.lines) /\ ~PosPast(errs[i], tr.lines, tr.slack) THEN [v |-> "reject:position", f |-> {}]
    ELSE IF tr.conf.is /\ (Len(codes) # tr.conf.amp + tr.conf.cap
                           \/ Count(codes, "expected-named-entity") # tr.conf.amp
                           \/ Count(codes, "XXX-undefined-error") # tr.conf.cap) THEN [v |-> "reject:conforming-errors", f |-> {}]
    ELSE IF used \ KnownDefects # {} THEN
         [v |-> IF fKey \ KnownDefects # {} THEN "reject:no-template"
                ELSE IF fPos \ KnownDefects # {} THEN "reject:position" ELSE "reject:conforming-errors", f |-> {}]
    \* the property itself, on what was recorded
    ELSE IF /\ StrictIff(codes, tr.st.out) /\ StrictClass(tr.st.out)
            /\ \A i \in 1..Len(errs) : TemplateOK(errs[i]) /\ PosIn(errs[i], tr.lines)
            /\ (tr.conf.is => errs = <<>>)
         THEN [v |-> "accept", f |-> {}]
    ELSE IF used = {} THEN [v |-> "reject:unexplained", f |-> {}]
    ELSE [v |-> "finding", f |-> used]

Init == tid \in 1..Len(Traces) /\ verdict = "run" /\ f = {}
Step == /\ verdict = "run"
        /\ LET j == Judge(Traces[tid]) IN verdict' = j.v /\ f' = j.f
        /\ UNCHANGED tid
Done == verdict # "run" /\ UNCHANGED vars
Next == Step \/ Done
Report == verdict # "run" => PrintT(ToJson([tid |-> tid, l |-> 1, v |-> verdict, f |-> f]))
=============================================================================
