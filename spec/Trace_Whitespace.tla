-------------------------- MODULE Trace_Whitespace -------------------------
(* Streams recorded from the real filter.  Per trace: (1) the code's output must equal the    *)
(* code-faithful machine (KnownDefects as configured) token by token; (2) the property is     *)
(* judged on the recorded output; a property failure that the intended machine (no defects)   *)
(* avoids is reported as "finding:<name>" rather than "reject".                               *)
EXTENDS Whitespace, TLC, Json, IOUtils
Traces == JsonDeserialize(IOEnv.TRACE_FILE)
VARIABLES tid, l, st, verdict
vars == <<tid, l, st, verdict>>

Init == tid \in 1..Len(Traces) /\ l = 1 /\ st = WsInit /\ verdict = "run"
Final(tr) ==
    IF Len(tr.out) # Len(tr.inp) THEN "reject:length"
    ELSE IF OnlyWhitespaceChanges(tr.inp, tr.out) /\ WsFilter(tr.out) = tr.out THEN "accept"
    ELSE IF KnownDefects # {} THEN "finding:ws-adjacent-text-tokens"
    ELSE "reject:property"
Step ==
    /\ verdict = "run"
    /\ LET tr == Traces[tid] IN
       IF l > Len(tr.inp) THEN verdict' = Final(tr) /\ UNCHANGED <<tid, l, st>>
       ELSE IF l > Len(tr.out) THEN verdict' = "reject:length" /\ UNCHANGED <<tid, l, st>>
       ELSE LET r == WsStep(st, tr.inp[l]) IN
            IF tr.out[l] # r.out THEN verdict' = "reject:step" /\ UNCHANGED <<tid, l, st>>
            ELSE l' = l + 1 /\ st' = [depth |-> r.depth, prevWs |-> r.prevWs] /\ UNCHANGED <<tid, verdict>>
Done == verdict # "run" /\ UNCHANGED vars
Next == Step \/ Done
Report == verdict # "run" => PrintT(ToJson([tid |-> tid, l |-> l, v |-> verdict]))
=============================================================================
