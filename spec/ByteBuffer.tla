------------------------------ MODULE ByteBuffer ------------------------------
(* C05, byte sources without seek/tell.  html5lib wraps them in BufferedStream: a list of the  *)
(* chunks the underlying read() returned plus a cursor [chunk index, offset], so that BOM and  *)
(* <meta> sniffing can read ahead and seek back.  State b = [buf, pi, po]: self.buffer,        *)
(* self.position[0] (0-based, -1 before the first read), self.position[1].                     *)
(* Intended behaviour: indistinguishable from a seekable file over the same bytes.             *)
(* ASSUMED: seek() is only called after at least one read() (seek on the empty buffer raises   *)
(* IndexError in the code; HTMLBinaryInputStream always sniffs the BOM first), and BOM         *)
(* sniffing itself (detectBOM: one read(4), no loop) is outside this model: the harness lets   *)
(* a short-read byte source return the first 4 bytes in one read when the BOM declares the     *)
(* encoding.                                                                                   *)
EXTENDS Unicode

BInit == [buf |-> <<>>, pi |-> -1, po |-> 0]
RECURSIVE SumLens(_)
SumLens(ss) == IF ss = <<>> THEN 0 ELSE Len(ss[1]) + SumLens(Tail(ss))
Total(b) == SumLens(b.buf)                                         \* _bufferedBytes()
\* tell(): sum(len(c) for c in buffer[:pi]) + po      (buffer[:-1] of the empty list is empty)
BTell(b) == (IF b.pi <= 0 THEN 0 ELSE SumLens(SubSeq(b.buf, 1, b.pi))) + b.po

\* seek(pos): walk the chunks; <<-2, 0>> stands for the IndexError of an exhausted walk
RECURSIVE SeekFrom(_, _, _)
SeekFrom(buf, i, off) == IF i + 1 > Len(buf) THEN <<-2, 0>>
                         ELSE IF Len(buf[i + 1]) < off THEN SeekFrom(buf, i + 1, off - Len(buf[i + 1]))
                         ELSE <<i, off>>
BSeek(b, q) == LET p == SeekFrom(b.buf, 0, q) IN [b EXCEPT !.pi = p[1], !.po = p[2]]

\* _readStream(n) given what the underlying read(n) returned
ReadStream(b, data) == [buf |-> Append(b.buf, data), pi |-> b.pi + 1, po |-> Len(data)]
\* _readFromBuffer(n): [b, rv, rem]  (rem = bytes still wanted from the underlying stream)
RECURSIVE FromBuffer(_, _, _, _, _)
FromBuffer(b, i, off, rem, rv) ==
    IF i < Len(b.buf) /\ rem # 0
    THEN LET d == b.buf[i + 1] IN
         IF rem <= Len(d) - off
         THEN FromBuffer([b EXCEPT !.pi = i, !.po = off + rem], i, 0, 0, rv \o SubSeq(d, off + 1, off + rem))
                  \* (the code leaves the loop here because rem becomes 0; bufferIndex is not advanced)
         ELSE FromBuffer([b EXCEPT !.pi = i, !.po = Len(d)], i + 1, 0, rem - (Len(d) - off), rv \o SubSeq(d, off + 1, Len(d)))
    ELSE [b |-> b, rv |-> rv, rem |-> rem]
\* read(n): first the part served from the buffer; need = size of the underlying read that follows (0 = none)
ReadPlan(b, n) ==
    IF b.buf = <<>> \/ (b.pi = Len(b.buf) /\ b.po = Len(Last(b.buf)))
    THEN [b |-> b, rv |-> <<>>, rem |-> n]
    ELSE FromBuffer(b, b.pi, b.po, n, <<>>)
\* the whole read, `und` = data returned by the underlying read if one is made
BRead(b, n, und) == LET p == ReadPlan(b, n) IN
                    IF p.rem = 0 THEN [b |-> p.b, rv |-> p.rv, used |-> FALSE]
                    ELSE [b |-> ReadStream(p.b, und), rv |-> p.rv \o und, used |-> TRUE]

\* ---------- the property ----------
ShapeOK(b) == IF b.buf = <<>> THEN b.pi = -1 /\ b.po = 0
              ELSE b.pi >= 0 /\ b.pi < Len(b.buf) /\ b.po >= 0 /\ b.po <= Len(b.buf[b.pi + 1])
HoldsPrefix(b, src) == Flatten(b.buf) = SubSeq(src, 1, Total(b))
\* a read of n at logical position p returned exactly what a file would: src[p+1 .. p+k], k <= n, and k = 0 only at the end
LikeFile(src, p, n, rv, b2) == /\ Len(rv) <= n /\ rv = SubSeq(src, p + 1, p + Len(rv)) /\ BTell(b2) = p + Len(rv)
                               /\ (rv = <<>> => p = Len(src))
=============================================================================
