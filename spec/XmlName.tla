------------------------------ MODULE XmlName ------------------------------
(* C20.  InfosetFilter name / comment / public-identifier coercion as per-character          *)
(* machines.  Legality is NOT taken from html5lib: Gen_XmlChars is what expat accepts.        *)
EXTENDS Unicode, Gen_XmlChars
CONSTANT KnownDefects
DefectNames == {"xml-astral-unescaped", "xml-fromxml-unicode-digits", "xml-comment-dash-end-flag-ignored"}

InRanges(c, R) == \E i \in 1..Len(R) : R[i][1] <= c /\ c <= R[i][2]
LegalFirst(c) == IF c > 65535 THEN XmlAstralFirst ELSE (c # 58 /\ InRanges(c, XmlFirstRanges))     \* colon-free
LegalRest(c)  == IF c > 65535 THEN XmlAstralRest  ELSE (c # 58 /\ InRanges(c, XmlRestRanges))
LegalName(n)  == n # <<>> /\ LegalFirst(n[1]) /\ \A i \in 2..Len(n) : LegalRest(n[i])

HexDigit(v) == IF v < 10 THEN 48 + v ELSE 55 + v                     \* upper-case
\* "U%05X": at least five hex digits (six for code points above U+FFFFF)
Esc(c) == (IF c > 1048575 THEN <<85, HexDigit(c \div 1048576)>> ELSE <<85>>)
          \o <<HexDigit((c \div 65536) % 16), HexDigit((c \div 4096) % 16), HexDigit((c \div 256) % 16),
               HexDigit((c \div 16) % 16), HexDigit(c % 16)>>

\* what the machine does with one character
NeedsEscFirst(c) == IF c > 65535 THEN (IF "xml-astral-unescaped" \in KnownDefects THEN FALSE ELSE ~LegalFirst(c))
                    ELSE ~LegalFirst(c)
NeedsEscRest(c)  == IF c > 65535 THEN (IF "xml-astral-unescaped" \in KnownDefects THEN FALSE ELSE ~LegalRest(c))
                    ELSE ~LegalRest(c)
RECURSIVE ToXmlRest(_)
ToXmlRest(s) == IF s = <<>> THEN <<>>
                ELSE (IF NeedsEscRest(s[1]) THEN Esc(s[1]) ELSE <<s[1]>>) \o ToXmlRest(Tail(s))
ToXml(n) == (IF NeedsEscFirst(n[1]) THEN Esc(n[1]) ELSE <<n[1]>>) \o ToXmlRest(Tail(n))

IsHexUp(c) == (c >= 48 /\ c <= 57) \/ (c >= 65 /\ c <= 70)
HexVal(c)  == IF c <= 57 THEN c - 48 ELSE c - 55
PatternAt(s, i) == i + 5 <= Len(s) /\ s[i] = 85 /\ \A k \in 1..5 : IsHexUp(s[i + k])
HasPattern(s) == \E i \in 1..Len(s) : PatternAt(s, i)
\* leftmost, non-overlapping decoding of U+5hex escapes
RECURSIVE FromXmlAt(_, _)
FromXmlAt(s, i) ==
    IF i > Len(s) THEN <<>>
    ELSE IF PatternAt(s, i)
         THEN <<HexVal(s[i+1]) * 65536 + HexVal(s[i+2]) * 4096 + HexVal(s[i+3]) * 256 + HexVal(s[i+4]) * 16 + HexVal(s[i+5])>>
              \o FromXmlAt(s, i + 6)
         ELSE <<s[i]>> \o FromXmlAt(s, i + 1)
FromXml(s) == FromXmlAt(s, 1)

-----------------------------------------------------------------------------
\* comments
RECURSIVE HasDD(_)
HasDD(s) == Len(s) >= 2 /\ ((s[1] = 45 /\ s[2] = 45) \/ HasDD(Tail(s)))
RECURSIVE ReplDD(_)      \* one pass of str.replace("--", "- -")
ReplDD(s) == IF Len(s) < 2 THEN s
             ELSE IF s[1] = 45 /\ s[2] = 45 THEN <<45, 32, 45>> \o ReplDD(SubSeq(s, 3, Len(s)))
             ELSE <<s[1]>> \o ReplDD(Tail(s))
RECURSIVE FixDD(_)
FixDD(s) == IF HasDD(s) THEN FixDD(ReplDD(s)) ELSE s
EndsDash(s) == s # <<>> /\ Last(s) = 45
CoerceComment(s, noDD, noDashEnd) ==
    LET a == IF noDD THEN FixDD(s) ELSE s
        fixEnd == IF "xml-comment-dash-end-flag-ignored" \in KnownDefects THEN noDD ELSE (noDD \/ noDashEnd)
    IN IF fixEnd /\ EndsDash(a) THEN Append(a, 32) ELSE a
CommentOK(out, noDD, noDashEnd) == (noDD => ~HasDD(out)) /\ ((noDD \/ noDashEnd) => ~EndsDash(out))

\* public identifiers
IsPubidChar(c) == c \in {32, 13, 10} \/ IsAlnum(c) \/ c \in {45, 39, 40, 41, 43, 44, 46, 47, 58, 61, 63, 59, 33, 42, 35, 64, 36, 95, 37}
RECURSIVE CoercePubid(_, _)
CoercePubid(s, noSQ) == IF s = <<>> THEN <<>>
    ELSE (IF ~IsPubidChar(s[1]) \/ (noSQ /\ s[1] = 39) THEN Esc(s[1]) ELSE <<s[1]>>) \o CoercePubid(Tail(s), noSQ)
PubidOK(out, noSQ) == \A i \in 1..Len(out) : IsPubidChar(out[i]) /\ (noSQ => out[i] # 39)

\* the property for names
NameProperty(n, out) ==
    /\ LegalName(out)
    /\ (LegalName(n) => out = n)
    /\ (~HasPattern(n) => FromXml(out) = n)
=============================================================================
