------------------------------ MODULE InputStream ------------------------------
(* C05.  html5lib's HTMLUnicodeInputStream as a step machine over an explicit state record,    *)
(* driven by the data each dataStream.read() returned (so every read schedule is an input),    *)
(* together with the one-shot reference Norm(raw) (CRLF -> LF, CR -> LF), the reference        *)
(* position TextPos(delivered text) and the reference error count.                             *)
(*                                                                                             *)
(* State record s (fields of the implementation):                                              *)
(*   chunk, off        self.chunk (already normalised), self.chunkOffset (chunkSize=Len(chunk)) *)
(*   held              self._bufferedCharacter as <<>> or <<c>>                                 *)
(*   pl, pc            self.prevNumLines, self.prevNumCols                                     *)
(*   errs              number of "invalid-codepoint" entries appended to self.errors so far    *)
(*   cr                the previous chunk was a lone CR that was delivered at once (code only) *)
(* ghost fields (the intended observables, functions of the delivered text only):              *)
(*   out               characters delivered to the client and not ungotten                     *)
(*   ug                number of ungotten characters waiting to be delivered again             *)
(*   il, ic            TextPos(out): 0-based line and column of the consumption point          *)
(*   ierr              invalid code points among the characters delivered for the first time   *)
(*   fired             names of the deviation branches taken                                   *)
(*                                                                                             *)
(* Deviations of the code from the intended design (named branches under KnownDefects):        *)
(*   "lone-cr-chunk"               readChunk: `if len(data) > 1` never withholds a CR that is   *)
(*                                 the whole chunk, so CR | LF read separately is two newlines *)
(*   "unget-prepend-position"      unget at chunkOffset 0 prepends the character to the chunk   *)
(*                                 without taking it out of prevNumLines/prevNumCols           *)
(*   "invalid-codepoint-per-chunk" characterErrors runs when a chunk is READ, so the error is   *)
(*                                 visible before (and reported at a position unrelated to)    *)
(*                                 the consumption of the offending character                  *)
EXTENDS Unicode
CONSTANT KnownDefects
DefectNames == {"lone-cr-chunk", "unget-prepend-position", "invalid-codepoint-per-chunk"}
On(d) == d \in KnownDefects

CR == 13
LF == 10
IsLead(c) == c >= 55296 /\ c <= 56319
\* "preprocessing the input stream": code points that are parse errors (NUL is left to the tokenizer)
IsInvalidCp(c) == \/ (c >= 1 /\ c <= 8) \/ c = 11 \/ (c >= 14 /\ c <= 31) \/ (c >= 127 /\ c <= 159)
                  \/ IsSurrogate(c) \/ IsNonchar(c)
InvalidCount(t) == Cardinality({i \in 1..Len(t) : IsInvalidCp(t[i])})

\* ---------- the one-shot reference ----------
RECURSIVE NormSeq(_)
NormSeq(t) == IF t = <<>> THEN <<>>
              ELSE IF t[1] = CR THEN <<LF>> \o NormSeq(IF Len(t) > 1 /\ t[2] = LF THEN Drop(t, 2) ELSE Tail(t))
              ELSE <<t[1]>> \o NormSeq(Tail(t))
\* the same function by halving (never cutting between a CR and its LF), so that chunks of the stock size
\* (10240 characters) can be normalised without deep recursion
RECURSIVE Norm(_)
Norm(t) == IF Len(t) <= 16 THEN NormSeq(t)
           ELSE LET m == Len(t) \div 2
                    k == IF t[m] = CR /\ t[m + 1] = LF THEN m + 1 ELSE m
                IN Norm(SubSeq(t, 1, k)) \o Norm(SubSeq(t, k + 1, Len(t)))
NumLF(t) == Cardinality({i \in 1..Len(t) : t[i] = LF})
RECURSIVE LastLFFrom(_, _)
LastLFFrom(t, i) == IF i = 0 THEN 0 ELSE IF t[i] = LF THEN i ELSE LastLFFrom(t, i - 1)
LastLF(t) == LastLFFrom(t, Len(t))
TextPos(t) == <<NumLF(t), Len(t) - LastLF(t)>>          \* 0-based line, column after the text t

\* ---------- the machine ----------
IsInit == [chunk |-> <<>>, off |-> 0, held |-> <<>>, pl |-> 0, pc |-> 0, errs |-> 0, cr |-> FALSE,
           out |-> <<>>, ug |-> 0, il |-> 0, ic |-> 0, ierr |-> 0, fired |-> {}]

\* _position(offset)
PosIn(s, o) == LET pre == SubSeq(s.chunk, 1, o)  last == LastLF(pre) IN
               IF last = 0 THEN <<s.pl, s.pc + o>> ELSE <<s.pl + NumLF(pre), o - last>>
\* position()
Pos(s) == LET p == PosIn(s, s.off) IN <<p[1] + 1, p[2]>>
Buffered(s) == SubSeq(s.chunk, s.off + 1, Len(s.chunk))
\* what the harness reads off the real object after every call
Obs(s) == <<s.off, Len(s.chunk), IF s.held = <<>> THEN -1 ELSE s.held[1], s.pl, s.pc>>

\* bookkeeping for characters cs handed to the client (ghosts; and the error list in the intended design)
\* ASSUMED (design choice, the property only demands delivery-independence): in the intended design an
\* invalid code point is reported when the character is handed to the client for the first time (so the
\* tokenizer flushes it after the state function that consumed it); re-deliveries after unget do not count.
Deliver(s, cs) ==
    LET n == Len(cs)
        re == IF s.ug < n THEN s.ug ELSE n                  \* re-deliveries of ungotten characters
        fresh == InvalidCount(SubSeq(cs, re + 1, n))
        tp == TextPos(cs)
    IN [s EXCEPT !.out = @ \o cs, !.ug = @ - re, !.ierr = @ + fresh,
                 !.errs = IF On("invalid-codepoint-per-chunk") THEN @ ELSE @ + fresh,
                 !.il = @ + tp[1], !.ic = IF tp[1] = 0 THEN @ + n ELSE tp[2]]

\* readChunk() given the data the source returned (<<>> = end of source)
\* ASSUMED: sources return the empty string only at their end (the quantifier says read sizes >= 1).
\* A trailing LEAD SURROGATE is withheld exactly like a CR (on a UCS-4 build this only moves chunk boundaries:
\* every surrogate code point is an error on its own, pairs are not joined).
ReadChunk(s, data) ==
    LET p == PosIn(s, Len(s.chunk))
        base == [s EXCEPT !.pl = p[1], !.pc = p[2], !.chunk = <<>>, !.off = 0, !.cr = FALSE]
        d1 == s.held \o data
    IN IF s.held = <<>> /\ data = <<>> THEN [ok |-> FALSE, s |-> base]
       ELSE LET lastc == d1[Len(d1)]
                \* code: only a chunk of more than one character gives up its last character.  Intended (= the
                \* repaired readChunk): a read that consists of a single CR / lead surrogate is withheld as well
                \* and the next read is joined to it (s.held = <<>> then means that data is that single character;
                \* at the end of the source the withheld character is flushed as before).
                wh == (lastc = CR \/ IsLead(lastc)) /\ (Len(d1) > 1 \/ (~On("lone-cr-chunk") /\ s.held = <<>>))
                kept == IF wh THEN Front(d1) ELSE d1
                lone == ~wh /\ d1 = <<CR>> /\ data # <<>>
                dbl == s.cr /\ data # <<>> /\ data[1] = LF        \* the LF of a CR LF pair is delivered a second time
            IN [ok |-> TRUE,
                s |-> [base EXCEPT !.chunk = Norm(kept), !.held = IF wh THEN <<lastc>> ELSE <<>>,
                                   !.errs = IF On("invalid-codepoint-per-chunk") THEN @ + InvalidCount(kept) ELSE @,
                                   !.cr = lone,
                                   !.fired = IF dbl THEN @ \cup {"lone-cr-chunk"} ELSE @]]

\* client operations: o = [k, set, opp, acc]
CharOp == [k |-> "char", set |-> <<>>, opp |-> FALSE, acc |-> <<>>]
UntilOp(set, opp) == [k |-> "until", set |-> set, opp |-> opp, acc |-> <<>>]
\* index of the first character in ch[lo..hi] that is outside the class (0 if none), by halving so that a run of
\* thousands of characters (a whole stock-size chunk of text) needs no deep recursion
RECURSIVE FirstOut(_, _, _, _, _)
FirstOut(ch, lo, hi, S, opp) ==
    IF lo > hi THEN 0
    ELSE IF hi - lo < 8 THEN (IF (ch[lo] \in S) # opp THEN lo ELSE FirstOut(ch, lo + 1, hi, S, opp))
    ELSE LET m == (lo + hi) \div 2  l == FirstOut(ch, lo, m, S, opp) IN
         IF l # 0 THEN l ELSE FirstOut(ch, m + 1, hi, S, opp)
\* number of consecutive characters of the class from offset i on (what the regular expression matches)
MatchLen(ch, i, S, opp) == LET b == FirstOut(ch, i + 1, Len(ch), S, opp) IN IF b = 0 THEN Len(ch) - i ELSE b - i - 1

\* run the operation on the current chunk: either it completes, or the chunk is used up and a read is needed
Drive(s, o) ==
    IF o.k = "char"
    THEN IF s.off < Len(s.chunk)
         THEN [st |-> "done", s |-> Deliver([s EXCEPT !.off = @ + 1], <<s.chunk[s.off + 1]>>), o |-> o,
               res |-> <<s.chunk[s.off + 1]>>]
         ELSE [st |-> "need", s |-> s, o |-> o, res |-> <<>>]
    ELSE LET n == MatchLen(s.chunk, s.off, Range(o.set), o.opp)
             tk == SubSeq(s.chunk, s.off + 1, s.off + n)
             s2 == Deliver([s EXCEPT !.off = @ + n], tk)
         IN IF s.off + n < Len(s.chunk)
            THEN [st |-> "done", s |-> s2, o |-> o, res |-> o.acc \o tk]
            ELSE [st |-> "need", s |-> s2, o |-> [o EXCEPT !.acc = @ \o tk], res |-> <<>>]
EofRes(o) == IF o.k = "char" THEN <<EOF_CP>> ELSE o.acc

\* a whole call, given the data returned by the reads it performed
RECURSIVE Run(_, _, _)
Run(s, o, rds) ==
    LET d == Drive(s, o) IN
    IF d.st = "done" THEN [s |-> d.s, res |-> d.res, left |-> rds, bad |-> FALSE]
    ELSE IF rds = <<>> THEN [s |-> d.s, res |-> <<>>, left |-> <<>>, bad |-> TRUE]
    ELSE LET r == ReadChunk(d.s, Head(rds)) IN
         IF ~r.ok THEN [s |-> r.s, res |-> EofRes(d.o), left |-> Tail(rds), bad |-> FALSE]
         ELSE Run(r.s, d.o, Tail(rds))

\* unget(c); the client only ungets what it was last given (c = Last(out)) or EOF
\* ASSUMED (client discipline, true of the tokenizer; Trace_InputStream rejects a trace that breaks it).
UngetOK(s, c) == c = EOF_CP \/ (s.out # <<>> /\ Last(s.out) = c)
Unget(s, c) ==
    IF c = EOF_CP THEN s
    ELSE LET o2 == Front(s.out)  tp == TextPos(o2)
             g == [s EXCEPT !.out = o2, !.ug = @ + 1, !.il = tp[1], !.ic = tp[2]]
         IN IF s.off = 0
            THEN IF On("unget-prepend-position")
                 THEN [g EXCEPT !.chunk = <<c>> \o @, !.fired = @ \cup {"unget-prepend-position"}]
                 ELSE \* intended (= the repaired unget): the character is taken out of the position of the chunk start
                      \* again.  For an ungotten LF the column of the line it ended is not known to the stream (it
                      \* keeps no history): the line is corrected, the column stays as it is until the LF is consumed
                      \* again (PositionOK carves exactly this out; the tokenizer never ungets an LF at a chunk start).
                      IF c = LF THEN [g EXCEPT !.chunk = <<c>> \o @, !.pl = @ - 1]
                      ELSE [g EXCEPT !.chunk = <<c>> \o @, !.pc = @ - 1]
            ELSE [g EXCEPT !.off = @ - 1]

-----------------------------------------------------------------------------
\* ---------- the property at model level (raw = everything the source returned so far) ----------
RawSeen(s, raw) == IF s.held = <<>> THEN raw ELSE Front(raw)
\* refinement of the one-shot reader, for every read schedule
Refines(s, raw) == /\ s.out \o Buffered(s) = Norm(RawSeen(s, raw))
                   /\ s.held # <<>> => (raw # <<>> /\ s.held = <<Last(raw)>>)
GhostOK(s) == <<s.il, s.ic>> = TextPos(s.out)
\* the line is always exact; the column is exact unless an ungotten LF is waiting to be delivered again
LfPending(s) == \E i \in 1..s.ug : Buffered(s)[i] = LF
PositionOK(s) == Pos(s)[1] = s.il + 1 /\ (LfPending(s) \/ Pos(s)[2] = s.ic)
\* the error list is a function of the high-water mark of the delivered text
ErrorsOK(s) == /\ s.errs = s.ierr
               /\ s.ierr = InvalidCount(SubSeq(s.out \o Buffered(s), 1, Len(s.out) + s.ug))
UngetThenChar(s, c) ==
    LET u == Unget(s, c)  d == Drive(u, CharOp) IN
    /\ d.st = "done" /\ d.res = <<c>> /\ d.s.out = s.out /\ Buffered(d.s) = Buffered(s)
    /\ Pos(d.s) = Pos(s) /\ d.s.errs = s.errs /\ d.s.ug = s.ug /\ d.s.ierr = s.ierr
=============================================================================
