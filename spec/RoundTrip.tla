------------------------------- MODULE RoundTrip -------------------------------
(* C07.  Serialize-then-parse on the canonical nested tree form [k, ns, n, a, d, p, s, c].     *)
(*   RtWalk(tree)        the walker token stream of a tree (text split into leading-space /    *)
(*                       characters / trailing-space tokens; void elements as EmptyTag)        *)
(*   RtSer(toks)         a REFERENCE serializer of a token stream: every tag explicit,         *)
(*                       attributes double-quoted with & and " escaped, text with & < >        *)
(*                       escaped, script/style text raw, an extra LF after <pre>/<textarea>/    *)
(*                       <listing> when the text starts with LF (the reader drops one), doctype *)
(*   RefSer(tree)        == RtSer(RtWalk(tree))                                                *)
(*   RtSerOmit(tree, D)  == RtSer(OtFilter(RtWalk(tree), D)): the same with the optional-tags  *)
(*                       filter of spec/OptionalTags.tla; D = {} is the intended filter         *)
(*   RtParse(src)        the parser specification (Pipeline!ParseDoc, scripting off)            *)
(*   RtParseAfter(h, src) the same on a parser object that parsed the documents h before        *)
(*   RtSame(a, b, alpha, minb)  tree equality up to the two licensed normalisations:            *)
(*        alpha: the alphabetical_attributes option sorts attributes, so attribute lists are     *)
(*               compared as sorted lists;                                                       *)
(*        minb:  minimize_boolean_attributes writes a boolean attribute as its bare name, which *)
(*               reads back as ""; a boolean attribute (table of the HTML standard in            *)
(*               ContentModel!CmBooleanOn) with value "" and with value = its name (ASCII        *)
(*               case-insensitive) denote the same state, so both are compared as ""            *)
(*               \* ASSUMED (normalisation licensed by the standard's definition of boolean     *)
(*               attributes; the property text does not spell it out).                          *)
(*   RtDiffPath(a, b)    child-index path of the first differing node (ends in 0)              *)
EXTENDS Pipeline, ContentModel

OT == INSTANCE OptionalTags

\* ---- walker ----
RtNsUrl(ns) == CASE ns = "html" -> NS_html [] ns = "svg" -> NS_svg [] ns = "math" -> NS_mathml [] OTHER -> None
RtTk(t, n, ns, a, d, p, s) == [t |-> t, n |-> n, ns |-> ns, a |-> a, d |-> d, p |-> p, s |-> s]
RECURSIVE RtLeadWs(_)
RtLeadWs(d) == IF d = <<>> \/ ~IsWs(d[1]) THEN 0 ELSE 1 + RtLeadWs(Tail(d))
RECURSIVE RtTrailWs(_, _)
RtTrailWs(d, i) == IF i = 0 \/ ~IsWs(d[i]) THEN 0 ELSE 1 + RtTrailWs(d, i - 1)
RtTextToks(d) ==
    LET l == RtLeadWs(d)  rest == SubSeq(d, l + 1, Len(d))  r == RtTrailWs(rest, Len(rest))
        left == SubSeq(d, 1, l)  mid == SubSeq(rest, 1, Len(rest) - r)  right == SubSeq(rest, Len(rest) - r + 1, Len(rest))
    IN (IF left # <<>> THEN <<RtTk("SpaceCharacters", None, None, <<>>, left, None, None)>> ELSE <<>>)
       \o (IF mid # <<>> THEN <<RtTk("Characters", None, None, <<>>, mid, None, None)>> ELSE <<>>)
       \o (IF right # <<>> THEN <<RtTk("SpaceCharacters", None, None, <<>>, right, None, None)>> ELSE <<>>)
RtIsVoid(nd) == nd.ns = "html" /\ nd.n \in CmVoid
RECURSIVE RtWalkNode(_), RtWalkKids(_, _)
RtWalkNode(nd) ==
    CASE nd.k = "text" -> RtTextToks(nd.d)
      [] nd.k = "comment" -> <<RtTk("Comment", None, None, <<>>, nd.d, None, None)>>
      [] nd.k = "doctype" -> <<RtTk("Doctype", nd.n, None, <<>>, <<>>, nd.p, nd.s)>>
      [] nd.k = "doc" -> RtWalkKids(nd.c, 1)
      [] nd.k = "elem" ->
            IF RtIsVoid(nd) THEN <<RtTk("EmptyTag", nd.n, RtNsUrl(nd.ns), nd.a, <<>>, None, None)>>
            ELSE <<RtTk("StartTag", nd.n, RtNsUrl(nd.ns), nd.a, <<>>, None, None)>> \o RtWalkKids(nd.c, 1)
                 \o <<RtTk("EndTag", nd.n, RtNsUrl(nd.ns), <<>>, <<>>, None, None)>>
RtWalkKids(kids, i) == IF i > Len(kids) THEN <<>> ELSE RtWalkNode(kids[i]) \o RtWalkKids(kids, i + 1)
RtWalk(tree) == RtWalkNode(tree)

\* ---- reference serializer ----
RECURSIVE RtEsc(_, _)
RtEsc(d, attr) ==        \* text: & < >   attribute value (double-quoted): & "
    IF d = <<>> THEN <<>>
    ELSE (CASE d[1] = 38 -> <<38, 97, 109, 112, 59>>
            [] d[1] = 60 /\ ~attr -> <<38, 108, 116, 59>>
            [] d[1] = 62 /\ ~attr -> <<38, 103, 116, 59>>
            [] d[1] = 34 /\ attr -> <<38, 113, 117, 111, 116, 59>>
            [] OTHER -> <<d[1]>>) \o RtEsc(Tail(d), attr)
RtAttrName(at) == CASE at[1] = "" -> at[2]
                    [] at[1] = "xlink" -> <<120, 108, 105, 110, 107, 58>> \o at[2]
                    [] at[1] = "xml" -> <<120, 109, 108, 58>> \o at[2]
                    [] at[1] = "xmlns" -> (IF at[2] = N_xmlns THEN at[2] ELSE <<120, 109, 108, 110, 115, 58>> \o at[2])
                    [] OTHER -> at[2]
RECURSIVE RtSerAttrs(_)
RtSerAttrs(as) == IF as = <<>> THEN <<>>
                  ELSE <<32>> \o RtAttrName(as[1]) \o <<61, 34>> \o RtEsc(as[1][3], TRUE) \o <<34>> \o RtSerAttrs(Tail(as))
RtRawNames == {N_script, N_style}
RtDropsLF  == {N_pre, N_textarea, N_listing}
RtIsHtmlTok(tok) == tok.ns = None \/ tok.ns = NS_html
RtSerDoctype(tok) ==
    <<60, 33, 68, 79, 67, 84, 89, 80, 69, 32>> \o tok.n
    \o (IF tok.p # <<>> /\ tok.p # None THEN <<32, 80, 85, 66, 76, 73, 67, 32, 34>> \o tok.p \o <<34>> ELSE <<>>)
    \o (IF tok.s # <<>> /\ tok.s # None
        THEN (IF tok.p = <<>> \/ tok.p = None THEN <<32, 83, 89, 83, 84, 69, 77>> ELSE <<>>) \o <<32, 34>> \o tok.s \o <<34>>
        ELSE <<>>)
    \o <<62>>
RECURSIVE RtSerFrom(_, _, _)
RtSerFrom(toks, i, raw) ==
    IF i > Len(toks) THEN <<>>
    ELSE LET tok == toks[i] IN
         CASE tok.t = "Doctype" -> RtSerDoctype(tok) \o RtSerFrom(toks, i + 1, raw)
           [] tok.t = "Comment" -> <<60, 33, 45, 45>> \o tok.d \o <<45, 45, 62>> \o RtSerFrom(toks, i + 1, raw)
           [] tok.t \in {"Characters", "SpaceCharacters"} ->
                 (IF raw THEN tok.d ELSE RtEsc(tok.d, FALSE)) \o RtSerFrom(toks, i + 1, raw)
           [] tok.t \in {"StartTag", "EmptyTag"} ->
                 (LET nx == IF i < Len(toks) THEN toks[i + 1] ELSE [t |-> "None", d |-> <<>>]
                     lf == tok.t = "StartTag" /\ RtIsHtmlTok(tok) /\ tok.n \in RtDropsLF
                           /\ nx.t \in {"Characters", "SpaceCharacters"} /\ nx.d # <<>> /\ nx.d[1] = 10
                 IN <<60>> \o tok.n \o RtSerAttrs(tok.a) \o <<62>> \o (IF lf THEN <<10>> ELSE <<>>)
                    \o RtSerFrom(toks, i + 1, tok.t = "StartTag" /\ RtIsHtmlTok(tok) /\ tok.n \in RtRawNames))
           [] tok.t = "EndTag" -> <<60, 47>> \o tok.n \o <<62>> \o RtSerFrom(toks, i + 1, FALSE)
           [] OTHER -> RtSerFrom(toks, i + 1, raw)
RtSer(toks) == RtSerFrom(toks, 1, FALSE)
RefSer(tree) == RtSer(RtWalk(tree))
RtSerOmit(tree, D) == RtSer(OT!OtFilter(RtWalk(tree), D))

\* ---- parse ----
RtParse(src) == Result(ParseDoc(src, FALSE))
\* The same through a LONG-LIVED parser object that handled `history` before (a sequence of earlier, unrelated, possibly
\* non-conforming documents / fragments, each recorded as a code-point description "doc:..." / "frag(container):..."):
\* parsing starts from PInit for every document, so nothing of an earlier document - its document mode (quirks), open
\* elements, active formatting elements, form / head pointers, tokenizer state, pending table text - may reach the next
\* one.  The specification's answer therefore does not depend on the history (the history-independence clause of C12,
\* restated here because the round trip of C07 is normally run on such an object).
RtParseAfter(history, src) == RtParse(src)

\* ---- comparison up to the licensed normalisations ----
RtNsRank(ns) == CASE ns = "" -> 0 [] ns = "xlink" -> 1 [] ns = "xml" -> 2 [] ns = "xmlns" -> 3 [] OTHER -> 4
RtAttrLess(x, y) == IF x[2] # y[2] THEN SeqLess(x[2], y[2]) ELSE RtNsRank(x[1]) < RtNsRank(y[1])
RECURSIVE RtInsertSorted(_, _)
RtInsertSorted(sorted, x) == IF sorted = <<>> THEN <<x>>
                             ELSE IF RtAttrLess(x, sorted[1]) THEN <<x>> \o sorted
                             ELSE <<sorted[1]>> \o RtInsertSorted(Tail(sorted), x)
RECURSIVE RtSortAttrs(_)
RtSortAttrs(as) == IF as = <<>> THEN <<>> ELSE RtInsertSorted(RtSortAttrs(Tail(as)), as[1])
RtNormAttr(ns, n, at, minb) == IF minb /\ CmIsBoolean(ns, n, at) /\ Lower(at[3]) = at[2] THEN <<at[1], at[2], <<>>>> ELSE at
RECURSIVE RtNorm(_, _, _)
RtNorm(nd, alpha, minb) ==
    IF nd.k \notin {"elem", "doc"} THEN nd
    ELSE LET a1 == [i \in 1..Len(nd.a) |-> RtNormAttr(nd.ns, nd.n, nd.a[i], minb)]
             a2 == IF alpha THEN RtSortAttrs(a1) ELSE a1
         IN [nd EXCEPT !.a = a2, !.c = [i \in 1..Len(nd.c) |-> RtNorm(nd.c[i], alpha, minb)]]
RtSame(a, b, alpha, minb) == RtNorm(a, alpha, minb) = RtNorm(b, alpha, minb)

RtShallow(nd) == [nd EXCEPT !.c = <<>>]
RECURSIVE RtDiffPath(_, _)
RtDiffPath(a, b) ==
    IF a = b THEN <<>>
    ELSE IF RtShallow(a) # RtShallow(b) \/ Len(a.c) # Len(b.c) THEN <<0>>
    ELSE LET i == CHOOSE j \in 1..Len(a.c) : a.c[j] # b.c[j] /\ \A l \in 1..(j - 1) : a.c[l] = b.c[l]
         IN <<i>> \o RtDiffPath(a.c[i], b.c[i])
=============================================================================
