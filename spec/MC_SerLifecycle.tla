---------------------------- MODULE MC_SerLifecycle ----------------------------
(* All histories of <= MaxCalls serialize() calls on ONE HTMLSerializer object over the streams of  *)
(* SerLifecycle x encoding x strict x abandon point, next to a brand-new object per call.           *)
EXTENDS SerLifecycle, TLC, Json
CONSTANTS MaxCalls, Export
VARIABLES ser, hist
Init == ser = NewSer /\ hist = <<>>
Call(s, enc, strict, stopAt) ==
    /\ Len(hist) < MaxCalls
    /\ LET s1 == SerCall(ser, Streams[s], enc, strict, stopAt)
           f1 == SerCall(NewSer, Streams[s], enc, strict, stopAt)
       IN /\ ser' = s1
          /\ hist' = Append(hist, [stream |-> s, enc |-> enc, strict |-> strict, stopAt |-> stopAt,
                                   end |-> s1.end, nout |-> s1.nout, errors |-> s1.errors,
                                   eq |-> SerResult(s1) = SerResult(f1)])
Next == \E s \in 1..Len(Streams), enc \in {"none", "ascii", "utf-8"}, strict \in BOOLEAN :
            \E stopAt \in 0..Chunks(Streams[s], FALSE) : Call(s, enc, strict, stopAt)
ThmSerHistoryIndependent == \A i \in 1..Len(hist) : hist[i].eq
ThmSerErrorsFresh == \A i \in 1..Len(hist) : hist[i].strict /\ hist[i].end = "SerializeError" => Len(hist[i].errors) = 1
ThmExport == (Export /\ Len(hist) = MaxCalls) => PrintT(ToJson([hist |-> hist]))
=============================================================================
