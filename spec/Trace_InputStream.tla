-------------------------- MODULE Trace_InputStream --------------------------
(* Traces recorded from a real HTMLUnicodeInputStream / HTMLBinaryInputStream, either driven   *)
(* by the harness (scripted client) or by the real tokenizer inside a real parse.              *)
(* A trace is [src, sets, ev]; src = the characters of the document; sets = table of the       *)
(* character sets used by charsUntil; one event per call on the stream object:                 *)
(*   op  "char" | "until" | "unget" | "pos" | "poll"                                           *)
(*   a   until: <<index into sets>>; unget: <<c>> (<<-1>> = EOF)      opp  until: `opposite`    *)
(*   rd  data returned by each dataStream.read() during the call (<<>> = end of source)        *)
(*   r   char: <<c>> or <<-1>>; until: the string; pos: <<line, col>>; poll: <<len(errors)>>    *)
(*   st  <<chunkOffset, chunkSize, held or -1, prevNumLines, prevNumCols>> after the call       *)
(*   ne  number of invalid-codepoint errors appended so far      pos  position() after the call *)
(* "pos" is a position() call of the parser (one per parse error), "poll" the tokenizer        *)
(* looking at stream.errors after a state function (it drains the list).                       *)
(* Every event must agree with the code-faithful machine (KnownDefects as configured) exactly; *)
(* the reads must spell src.  The verdict record also carries what the INTENDED design would   *)
(* have reported: the position for every "pos" event and, per poll, the number of errors       *)
(* pending, so that the harness can compare deliveries on intended observables and attribute   *)
(* real differences to the deviations that fired.                                              *)
EXTENDS InputStream, TLC, Json, IOUtils
Traces == JsonDeserialize(IOEnv.TRACE_FILE)
VARIABLES tid, l, s, raw, ips, polls, e0, i0, verdict
vars == <<tid, l, s, raw, ips, polls, e0, i0, verdict>>

Init == /\ tid \in 1..Len(Traces) /\ l = 1 /\ s = IsInit /\ raw = <<>> /\ ips = <<>> /\ polls = <<>>
        /\ e0 = 0 /\ i0 = 0 /\ verdict = "run"

SawEof(tr) == \E i \in 1..Len(tr.ev) : \E j \in 1..Len(tr.ev[i].rd) : tr.ev[i].rd[j] = <<>>
Final(tr) == IF ~IsPrefixOf(raw, tr.src) \/ (SawEof(tr) /\ raw # tr.src) THEN "reject:source" ELSE "accept"

Common(t, e) == IF Obs(t) # e.st THEN "reject:state"
                ELSE IF t.errs # e.ne THEN "reject:errors"
                ELSE IF Pos(t) # e.pos THEN "reject:position" ELSE "ok"
Stop(v) == verdict' = v /\ UNCHANGED <<tid, l, s, raw, ips, polls, e0, i0>>

Step ==
    /\ verdict = "run"
    /\ LET tr == Traces[tid] IN
       IF l > Len(tr.ev) THEN Stop(Final(tr))
       ELSE LET e == tr.ev[l] IN
         IF e.op \in {"char", "until"} THEN
            LET o == IF e.op = "char" THEN CharOp ELSE UntilOp(tr.sets[e.a[1]], e.opp)
                r == Run(s, o, e.rd)
                v == IF r.bad THEN "reject:reads-underflow"
                     ELSE IF r.left # <<>> THEN "reject:reads-extra"
                     ELSE IF r.res # e.r THEN "reject:result"
                     ELSE Common(r.s, e)
            IN IF v # "ok" THEN Stop(v)
               ELSE /\ s' = r.s /\ l' = l + 1 /\ raw' = raw \o Flatten(e.rd)
                    /\ UNCHANGED <<tid, ips, polls, e0, i0, verdict>>
         ELSE IF e.op = "unget" THEN
            IF ~UngetOK(s, e.a[1]) THEN Stop("reject:unget-discipline")
            ELSE LET t == Unget(s, e.a[1])  v == Common(t, e) IN
                 IF v # "ok" THEN Stop(v)
                 ELSE s' = t /\ l' = l + 1 /\ UNCHANGED <<tid, raw, ips, polls, e0, i0, verdict>>
         ELSE IF e.op = "pos" THEN
            IF Pos(s) # e.r THEN Stop("reject:position")
            ELSE /\ ips' = Append(ips, <<s.il + 1, s.ic>>) /\ l' = l + 1
                 /\ UNCHANGED <<tid, s, raw, polls, e0, i0, verdict>>
         ELSE IF e.op = "poll" THEN
            IF e.r # <<s.errs - e0>> THEN Stop("reject:poll")
            ELSE /\ polls' = Append(polls, <<s.ierr - i0, s.errs - e0, s.il + 1, s.ic>>)
                 /\ s' = IF s.ierr - i0 # s.errs - e0 THEN [s EXCEPT !.fired = @ \cup {"invalid-codepoint-per-chunk"}] ELSE s
                 /\ e0' = s.errs /\ i0' = s.ierr /\ l' = l + 1
                 /\ UNCHANGED <<tid, raw, ips, verdict>>
         ELSE Stop("reject:unknown-event")
Done == verdict # "run" /\ UNCHANGED vars
Next == Step \/ Done
\* eqn: the delivered text is the one-shot normalisation of what was read (no CR LF was split into two newlines)
Report == verdict # "run" =>
    PrintT(ToJson([tid |-> tid, l |-> l, v |-> verdict, fired |-> s.fired, ips |-> ips, polls |-> polls,
                   eqn |-> (s.out \o Buffered(s) = Norm(RawSeen(s, raw)))]))
=============================================================================
