--------------------------- MODULE MC_Serializer ---------------------------
(* Bounded-exhaustive exploration of the serializer machine and the judge.  Streams are built  *)
(* token by token (every prefix is a state); in every state the whole stream is serialized by  *)
(* SerRun under KnownDefects, the output is re-tokenized in place and compared (Faithful).     *)
(*   Mode = "text":  lexical contexts x text over the danger alphabet x escape_rcdata           *)
(*   Mode = "attr":  element x attribute (incl. foreign prefixes, boolean) x value over the     *)
(*                   danger alphabet x all attribute/tag-syntax option vectors (108)            *)
(*   Mode = "misc":  doctypes, comments, Entity tokens                                          *)
(*   Mode = "cross": a fixed list of mixed streams x ALL 576 option vectors                     *)
(*   Mode = "enc":   EVERY code point of the handler's entity table (1414) and numeric probes  *)
(*                   (all of U+0080-9F, CJK, astral, noncharacters) as the one character the     *)
(*                   encoding lacks x follower class {letter, digit, '=', ';', end, space} x      *)
(*                   {attribute value quoted / unquoted, text, RCDATA, raw text, comment}          *)
(*   Mode = "table": every (element, attribute) pair around the boolean-attribute table, every  *)
(*                   void / non-void name around the void table, every raw-text name x namespace *)
(* Domain restrictions (= what html5lib's parser can put into a tree): no children/comments     *)
(* inside HTML raw-text elements, no two adjacent Characters tokens, comment data does          *)
(* not start with '>' or '->', no CR/'>' in doctype identifiers, no CR in comments.             *)
(* KnownDefects = {}: ThmProperty is the C08 theorem on the intended design.                    *)
(* KnownDefects = listed: every state is exported (input, options, output, errors, strict cut, *)
(* deviations that explain an unfaithful output) and ThmExplained must hold.                    *)
EXTENDS Serializer, TLC, Json
CONSTANTS Mode, Size, Export, CheckProperty

T(t, n, ns, a, d, p, s) == [t |-> t, n |-> n, ns |-> ns, a |-> a, d |-> d, p |-> p, s |-> s]
St(n, ns, a) == T("StartTag", n, ns, a, <<>>, None, None)
Em(n, a)     == T("EmptyTag", n, NS_html, a, <<>>, None, None)
En(n, ns)    == T("EndTag", n, ns, <<>>, <<>>, None, None)
Ch(d)        == T("Characters", None, None, <<>>, d, None, None)
Sp(d)        == T("SpaceCharacters", None, None, <<>>, d, None, None)
Cm(d)        == T("Comment", None, None, <<>>, d, None, None)
Dt(n, p, s)  == T("Doctype", n, None, <<>>, <<>>, p, s)
Ent(n)       == T("Entity", n, None, <<>>, <<>>, None, None)

Opt(qav, qc, lt, esc, min, sol, sp, res) ==
    [qav |-> qav, qc |-> qc, ltattr |-> lt, escrc |-> esc, minbool |-> min, solidus |-> sol, spacesol |-> sp, resolve |-> res,
     pf |-> <<>>]
DefaultOpt == Opt("legacy", "best", FALSE, FALSE, TRUE, FALSE, TRUE, TRUE)
QAV == {"legacy", "spec", "always"}
QC  == {"best", "dq", "sq"}
TextOpts == {[DefaultOpt EXCEPT !.escrc = e] : e \in BOOLEAN}
AttrOpts == {Opt(q, c, l, FALSE, m, s[1], s[2], TRUE) :
                q \in QAV, c \in QC, l \in BOOLEAN, m \in BOOLEAN, s \in {<<FALSE, TRUE>>, <<TRUE, TRUE>>, <<TRUE, FALSE>>}}
AllOpts  == {Opt(q, c, l, e, m, s, p, r) : q \in QAV, c \in QC, l \in BOOLEAN, e \in BOOLEAN, m \in BOOLEAN,
                                           s \in BOOLEAN, p \in BOOLEAN, r \in BOOLEAN}
MiscOpts == {DefaultOpt, Opt("spec", "sq", TRUE, TRUE, FALSE, TRUE, FALSE, FALSE)}

\* ---------- alphabets ----------
Danger == {60, 62, 38, 34, 39, 96, 61, 47, 45, 33, 32, 13, 97}          \* < > & " ' ` = / - ! space CR a
RECURSIVE Strings(_, _)
Strings(A, n) == IF n = 0 THEN {<<>>} ELSE LET S == Strings(A, n - 1) IN S \cup {Append(s, c) : s \in S, c \in A}
TextSpecials == {<<60, 47, 115, 116, 121, 108, 101>>, <<60, 47, 97>>, <<60, 33, 45, 45>>, <<45, 45, 62>>, X_amp, X_lt,
                 <<38, 35, 51, 56, 59>>, <<60, 98, 62>>, <<93, 93, 62>>, <<60, 33, 91, 67, 68, 65, 84, 65, 91>>,
                 <<10, 120>>, <<10>>, <<10, 10, 120>>, <<120, 10, 121>>, <<60, 33, 45, 45, 60, 115, 99, 114, 105, 112, 116, 62>>,
                 <<60, 47, 115, 99, 114, 105, 112, 116, 62>>, <<60, 47, 116, 105, 116, 108, 101, 62>>,
                 <<60, 47, 116, 101, 120, 116, 97, 114, 101, 97>>, <<233>>, <<97, 38, 98>>, <<60, 47, 112, 108, 97, 105, 110, 116, 101, 120, 116, 62>>}
TextData == (Strings(Danger, Size) \ {<<>>}) \cup TextSpecials
AttrSpecials == {<<>>, <<97, 32, 98>>, X_amp, X_quot, <<97, 47>>, <<34, 39>>, <<97, 34, 39>>, <<233>>, <<160>>, <<10>>, <<9>>,
                 <<97, 61>>, <<97, 62>>, <<38, 35, 51, 57, 59>>, <<47, 62>>, <<97, 13>>, <<39, 97>>, <<34, 97>>, <<60, 97>>, <<96, 97>>}
AttrData == Strings(Danger, Size) \cup AttrSpecials
IdAlpha  == {97, 34, 39, 32, 45}
IdData   == {None} \cup Strings(IdAlpha, Size)
CmtAlpha == {45, 33, 62, 60, 97}
CmtData  == {s \in Strings(CmtAlpha, Size + 1) : ~(s # <<>> /\ s[1] = 62) /\ ~(Len(s) >= 2 /\ s[1] = 45 /\ s[2] = 62)}

\* lexical contexts: a stack of start tags
E1(n, ns) == [n |-> n, ns |-> ns]
Contexts == {<<E1(N_div, NS_html)>>, <<E1(N_title, NS_html)>>, <<E1(N_textarea, NS_html)>>, <<E1(N_style, NS_html)>>,
             <<E1(N_script, NS_html)>>, <<E1(N_xmp, NS_html)>>, <<E1(N_iframe, NS_html)>>, <<E1(N_noscript, NS_html)>>,
             <<E1(N_plaintext, NS_html)>>, <<E1(N_pre, NS_html)>>, <<E1(N_listing, None)>>,
             <<E1(N_svg, NS_svg)>>, <<E1(N_svg, NS_svg), E1(N_style, NS_svg)>>, <<E1(N_svg, NS_svg), E1(N_title, NS_svg)>>,
             <<E1(N_svg, NS_svg), E1(N_script, NS_svg)>>, <<E1(N_svg, NS_svg), E1(N_title, NS_svg), E1(N_style, NS_html)>>,
             <<E1(N_math, NS_mathml)>>, <<E1(N_math, NS_mathml), E1(N_annotation_xml, NS_mathml)>>,
             <<E1(N_math, NS_mathml), E1(N_textarea, NS_mathml)>>,
             \* raw-text element nested in a raw-text element (noscript parsed without scripting; foreign content)
             <<E1(N_noscript, NS_html), E1(N_style, NS_html)>>, <<E1(N_svg, NS_svg), E1(N_style, NS_svg), E1(N_script, NS_svg)>>}
CtxToks(c) == [i \in 1..Len(c) |-> St(c[i].n, c[i].ns, <<>>)]
\* html5lib's parser can put (reconstructed formatting) elements inside textarea, never inside raw-text elements
TextOnly(e) == IsHtmlNs(e.ns) /\ e.n \in {N_style, N_script, N_xmp, N_iframe, N_plaintext}

VARIABLES toks, open, o, ph
vars == <<toks, open, o, ph>>
Push(tok, p) == toks' = Append(toks, tok) /\ ph' = p /\ UNCHANGED o

\* ---------- text mode ----------
TInit0 == \E c \in Contexts, oo \in TextOpts : toks = CtxToks(c) /\ open = c /\ o = oo /\ ph = 0
TNext ==
    \/ ph = 0 /\ \E d \in {<<32>>, <<10>>, <<13>>} : Push(Sp(d), 1) /\ UNCHANGED open
    \/ ph <= 1 /\ \E d \in TextData : Push(Ch(d), 2) /\ UNCHANGED open
    \/ ph = 2 /\ Push(Sp(<<10>>), 3) /\ UNCHANGED open
    \/ ph = 2 /\ ~TextOnly(Last(open)) /\ Push(Cm(<<97>>), 4) /\ UNCHANGED open
    \/ ph = 2 /\ ~TextOnly(Last(open)) /\ Push(Em(N_br, <<>>), 4) /\ UNCHANGED open
    \/ ph \in {0, 2, 3} /\ Push(En(Last(open).n, Last(open).ns), 5) /\ open' = Front(open)
    \/ ph = 5 /\ Len(toks) = Len(open) + 3 /\ (IF open = <<>> THEN TRUE ELSE ~TextOnly(Last(open)))
            /\ Push(Ch(<<97, 60>>), 6) /\ UNCHANGED open

\* ---------- attr mode ----------
A3(ns, n, v) == <<ns, n, v>>
AttrSubjects ==      \* <<token type, element, element ns, attr ns, attr local name>>
    {<<"StartTag", N_div, NS_html, None, N_class>>, <<"StartTag", S_select, NS_html, None, S_disabled>>,
     <<"EmptyTag", N_br, NS_html, None, N_class>>, <<"EmptyTag", N_input, NS_html, None, S_disabled>>,
     <<"EmptyTag", N_input, NS_html, None, N_value>>, <<"StartTag", N_a, NS_svg, None, N_class>>,
     <<"StartTag", N_a, NS_svg, NS_xlink, N_href>>, <<"StartTag", N_a, NS_svg, NS_xml, N_lang>>,
     <<"StartTag", N_a, NS_svg, NS_xmlns, N_xlink>>, <<"StartTag", N_a, NS_svg, NS_xmlns, N_xmlns>>,
     <<"StartTag", N_a, NS_html, None, X_xlink_ \o N_href>>, <<"StartTag", N_textarea, NS_html, None, S_disabled>>}
AInit0 == \E oo \in AttrOpts : toks = <<>> /\ open = <<>> /\ o = oo /\ ph = 0
\* options that cannot influence a subject are held at their defaults (solidus: void elements only; minimisation: boolean only)
Relevant(sj, oo) == /\ (sj[2] \in VoidNames \/ (~oo.solidus /\ oo.spacesol))
                    /\ (IsBoolAttr(sj[2], sj[5]) \/ oo.minbool)
ANext ==
    /\ ph = 0 /\ UNCHANGED open
    /\ \E sj \in AttrSubjects, v \in AttrData :
          /\ Relevant(sj, o)
          /\ \/ Push(T(sj[1], sj[2], sj[3], <<A3(sj[4], sj[5], v)>>, <<>>, None, None), 1)
             \/ Push(T(sj[1], sj[2], sj[3], <<A3(sj[4], sj[5], v), A3(None, N_id, <<120>>)>>, <<>>, None, None), 1)

\* ---------- misc mode ----------
MInit0 == \E oo \in MiscOpts : toks = <<>> /\ open = <<>> /\ o = oo /\ ph = 0
MNext ==
    \/ ph = 0 /\ UNCHANGED open /\
         \/ \E p \in IdData, s \in IdData : Push(Dt(N_html, p, s), 1)
         \/ \E n \in {None, <<>>, <<97, 34, 98>>} : Push(Dt(n, None, None), 1)
    \/ (ph = 0 \/ (ph = 1 /\ Last(toks) = Dt(N_html, None, None))) /\ UNCHANGED open /\ \E d \in CmtData : Push(Cm(d), 2)
    \/ ph = 0 /\ Push(St(N_svg, NS_svg, <<>>), 3) /\ open' = <<E1(N_svg, NS_svg)>>
    \/ ph = 3 /\ UNCHANGED open /\ \E d \in CmtData : Push(Cm(d), 2)
    \/ ph = 2 /\ UNCHANGED open /\ \E d \in {<<97>>, <<62>>, <<45, 45, 62>>} : Push(Ch(d), 4)
    \/ ph = 0 /\ UNCHANGED open /\ \E n \in {S_amp, S_nbsp, S_lt, S_eacute} : Push(Ent(n), 5)
    \/ ph = 5 /\ UNCHANGED open /\ Push(Ch(<<97, 59>>), 6)

\* ---------- cross mode ----------
HA(n, v) == <<None, n, v>>
CrossStreams == <<
    <<St(N_div, NS_html, <<HA(N_class, <<97, 32, 98>>), HA(N_id, <<120>>)>>), Ch(<<60, 38, 62>>), Em(N_br, <<HA(N_class, <<120>>)>>), En(N_div, NS_html)>>,
    <<St(N_style, NS_html, <<>>), Ch(<<97, 62, 98, 38>>), En(N_style, NS_html), Ch(<<60>>)>>,
    <<St(N_script, NS_html, <<HA(S_async, <<>>)>>), Ch(<<97, 60, 98>>), En(N_script, NS_html)>>,
    <<St(N_svg, NS_svg, <<>>), St(N_style, NS_svg, <<>>), Ch(<<60, 98, 62>>), En(N_style, NS_svg), En(N_svg, NS_svg)>>,
    <<Em(N_input, <<HA(S_disabled, <<110, 111>>), HA(N_value, <<34, 39>>)>>)>>,
    <<Em(N_input, <<HA(N_value, <<97>>), HA(S_checked, <<>>)>>), Ch(<<97>>)>>,
    <<St(N_pre, NS_html, <<>>), Sp(<<10>>), Ch(<<120>>), En(N_pre, NS_html)>>,
    <<St(N_textarea, NS_html, <<>>), Ch(<<60, 47, 116, 101, 120, 116, 97, 114, 101, 97, 62>>), En(N_textarea, NS_html)>>,
    <<Dt(N_html, <<97>>, <<98, 34>>), Cm(<<97, 45>>), St(N_html, NS_html, <<>>)>>,
    <<St(N_a, NS_svg, <<<<NS_xlink, N_href, <<35, 120>>>>>>), En(N_a, NS_svg)>>,
    <<St(N_noscript, NS_html, <<>>), Ch(<<60, 98, 62>>), En(N_noscript, NS_html)>>,
    <<St(N_noscript, NS_html, <<>>), St(N_b, NS_html, <<>>), Ch(<<120>>), En(N_b, NS_html), En(N_noscript, NS_html)>>,
    <<St(N_div, NS_html, <<HA(N_title, <<13>>)>>), Ch(<<97, 13, 98>>), Sp(<<13>>)>>,
    <<Em(N_hr, <<HA(S_noshade, <<120>>), HA(N_class, <<60, 97>>)>>), Em(N_img, <<HA(N_src, <<97, 47>>)>>)>>,
    <<St(N_plaintext, NS_html, <<>>), Ch(<<60>>), En(N_plaintext, NS_html)>>,
    <<St(N_div, NS_html, <<>>), Ent(S_nbsp), Ent(S_amp), Ch(<<120>>)>>,
    <<St(N_xmp, NS_html, <<>>), Ch(<<60, 47, 120>>), En(N_xmp, NS_html)>>,
    <<St(N_div, NS_html, <<HA(<<61, 97>>, <<96>>), HA(<<34>>, <<38, 113, 117, 111, 116>>)>>)>>,
    <<T("SerializerError", None, None, <<>>, <<120>>, None, None), Ch(<<97>>)>>,
    <<St(N_title, NS_html, <<>>), Ch(<<38, 60>>), En(N_title, NS_html), Cm(<<45, 45>>), Ch(<<62>>)>> >>
CInit0 == \E oo \in AllOpts : toks = <<>> /\ open = <<>> /\ o = oo /\ ph = 0
CNext == ph = 0 /\ \E i \in 1..Len(CrossStreams) : toks' = CrossStreams[i] /\ ph' = 1 /\ UNCHANGED <<open, o>>

\* ---------- table mode ----------
BoolElems == {N_style, N_img, S_audio, S_video, N_script, S_details, S_datagrid, N_command, N_hr, S_menu, S_fieldset, S_option,
              S_optgroup, S_button, N_input, S_select, S_ol, S_output, N_iframe, N_div, N_textarea, N_a}
BoolNames == {S_irrelevant, S_itemscope, S_scoped, S_ismap, S_autoplay, S_controls, S_defer, S_async, S_open, S_multiple,
              S_disabled, S_hidden, S_checked, S_default, S_noshade, S_autosubmit, S_readonly, S_selected, S_autofocus,
              S_required, S_reversed, S_seamless, N_class, N_value, N_id}
VoidProbe == VoidNames \cup {N_div, N_span, N_basefont, N_bgsound, N_frame, N_keygen, N_menuitem, N_image, N_p, N_path}
RawProbe  == RawNames \cup {N_title, N_textarea, N_plaintext, N_pre, N_listing, N_div, N_template, N_select, N_object}
TableOpts == {Opt("spec", "best", FALSE, e, m, s[1], s[2], TRUE) :
                 e \in BOOLEAN, m \in BOOLEAN, s \in {<<FALSE, TRUE>>, <<TRUE, TRUE>>, <<TRUE, FALSE>>}}
BInit0 == \E oo \in TableOpts : toks = <<>> /\ open = <<>> /\ o = oo /\ ph = 0
BNext ==
    /\ ph = 0 /\ UNCHANGED open
    /\ \/ /\ ~o.escrc /\ ~o.solidus /\ o.spacesol
          /\ \E el \in BoolElems, k \in BoolNames, v \in {<<>>, <<110, 111>>} :
                Push(T(IF el \in VoidNames THEN "EmptyTag" ELSE "StartTag", el, NS_html, <<A3(None, k, v)>>, <<>>, None, None), 1)
       \/ /\ ~o.escrc /\ o.minbool
          /\ \E n \in VoidProbe, ns \in {NS_html, NS_svg}, a \in {<<>>, <<A3(None, N_id, <<120>>)>>} :
                Push(T(IF n \in VoidNames /\ ns = NS_html THEN "EmptyTag" ELSE "StartTag", n, ns, a, <<>>, None, None), 1)
       \/ /\ o.minbool /\ ~o.solidus /\ o.spacesol
          /\ \E n \in RawProbe, ns \in {NS_html, NS_svg, None}, d \in {<<60, 38, 62>>, <<60, 47, 97>>} :
                toks' = <<St(n, ns, <<>>), Ch(d), En(n, ns), Ch(<<60>>)>> /\ ph' = 1 /\ UNCHANGED o

\* ---------- enc mode ----------
NumProbe == (128..159) \cup {888, 19968, 55296, 57343, 64976, 65534, 128512, 1114111}
EncChars == IF Size >= 1 THEN EncCps \cup NumProbe
            ELSE {c \in EncCps : c < 256 \/ c % 16 = 0} \cup NumProbe
LA(i, v) == <<None, <<96 + i>>, v>>                     \* attribute named a, b, c ...
EncStreamA(c) == <<St(N_p, NS_html, <<LA(1, <<c, 97>>), LA(2, <<c, 49>>), LA(3, <<c, 61>>), LA(4, <<c, 59>>), LA(5, <<c>>),
                                      LA(6, <<c, 32, 98>>), LA(7, <<97, c>>)>>),
                   Ch(<<c, 97, 32, c, 49, 32, c, 61, 32, c, 59, 32, c>>), En(N_p, NS_html),
                   St(N_title, NS_html, <<>>), Ch(<<c, 97>>), En(N_title, NS_html)>>
EncStreamB(c) == <<St(N_style, NS_html, <<>>), Ch(<<c>>), En(N_style, NS_html)>>
EncStreamC(c) == <<Ch(<<c>>), Cm(<<c>>), Ch(<<97>>)>>
EncStreamD(c) == <<St(N_p, NS_html, <<<<None, <<c>>, <<97>>>>>>), En(N_p, NS_html)>>
\* "spec" quoting writes the values of stream A both quoted (c=, c b) and unquoted (the rest)
EncOpts == IF Size >= 2 THEN {DefaultOpt, [DefaultOpt EXCEPT !.qav = "spec"], [DefaultOpt EXCEPT !.qav = "always", !.qc = "sq"]}
           ELSE {[DefaultOpt EXCEPT !.qav = "spec"]}
EInit0 == \E oo \in EncOpts : toks = <<>> /\ open = <<>> /\ o = oo /\ ph = 0
\* two steps (pick the character, then build the stream) so that the expensive states are spread over the workers
ENext == \/ /\ ph = 0 /\ ph' = 1 /\ UNCHANGED <<open, toks>>
            /\ \E c \in EncChars : o' = [o EXCEPT !.pf = <<c>>]
         \/ /\ ph = 1 /\ ph' = 2 /\ UNCHANGED <<open, o>>
            /\ LET c == o.pf[1] IN
               \/ toks' = EncStreamA(c)
               \/ o.qav = "spec" /\ toks' = EncStreamB(c)
               \/ o.qav = "spec" /\ c \in NumProbe /\ toks' = EncStreamC(c)
               \/ o.qav = "spec" /\ c \in NumProbe /\ toks' = EncStreamD(c)

Init == CASE Mode = "text" -> TInit0 [] Mode = "attr" -> AInit0 [] Mode = "misc" -> MInit0 [] Mode = "table" -> BInit0
          [] Mode = "enc" -> EInit0 [] OTHER -> CInit0
Next == CASE Mode = "text" -> TNext [] Mode = "attr" -> ANext [] Mode = "misc" -> MNext [] Mode = "table" -> BNext
          [] Mode = "enc" -> ENext [] OTHER -> CNext

\* ---------- theorems ----------
Res      == SerRun(toks, o, KnownDefects)
Ok       == Faithful(toks, o, Res)
Ill      == IF Ok THEN {} ELSE Fired(toks, o, KnownDefects)
ThmProperty  == CheckProperty => Ok
ThmStrictCut == LET r == Res IN (r.ferr = -1 <=> r.errs = <<>>) /\ r.ferr <= Len(r.out)
ThmExplained == Ok \/ (Ill # {} /\ Faithful(toks, o, SerRun(toks, o, {})))
ThmExport == Export => PrintT(ToJson([inp |-> toks, o |-> o, out |-> OutOf(Res), errs |-> Res.errs, ferr |-> CutOf(Res),
                                      ill |-> Ill, c |-> IF Ok THEN "ok" ELSE Judge(toks, o, Res.out).c]))
=============================================================================
