--------------------------- MODULE MC_EtreeWalker ----------------------------
(* C11, model level: the etree cursor machine refines Walk.                                    *)
(* Phase "build": every ElementTree shape of <= MaxNodes elements over the alphabet (each new   *)
(* element becomes the last child of an element on the rightmost path; every .text / .tail      *)
(* pattern incl. None and ""; comments; doctype; a void element, also one with text; raw names  *)
(* that collide with Clark notation).  The root is a document (with or without .text) or an     *)
(* element that itself has a tail (which must not be emitted).                                  *)
(* Phase "walk": from every build state and every container as starting node, the traversal     *)
(* loop runs one navigation call per transition.  Invariants: the cursor always denotes a node  *)
(* of the subtree with the right ancestor stack; the output is a prefix of Walk(AbsE(E));       *)
(* at termination it equals it.                                                                 *)
EXTENDS EtreeWalker, TLC, Json
CONSTANTS MaxNodes, Alphabet, Export, CheckProperty       \* Alphabet \in {"wide", "narrow", "shape"}

RawIn(ns, n) == <<LBRACE>> \o ns \o <<RBRACE>> \o n
RawDocRoot  == <<68,79,67,85,77,69,78,84,95,82,79,79,84>>        \* "DOCUMENT_ROOT"
RawDoctype  == <<60,33,68,79,67,84,89,80,69,62>>                 \* "<!DOCTYPE>"
ENode(tag, raw, attrs, text, tail, pub, sys, par) ==
    [tag |-> tag, raw |-> raw, attrs |-> attrs, text |-> text, tail |-> tail, pub |-> pub, sys |-> sys,
     kids |-> <<>>, par |-> par]
X == <<120>>
Y == <<121>>
DivTexts == CASE Alphabet = "wide" -> {None, <<>>, X, <<32>>} [] Alphabet = "narrow" -> {None, <<>>, X} [] OTHER -> {None, X}
DivTails == CASE Alphabet = "wide" -> {None, <<>>, Y} [] OTHER -> {None, Y}
\* {x}y is a namespaced attribute no html5lib builder writes: it is in the alphabet only under "etree-clark-raw-name"
\* (the builder leaking a raw document name); the intended alphabet has the builder-written {xlink}href instead
ClarkAttrs == << <<(<<LBRACE, RBRACE>> \o Y), <<49>>>>,                    \* {}y="1"
                 << <<LBRACE, 120, RBRACE>>, <<50>>>>,                      \* {x}="2"
                 (IF "etree-clark-raw-name" \in KnownDefects THEN << <<LBRACE, 120, RBRACE, 121>>, <<51>>>>     \* {x}y="3"
                  ELSE << RawIn(NS_xlink, N_href), <<51>>>>),
                 << N_id, <<52>>>> >>
\* metacharacters of the Clark / qualified-name encodings INSIDE names: "}" , "{", ":" after the first "}"
MetaName  == <<97, RBRACE, 98, 58, LBRACE, 99, RBRACE>>                    \* a}b:{c}
MetaAttrs == << << <<99, RBRACE, 100>>, <<49>>>>,                           \* c}d="1"
                << RawIn(NS_xlink, <<101, RBRACE, 102>>), <<50>>>>,         \* {xlink}e}f="2"
                << <<103, 58, LBRACE, 104, RBRACE>>, <<51>>>> >>            \* g:{h}="3"
Kinds(par, top) ==
    {ENode("elem", RawIn(NS_html, N_div), <<>>, t, tl, None, None, par) : t \in DivTexts, tl \in DivTails}
    \cup {ENode("elem", RawIn(NS_html, N_br), <<>>, t, None, None, None, par) :
              t \in (IF Alphabet = "shape" THEN {None} ELSE {None, X})}
    \cup (IF Alphabet = "wide" THEN {ENode("elem", RawIn(NS_html, N_br), <<>>, None, Y, None, None, par)} ELSE {})
    \cup (IF Alphabet # "shape" THEN {ENode("elem", N_div, ClarkAttrs, None, None, None, None, par),
                                      ENode("elem", <<LBRACE, RBRACE>> \o N_p, <<>>, None, None, None, None, par),
                                      ENode("elem", RawIn(NS_svg, MetaName), MetaAttrs, None, None, None, None, par)}
          ELSE {})
    \cup {ENode("comment", None, <<>>, <<99>>, tl, None, None, par) : tl \in (IF Alphabet = "shape" THEN {None} ELSE {None, Y})}
    \cup (IF top /\ Alphabet # "shape"
          THEN {ENode("doctype", RawDoctype, <<>>, N_html, tl, None, <<115>>, par) : tl \in {None, Y}} ELSE {})

VARIABLES E, mode, start, st, evs
vars == <<E, mode, start, st, evs>>

RECURSIVE RightPath(_, _)
RightPath(EE, i) == IF EE[i].kids = <<>> \/ EE[EE[i].kids[Len(EE[i].kids)]].tag \notin {"elem", "doc"} THEN <<i>>
                    ELSE <<i>> \o RightPath(EE, EE[i].kids[Len(EE[i].kids)])
Containers == {i \in 1..Len(E) : E[i].tag \in {"elem", "doc"}}

Init == /\ E \in {<<ENode("doc", RawDocRoot, <<>>, t, None, None, None, 0)>> : t \in {None, X}}
                 \cup {<<ENode("elem", RawIn(NS_html, N_div), <<>>, None, <<114>>, None, None, 0)>>}
        /\ mode = "build" /\ start = 0 /\ st = EtInit(0) /\ evs = <<>>
Build == /\ mode = "build" /\ Len(E) < MaxNodes
         /\ \E k \in 1..Len(RightPath(E, 1)) :
               LET p == RightPath(E, 1)[k] IN
               \E new \in Kinds(p, p = 1 /\ E[1].tag = "doc") :
                   E' = Append([E EXCEPT ![p].kids = Append(@, Len(E) + 1)], new)
         /\ UNCHANGED <<mode, start, st, evs>>
Begin == /\ mode = "build"
         /\ \E s \in Containers : start' = s /\ st' = EtInit(s)
         /\ mode' = "walk" /\ UNCHANGED <<E, evs>>
Step  == /\ mode = "walk" /\ st.ph # "done"
         /\ st' = EtStep(E, start, st, KnownDefects)
         /\ evs' = IF st'.ev # NoEtEv THEN Append(evs, st'.ev) ELSE evs
         /\ UNCHANGED <<E, mode, start>>
Next == Build \/ Begin \/ Step

Ref == Walk(AbsE(E, start), KnownDefects)
Done == mode = "walk" /\ st.ph = "done"
ThmCursor  == mode = "walk" => CursorInv(E, start, st.cur)
ThmPrefix  == (mode = "walk" /\ CheckProperty) => IsPrefixOf(st.out, Ref)
ThmRefines == (Done /\ CheckProperty) => st.out = Ref
ThmRootTailSilent == Done => (st.out = <<>> \/ st.out[Len(st.out)].t # "Characters" \/ E[start].tag = "doc"
                              \/ st.out[Len(st.out)].d # <<114>>)
\* the builder convention: no stream carries a namespace the builder cannot have written (fails exactly when a raw
\* document name leaks into Clark notation)
ThmRawNames == Done => UnClark(st.out) = st.out
ThmExplained == (Done /\ st.out # Ref) => "etree-clark-empty-part" \in EtFiredOn(E, start, KnownDefects)
ThmExport == (Export /\ Done) =>
    PrintT(ToJson([E |-> E, start |-> start, out |-> st.out, evs |-> evs, lint |-> LintOK(st.out, KnownDefects),
                   clause |-> IF ParsedShape(AbsE(E, start))
                              THEN PropertyClause(st.out, AbsE(E, start), LintOK(st.out, KnownDefects), <<>>, FALSE)
                              ELSE "nonparsed",
                   fired |-> EtFiredOn(E, start, KnownDefects)]))
=============================================================================
