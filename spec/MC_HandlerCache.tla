--------------------------- MODULE MC_HandlerCache ---------------------------
(* Phase.processStartTag / processEndTag keep a per-phase-object cache name -> bound handler that   *)
(* is never reset (it lives as long as the parser object) and is bounded by 1.1 x the size of the   *)
(* handler table with FIFO eviction.  All lookup sequences of <= MaxLen names over Table (names     *)
(* with an own handler) and Extra (names that fall to the default handler).  Theorems: the handler  *)
(* a lookup dispatches to is a function of the name alone - whatever the cache holds, i.e. whatever *)
(* was parsed before - and the cache respects its bound.  Every sequence is exported and replayed   *)
(* on a real Phase object (a subclass with a handler table of the same size).                       *)
EXTENDS Lifecycle, TLC, Json
CONSTANTS Table, Extra, MaxLen, Export
VARIABLES cache, names, funcs, keys
Init == cache = <<>> /\ names = <<>> /\ funcs = <<>> /\ keys = <<>>
Lookup(n) == /\ Len(names) < MaxLen
             /\ LET r == CacheStep(cache, Table, n) IN
                /\ cache' = r.cache /\ names' = Append(names, n) /\ funcs' = Append(funcs, r.func)
                /\ keys' = Append(keys, [i \in 1..Len(r.cache) |-> r.cache[i].name])
Next == \E n \in Table \cup Extra : Lookup(n)
ThmTransparent == \A i \in 1..Len(names) : funcs[i] = Handler(Table, names[i])
ThmSound       == CacheSound(cache, Table)
ThmBounded     == CacheBounded(cache, Table)
ThmExport == (Export /\ Len(names) = MaxLen) => PrintT(ToJson([names |-> names, funcs |-> funcs, keys |-> keys]))
=============================================================================
