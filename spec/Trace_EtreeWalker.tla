--------------------------- MODULE Trace_EtreeWalker ----------------------------
(* C11, code -> spec, etree walker.  One trace = one walk of a real ElementTree:                *)
(*   [E : raw ElementTree shape (harness/proj.py etree_shape), start : index of the start node, *)
(*    evs : every getFirstChild / getNextSibling / getParentNode call the real walker made,     *)
(*          as [op, cin, cout] with cursors [el, key, parents, flag, bare],                      *)
(*    stream, lint, other, hasOther : as in Trace_Walker,                                       *)
(*    tree : harness/proj.py projection of the same subtree, flat form (ties proj.py to AbsE)]  *)
(* One transition per step of the traversal loop; a step that makes a navigation call consumes  *)
(* the next recorded call and must agree with it exactly (argument and result).                 *)
(* Verdicts: reject:nav (l = index of the call), reject:nav-missing, reject:nav-extra,           *)
(* reject:stream, reject:projection, reject:lint-model, reject:concat, then as Trace_Walker.    *)
(* sameTree = both builders built the same tree.  When they did not, the streams are still     *)
(* compared: a difference that vanishes under UnClark is the deviation etree-clark-raw-name,     *)
(* any other difference is a builder divergence (C04): accept:builders-differ.                   *)
EXTENDS EtreeWalker, TLC, Json, IOUtils
Traces == JsonDeserialize(IOEnv.TRACE_FILE)
VARIABLES tid, l, st, verdict, c, f
vars == <<tid, l, st, verdict, c, f>>

Init == /\ tid \in 1..Len(Traces) /\ l = 1 /\ verdict = "run" /\ c = "-" /\ f = {}
        /\ st = EtInit(Traces[tid].start)
Final(tr) ==
    LET nd   == AbsE(tr.E, tr.start)
        good == EtRun(tr.E, tr.start, {})
    IN IF st.out # tr.stream THEN [v |-> "reject:stream", l |-> FirstDiff(tr.stream, st.out), c |-> "-", f |-> {}]
       ELSE IF nd # Unflat(tr.tree, 1) THEN [v |-> "reject:projection", l |-> 0, c |-> "-", f |-> {}]
       ELSE IF tr.lint # LintOK(tr.stream, KnownDefects) THEN [v |-> "reject:lint-model", l |-> 0, c |-> "-", f |-> {}]
       ELSE IF tr.concat # Concat(tr.stream) THEN [v |-> "reject:concat", l |-> 0, c |-> "-", f |-> {}]
       ELSE IF ~ParsedShape(nd) THEN [v |-> "accept:nonparsed", l |-> l, c |-> "-", f |-> {}]
       ELSE LET cl == PropertyClause(tr.stream, nd, tr.lint, tr.other, tr.hasOther /\ tr.sameTree)
                \* the builders built different trees: is the only difference a raw name read back as Clark notation?
                diff == tr.hasOther /\ ~tr.sameTree /\ ~SameModuloText(tr.stream, tr.other)
                raw  == diff /\ SameModuloText(UnClark(tr.stream), tr.other)
            IN
            IF cl = "ok"
            THEN IF raw THEN (IF "etree-clark-raw-name" \in KnownDefects
                             THEN [v |-> "finding", l |-> l, c |-> "crosswalker", f |-> {"etree-clark-raw-name"}]
                             ELSE [v |-> "reject:property", l |-> l, c |-> "crosswalker", f |-> {}])
                 ELSE IF diff THEN [v |-> "accept:builders-differ", l |-> l, c |-> cl, f |-> {}]
                 ELSE [v |-> "accept", l |-> l, c |-> cl, f |-> {}]
            ELSE LET fired == EtFiredOn(tr.E, tr.start, KnownDefects) IN
                 IF fired # {} /\ PropertyClause(good, nd, LintOK(good, {}), <<>>, FALSE) = "ok"
                 THEN [v |-> "finding", l |-> l, c |-> cl, f |-> fired]
                 ELSE [v |-> "reject:property", l |-> l, c |-> cl, f |-> {}]
Step ==
    /\ verdict = "run"
    /\ LET tr == Traces[tid] IN
       IF st.ph = "done"
       THEN IF l # Len(tr.evs) + 1
            THEN verdict' = "reject:nav-extra" /\ UNCHANGED <<tid, l, st, c, f>>
            ELSE LET r == Final(tr) IN verdict' = r.v /\ l' = r.l /\ c' = r.c /\ f' = r.f /\ UNCHANGED <<tid, st>>
       ELSE LET nx == EtStep(tr.E, tr.start, st, KnownDefects) IN
            IF nx.ev = NoEtEv THEN st' = nx /\ UNCHANGED <<tid, l, verdict, c, f>>
            ELSE IF l > Len(tr.evs) THEN verdict' = "reject:nav-missing" /\ UNCHANGED <<tid, l, st, c, f>>
            ELSE IF tr.evs[l] # nx.ev THEN verdict' = "reject:nav" /\ UNCHANGED <<tid, l, st, c, f>>
            ELSE st' = nx /\ l' = l + 1 /\ UNCHANGED <<tid, verdict, c, f>>
Done == verdict # "run" /\ UNCHANGED vars
Next == Step \/ Done
Report == verdict # "run" => PrintT(ToJson([tid |-> tid, l |-> l, v |-> verdict, c |-> c, f |-> f]))
=============================================================================
