--------------------------- MODULE Trace_Tokenizer ---------------------------
(* Token streams recorded from the real HTMLTokenizer (normal form) on arbitrary inputs:      *)
(* {src, start, last, cdata, out}.  The spec tokenizes src itself and compares token by token; *)
(* the verdict names the first differing token.                                                *)
EXTENDS Tokenizer, TLC, Json, IOUtils
Traces == JsonDeserialize(IOEnv.TRACE_FILE)
VARIABLES tid, l, verdict
vars == <<tid, l, verdict>>
RECURSIVE FirstDiff(_, _, _)
FirstDiff(a, b, k) == IF k > Len(a) \/ k > Len(b) THEN (IF Len(a) = Len(b) THEN 0 ELSE k)
                      ELSE IF a[k] # b[k] THEN k ELSE FirstDiff(a, b, k + 1)
Init == tid \in 1..Len(Traces) /\ l = 0 /\ verdict = "run"
Step == /\ verdict = "run"
        /\ LET tr == Traces[tid]
               exp == Tokenize(tr.src, tr.start, tr.last, tr.cdata)
               d == FirstDiff(exp, tr.out, 1)
           IN IF d = 0 THEN (IF OutputWellFormed(tr.out) THEN verdict' = "accept" ELSE verdict' = "reject:wellformed") /\ l' = Len(tr.out)
              ELSE verdict' = "reject:token" /\ l' = d
        /\ UNCHANGED tid
Done == verdict # "run" /\ UNCHANGED vars
Next == Step \/ Done
Report == verdict # "run" => PrintT(ToJson([tid |-> tid, l |-> l, v |-> verdict]))
=============================================================================
