"""Projection of real html5lib result trees (ElementTree with fullTree=True, minidom) to the canonical nested
form of spec/TreeOps.tla!Canon, by direct traversal (never through html5lib's walkers or testSerializer).
Adjacent text is merged; None and "" doctype identifiers are identified; HTML elements get ns "html" whether or not
namespaceHTMLElements is on."""
from xml.dom import Node

from .tok import enc

NS = {"http://www.w3.org/1999/xhtml": "html", None: "html", "http://www.w3.org/2000/svg": "svg",
      "http://www.w3.org/1998/Math/MathML": "math"}
ANS = {"http://www.w3.org/1999/xlink": "xlink", "http://www.w3.org/XML/1998/namespace": "xml",
       "http://www.w3.org/2000/xmlns/": "xmlns", None: "", "": ""}


def node(k, ns="", n=(), a=(), d=(), p=(), s=(), c=()):
    return {"k": k, "ns": ns, "n": list(n), "a": list(a), "d": list(d), "p": list(p), "s": list(s), "c": list(c)}


def _split(tag):
    if tag.startswith("{"):
        ns, _, name = tag[1:].partition("}")
        return ns, name
    return None, tag


def _push_text(kids, text):
    if not text:
        return
    if kids and kids[-1]["k"] == "text":
        kids[-1]["d"] += enc(text)
    else:
        kids.append(node("text", d=enc(text)))


def _etree_node(el):
    import xml.etree.ElementTree as ET
    if el.tag is ET.Comment:
        return node("comment", d=enc(el.text or ""))
    if el.tag == "<!DOCTYPE>":
        return node("doctype", n=enc(el.text or ""), p=enc(el.get("publicId") or ""), s=enc(el.get("systemId") or ""))
    ns, name = _split(el.tag)
    attrs = []
    for k, v in el.attrib.items():
        ans, local = _split(k)
        attrs.append([ANS.get(ans, ans), enc(local), enc(v)])
    return node("elem", ns=NS.get(ns, ns), n=enc(name), a=attrs, c=_etree_kids(el))


def _etree_kids(el):
    kids = []
    _push_text(kids, el.text)
    for ch in el:
        kids.append(_etree_node(ch))
        _push_text(kids, ch.tail)
    return kids


def from_etree_document(root):
    """root = DOCUMENT_ROOT element returned by the etree builder with fullTree=True"""
    return node("doc", c=_etree_kids(root))


def from_etree_fragment(frag):
    return _etree_kids(frag)


def _dom_node(nd):
    t = nd.nodeType
    if t == Node.COMMENT_NODE:
        return node("comment", d=enc(nd.data))
    if t == Node.DOCUMENT_TYPE_NODE:
        return node("doctype", n=enc(nd.name or ""), p=enc(nd.publicId or ""), s=enc(nd.systemId or ""))
    if t == Node.ELEMENT_NODE:
        attrs = []
        am = nd.attributes
        for i in range(am.length):
            at = am.item(i)
            if at.namespaceURI:
                attrs.append([ANS.get(at.namespaceURI, at.namespaceURI), enc(at.localName), enc(at.value)])
            else:
                attrs.append(["", enc(at.name), enc(at.value)])
        name = nd.tagName                # the qualified name html5lib passed to createElement[NS]
        return node("elem", ns=NS.get(nd.namespaceURI, nd.namespaceURI), n=enc(name), a=attrs, c=_dom_kids(nd))
    raise ValueError("unexpected DOM node type %r" % t)


def _dom_kids(nd):
    kids = []
    for ch in nd.childNodes:
        if ch.nodeType in (Node.TEXT_NODE, Node.CDATA_SECTION_NODE):
            _push_text(kids, ch.data)
        else:
            kids.append(_dom_node(ch))
    return kids


def from_dom_document(doc):
    return node("doc", c=_dom_kids(doc))


def from_dom_fragment(frag):
    return _dom_kids(frag)


def show(t, depth=0):
    """short text rendering for samples / diagnostics"""
    from .tok import dec
    out = []

    def rec(x, d):
        if x["k"] == "text":
            out.append("  " * d + repr(dec(x["d"])))
        elif x["k"] == "comment":
            out.append("  " * d + "<!--%s-->" % dec(x["d"]))
        elif x["k"] == "doctype":
            out.append("  " * d + "<!DOCTYPE %s %r %r>" % (dec(x["n"]), dec(x["p"]), dec(x["s"])))
        elif x["k"] == "doc":
            out.append("  " * d + "#document")
        elif x["k"] == "content":     # template contents (intended model only: html5lib has no template support)
            out.append("  " * d + "content")
        else:
            out.append("  " * d + "<%s%s%s>" % ("" if x["ns"] == "html" else x["ns"] + ":", dec(x["n"]),
                                             "".join(" %s%s=%r" % (a[0] + ":" if a[0] else "", dec(a[1]), dec(a[2])) for a in x["a"])))
        for c in x.get("c", []):
            rec(c, d + 1)
    if isinstance(t, list):
        for c in t:
            rec(c, depth)
    else:
        rec(t, depth)
    return "\n".join(out)
