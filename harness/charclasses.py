"""Code points on which Python's character predicates and HTML's character classes disagree.

HTML whitespace is exactly TAB, LF, FF, CR, SPACE.  str.isspace()/strip()/split(), the regex class \\s, string.whitespace
and str.lower()/re.IGNORECASE treat more characters alike; a text alphabet without these characters cannot tell an
implementation that uses the HTML classes from one that uses Python's."""
import sys

HTML_SPACE = "\t\n\x0c\r "
# everything Python calls whitespace but HTML does not (U+000B, U+001C-1F, U+0085, U+00A0, U+1680, U+2000-200A, ...)
PY_ONLY_SPACE = "".join(chr(c) for c in range(sys.maxunicode + 1) if chr(c).isspace() and chr(c) not in HTML_SPACE)
C0_CONTROLS = "".join(chr(c) for c in range(1, 0x20) if chr(c) not in HTML_SPACE)
# characters whose lower()/casefold()/IGNORECASE image is an ASCII letter (KELVIN SIGN, dotless i, long s, ...)
ASCII_CASE_ALIASES = "".join(chr(c) for c in range(0x80, 0x3000)
                             if any(ch.isascii() and ch.isalpha() for ch in chr(c).lower() + chr(c).upper() + chr(c).casefold()))
# Python digits that are not ASCII digits (int() and \\d accept them)
NON_ASCII_DIGITS = "٠۱१１"
TRICKY = PY_ONLY_SPACE + C0_CONTROLS + ASCII_CASE_ALIASES + NON_ASCII_DIGITS + "﻿"
