"""Function-level coverage of html5lib under a set of inputs (auxiliary evidence: which handlers of the implementation the
spec-derived input sets reach).  python -m harness.funccov <jsonl of [src, container]>"""
import ast
import json
import os
import sys

from . import core


def all_functions(path):
    tree = ast.parse(open(path).read())
    out = set()
    for node in ast.walk(tree):
        if isinstance(node, ast.ClassDef):
            for f in node.body:
                if isinstance(f, ast.FunctionDef):
                    out.add((node.name, f.name))
    return out


def measure(inputs, files=("html5parser.py", "_tokenizer.py")):
    import html5lib
    base = os.path.dirname(html5lib.__file__)
    want = {os.path.join(base, f) for f in files}
    seen = set()

    def tracer(frame, event, arg):
        co = frame.f_code
        if co.co_filename in want:
            seen.add((co.co_filename, co.co_name, co.co_firstlineno))
        return None
    sys.setprofile(tracer)
    try:
        for src, cx in inputs:
            for tb in ("etree", "dom"):
                try:
                    p = html5lib.HTMLParser(tree=html5lib.getTreeBuilder(tb))
                    if cx is None:
                        p.parse(src)
                    else:
                        p.parseFragment(src, container=cx)
                except Exception:
                    pass
    finally:
        sys.setprofile(None)
    return seen


def report(inputs):
    import html5lib
    base = os.path.dirname(html5lib.__file__)
    seen = measure(inputs)
    res = {}
    for f in ("html5parser.py", "_tokenizer.py"):
        path = os.path.join(base, f)
        tree = ast.parse(open(path).read())
        funcs = []
        for node in ast.walk(tree):
            if isinstance(node, ast.ClassDef):
                for fn in node.body:
                    if isinstance(fn, ast.FunctionDef):
                        funcs.append((node.name, fn.name, fn.lineno))
        hit = {(n, l) for (p_, n, l) in seen if p_ == path}
        missed = [(c, n) for c, n, l in funcs if not any(h[0] == n and abs(h[1] - l) <= 3 for h in hit)]
        res[f] = {"functions": len(funcs), "reached": len(funcs) - len(missed), "missed": ["%s.%s" % m for m in missed]}
    return res


if __name__ == "__main__":
    inputs = [json.loads(l) for l in open(sys.argv[1])]
    print(json.dumps(report(inputs), indent=1))
