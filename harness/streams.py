"""Schedules for stream components (filters, tree walkers, to_sax, serializer).

The specifications define the output of a stream component as a function of its input stream.  The plain way of running one
(a list in, the whole output collected) exercises a single schedule.  These helpers run the same component under the other
schedules a caller can produce, and require the same output:
  * the source handed over as a one-shot iterator / a generator instead of a re-iterable list;
  * two live instances consumed alternately (lockstep), so that anything shared between instances shows;
  * an iteration abandoned half way, then a fresh run (and, for re-iterable objects, the same object iterated again);
  * the component stacked on itself with a pass-through stage in between.
`make(source) -> iterable` builds the component; `key(token_list)` projects an output for comparison."""
import copy
import itertools


def _gen(xs):
    for x in xs:
        yield x


def _lockstep(ia, ib):
    outa, outb = [], []
    sentinel = object()
    for x, y in itertools.zip_longest(ia, ib, fillvalue=sentinel):
        if x is not sentinel:
            outa.append(copy.deepcopy(x))
        if y is not sentinel:
            outb.append(copy.deepcopy(y))
    return outa, outb


def check(ctx, what, make, streams, key=lambda out: out, pairs=40, reiterable=None, case=lambda i: {}):
    """streams: list of token lists.  reiterable(tokens) -> object that may be iterated repeatedly (e.g. a walker on a tree);
    when given, the same object is iterated again after an abandoned iteration."""
    bad = 0
    plain = []
    for s in streams:
        plain.append(key([copy.deepcopy(t) for t in make(copy.deepcopy(s))]))
    for i, s in enumerate(streams):
        for mode, src in (("one-shot iterator", lambda: iter(copy.deepcopy(s))), ("generator", lambda: _gen(copy.deepcopy(s)))):
            try:
                got = key([copy.deepcopy(t) for t in make(src())])
            except Exception as e:          # noqa
                got = "exception %r" % (e,)
            if got != plain[i]:
                bad += 1
                ctx.violation("%s: output differs when the source is a %s" % (what, mode), dict(case(i), kind="schedule", mode=mode, stream=i))
        # abandoned iteration, then a fresh run
        try:
            it = iter(make(copy.deepcopy(s)))
            for _ in range(max(1, len(plain[i]) // 2) if isinstance(plain[i], list) else 1):
                next(it, None)
            del it
            got = key([copy.deepcopy(t) for t in make(copy.deepcopy(s))])
        except Exception as e:          # noqa
            got = "exception %r" % (e,)
        if got != plain[i]:
            bad += 1
            ctx.violation("%s: output differs after an abandoned iteration" % what, dict(case(i), kind="schedule", mode="abandoned", stream=i))
        if reiterable is not None:
            try:
                obj = reiterable(copy.deepcopy(s))
                it = iter(make(obj))
                for _ in range(3):
                    next(it, None)
                del it
                got = key([copy.deepcopy(t) for t in make(obj)])
            except Exception as e:          # noqa
                got = "exception %r" % (e,)
            if got != plain[i]:
                bad += 1
                ctx.violation("%s: the same source object gives a different output after an abandoned iteration" % what,
                              dict(case(i), kind="schedule", mode="abandoned-same-object", stream=i))
    # two live instances in lockstep
    n = len(streams)
    for j in range(min(pairs, n // 2)):
        a, b = j, n - 1 - j
        try:
            oa, ob = _lockstep(iter(make(copy.deepcopy(streams[a]))), iter(make(copy.deepcopy(streams[b]))))
            got = (key(oa), key(ob))
        except Exception as e:          # noqa
            got = "exception %r" % (e,)
        if got != (plain[a], plain[b]):
            bad += 1
            ctx.violation("%s: two instances consumed alternately disturb each other" % what,
                          dict(case(a), kind="schedule", mode="lockstep", streams=[a, b]))
    ctx.notes["schedule_checks_" + what.replace(" ", "_")] = {"streams": n, "mismatches": bad}
    return bad
