"""Runs the real sanitizer.Filter on projected token streams in a CHILD interpreter started with a chosen PYTHONHASHSEED.

The filter visits `attr_names & self.attr_val_is_uri` (a set) and other hash-ordered containers; the specification knows
no visiting order, so the output must be the same under every hash seed.
usage (internal):  PYTHONHASHSEED=n python -m harness.sanchild   with JSON {"kw": {...}, "streams": [[token, ...], ...]} on stdin."""
import json
import os
import subprocess
import sys

VERIF = os.path.dirname(os.path.dirname(os.path.abspath(__file__)))


def child():
    import warnings
    warnings.simplefilter("ignore")
    from . import core, tok      # noqa: core puts the repository under test on sys.path
    from html5lib.filters import sanitizer
    job = json.load(sys.stdin)
    kw = {k: frozenset(tuple(e) if isinstance(e, list) else e for e in v) for k, v in job["kw"].items()}
    res = []
    for s in job["streams"]:
        out, exc = [], None
        try:
            for t in sanitizer.Filter(iter([tok.unproj_token(t) for t in s]), **kw):
                out.append(tok.proj_token(t))
        except Exception as e:      # noqa
            exc = type(e).__name__
        res.append({"out": out, "exc": exc})
    json.dump({"hashseed": os.environ.get("PYTHONHASHSEED"), "res": res}, sys.stdout)


def run(hashseed, kw_json, streams):
    """-> [{"out": projected tokens, "exc": exception name or None}] computed under PYTHONHASHSEED=hashseed"""
    env = dict(os.environ, PYTHONHASHSEED=str(hashseed), PYTHONDONTWRITEBYTECODE="1")
    p = subprocess.run([sys.executable, "-B", "-m", "harness.sanchild"], input=json.dumps({"kw": kw_json, "streams": streams}),
                       cwd=VERIF, env=env, stdout=subprocess.PIPE, stderr=subprocess.PIPE, universal_newlines=True, timeout=900)
    if p.returncode != 0:
        raise RuntimeError("sanitizer child (PYTHONHASHSEED=%s) failed: %s" % (hashseed, p.stderr[-400:]))
    r = json.loads(p.stdout)
    assert r["hashseed"] == str(hashseed)
    return r["res"]


if __name__ == "__main__":
    child()
