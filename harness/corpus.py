"""Input corpora shared by the checks: strings found in the repository's own tests and fixtures,
seeded random markup soup, and mutation helpers.  Nothing here is an oracle."""
import ast
import glob
import os
import random

from .core import REPO

_cache = {}


def repo_strings(maxlen=400):
    """Every string / bytes literal in the repo's test modules, plus test data lines."""
    if "repo" in _cache:
        return _cache["repo"]
    out = []
    seen = set()
    for path in sorted(glob.glob(os.path.join(REPO, "html5lib", "tests", "*.py"))):
        try:
            tree = ast.parse(open(path, encoding="utf-8").read())
        except (SyntaxError, OSError):
            continue
        for node in ast.walk(tree):
            v = getattr(node, "value", None) if isinstance(node, ast.Constant) else None
            if isinstance(v, bytes):
                try:
                    v = v.decode("utf-8")
                except UnicodeDecodeError:
                    v = v.decode("latin-1")
            if isinstance(v, str) and 0 < len(v) <= maxlen and v not in seen and ("<" in v or "&" in v):
                seen.add(v)
                out.append(v)
    for path in sorted(glob.glob(os.path.join(REPO, "html5lib", "tests", "*testdata", "*"))):
        try:
            txt = open(path, encoding="utf-8", errors="replace").read()
        except OSError:
            continue
        import re
        for m in re.finditer(r'"((?:[^"\\]|\\.)*)"', txt):
            try:
                v = ast.literal_eval('"' + m.group(1) + '"')
            except Exception:
                continue
            if 0 < len(v) <= maxlen and v not in seen and ("<" in v or "&" in v):
                seen.add(v)
                out.append(v)
    _cache["repo"] = out
    return out


TAGS = ["a", "b", "i", "p", "div", "span", "table", "tr", "td", "th", "tbody", "caption", "colgroup", "col",
        "select", "option", "optgroup", "ul", "li", "dl", "dt", "dd", "pre", "textarea", "title", "style",
        "script", "xmp", "noscript", "iframe", "plaintext", "svg", "math", "mi", "mtext", "annotation-xml",
        "foreignObject", "desc", "form", "input", "button", "h1", "h2", "br", "hr", "img", "meta", "link",
        "head", "body", "html", "frameset", "frame", "noframes", "nobr", "font", "em", "strong", "applet",
        "object", "marquee", "ruby", "rt", "rp", "rb", "rtc", "listing", "image", "isindex", "template", "main",
        "address", "center", "details", "summary", "dialog", "menu", "nav", "section", "label", "video",
        "audio", "source", "track", "param", "embed", "area", "wbr", "keygen", "command", "x-foo", "mglyph",
        "malignmark", "thead", "tfoot"]
ATTRS = ["id", "class", "href", "src", "type", "name", "value", "title", "style", "xlink:href", "xml:lang",
         "xmlns", "xmlns:xlink", "encoding", "color", "size", "face", "charset", "http-equiv", "content",
         "disabled", "checked", "selected", "definitionurl", "viewbox", "onclick", "action", "poster"]
TEXTS = ["x", " ", "\n", "a b", "&amp;", "&lt;", "&", "&#x41;", "&notit;", "é", "\U0001f600", "\x00", "\t",
         "<", ">", "--", "]]>", "\r\n", "'", '"', "=", "/", "\x0c", "￾", "\ud800", "1", "A"]
VALUES = ["", "x", "a b", "hidden", "text/html", "utf-8", "javascript:alert(1)", "http://a/b", "'", '"', "<", ">",
          "&", "`", "=", "é", "a\nb", "#x"]


def soup(rng, n=None, tags=None):
    """seeded random markup soup"""
    tags = tags or TAGS
    n = n or rng.randint(1, 12)
    parts = []
    for _ in range(n):
        k = rng.random()
        if k < 0.40:
            t = rng.choice(tags)
            at = ""
            for _ in range(rng.choice([0, 0, 0, 1, 1, 2, 3])):
                q = rng.choice(['"', "'", ""])
                v = rng.choice(VALUES)
                if q == "" and (not v or any(c in v for c in " \n'\"><=`")):
                    q = '"' if '"' not in v else "'"
                at += " %s=%s%s%s" % (rng.choice(ATTRS), q, v, q) if rng.random() < 0.85 else " " + rng.choice(ATTRS)
            parts.append("<%s%s%s>" % (t, at, rng.choice(["", "", "", "/"])))
        elif k < 0.62:
            parts.append("</%s>" % rng.choice(tags))
        elif k < 0.90:
            parts.append("".join(rng.choice(TEXTS) for _ in range(rng.randint(1, 3))))
        elif k < 0.94:
            parts.append("<!--%s-->" % rng.choice(["", "x", "-", "--", ">", "a-b", "!"]))
        elif k < 0.97:
            parts.append(rng.choice(["<!DOCTYPE html>", "<!doctype html PUBLIC \"-//W3C//DTD HTML 4.01//EN\">",
                                     "<!DOCTYPE x SYSTEM 'y'>", "<!DOCTYPE>", "<![CDATA[x]]>", "<?pi?>", "<!x>"]))
        else:
            parts.append(rng.choice(["<", "</", "<a", "<a b", "<a b=", "<a b='c", "<!--", "<!-", "&#", "&#x", "<a/"]))
    return "".join(parts)


def mutate(rng, s):
    if not s:
        return s
    k = rng.randrange(5)
    i = rng.randrange(len(s))
    if k == 0:
        return s[:i] + s[i + 1:]
    if k == 1:
        return s[:i] + rng.choice(TEXTS) + s[i:]
    if k == 2:
        j = rng.randrange(len(s))
        i, j = min(i, j), max(i, j)
        return s[:i] + s[j:] + s[i:j]
    if k == 3:
        return s[:i]
    return s[:i] + "<%s>" % rng.choice(TAGS) + s[i:]
