"""Seeded random generator of conforming document TREES (canonical nested form) for C07: a Python port of the content
model of spec/ContentModel.tla (the TLA+ module is the authority: every generated tree is judged by CmConforming and by
the fixpoint theorem in Trace_RoundTrip before it decides anything, so a slip here costs coverage, never soundness).
Text and attribute values range over the whole Unicode range minus what a conforming document cannot hold
(NUL, CR, other C0/C1 controls, surrogates, noncharacters)."""
from .roundtrip import C, E, T, node

VOID = {"area", "base", "br", "col", "embed", "hr", "img", "input", "link", "meta", "param", "source", "track", "wbr"}
FLOW_ONLY = ["article", "aside", "header", "footer", "h3", "h4", "h5", "h6", "menu", "div", "p", "ul", "ol", "dl", "table", "pre", "h1", "h2", "blockquote", "form", "fieldset", "hr", "address", "main",
             "section", "nav", "figure", "dialog", "details"]
PHRASING = ["a", "span", "b", "i", "em", "label", "button", "input", "img", "br", "select", "textarea", "ruby", "script", "link",
            "meta", "svg", "math"]
INTERACTIVE = {"a", "button", "select", "textarea", "input", "label", "details"}
HOLDS_FLOW = {"article", "aside", "header", "footer", "body", "div", "li", "dd", "dt", "td", "th", "blockquote", "section", "nav", "main", "figure", "figcaption",
              "fieldset", "form", "details", "dialog", "caption", "address"}
HOLDS_PHRASING = {"h3", "h4", "h5", "h6", "p", "h1", "h2", "span", "b", "i", "em", "pre", "label", "button", "summary", "legend", "rt"}
GLOBAL = ["id", "class", "title", "lang", "dir"]
HEADING_SECTION = {"h1", "h2", "h3", "h4", "h5", "h6", "section", "nav", "article", "aside", "hgroup", "header", "footer"}
# names the parsing algorithm mentions (mirror of ContentModel.tla!CmParserNames; only used to guess which handed names are
# extension elements - TLC's CmConforming has the last word)
PARSER_NAMES = set("""a address applet area article aside b base basefont bgsound big blockquote body br button caption center code col
colgroup command dd details dialog dir div dl dt em embed fieldset figcaption figure font footer form frame frameset h1 h2 h3 h4 h5 h6 head
header hgroup hr html i iframe image img input isindex keygen li link listing main marquee math menu menuitem meta nav nobr noembed noframes
noscript object ol optgroup option p param plaintext pre rb rp rt rtc ruby s script section select small source span strike strong style sub
summary sup svg table tbody td template textarea tfoot th thead title tr track tt u ul var wbr xmp label legend em""".split())
EXTENSION = ["x-y", "data"]


def set_extension_names(names):
    """complete the extension-element alphabet from the names the check hands in (harvested from the tree under test)"""
    ext = [n for n in names if n not in PARSER_NAMES and n not in FLOW_ONLY and n not in PHRASING]
    EXTENSION[:] = sorted(set(["x-y", "data"] + ext))

ATTRS = {"a": ["href"], "img": ["src", "alt", "width", "height"], "input": ["type", "name", "value"], "option": ["value"],
         "select": ["name"], "button": ["type", "name", "value"], "textarea": ["name", "rows", "cols"], "form": ["action", "method", "name"],
         "label": ["for"], "td": ["colspan", "rowspan"], "th": ["colspan", "rowspan"], "col": ["span"], "colgroup": ["span"], "ol": ["start"],
         "fieldset": ["name"]}
BOOL = {"input": ["disabled", "checked", "readonly", "required", "autofocus", "multiple"], "option": ["selected", "disabled"],
        "optgroup": ["disabled"], "select": ["multiple", "disabled", "required", "autofocus"], "button": ["disabled", "autofocus"],
        "textarea": ["disabled", "readonly", "required", "autofocus"], "fieldset": ["disabled"], "script": ["async", "defer"],
        "details": ["open"], "dialog": ["open"], "ol": ["reversed"]}
DANGER = ["x", " ", "\n", "<", "&", '"', "'", "é", "\U0001f600", "amp;", ">", "=", "`", "/", "\t", " ", "&lt;", "&#38;",
          "a b", "]]>", " ", "&copy", "&notit;", "-", "\x0c"]


def uchar(rng):
    while True:
        r = rng.random()
        if r < 0.35:
            c = rng.randint(0x20, 0x7e)
        elif r < 0.6:
            c = rng.randint(0xa0, 0x2fff)
        elif r < 0.85:
            c = rng.randint(0x3000, 0xffff)
        else:
            c = rng.randint(0x10000, 0x10ffff)
        if 0xd800 <= c <= 0xdfff or 0xfdd0 <= c <= 0xfdef or (c & 0xfffe) == 0xfffe:
            continue
        return chr(c)


def text(rng, raw=False, script=False):
    n = rng.choice([1, 1, 2, 3, 5])
    s = "".join(rng.choice(DANGER) if rng.random() < 0.7 else uchar(rng) for _ in range(n))
    if raw:
        s = s.replace("</", "<").replace("/", "|") if "</" in s else s
        if script:
            s = s.replace("<!--", "<!")
    return s or "x"


def attrs(rng, name, ns="html"):
    out, seen = [], set()
    if rng.random() < 0.55:
        return out
    pool = GLOBAL + (ATTRS.get(name, []) if ns == "html" else [])
    for _ in range(rng.choice([1, 1, 2, 3])):
        if ns == "html" and rng.random() < 0.3 and (BOOL.get(name) or True):
            b = rng.choice(BOOL.get(name, []) + ["hidden"])
            if b not in seen:
                seen.add(b)
                out.append(("", b, rng.choice(["", b])))
            continue
        a = rng.choice(pool)
        if a in seen:
            continue
        seen.add(a)
        out.append(("", a, text(rng) if rng.random() < 0.8 else ""))
    return out


class Gen(object):
    def __init__(self, rng, budget):
        self.rng = rng
        self.budget = budget

    def take(self):
        self.budget -= 1
        return self.budget >= 0

    def ws(self):
        return T(self.rng.choice([" ", "\n", "\n  ", "\t", " \n"]))

    def sep(self, kids):
        """inter-element whitespace / comment, never adjacent to text"""
        r = self.rng.random()
        if r < 0.25 and (not kids or kids[-1]["k"] != "text"):
            kids.append(self.ws())
        elif r < 0.32:
            kids.append(C(self.rng.choice(["c", "", " x ", "a-b", "é"])))

    def el(self, name, kids=(), ns="html", a=None):
        return E(name, *kids, ns=ns, a=attrs(self.rng, name, ns) if a is None else a)

    # ---- content models ----
    def flow(self, model, flags, depth, first_allowed=True):
        """children for a flow / phrasing context"""
        kids = []
        n = self.rng.choice([0, 1, 1, 2, 3, 4]) if depth < 6 else self.rng.choice([0, 1])
        for _ in range(n):
            if not self.take():
                break
            r = self.rng.random()
            if r < 0.3:
                if not kids or kids[-1]["k"] != "text":
                    kids.append(T(text(self.rng)))
                continue
            if r < 0.34:
                kids.append(C("c"))
                continue
            names = PHRASING + (FLOW_ONLY if model == "flow" else [])
            name = self.rng.choice(names) if self.rng.random() < 0.93 else self.rng.choice(EXTENSION)
            c = self.elem(name, model, flags, depth + 1)
            if c is not None:
                kids.append(c)
        return kids

    def elem(self, name, model, flags, depth):
        f = set(flags)
        if "noA" in f and name == "a" or "noInt" in f and name in INTERACTIVE or "noLabel" in f and name == "label" or \
                "noForm" in f and name == "form" or "noTable" in f and name == "table" or "noHS" in f and name in HEADING_SECTION or "noHF" in f and name in ("header", "footer") or \
                "noAddr" in f and name == "address" or "noMain" in f and name == "main" or "noRuby" in f and name == "ruby":
            return None
        if name not in ("body", "div", "form"):
            f.add("noMain")
        rng = self.rng
        if name in VOID:
            if name == "meta":
                return self.el(name, a=[("", "itemprop", "x"), ("", "content", text(rng))])
            if name == "link":
                return self.el(name, a=[("", "rel", "stylesheet"), ("", "href", text(rng))])
            return self.el(name)
        if name == "a":
            return self.el(name, self.flow(model, f | {"noA", "noInt"}, depth))
        if name in EXTENSION:                # custom element: transparent; other extension element: phrasing content
            return E(name, *self.flow(model if "-" in name else "phrasing", f, depth), a=attrs(rng, "span"))
        if name in HOLDS_PHRASING:
            extra = {"label": {"noLabel", "noInt"}, "button": {"noInt"}}.get(name, set())
            kids = self.flow("phrasing", f | extra, depth)
            if name == "pre" and rng.random() < 0.15:
                if kids and kids[0]["k"] == "text":
                    kids[0] = T("\n" + text(rng))
                else:
                    kids.insert(0, T("\n" + text(rng)))
            return self.el(name, kids)
        if name in ("ul", "ol", "menu"):
            kids = []
            for _ in range(rng.choice([0, 1, 2, 3])):
                self.sep(kids)
                kids.append(self.el("li", self.flow("flow", f, depth + 1)))
            self.sep(kids)
            return self.el(name, kids)
        if name == "dl":
            kids = []
            for _ in range(rng.choice([0, 1, 2])):
                for _ in range(rng.choice([1, 1, 2])):
                    self.sep(kids)
                    kids.append(self.el("dt", self.flow("flow", f | {"noHS"}, depth + 1)))
                for _ in range(rng.choice([1, 1, 2])):
                    self.sep(kids)
                    kids.append(self.el("dd", self.flow("flow", f, depth + 1)))
            self.sep(kids)
            return self.el(name, kids)
        if name == "table":
            kids = []
            if rng.random() < 0.4:
                self.sep(kids)
                kids.append(self.el("caption", self.flow("flow", f | {"noTable"}, depth + 1)))
            for _ in range(rng.choice([0, 0, 1, 2])):
                self.sep(kids)
                cg = []
                for _ in range(rng.choice([0, 1, 2])):
                    self.sep(cg)
                    cg.append(self.el("col"))
                kids.append(self.el("colgroup", cg))
            sections = (["thead"] if rng.random() < 0.4 else []) + ["tbody"] * rng.choice([0, 1, 1, 2]) + (["tfoot"] if rng.random() < 0.3 else [])
            for s in sections:
                self.sep(kids)
                rows = []
                for _ in range(rng.choice([0, 1, 2])):
                    self.sep(rows)
                    cells = []
                    for _ in range(rng.choice([0, 1, 2, 3])):
                        self.sep(cells)
                        cn = rng.choice(["td", "td", "th"])
                        cells.append(self.el(cn, self.flow("flow", f | ({"noHS"} if cn == "th" else set()), depth + 2)))
                    self.sep(cells)
                    rows.append(self.el("tr", cells))
                self.sep(rows)
                kids.append(self.el(s, rows))
            self.sep(kids)
            return self.el(name, kids)
        if name == "select":
            kids = []
            for _ in range(rng.choice([0, 1, 2, 3])):
                self.sep(kids)
                if rng.random() < 0.3:
                    og = []
                    for _ in range(rng.choice([0, 1, 2])):
                        self.sep(og)
                        og.append(self.option())
                    self.sep(og)
                    kids.append(self.el("optgroup", og))
                else:
                    kids.append(self.option())
            self.sep(kids)
            return self.el(name, kids)
        if name == "textarea":
            t = text(rng)
            if rng.random() < 0.15:
                t = "\n" + t
            return self.el(name, [T(t)] if rng.random() < 0.8 else [])
        if name == "script":
            return self.el(name, [T(text(rng, raw=True, script=True))] if rng.random() < 0.8 else [])
        if name == "ruby":
            kids = []
            for _ in range(rng.choice([1, 1, 2])):
                kids.append(T(text(rng)) if rng.random() < 0.7 else self.el("span", [T("b")]))
                if rng.random() < 0.5:
                    kids.append(self.el("rt", self.flow("phrasing", f | {"noRuby"}, depth + 1)))
                else:
                    kids += [self.el("rp", [T("(")]), self.el("rt", [T(text(rng))]), self.el("rp", [T(")")] if rng.random() < 0.8 else [])]
            return self.el(name, kids)
        if name == "fieldset":
            kids = []
            if rng.random() < 0.5:
                kids.append(self.el("legend", self.flow("phrasing", f, depth + 1)))
            return self.el(name, kids + self.flow("flow", f, depth))
        if name == "details":
            kids = [self.el("summary", self.flow("phrasing", f, depth + 1))]
            return self.el(name, kids + self.flow("flow", f, depth))
        if name == "figure":
            kids = []
            if rng.random() < 0.5:
                kids.append(self.el("figcaption", self.flow("flow", f, depth + 1)))
            return self.el(name, kids + self.flow("flow", f, depth))
        if name == "svg":
            return self.svg(f, depth)
        if name == "math":
            kids = []
            for _ in range(rng.choice([0, 1, 2])):
                r = rng.random()
                if r < 0.4:
                    kids.append(E("mi", T(text(rng)), ns="math"))
                elif r < 0.7:
                    kids.append(E("mtext", T(text(rng)), ns="math"))
                else:
                    kids.append(E("annotation-xml", *self.flow("flow", f | {"noMain"}, depth + 1), ns="math", a=[("", "encoding", "text/html")]))
            return E("math", *kids, ns="math")
        if name in HOLDS_FLOW:
            extra = {"form": {"noForm"}, "address": {"noHS", "noAddr"}, "header": {"noHF"}, "footer": {"noHF"}}.get(name, set())
            return self.el(name, self.flow("flow", f | extra, depth))
        return None

    def option(self):
        return self.el("option", [T(text(self.rng))] if self.rng.random() < 0.8 else [])

    def svg(self, f, depth):
        rng = self.rng

        def container(d):
            kids = []
            for _ in range(rng.choice([0, 1, 2])):
                r = rng.random()
                if r < 0.25 and d < 3:
                    kids.append(E("g", *container(d + 1), ns="svg"))
                elif r < 0.45:
                    kids.append(E(rng.choice(["title", "desc"]), T(text(rng)), ns="svg"))
                elif r < 0.8:
                    kids.append(E("foreignObject", *self.flow("flow", f | {"noMain"}, depth + d + 1), ns="svg"))
                else:
                    kids.append(E("a", *container(d + 1), ns="svg", a=[("xlink", "href", "#" + text(rng))] if rng.random() < 0.5 else []))
            return kids
        a = [("", "viewBox", "0 0 1 1")] if rng.random() < 0.3 else []
        return E("svg", *container(0), ns="svg", a=a)

    def document(self):
        rng = self.rng
        head = []
        if rng.random() < 0.3:
            head.append(self.el("base", a=[("", "href", "http://a/")]))
        order = ["title"] * (rng.random() < 0.85) + rng.sample(["meta", "link", "style", "script"], rng.choice([0, 1, 2]))
        rng.shuffle(order)
        for nme in order:
            self.sep(head)
            if nme == "title":
                head.append(self.el("title", [T("t" + text(rng))]))
            elif nme == "meta":
                head.append(self.el("meta", a=[("", "charset", "utf-8")] if rng.random() < 0.5 else [("", "name", "x"), ("", "content", text(rng))]))
            elif nme == "link":
                head.append(self.el("link", a=[("", "rel", "stylesheet"), ("", "href", "a.css")]))
            elif nme == "style":
                head.append(self.el("style", [T(text(rng, raw=True))] if rng.random() < 0.8 else []))
            else:
                head.append(self.el("script", [T(text(rng, raw=True, script=True))] if rng.random() < 0.8 else []))
        self.sep(head)
        body = self.flow("flow", set(), 0)
        while self.budget > 0 and rng.random() < 0.7:
            more = self.flow("flow", set(), 0)
            if more and body and more[0]["k"] == "text" and body[-1]["k"] == "text":
                more = more[1:]
            body += more
        html_kids = []
        if rng.random() < 0.1:
            html_kids.append(C("c"))
        html_kids.append(self.el("head", head, a=[] if rng.random() < 0.9 else None))
        if rng.random() < 0.2:
            html_kids.append(self.ws())
        if rng.random() < 0.1:
            html_kids.append(C("c"))
        html_kids.append(self.el("body", body, a=[] if rng.random() < 0.8 else None))
        if rng.random() < 0.1:
            html_kids.append(C("c"))
        doc = []
        if rng.random() < 0.1:
            doc.append(C("c"))
        dt = rng.choice([("", "")] * 6 + [("", "about:legacy-compat"), ("-//W3C//DTD HTML 4.01//EN", "http://www.w3.org/TR/html4/strict.dtd"),
                                          ("-//W3C//DTD XHTML 1.0 Strict//EN", "http://www.w3.org/TR/xhtml1/DTD/xhtml1-strict.dtd")])
        doc.append(node("doctype", n="html", p=dt[0], s=dt[1]))
        if rng.random() < 0.1:
            doc.append(C("c"))
        doc.append(self.el("html", html_kids, a=[] if rng.random() < 0.8 else [("", "lang", "en")]))
        if rng.random() < 0.1:
            doc.append(C("c"))
        return node("doc", c=doc)


def random_tree(rng, budget=None):
    return Gen(rng, budget or rng.choice([3, 5, 8, 12, 16])).document()
