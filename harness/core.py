"""Shared plumbing of every check: context, verdict bookkeeping, evidence, known findings."""
import hashlib
import json
import os
import random
import sys
import time

VERIF = os.path.dirname(os.path.dirname(os.path.abspath(__file__)))
REPO = os.environ.get("VERIF_REPO", "/repo")
if REPO not in sys.path:
    sys.path.insert(0, REPO)
os.environ.setdefault("HTML5LIB_VERIF", "1")

from . import tlc  # noqa: E402


def cps(s):
    """str -> list of code points (lone surrogates are ordinary code points)"""
    return [ord(c) for c in s]


def ucs(seq):
    return "".join(chr(c) for c in seq)


def load_known():
    """known_findings.json (committed, never written at run time)"""
    with open(os.path.join(VERIF, "known_findings.json")) as f:
        out = json.load(f)
    d = os.path.join(VERIF, "known_findings.d")          # staging area used while a check is being developed
    if os.path.isdir(d):
        for n in sorted(os.listdir(d)):
            if n.endswith(".json"):
                with open(os.path.join(d, n)) as f:
                    out += json.load(f)
    return out


class Ctx(object):
    """One run of one property check."""

    def __init__(self, pid, tier, seed, level="model_checking"):
        self.pid = pid
        self.tier = tier
        self.seed = seed
        self.level = level
        self.rng = random.Random((seed << 8) ^ int(hashlib.sha1(pid.encode()).hexdigest()[:6], 16))
        self.t0 = time.time()
        self.states = 0
        self.transitions = 0
        self.traces = 0          # behaviours replayed into the code + traces validated by TLC
        self.evaluations = 0
        self.nontrivial = set()
        self.samples = []
        self.violations = []
        self.known_seen = {}
        self.notes = {}
        self.assumptions = []
        self.tlc_runs = []
        self.exhaustive = False
        self.rule = ""
        self.constants = {}
        self.machinery_error = None
        self.known = [k for k in load_known() if k["property"] == pid or pid in k.get("also", [])]
        self.open_keys = {k["key"]: k for k in self.known if k.get("status") == "open"}
        self.quick = tier == "quick"

    # ---- TLC ---------------------------------------------------------------------------------
    def tlc(self, module, cfg, tag, expect_ok=True, **kw):
        r = tlc.run(module, cfg, "%s/%s" % (self.pid, tag), **kw)
        self.states += r.distinct
        self.transitions += r.generated
        d = r.as_dict()
        d["module"] = module
        d["tag"] = tag
        self.tlc_runs.append(d)
        if r.error and expect_ok:
            self.machinery_error = "TLC %s/%s: %s" % (module, tag, r.error)
            raise tlc.TLCError(self.machinery_error)
        return r

    # ---- verdicts ----------------------------------------------------------------------------
    def sample(self, s, limit=6):
        if len(self.samples) < limit:
            self.samples.append(s)

    def nontriv(self, key):
        self.nontrivial.add(key if isinstance(key, (str, int, tuple)) else json.dumps(key, sort_keys=True))

    def violation(self, what, case, key=None):
        """Record a violation unless it is a listed known finding (matched by key)."""
        if key is not None and key in self.open_keys:
            if key not in self.known_seen:
                self.known_seen[key] = dict(what=what, case=case)
            return False
        n = len(self.violations)
        if n < 50:
            d = os.path.join(VERIF, "out", "replay")
            os.makedirs(d, exist_ok=True)
            path = os.path.join(d, "%s-%d.json" % (self.pid, n))
            with open(path, "w") as f:
                json.dump(dict(property=self.pid, what=what, key=key, case=case), f, indent=1, default=repr)
            self.violations.append((what, path))
        else:
            self.violations.append((what, self.violations[0][1]))
        return True

    def known_finding(self, key, what, case=None):
        if key in self.open_keys:
            if key not in self.known_seen:
                self.known_seen[key] = dict(what=what, case=case)
            return True
        return False

    # ---- finishing ---------------------------------------------------------------------------
    def finish(self):
        wall = time.time() - self.t0
        cov = dict(states=self.states, transitions=self.transitions,
                   traces_validated_against_impl=self.traces,
                   evaluations=max(self.evaluations, self.traces),
                   distinct_nontrivial=len(self.nontrivial),
                   rule=self.rule, samples=self.samples[:8], exhaustive=self.exhaustive,
                   constants=self.constants, tlc_runs=self.tlc_runs,
                   known_findings_seen=sorted(self.known_seen), notes=self.notes)
        ev = dict(property_id=self.pid, tier=self.tier, seed=self.seed, level=self.level,
                  coverage=cov, assumptions=self.assumptions, wall_s=round(wall, 2),
                  violations=len(self.violations))
        os.makedirs(os.path.join(VERIF, "evidence"), exist_ok=True)
        evdir = "evidence" if not os.environ.get("VERIF_NO_EVIDENCE") else "out"
        with open(os.path.join(VERIF, evdir, self.pid + ".json"), "w") as f:
            json.dump(ev, f, indent=1, default=repr)
        for key in sorted(self.known_seen):
            k = self.open_keys[key]
            print("KNOWN-FINDING: property=%s %s: %s" % (self.pid, key, k.get("what", "")))
        seen = set()
        for what, path in self.violations:
            if path in seen:
                continue
            seen.add(path)
            if len(seen) > 5:
                print("... and %d more violations" % (len(self.violations) - 5))
                break
            print("VIOLATION property=%s replay=%s  (%s)" % (self.pid, path, what[:300]))
        print("%s %s: states=%d transitions=%d traces=%d nontrivial=%d violations=%d known=%d wall=%.1fs"
              % (self.pid, self.tier, self.states, self.transitions, self.traces, len(self.nontrivial),
                 len(self.violations), len(self.known_seen), wall))
        return 1 if self.violations else 0


# ---- trace validation helper -------------------------------------------------------------------
TRACE_CFG = """INIT Init
NEXT Next
INVARIANT Report
CHECK_DEADLOCK TRUE
"""


def validate_traces(ctx, module, traces, tag, cfg=TRACE_CFG, batch_bytes=16 << 20, workers=16, consts=""):
    """Validate recorded traces with spec/<module>.tla.  Returns list of (trace, verdict record)
    for every rejected trace.  Every trace must get exactly one verdict (else machinery error)."""
    rejects = []
    batches = []
    cur, size = [], 0
    for tr in traces:
        s = json.dumps(tr, separators=(",", ":"))
        if cur and size + len(s) > batch_bytes:
            batches.append(cur)
            cur, size = [], 0
        cur.append(s)
        size += len(s)
    if cur:
        batches.append(cur)
    done = 0
    for bi, b in enumerate(batches):
        d = os.path.join(VERIF, "out", ctx.pid)
        os.makedirs(d, exist_ok=True)
        path = os.path.join(d, "%s-batch%d.json" % (tag, bi))
        with open(path, "w") as f:
            f.write("[" + ",".join(b) + "]")
        r = ctx.tlc(module, cfg + consts, "%s-b%d" % (tag, bi), env={"TRACE_FILE": path}, workers=workers)
        if r.violated:
            raise tlc.TLCError("trace spec %s stopped (%s), see %s" % (module, r.violated, r.stdout_path))
        seen = {}
        for rec in r.records:
            if isinstance(rec, dict) and "tid" in rec:
                seen[rec["tid"]] = rec
        if len(seen) != len(b):
            raise tlc.TLCError("trace spec %s: %d verdicts for %d traces, see %s"
                               % (module, len(seen), len(b), r.stdout_path))
        for tid, rec in seen.items():
            if rec["v"] != "accept":
                rejects.append((traces[done + tid - 1], rec))
        done += len(b)
        ctx.traces += len(b)
        os.remove(path)
    return rejects


# ---- parallel replay ---------------------------------------------------------------------------
_PAR = {}


def _par_worker(args):
    lo, hi = args
    fn = _PAR["fn"]
    items = _PAR["items"]
    return [fn(items[i]) for i in range(lo, hi)]


def parallel(fn, items, procs=16, chunk=2000):
    """[fn(x) for x in items] on forked workers (fn and items are inherited, results are pickled)."""
    import multiprocessing as mp
    if len(items) < 2 * chunk:
        return [fn(x) for x in items]
    _PAR["fn"] = fn
    _PAR["items"] = items
    spans = [(i, min(i + chunk, len(items))) for i in range(0, len(items), chunk)]
    ctxm = mp.get_context("fork")
    with ctxm.Pool(procs) as pool:
        out = []
        for part in pool.imap(_par_worker, spans):
            out.extend(part)
    _PAR.clear()
    return out


def batched(it, n):
    buf = []
    for x in it:
        buf.append(x)
        if len(buf) >= n:
            yield buf
            buf = []
    if buf:
        yield buf


def load_known_keys():
    return {k["key"] for k in load_known() if k.get("status") == "open"}
