"""Driving the real HTMLTokenizer and projecting its output to the spec's normal form."""
from . import core  # noqa: F401  (sets sys.path)
from .tok import enc, NONE

STATE = {"data": "dataState", "rcdata": "rcdataState", "rawtext": "rawtextState", "script": "scriptDataState",
         "plaintext": "plaintextState"}


class _Stub(object):
    pass


def _cdata_parser():
    """minimal parser stand-in that makes <![CDATA[ sections allowed (adjusted current node is foreign)"""
    p = _Stub()
    p.tree = _Stub()
    node = _Stub()
    node.namespace = "http://www.w3.org/2000/svg"
    p.tree.openElements = [node]
    p.tree.defaultNamespace = "http://www.w3.org/1999/xhtml"
    return p


def norm_newlines(s):
    return s.replace("\r\n", "\n").replace("\r", "\n")


def tk(t, n=NONE, a=(), sc=False, d=(), p=NONE, s=NONE, fq=False):
    return {"t": t, "n": n, "a": list(a), "sc": sc, "d": list(d), "p": p, "s": s, "fq": fq}


def normal_form(tokens):
    from html5lib.constants import tokenTypes as T
    out = []
    for t in tokens:
        ty = t["type"]
        if ty == T["ParseError"]:
            continue
        if ty in (T["Characters"], T["SpaceCharacters"]):
            if not t["data"]:
                continue
            if out and out[-1]["t"] == "Character":
                out[-1]["d"] += enc(t["data"])
            else:
                out.append(tk("Character", d=enc(t["data"])))
        elif ty == T["StartTag"]:
            out.append(tk("StartTag", n=enc(t["name"]), a=[[enc(k), enc(v)] for k, v in t["data"].items()],
                          sc=bool(t["selfClosing"])))
        elif ty == T["EndTag"]:
            out.append(tk("EndTag", n=enc(t["name"])))
        elif ty == T["Comment"]:
            out.append(tk("Comment", d=enc(t["data"])))
        elif ty == T["Doctype"]:
            out.append(tk("Doctype", n=enc(t["name"] or None), p=enc(t["publicId"]), s=enc(t["systemId"]),
                          fq=not t["correct"]))
        else:
            raise ValueError("unknown token type %r" % ty)
    return out


class ShortRead(object):
    """text source that returns at most k characters per read() (k >= 2, see C05 for 1-character reads)"""

    def __init__(self, text, k):
        self.text, self.k, self.pos = text, k, 0

    def read(self, n=-1):
        if n is None or n < 0:
            n = len(self.text)
        n = min(n, self.k)
        out = self.text[self.pos:self.pos + n]
        self.pos += len(out)
        return out


def real_tokenize(src, start="data", last=None, cdata=False, raw=False, readsize=None):
    from html5lib._tokenizer import HTMLTokenizer
    from html5lib.constants import tokenTypes as T
    source = src if not readsize else ShortRead(src, readsize)
    tz = HTMLTokenizer(source, parser=_cdata_parser() if cdata else None)
    tz.state = getattr(tz, STATE[start])
    if last is not None:
        tz.currentToken = {"type": T["StartTag"], "name": last}
    toks = list(tz)
    return toks if raw else normal_form(toks)
