"""Generates spec/Gen_*.tla from sources independent of html5lib."""
import os

SPEC = os.path.join(os.path.dirname(os.path.dirname(os.path.abspath(__file__))), "spec")


def tla_seq(s):
    return "<<" + ",".join(str(ord(c)) for c in s) + ">>"


def ident(name):
    return "N_" + "".join(c if c.isalnum() else "_" for c in name)


def main():
    pass


if __name__ == "__main__":
    main()
