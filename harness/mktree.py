"""Build REAL trees (xml.etree.ElementTree in html5lib's etree-builder conventions, xml.dom.minidom) from the
abstract trees / raw ElementTree shapes of the specifications, and random abstract trees.  Used to replay
TLC-exported trees into the real walkers and for hand-built trees.  Nothing here imports html5lib."""
import xml.etree.ElementTree as ET
from xml.dom import minidom

from .proj import dec, enc, NONE, node, text as text_node


# ------------------------------------------------------------------------------------------------
# raw ElementTree shape (spec EtreeWalker.tla) -> real elements
def build_etree_shape(E):
    """E: list of shape records (1-based kids).  Returns the list of real elements (same order)."""
    els = []
    for rec in E:
        if rec["tag"] == "comment":
            el = ET.Comment(dec(rec["text"]))
        else:
            el = ET.Element(dec(rec["raw"]))
            for k, v in rec["attrs"]:
                el.set(dec(k), dec(v))
            el.text = dec(rec["text"])
            if rec["tag"] == "doctype":
                if rec["pub"] != NONE:
                    el.set("publicId", dec(rec["pub"]))
                if rec["sys"] != NONE:
                    el.set("systemId", dec(rec["sys"]))
        el.tail = dec(rec["tail"])
        els.append(el)
    for rec, el in zip(E, els):
        for k in rec["kids"]:
            el.append(els[k - 1])
    return els


# ------------------------------------------------------------------------------------------------
# abstract tree -> ElementTree (text must be canonical: no adjacent / empty text nodes are representable)
def _clark(ns, name):
    return name if ns is None else "{%s}%s" % (ns, name)


def build_etree(t, empty_for_none=False):
    """abstract tree -> root element.  empty_for_none: use '' instead of None for absent .text/.tail."""
    def own(n):
        k = n["k"]
        if k == "comment":
            return ET.Comment(dec(n["data"]))
        if k == "doc":
            return ET.Element("DOCUMENT_ROOT")
        if k == "doctype":
            el = ET.Element("<!DOCTYPE>")
            el.text = dec(n["name"])
            if n["pub"] != NONE:
                el.set("publicId", dec(n["pub"]))
            if n["sys"] != NONE:
                el.set("systemId", dec(n["sys"]))
            return el
        el = ET.Element(_clark(dec(n["ns"]), dec(n["name"])))
        for a in n["attrs"]:
            el.set(_clark(dec(a[0]), dec(a[1])), dec(a[2]))
        return el

    root = own(t)
    stack = [(t, root)]
    while stack:
        n, el = stack.pop()
        last = None
        for c in n["kids"]:
            if c["k"] == "text":
                s = dec(c["data"])
                if last is None:
                    el.text = (el.text or "") + s
                else:
                    last.tail = (last.tail or "") + s
            else:
                ce = own(c)
                el.append(ce)
                last = ce
                if c["k"] in ("elem", "doc"):
                    stack.append((c, ce))
        if empty_for_none:
            if n["k"] in ("elem", "doc") and el.text is None:
                el.text = ""
            for ce in el:
                if ce.tail is None:
                    ce.tail = ""
    return root


def etree_at(root, t, path):
    """the real element corresponding to the abstract node at `path` (1-based child indices; text kids counted)"""
    el, n = root, t
    for i in path:
        j = sum(1 for c in n["kids"][:i - 1] if c["k"] != "text")
        n = n["kids"][i - 1]
        el = el[j]
    return el


# ------------------------------------------------------------------------------------------------
# abstract tree -> minidom (text segmentation kept: one Text node per text node, empty ones included)
def build_dom(t):
    """abstract tree (root k = doc) -> (root node, document).  The root is a Document when it holds a doctype,
    otherwise a DocumentFragment; children are linked with minidom's own low-level append so that a Document can
    hold text and several elements (as html5lib's dom builder arranges)."""
    impl = minidom.getDOMImplementation()
    doc = impl.createDocument(None, None, None)
    has_doctype = any(c["k"] == "doctype" for c in t["kids"])
    root = doc if (t["k"] == "doc" and has_doctype) else doc.createDocumentFragment()

    def own(n):
        k = n["k"]
        if k == "text":
            return doc.createTextNode(dec(n["data"]))
        if k == "comment":
            return doc.createComment(dec(n["data"]))
        if k == "doctype":
            dt = impl.createDocumentType("x", dec(n["pub"]), dec(n["sys"]))
            dt.name = dec(n["name"])
            dt.ownerDocument = doc
            return dt
        ns, name = dec(n["ns"]), dec(n["name"])
        el = doc.createElement(name) if ns is None else doc.createElementNS(ns, name)
        for i, a in enumerate(n["attrs"]):
            ans, local, val = dec(a[0]), dec(a[1]), dec(a[2])
            if ans is None:
                # the path html5lib's dom builder uses when it merges attributes (AttrList.__setitem__): unlike
                # setAttribute it lets 'xml:lang' and 'lang' (same part after the colon) coexist on one element
                at = doc.createAttribute(local)
                at.value = val
                el.attributes[local] = at
            else:
                el.setAttributeNS(ans, "p%d:%s" % (i, local), val)
        return el

    if t["k"] != "doc":
        top = own(t)
        minidom._append_child(root, top)
        stack = [(t, top)]
        start = top
    else:
        stack = [(t, root)]
        start = root
    while stack:
        n, dn = stack.pop()
        for c in n["kids"]:
            cn = own(c)
            minidom._append_child(dn, cn)
            if c["k"] in ("elem", "doc"):
                stack.append((c, cn))
    return start, doc


def dom_at(root, path):
    n = root
    for i in path:
        n = n.childNodes[i - 1]
    return n


# ------------------------------------------------------------------------------------------------
# random abstract trees (hand-built trees of the trace corpus)
HTML = "http://www.w3.org/1999/xhtml"
SVG = "http://www.w3.org/2000/svg"
MATHML = "http://www.w3.org/1998/Math/MathML"
XLINK = "http://www.w3.org/1999/xlink"
XML = "http://www.w3.org/XML/1998/namespace"
XMLNS = "http://www.w3.org/2000/xmlns/"
R_NAMES = ["div", "p", "span", "a", "b", "table", "td", "ul", "li", "pre", "textarea", "title", "script", "x-y", "svg",
           "math", "mi", "foreignObject", "keygen", "command", "event-source", "image", "é", "a:b", "DIV",
           "a}b", "a}", "h{{l}}", "x:{y}z", "m{i}:j", "a}b}c"]
R_VOID = ["area", "base", "br", "col", "embed", "hr", "img", "input", "link", "meta", "param", "source", "track", "wbr"]
R_TEXT = ["x", " ", "  ", "\n", "\t\n\x0c\r ", " x", "x ", " x ", "a b", "a  b ", "\x0b", "\xa0", " \xa0 ", " ", "\x00",
          "\ud800", "\U0001f600", "é", "<", "&amp;", "]]>", " \x0bx\x0b ", "\r", "\x0c"]
R_ATTR = [(None, "id"), (None, "class"), (None, "xlink:href"), (XLINK, "href"), (XML, "lang"), (XMLNS, "xmlns"),
          (XMLNS, "xlink"), (None, "a:b"), (SVG, "odd"), (XLINK, "bogus"), (None, "é"), (None, "xml:lang"), (XML, "base"), (None, "lang"), (None, "href"), (None, "b:b"),
          (None, "c:b"), (None, "a}b"), (None, "c}"), (None, "d:{e}"), (XLINK, "f}g"), (SVG, "h}i:j"), (None, "k{l")]
R_VAL = ["", "x", " ", "a b", "\n", "é", "\x00", "<>&\"'"]


def random_tree(rng, max_nodes=30, max_depth=8, void_kids=False, doctype=True, unmerged=False):
    """random abstract tree rooted at a document: text around every node, comments / doctype at document level,
    plain, foreign and odd attributes, void names (with children only if void_kids), adjacent and empty text nodes
    only if unmerged"""
    budget = [rng.randint(1, max_nodes)]

    def elem(depth):
        r = rng.random()
        if r < 0.2:
            ns, name = rng.choice([HTML, None]), rng.choice(R_VOID)
        elif r < 0.3:
            ns, name = rng.choice([SVG, MATHML]), rng.choice(R_VOID + R_NAMES)
        else:
            ns, name = rng.choice([HTML, HTML, HTML, None, SVG, MATHML, "urn:x"]), rng.choice(R_NAMES)
        attrs, seen = [], set()
        for _ in range(rng.choice([0, 0, 1, 1, 2, 4])):
            a = rng.choice(R_ATTR)
            if a not in seen:
                seen.add(a)
                attrs.append([enc(a[0]), enc(a[1]), enc(rng.choice(R_VAL))])
        n = node("elem", ns=ns, name=name, attrs=attrs)
        is_void = ns in (HTML, None) and name in R_VOID
        if depth < max_depth and (void_kids or not is_void):
            fill(n, depth + 1, top=False)
        return n

    def fill(par, depth, top):
        k = rng.choice([0, 1, 1, 2, 3, 5]) if depth > 1 else rng.randint(1, 6)
        for _ in range(k):
            if budget[0] <= 0:
                return
            budget[0] -= 1
            r = rng.random()
            prev_text = bool(par["kids"]) and par["kids"][-1]["k"] == "text"
            if r < 0.35 and (unmerged or not prev_text):
                par["kids"].append(text_node(rng.choice(R_TEXT + ([""] if unmerged else []))))
            elif r < 0.45:
                par["kids"].append(node("comment", data=rng.choice(["", "c", " c ", "-", "--", "é"])))
            elif r < 0.5 and top and doctype:
                par["kids"].append(node("doctype", name=rng.choice(["html", "", "x"]),
                                        pub=rng.choice([None, "", "-//W3C//DTD HTML 4.01//EN"]),
                                        sys=rng.choice([None, "", "about:legacy-compat"])))
            else:
                par["kids"].append(elem(depth))

    root = node("doc")
    fill(root, 1, top=True)
    return root


def deep_tree(depth, width=1, texts=True):
    """a chain of `depth` nested elements with text before and after every node"""
    root = node("doc")
    cur = root
    for i in range(depth):
        for _ in range(width - 1):
            cur["kids"].append(node("elem", ns=HTML, name="br"))
        if texts:
            cur["kids"].append(text_node(" a%d" % i))
        nxt = node("elem", ns=HTML if i % 3 else SVG, name="g" if i % 3 == 0 else "div",
                   attrs=[[NONE, enc("id"), enc(str(i))]] if i % 5 == 0 else [])
        cur["kids"].append(nxt)
        if texts:
            cur["kids"].append(text_node("z%d " % i))
        cur = nxt
    return root
