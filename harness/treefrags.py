"""Theme alphabets of markup fragments for MC_Tree (and the generator of spec/MC_Tree_frags.tla)."""
import os

from .gen import SPEC, tla_seq, write

THEMES = {
    "formatting": ["<b>", "<i>", "<a>", "<nobr>", "<p>", "<div>", "<applet>", "</b>", "</i>", "</a>", "</p>", "</div>", "x", " ",
                   "</applet>", "<b id=1>", "</nobr>", "<table>", "<td>", "</table>"],
    "table": ["<table>", "<caption>", "<colgroup>", "<col>", "<tbody>", "<tr>", "<td>", "<th>", "</table>", "</td>", "</tr>", "x", " ",
              "<input type=hidden>", "<input>", "<form>", "<select>", "<style>", "</caption>", "</tbody>", "<b>", "<p>", "<thead>", "</b>",
              "</col>", "<button>"],
    "head": ["<html>", "<head>", "<body>", "<title>", "<meta>", "<base>", "<script>", "<noscript>", "<frameset>", "<frame>",
             "<noframes>", "</head>", "</body>", "</html>", "</title>", "</script>", "</noscript>", "</frameset>", "x", " ",
             "<!--c-->", "<link>", "<style>", "</style>", "<html lang=en>", "<body class=a>", "</br>", "<!DOCTYPE html>"],
    "blocks": ["<li>", "<dd>", "<dt>", "<ul>", "<p>", "<div>", "<h1>", "<h2>", "<address>", "<button>", "<form>", "<pre>", "<listing>",
               "<textarea>", "<plaintext>", "<xmp>", "<hr>", "<br>", "<image>", "<param>", "<iframe>", "<input type=hidden>", "</li>", "</p>", "</div>",
               "</h1>", "</form>", "</button>", "</pre>", "</ul>", "\n", "x", "</textarea>", "</xmp>", "<dialog>", "<main>"],
    "select": ["<select>", "<option>", "<optgroup>", "</select>", "</option>", "</optgroup>", "<input>", "<table>", "<tr>", "<td>",
               "</table>", "x", " ", "<script>", "</script>", "<b>", "<textarea>", "<keygen>", "<p>"],
    "ruby": ["<ruby>", "<rb>", "<rt>", "<rtc>", "<rp>", "</ruby>", "</rt>", "<option>", "<optgroup>", "<p>", "<span>", "</span>", "x", "<div>",
             "</div>"],
    "foreign": ["<svg>", "<math>", "<mi>", "<mtext>", "<annotation-xml encoding=text/html>", "<annotation-xml>", "<foreignObject>",
                "<desc>", "<title>", "<font color=red>", "<font>", "<b>", "<p>", "<br>", "<mglyph>", "<malignmark>", "<![CDATA[x]]>",
                "</br>", "</p>", "</svg>", "</math>", "</mi>", "</desc>", "x", "\x00", "<svg viewbox=1 xlink:href=2>",
                "<lineargradient/>", "<div>", "</title>", "<table>", "<span>", "</foreignobject>", "<select>"],
    "doctype": ["<!DOCTYPE html>", "<!DOCTYPE html PUBLIC \"-//W3C//DTD HTML 4.01 Transitional//EN\">",
                "<!DOCTYPE html PUBLIC \"-//W3C//DTD HTML 4.01 Transitional//EN\" \"x\">", "<!DOCTYPE html PUBLIC \"-//W3C//DTD XHTML 1.0 Frameset//EN\" \"x\">",
                "<!DOCTYPE x>", "<!DOCTYPE html SYSTEM \"about:legacy-compat\">", "<!DOCTYPE html PUBLIC \"HTML\">", "<!DOCTYPE>",
                "<p>", "<table>", "x", " ", "<!--c-->", "</p>",
                # missing / empty / other for both identifiers
                "<!DOCTYPE html PUBLIC \"-//W3C//DTD HTML 4.01 Transitional//EN\" \"\">", "<!DOCTYPE html PUBLIC \"\" \"\">",
                "<!DOCTYPE html SYSTEM \"\">", "<!DOCTYPE html PUBLIC \"-//W3C//DTD XHTML 1.0 Transitional//EN\" \"\">",
                "<!DOCTYPE html PUBLIC \"-//W3C//DTD XHTML 1.0 Transitional//EN\">"],
}
# html5lib treats template as an ordinary special element (named deviation tc-no-template: the intended model has the
# standard's template rules, and its theorems are checked over this alphabet as well)
THEMES["template"] = ["<template>", "</template>", "<div>", "x", "<table>", "<tr>", "<td>", "<col>", "<select>", "<b>", "</b>", "<form>",
                      "</form>", "<p>", "<html a=b>", "<body a=b>", "<head>", "</head>", "<frameset>", "<caption>", "<option>", "</table>",
                      "</select>", "</div>", "<script>", "</script>", "<svg>", "</body>", "<colgroup>", " ", "<title>", "</title>"]
THEMES["cover"] = ["<b>", "<i>", "<a>", "<nobr>", "<p>", "<div>", "<applet>", "<object>", "<table>", "<caption>", "<colgroup>", "<tbody>", "<tr>",
                   "<td>", "<select>", "<option>", "<optgroup>", "<ul>", "<li>", "<dd>", "<button>", "<form>", "<pre>", "<textarea>",
                   "<title>", "<style>", "<script>", "<noscript>", "<frameset>", "<head>", "<body>", "<html>", "<svg>", "<math>", "<mi>",
                   "<annotation-xml encoding=text/html>", "<foreignObject>", "<desc>", "<ruby>", "<rt>", "</b>", "</p>", "</table>",
                   "</select>", "</body>", "</html>", "</head>", "x", " ", "<!DOCTYPE html>", "<h1>", "<xmp>", "<plaintext>", "</applet>"]
THEMES["cover_afe"] = ["<b>", "<i>", "<a>", "<nobr>", "<p>", "<div>", "<applet>", "<object>", "<table>", "<td>", "</b>", "</p>", "</applet>",
                       "</object>", "x", "</a>", "</div>", "<b id=1>", "<b x=1 y=2>"]
THEMES["frameset"] = ["<frameset>", "</frameset>", "</html>", "<noframes>", "</noframes>", "x", " ", "<frame>", "<html>", "<body>", "</body>",
                      "<!--c-->", "<head>", "&#32;", "&", "<"]
# foreign elements that carry names the HTML rules test by name (html5lib compares names only in many places)
THEMES["foreignnames"] = ["<svg>", "<math>", "<html>", "<body>", "<head>", "<table>", "<select>", "<frameset>", "<p>", "</p>", "<desc>", "<mi>",
                          "<td>", "<tr>", "<caption>", "<tbody>", "<option>", "</table>", "</select>", "</body>", "</html>", "<li>", "<form>",
                          "</form>", "<button>", "<title>", "</title>", "x", "</svg>", "<a>", "<nobr>", "<dd>", "<h1>", "</h1>", "<colgroup>",
                          "</tr>", "</td>", "<object>", "</object>", "<ruby>", "<rt>"]
PUMP_NAMES = """a b i nobr font p div span li dd dt ul ol dl h1 form button applet object marquee table caption colgroup tbody tr td th
select option optgroup ruby rt rp rb rtc pre listing blockquote center address fieldset details summary menu nav section article
aside header footer main figure dialog svg math mi mtext g desc foreignobject annotation-xml x-y em strong small code label
frameset noscript template""".split()
THEMES["pump_tokens"] = ["<%s>" % n for n in PUMP_NAMES]
THEMES["pump_prefixes"] = ["", "<table>", "<table><tr><td>", "<select>", "<svg>", "<math>", "<ruby>", "<ul>", "<svg><foreignObject>", "<frameset>",
                           "<table><caption>", "<button>", "<dl>"]
# pending table text x foreign content x formatting (deeper cover on a sub-alphabet)
THEMES["cover_tbl"] = ["<table>", "<tr>", "<td>", "<caption>", "<math>", "<mi>", "<svg>", "<desc>", "<select>", "x", " ", "</table>", "</mi>",
                       "</svg>", "<b>", "<p>", "</math>", "<tbody>"]
CONTEXTS = {
    "doc": [None],
    "common": [None, "div", "td", "select", "table"],
    "all": [None, "div", "p", "title", "textarea", "style", "script", "xmp", "iframe", "noembed", "noframes", "noscript", "plaintext",
            "select", "table", "caption", "colgroup", "tbody", "thead", "tfoot", "tr", "td", "th", "head", "body", "frameset", "html"],
    "tableish": ["table", "caption", "colgroup", "tbody", "tr", "td", "select"],
    "rawish": ["title", "textarea", "style", "script", "xmp", "noscript", "plaintext", "head", "body", "frameset", "html"],
}


def generate():
    lines = ["---------------------------- MODULE MC_Tree_frags ----------------------------",
             "(* GENERATED by harness/treefrags.py: theme alphabets as code-point sequences. *)",
             "EXTENDS Integers",
             "ThemeFrags(t) =="]
    arms = []
    for name, frs in THEMES.items():
        arms.append('    t = "%s" -> {%s}' % (name, ", ".join(tla_seq(f) for f in sorted(set(frs)))))
    lines.append("  CASE " + "\n    [] ".join(a.strip() for a in arms))
    lines.append("ThemeContexts(c) ==")
    arms = []
    for name, cs in CONTEXTS.items():
        arms.append('c = "%s" -> {%s}' % (name, ", ".join("<<-1>>" if x is None else tla_seq(x) for x in cs)))
    lines.append("  CASE " + "\n    [] ".join(arms))
    lines.append("=============================================================================")
    write("MC_Tree_frags.tla", "\n".join(lines) + "\n")


if __name__ == "__main__":
    generate()
