"""C12 / C16 helpers: scripted (raising) sources, a token recorder that leaves the parser's own main loop
untouched, a private flat projection of result trees, persistent-field snapshots, the restricted-vocabulary
document generator, the thread baton.  Nothing here is an oracle: recorders write down what the real objects did."""
import threading
import xml.etree.ElementTree as ET
from xml.dom import Node

from . import core  # noqa: F401  (puts REPO on sys.path)


class SourceError(Exception):
    """raised by a scripted source at the scripted read"""


class Source(object):
    """text source: read(n>0) number k (1-based) returns chunk k, "" after the last chunk; raises SourceError
    at read number `fail` (0 = never).  `hook(k)` is called at the start of read k (thread baton)."""

    def __init__(self, chunks, fail=0, hook=None):
        self.chunks = list(chunks)
        self.fail = fail
        self.reads = 0
        self.hook = hook

    def read(self, n=-1):
        if n == 0:
            return ""
        self.reads += 1
        if self.hook is not None:
            self.hook(self.reads)
        if self.fail and self.reads >= self.fail:
            raise SourceError("scripted failure at read %d" % self.reads)
        if self.reads <= len(self.chunks):
            return self.chunks[self.reads - 1]
        return ""


# ------------------------------------------------------------------------------------------------
# flat projection (direct traversal; adjacent text merged; html5lib's walkers / serializer are not used)
def _clark(tag):
    if tag[:1] == "{":
        i = tag.find("}")
        if i > 0:
            return tag[i + 1:]
    return tag


def _add_text(out, d, s):
    if not s:
        return
    if out and out[-1]["n"] == "#text" and out[-1]["d"] == d:
        out[-1]["t"] = out[-1]["t"] + [ord(c) for c in s]
    else:
        out.append({"d": d, "n": "#text", "t": [ord(c) for c in s]})


def flat_etree(root):
    """ElementTree element (document root, fragment root or <html>) -> flat preorder items.
    The roots DOCUMENT_ROOT / DOCUMENT_FRAGMENT are dissolved (children at depth 0)."""
    out = []
    if root is None:
        return out
    top = root.tag in ("DOCUMENT_ROOT", "DOCUMENT_FRAGMENT")
    stack = [(root, -1 if top else 0, False)]
    while stack:
        el, d, closing = stack.pop()
        if closing:
            _add_text(out, d, el.tail)
            continue
        tag = el.tag
        if d >= 0:
            if tag is ET.Comment:
                out.append({"d": d, "n": "#comment", "t": [ord(c) for c in (el.text or "")]})
            elif tag == "<!DOCTYPE>":
                out.append({"d": d, "n": "#doctype", "t": [ord(c) for c in (el.text or "")]})
            else:
                out.append({"d": d, "n": _clark(tag), "t": [len(el.attrib)] if el.attrib else []})
        if tag is ET.Comment or tag == "<!DOCTYPE>":
            if d >= 0:
                stack.append((el, d, True))
            continue
        _add_text(out, d + 1, el.text)
        if d >= 0:
            stack.append((el, d, True))
        for ch in reversed(list(el)):
            stack.append((ch, d + 1, False))
    return out


def flat_dom(root):
    out = []
    stack = [(ch, 0) for ch in reversed(list(root.childNodes))]
    while stack:
        nd, d = stack.pop()
        t = nd.nodeType
        if t == Node.TEXT_NODE or t == Node.CDATA_SECTION_NODE:
            _add_text(out, d, nd.data)
        elif t == Node.COMMENT_NODE:
            out.append({"d": d, "n": "#comment", "t": [ord(c) for c in nd.data]})
        elif t == Node.DOCUMENT_TYPE_NODE:
            out.append({"d": d, "n": "#doctype", "t": [ord(c) for c in (nd.name or "")]})
        elif t == Node.ELEMENT_NODE:
            na = nd.attributes.length if nd.attributes is not None else 0
            out.append({"d": d, "n": nd.localName or nd.tagName, "t": [na] if na else []})
            for ch in reversed(list(nd.childNodes)):
                stack.append((ch, d + 1))
    return out


def flat(tree, tb):
    return flat_etree(tree) if tb == "etree" else flat_dom(tree)


# ------------------------------------------------------------------------------------------------
# exact projection for reused-versus-fresh comparison (names with namespace, attributes, ids)
def exact_etree(root):
    out = []
    stack = [(root, 0, False)]
    while stack:
        el, d, closing = stack.pop()
        if closing:
            if el.tail:
                out.append((d, "#tail", el.tail))
            continue
        tag = el.tag
        if tag is ET.Comment:
            out.append((d, "#comment", el.text))
        else:
            out.append((d, tag, el.text, tuple(el.attrib.items())))
        stack.append((el, d, True))
        for ch in reversed(list(el)):
            stack.append((ch, d + 1, False))
    # merge nothing: .text/.tail segmentation is a function of the insertion history and must be equal too
    return out


def exact_dom(root):
    out = []
    stack = [(ch, 0) for ch in reversed(list(root.childNodes))]
    while stack:
        nd, d = stack.pop()
        t = nd.nodeType
        if t == Node.TEXT_NODE or t == Node.CDATA_SECTION_NODE:
            if out and out[-1][0] == d and out[-1][1] == "#text":
                out[-1] = (d, "#text", out[-1][2] + nd.data)
            elif nd.data:
                out.append((d, "#text", nd.data))
        elif t == Node.COMMENT_NODE:
            out.append((d, "#comment", nd.data))
        elif t == Node.DOCUMENT_TYPE_NODE:
            out.append((d, "#doctype", nd.name, nd.publicId, nd.systemId))
        elif t == Node.ELEMENT_NODE:
            at = []
            if nd.attributes is not None:
                for i in range(nd.attributes.length):
                    a = nd.attributes.item(i)
                    at.append((a.namespaceURI, a.name, a.value))
            out.append((d, nd.namespaceURI, nd.tagName, tuple(at)))
            for ch in reversed(list(nd.childNodes)):
                stack.append((ch, d + 1))
    return out


def exact(tree, tb):
    if tree is None:
        return None
    return exact_etree(tree) if tb == "etree" else exact_dom(tree)


# ------------------------------------------------------------------------------------------------
# parser construction, persistent-field snapshot, token recorder
def new_parser(tb, strict=False, rec=False):
    from html5lib import html5parser, treebuilders
    cls = rec_parser_class() if rec else html5parser.HTMLParser
    return cls(treebuilders.getTreeBuilder(tb), strict=strict)


def persistent(p):
    """the fields of a parser object that reset() leaves alone (read through the private names)"""
    tt = p.phases["inTableText"]
    ib = p.phases["inBody"]
    return {"pend": [[ord(c) for c in t["data"]] for t in tt.characterTokens],
            "spaceH": "drop" if ib.processSpaceCharacters.__name__.endswith("DropNewline") else "nonpre"}


def seed_persistent(p, snap):
    """put a persistent-field snapshot into a brand-new parser (the code-faithful prediction for a reused one)"""
    from html5lib.constants import tokenTypes, spaceCharacters
    tt = p.phases["inTableText"]
    toks = []
    for d in snap["pend"]:
        s = "".join(chr(c) for c in d)
        ty = "SpaceCharacters" if all(c in spaceCharacters for c in s) else "Characters"
        toks.append({"type": tokenTypes[ty], "data": s})
    tt.characterTokens = toks
    ib = p.phases["inBody"]
    ib.processSpaceCharacters = (ib.processSpaceCharactersDropNewline if snap["spaceH"] == "drop"
                                 else ib.processSpaceCharactersNonPre)
    return p


_REC = {}


def rec_parser_class():
    """HTMLParser subclass whose mainLoop wraps self.tokenizer in a forwarding proxy; the original mainLoop body runs
    unmodified.  Each token is written down (type, name, data, reads so far) just before the parser gets it."""
    if "cls" in _REC:
        return _REC["cls"]
    from html5lib import html5parser
    from html5lib.constants import tokenTypes
    names = {v: k for k, v in tokenTypes.items()}

    class Proxy(object):
        def __init__(self, real, log, src):
            object.__setattr__(self, "_real", real)
            object.__setattr__(self, "_log", log)
            object.__setattr__(self, "_src", src)

        def __getattr__(self, k):
            return getattr(object.__getattribute__(self, "_real"), k)

        def __setattr__(self, k, v):
            setattr(object.__getattribute__(self, "_real"), k, v)

        def __iter__(self):
            real = object.__getattribute__(self, "_real")
            log = object.__getattribute__(self, "_log")
            src = object.__getattribute__(self, "_src")
            for token in real:
                log.append(proj_tok(token, names, src.reads if src is not None else 0))
                yield token
            log.append({"k": "EOF", "n": "", "d": [], "a": 0, "r": src.reads if src is not None else 0})

    class RecParser(html5parser.HTMLParser):
        rec_log = None
        rec_src = None

        rec_loops = 0

        def mainLoop(self):
            real = self.tokenizer
            if self.rec_loops:
                self.rec_log.append({"k": "Reparse", "n": "", "d": [], "a": 0, "r": self.rec_src.reads if self.rec_src is not None else 0})
            self.rec_loops += 1
            self.tokenizer = Proxy(real, self.rec_log, self.rec_src)
            try:
                html5parser.HTMLParser.mainLoop(self)
            finally:
                self.tokenizer = real

    _REC["cls"] = RecParser
    return RecParser


def proj_tok(token, names, reads):
    k = names[token["type"]]
    r = {"k": k, "n": "", "d": [], "a": 0, "r": reads}
    if k in ("StartTag", "EndTag"):
        r["n"] = token["name"]
        r["a"] = len(token["data"]) + (100 if token.get("selfClosing") else 0) if k == "StartTag" else 0
    elif k in ("Characters", "SpaceCharacters", "Comment"):
        r["d"] = [ord(c) for c in token["data"]]
    elif k == "Doctype":
        r["n"] = token["name"] or ""
        r["a"] = 0 if (token["correct"] and token["publicId"] is None and token["systemId"] is None) else 1
    elif k == "ParseError":
        r["n"] = token["data"]
    return r


def errs(p):
    return [[code, pos[0], pos[1], sorted(dv.items())] for pos, code, dv in p.errors]


BAD_CONTAINERS = {"#None": None, "#empty": "", "#int": 5}


def model_out(call, out):
    """outcome as Lifecycle.tla names it: an out-of-domain container is 'rejected' whatever exception class says so"""
    if call.get("frag") in BAD_CONTAINERS and out.startswith("crash:"):
        return "rejected"
    return out


class CallTimeout(Exception):
    pass


def _on_alarm(signum, frame):
    raise CallTimeout("one parse call ran for more than %d s" % CALL_BUDGET)


CALL_BUDGET = 30


class mem_cap(object):
    """cap the address space of this process (and of workers forked inside) while real code is driven, so that a
    broken parser that allocates without bound ends in MemoryError instead of taking the machine down; restored on
    exit because TLC (a child process) reserves more than that"""

    def __init__(self, gib=6):
        self.gib = gib

    def __enter__(self):
        import resource
        self.old = resource.getrlimit(resource.RLIMIT_AS)
        lim = self.gib << 30
        if self.old[1] != resource.RLIM_INFINITY:
            lim = min(lim, self.old[1])
        try:
            resource.setrlimit(resource.RLIMIT_AS, (lim, self.old[1]))
        except (ValueError, OSError):
            pass
        return self

    def __exit__(self, *a):
        import resource
        try:
            resource.setrlimit(resource.RLIMIT_AS, self.old)
        except (ValueError, OSError):
            pass
        return False


def run_call(p, tb, call, rec=None):
    import signal
    timed = threading.current_thread() is threading.main_thread()
    if timed:
        old = signal.signal(signal.SIGALRM, _on_alarm)
        signal.setitimer(signal.ITIMER_REAL, CALL_BUDGET)
    try:
        return _run_call(p, tb, call, rec)
    finally:
        if timed:
            signal.setitimer(signal.ITIMER_REAL, 0)
            signal.signal(signal.SIGALRM, old)


def _run_call(p, tb, call, rec=None):
    """one call on parser p.  call = {"frag": container|None, "chunks": [...], "fail": k, "strict": bool}.
    returns (outcome, tree, p.errors projection)"""
    from html5lib.html5parser import ParseError
    if call.get("bytes") is not None:
        src = call["bytes"] if isinstance(call["bytes"], bytes) else call["bytes"].encode("latin-1")
    else:
        src = Source(call["chunks"], call.get("fail", 0), call.get("hook"))
    p.strict = bool(call.get("strict"))
    if rec is not None:
        p.rec_log = rec
        p.rec_src = src if call.get("bytes") is None else None
        p.rec_loops = 0
    try:
        if call.get("frag"):
            # the container positionally or as keyword (call["conv"]); its name may be spelled in any letter case;
            # "#None" / "#empty" / "#int" stand for argument values outside the documented domain
            name = BAD_CONTAINERS.get(call["frag"], call["frag"])
            tree = p.parseFragment(src, name) if call.get("conv") == "pos" else p.parseFragment(src, container=name)
        else:
            tree = p.parse(src, False) if call.get("conv") == "pos" else p.parse(src)
        out = "ok"
    except ParseError:
        tree, out = None, "ParseError"
    except SourceError:
        tree, out = None, "SourceError"
    except (Exception, RecursionError) as e:       # html5lib's own crashes (C03 territory): one more way a call can be aborted
        tree, out = None, "crash:" + type(e).__name__
    return out, tree, errs(p)


# ------------------------------------------------------------------------------------------------
# restricted vocabulary (what spec/Lifecycle.tla models exactly)
UNKNOWN = ["u1", "u2", "u3", "u4", "u5"]
BODY_PIECES = ["ab", "c", "x y", " ", "\n", "\nq", "\n\n", "\x00", "&amp;", "<!x>", "<!--k-->", "<p>", "</p>", "<pre>", "</pre>",
               "<listing>", "<form>", "<u1>", "<u2>", "<u3>", "</u1>", "</u2>", "</table>", "</pre>", "<pre>\n", "<pre>\nz",
               "<p>", "ef", "<!DOCTYPE html>"]
TABLE_PIECES = ["ab", "cd", " ", "\n", "g h", "\x00", "&amp;", "<!x>", "<!--k-->", "S", "<!DOCTYPE html>", "\t "]
TEXTAREA_PIECES = ["\n", "ab", "\nx", " ", "<p>", "&amp;", "\x00", "</pre>"]
CONTAINERS = ["div", "table", "pre", "p", "textarea", "span"]


def vocab_doc(rng, frag=None):
    """a document inside the modelled vocabulary, as a list of markup pieces"""
    parts = []
    if frag is None and rng.random() < 0.8:
        parts.append("<!DOCTYPE html>")
    if frag == "textarea":
        return parts + [rng.choice(TEXTAREA_PIECES) for _ in range(rng.randint(0, 4))]
    in_table = frag == "table"
    n = rng.randint(1, 9)
    for _ in range(n):
        if in_table:
            r = rng.random()
            if r < 0.25 and frag != "table":
                parts.append("</table>")
                in_table = False
            elif r < 0.30 and frag != "table":
                parts.append("<table>")
            elif r < 0.33 and frag == "table":
                parts.append("</table>")
            else:
                parts.append(rng.choice(TABLE_PIECES))
        else:
            r = rng.random()
            if r < 0.28:
                parts.append("<table>")
                in_table = True
            elif r < 0.36:
                parts.append("<textarea>")
                parts.extend(rng.choice(TEXTAREA_PIECES) for _ in range(rng.randint(0, 2)))
                if rng.random() < 0.8:
                    parts.append("</textarea>")
                else:
                    return parts
            else:
                parts.append(rng.choice(BODY_PIECES))
    return parts


def chunking(rng, text):
    """cut a text into reads (a read never ends in CR or a lead surrogate here: the vocabulary has neither)"""
    if not text or rng.random() < 0.3:
        return [text] if text else []
    cuts = sorted(set(rng.randrange(1, len(text)) for _ in range(rng.randint(1, 4)))) if len(text) > 1 else []
    out, i = [], 0
    for c in cuts + [len(text)]:
        out.append(text[i:c])
        i = c
    return [c for c in out if c]


# ------------------------------------------------------------------------------------------------
# baton: enforce a schedule (sequence of thread ids) at read() granularity
class Baton(object):
    """schedule = TLC's sequence of parser ids, one entry per step (Begin, then one per read()).  A thread calls wait(me)
    before Begin and at the start of every read(); the call returns when the next unconsumed entry is `me`; the entry is
    held until the thread's next wait()/finish().  `order` is what actually happened; `mismatch` is set when the
    number of steps of a thread differs from the schedule's."""

    def __init__(self, schedule):
        self.schedule = list(schedule)
        self.pos = 0
        self.holder = None
        self.cv = threading.Condition()
        self.done = set()
        self.order = []
        self.mismatch = None

    def _release(self, me):
        if self.holder == me:
            self.holder = None
            self.pos += 1

    def wait(self, me):
        with self.cv:
            self._release(me)
            self.cv.notify_all()
            while True:
                while self.pos < len(self.schedule) and self.schedule[self.pos] in self.done and self.holder is None:
                    self.mismatch = "thread %s finished before its scheduled step %d" % (self.schedule[self.pos], self.pos)
                    self.pos += 1
                if self.pos >= len(self.schedule):
                    self.mismatch = self.mismatch or ("thread %s needs a step after the schedule ended" % me)
                    break
                if self.holder is None and self.schedule[self.pos] == me:
                    self.holder = me
                    break
                if not self.cv.wait(timeout=30):
                    self.mismatch = "baton timeout"
                    break
            self.order.append(me)

    def finish(self, me):
        with self.cv:
            self._release(me)
            self.done.add(me)
            self.cv.notify_all()


def api_call(tb, call):
    """the call through the module-level convenience functions html5lib.parse / html5lib.parseFragment (non-strict)"""
    import html5lib
    src = Source(call["chunks"], call.get("fail", 0), call.get("hook"))
    try:
        if call.get("frag"):
            name = BAD_CONTAINERS.get(call["frag"], call["frag"])
            tree = (html5lib.parseFragment(src, name, tb) if call.get("conv") == "pos"
                    else html5lib.parseFragment(src, container=name, treebuilder=tb))
        else:
            tree = html5lib.parse(src, treebuilder=tb)
        return "ok", tree, None
    except SourceError:
        return "SourceError", None, None
    except (Exception, RecursionError) as e:
        return "crash:" + type(e).__name__, None, None


def run_scheduled(schedule, calls, tb, api=False):
    """two threads, steps interleaved exactly as `schedule` says; one new HTMLParser object per thread, or (api) the
    module-level functions html5lib.parse / parseFragment, whose callers are just as independent of each other"""
    baton = Baton(schedule)
    res = {}

    def worker(i):
        try:
            baton.wait(i)
            call = dict(calls[i - 1], hook=lambda k, i=i: baton.wait(i))
            if api:
                res[i] = api_call(tb, call)
                return
            p = new_parser(tb)
            out, tree, er = run_call(p, tb, call)
            res[i] = (out, tree, er)
        except BaseException as e:      # noqa
            res[i] = ("harness:" + repr(e), None, [])
        finally:
            baton.finish(i)

    th = [threading.Thread(target=worker, args=(i,)) for i in (1, 2)]
    for t in th:
        t.start()
    for t in th:
        t.join(60)
    return res, baton


# ------------------------------------------------------------------------------------------------
# fresh interpreter: `python -m harness.lifecycle` reads calls (JSON lines) and answers with the exact projections
def jsonable(x):
    if isinstance(x, (list, tuple)):
        return [jsonable(y) for y in x]
    return x


def call_result_json(tb, call):
    p = new_parser(tb)
    out, tree, er = run_call(p, tb, call)
    return jsonable([out, exact(tree, tb), er])


def render_doc(doc, frag, tb, opts, enc):
    """parse with the module-level functions, walk, render with a new HTMLSerializer(**opts); returns repr of what came out"""
    import html5lib
    from html5lib import treewalkers
    from html5lib.serializer import HTMLSerializer
    try:
        tree = html5lib.parseFragment(doc, treebuilder=tb) if frag else html5lib.parse(doc, treebuilder=tb)
        s = HTMLSerializer(**opts)
        out = s.render(treewalkers.getTreeWalker(tb)(tree), enc)
        return repr((out, list(s.errors)))
    except (Exception, RecursionError) as e:
        return "crash:" + type(e).__name__


FACTORY_DOC = "<!DOCTYPE html><!--c--><p>x"


def factory_observe(req, spell=0):
    """one factory request of MC_FactoryCache followed by a parse / walk; returns (got_full, ok) where got_full says whether
    the whole document (doctype, top-level comment) came back and ok that everything else is as the request says"""
    from html5lib import html5parser, treebuilders, treewalkers
    kind = req["kind"]
    name = {"tb-etree": "etree", "tb-dom": "dom", "tw-etree": "etree"}[kind]
    name = [name, name.upper(), name.title()][spell % 3]          # the type name is matched case-insensitively
    if kind == "tb-etree":
        kw = {} if req["full"] == "absent" else {"fullTree": req["full"] == "true"}
        tb = treebuilders.getTreeBuilder(name, **kw)
        root = html5parser.HTMLParser(tb, namespaceHTMLElements=req["ns"]).parse(FACTORY_DOC)
        full = root.tag == "DOCUMENT_ROOT"
        html = root.find("{http://www.w3.org/1999/xhtml}html" if req["ns"] else "html") if full else root
        ok = html is not None and html.tag == ("{http://www.w3.org/1999/xhtml}html" if req["ns"] else "html")
        toks = [t["type"] for t in treewalkers.getTreeWalker("etree")(root)]
        ok = ok and (("Doctype" in toks) == full) and (("Comment" in toks) == full) and toks.count("StartTag") == 4
        return full, ok
    if kind == "tb-dom":
        doc = html5parser.HTMLParser(treebuilders.getTreeBuilder(name), namespaceHTMLElements=req["ns"]).parse(FACTORY_DOC)
        fl = flat_dom(doc)
        return False, [x["n"] for x in fl] == ["#doctype", "#comment", "html", "head", "body", "p", "#text"]
    w = treewalkers.getTreeWalker(name)
    root = html5parser.HTMLParser(treebuilders.getTreeBuilder("etree", fullTree=True)).parse(FACTORY_DOC)
    toks = [t["type"] for t in w(root)]
    return False, toks[:2] == ["Doctype", "Comment"] and toks.count("StartTag") == 4


def _sub_main():
    import json
    import sys
    for line in sys.stdin:
        line = line.strip()
        if not line:
            continue
        req = json.loads(line)
        if "factory" in req:
            print(json.dumps([list(factory_observe(r)) for r in req["factory"]]))
        elif "render" in req:
            r = req["render"]
            print(json.dumps(render_doc(r["doc"], r["frag"], r["tb"], r["opts"], r["enc"])))
        else:
            print(json.dumps(call_result_json(req["tb"], req["call"])))
        sys.stdout.flush()


if __name__ == "__main__":
    _sub_main()
