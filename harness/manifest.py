"""Regenerates /verif/MANIFEST.json from the table below (python3 -m harness.manifest)."""
import json
import os

VERIF = os.path.dirname(os.path.dirname(os.path.abspath(__file__)))

# id -> (category, technique, level text, level note, design ref)
CLAIMED = {
    "C18": ("model_checking",
            "TLA+ spec AlphaAttrs; TLC bounded-exhaustive over all insertion orders; spec->code replay of every "
            "state; code->spec trace validation (Trace_AlphaAttrs)",
            "TLC proves OnlyReorders and order-independence on the specification for every insertion order of every "
            "attribute set within the bound; every explored state is replayed into the real filter and recorded "
            "streams of the real filter are validated token by token against the specification.",
            "Bounds: <=3 (quick) / <=4 (thorough) attributes over 4 namespaces x 4 locals x 2 values; the empty-string "
            "namespace is excluded (walker streams never contain it; lint forbids it). Trusted: TLC, the projection "
            "harness/tok.py.", "5/C18"),
    "C17": ("model_checking",
            "TLA+ spec Whitespace (counter machine vs ancestor-based property); TLC bounded-exhaustive on intended and "
            "code-faithful configurations; spec->code replay; code->spec trace validation (Trace_Whitespace)",
            "TLC proves counter=ancestors, only-whitespace-changes (on concatenated text) and idempotence for all balanced "
            "streams within the bound on the intended design; the code-faithful machine (listed deviations enabled) is "
            "replayed state by state into the real filter, and recorded walker streams are validated token by token.",
            "Bounds: streams <=4 (quick) / <=5 (thorough) tokens over 4 element names, 5+5 text data, br, comment. Walker "
            "conventions assumed (SpaceCharacters tokens are all-whitespace; streams balanced). Trusted: TLC, harness/tok.py.",
            "5/C17"),
    "C13": ("model_checking",
            "TLA+ spec OptionalTags (sliding-window machine with named deviations + the standard's MayOmit relation); TLC "
            "exhaustive over all (parent, sibling, tag, follower) windows and short structural streams; spec->code replay; "
            "code->spec trace validation (Trace_OptionalTags)",
            "TLC proves Removed is a subset of MayOmit for the intended machine on every window/stream in the bound, and that "
            "every illegal removal of the code-faithful machine is explained by a listed deviation; every explored stream is "
            "replayed into the real filter (exact equality) and walker streams of real parses are validated token by token "
            "with each removal judged by MayOmit.",
            "MayOmit is my transcription of the 'optional tags' section (no network); the tfoot-before-tbody disjunct is ASSUMED "
            "to follow the code. The parse-equivalence clause for conforming documents is covered by C07. Walker conventions "
            "assumed (balanced streams, leading whitespace split into SpaceCharacters).", "5/C13"),
    "C20": ("model_checking",
            "TLA+ spec XmlName (per-character coercion machines; legality = what expat accepts, generated at setup); TLC "
            "exhaustive over short names/comments/pubids; spec->code replay (fresh and shared filter instance); code->spec "
            "validation of the complete BMP x {first, non-first} table and tokenizer-emitted names (Trace_XmlName)",
            "TLC proves legality, identity on legal colon-free names and reversibility for the intended machine on all "
            "strings within the bound; the real InfosetFilter is bound by exact equality on every explored string and on every "
            "BMP code point in both positions, with legality judged by expat-derived tables.",
            "Trusted: expat as the reference XML parser (XML 1.0 4th edition names), TLC. lxml is not installed, so the "
            "etree_lxml builder itself is out of reach; the filter is exercised directly.", "5/C20"),
    "C02": ("model_checking",
            "TLA+ spec Tokenizer (the WHATWG state machine, ~80 states, html5lib deviations as named branches); TLC "
            "bounded-exhaustive over fragment strings x start state x last start tag x CDATA flag with spec->code replay; "
            "TLC-computed state cover (VIEW on control state) expanded into a W-method transition-cover suite; code->spec "
            "trace validation (Trace_Tokenizer) of real token streams incl. short-read delivery",
            "Every input TLC enumerates is tokenized by the specification and by the real HTMLTokenizer and compared in the "
            "property's normal form; every control-state transition of the specification is exercised from a TLC-found "
            "shortest prefix and its target identified by distinguishing suffixes; arbitrary Unicode inputs (repo test strings, "
            "prefix closure, soup with CR/LF, NUL, surrogates, astral) are re-derived by TLC from the recorded input.",
            "Oracle = my transcription of the June-2020 tokenizer (no network): a disagreement is adjudicated by reading the "
            "code, never silently accepted. Bounds: <=3/4 fragments over 4 alphabets (quick/thorough). CDATA-allowed is driven "
            "by a stub parser object. Trusted: TLC, harness/realtok.py normal form.", "5/C02"),
    "C14": ("model_checking",
            "Tokenizer.tla character-reference states + Gen_Entities (html.entities.html5) + NumericRef; exhaustive finite "
            "domains validated by TLC: all 2231 names x follower classes x 5 contexts (Trace_Tokenizer), numeric value tables "
            "(Trace_NumericTable, constant-level), serializer entity-replacement round trip re-tokenized by the spec",
            "Named references: every name with every follower class (incl. continuations towards longer names) in text, RCDATA "
            "and the three attribute-value syntaxes is decoded by the real tokenizer and re-derived by the specification "
            "(longest match, attribute exception). Numeric: the real result for each value is tabulated and TLC checks the table "
            "against NumericRef (thorough: all 0..0x110000 x 5 spellings x semicolon; quick: BMP + plane edges + sample). Reverse: "
            "text and attribute values rendered with an output encoding must tokenize back to the original.",
            "Trusted: html.entities.html5 as the standard's entity table (2231 names), TLC. 32-bit TLC integers: overflow inputs "
            "saturate at 0x110000 in the spec.", "5/C14"),
    "C01": ("model_checking",
            "TLA+ specs TreeConstruction (23 insertion modes, adoption agency, foster parenting, foreign content, fragments) composed "
            "with Tokenizer in Pipeline; TLC bounded-exhaustive over markup-fragment strings per theme x container x scripting with "
            "structural theorems; spec->code replay of trees AND internal-state snapshots into both tree builders; TLC-computed state "
            "cover (VIEW on abstract parser state) expanded into a transition-cover suite; code->spec trace validation (Trace_Tree)",
            "Every string TLC enumerates is parsed by the composed specification and by the real parser (etree and dom builders); the "
            "canonical trees and the parser's final internal state (mode, stack of open elements, active formatting elements, flags) "
            "must be equal. TLC finds a shortest input per abstract parser state and the harness extends each by every token of a wide "
            "alphabet; real result trees on arbitrary inputs in document mode and all 26 fragment contexts are re-derived by TLC; "
            "table-driven clauses (quirks tables, reference followers) are swept row by row incl. values harvested from the source.",
            "The specification is transcribed phase by phase from the WHATWG algorithm AS html5lib implements it, with the deviations "
            "from the June-2020 standard that I am certain of as named branches (listed known findings); clauses I could not confirm "
            "offline follow the code (ASSUMED). template is modelled: html5lib's behaviour (an ordinary special element) in the "
            "code-faithful configuration, the standard's template rules as the intended branch of a listed deviation. "
            "Characters-token boundaries in the "
            "frameset / colgroup-fragment modes are reproduced only for text without '&', NUL and stray '<' (such trace inputs are "
            "skipped and counted). Bounds: <=3-4 fragments per theme exhaustive; cover prefixes <=3-5 fragments.", "5/C01"),
    "C03": ("model_checking",
            "TreeConstruction structural theorems (well-formed store, stack/AFE invariants, skeleton after EOF) checked by TLC in every "
            "MC_Tree state; MC_Pump derives the stack-growing start tags from the specification; binding by replay (exceptions), "
            "Trace_Skeleton on real results for arbitrary str/bytes inputs x builders x namespacing x contexts, model-derived depth pumping",
            "TLC proves the skeleton and the structural invariants for every input in the bounds on the specification; the real parser "
            "is bound to it by exact replay, must return a tree (no exception, wall-clock budget) for arbitrary text, random bytes and "
            "encoded inputs under every builder/namespacing/context/scripting combination, its result is judged by TLC, and it is "
            "driven to depth 1500-5000 with every (prefix, tag) pair that the model says grows the stack; the TLC-computed transition "
            "cover of C01 and every prefix of well-formed encoding declarations (as bytes) are run for totality and skeleton.",
            "Non-termination is observed as a budget of 60 s of CPU time per parse (wall-clock backstop 600 s), not proved. Deep (pumped) minidom results are only checked for totality. "
            "The literal skeleton clause is violated by <noframes> after </frameset> (listed finding; it is also what the standard does).",
            "5/C03"),
    "C05": ("model_checking",
            "TLA+ specs InputStream (readChunk / char / charsUntil / unget / position / error accounting under every read schedule) and "
            "ByteBuffer (BufferedStream); TLC refinement theorems against the one-shot normalisation; replay with full state comparison; "
            "call traces of the real stream under the real tokenizer validated for str / StringIO / short reads / chunk sizes / byte "
            "deliveries in up to 39 encodings (Trace_InputStream, Trace_ByteBuffer)",
            "TLC proves, on the intended design and for every read schedule of every source within the bound, that the stream machine "
            "refines the one-shot normalisation, that position() and error accounting are functions of the consumed text, and that unget "
            "then char is the identity at offset 0; every behaviour of the code-faithful model (three named deviations) is replayed on "
            "the real stream objects; deliveries are compared exactly on the tree and on TLC-judged intended error positions.",
            "Sources <=4-5 code points, <=6 client calls exhaustive; simulation to 12 calls. codecs.StreamReader is trusted but its output "
            "must spell the source in every trace; malformed byte sequences excluded; BOM sniffing assumes the first 4 bytes arrive in "
            "one read. End-to-end runs use the etree builder.", "5/C05"),
    "C11": ("model_checking",
            "TLA+ specs Walker (reference stream, non-recursive traversal loop, Lint acceptor, Rebuild) and EtreeWalker (cursor machine "
            "over text/tail shapes) ; TLC exhaustive over small trees x start nodes; replay of trees, shapes with every navigation call "
            "and arbitrary streams through Lint; walks of both real walkers validated (Trace_Walker, Trace_EtreeWalker)",
            "TLC proves on the intended specification that the walker stream of every parser-shaped tree within the bound is well-formed, "
            "Lint-accepted, rebuilds to the walked tree and is independent of text segmentation, and that the traversal loop and the "
            "etree cursor machine refine it; all exported behaviours are replayed into html5lib with exact comparison and recorded walks "
            "of parsed and hand-built trees are validated with total verdicts.",
            "Small-tree exhaustive (<=5-6 nodes); larger/deeper trees by validated traces only. The cross-walker clause is judged only "
            "for documents on which both builders built the same tree. Void list and None/'' doctype identification are ASSUMED.", "5/C11"),
    "C19": ("model_checking",
            "TLA+ spec Sax (adapter token by token, SaxOK acceptor, RebuildSax) on the Walker tree space; TLC theorems; replay into "
            "to_sax with a recording AttributesNS handler; to_sax runs on both real walkers validated token by token (Trace_Sax)",
            "TLC proves that ToSax(Walk(t)) is accepted (one document pair, balanced prefix mappings, proper nesting) and rebuilds to the "
            "tree without comments and doctype for every tree in the bound; every exported (stream, events) pair is replayed into the "
            "real to_sax and real runs on parsed trees are validated by TLC.",
            "Foreign-attribute table, prefix-mapping order and qname conventions follow the code (ASSUMED). Failures on parsed trees arise "
            "only from the two walker deviations listed as findings.", "5/C19"),
    "C15": ("model_checking",
            "TLA+ specs InjectMeta (pre_head/in_head/post_head machine with pending queue vs a whole-stream statement of the "
            "transformation) and EncodeRefs (per-chunk encoding with character references composed with the reader); TLC theorems; "
            "replay into the real filter; real serializer->bytes->real parser round trips for every encodable webencodings label "
            "judged by TLC (Trace_InjectMeta, Trace_EncodeRefs)",
            "TLC shows the filter machine refines the stream-level transformation and yields exactly one declaration of the requested "
            "encoding inside head with everything else unchanged, and proves round-trip / expressibility / raw-text / single-BOM "
            "theorems for the encode layer; every exported behaviour is replayed into the real filter and thousands of generated, "
            "padded (declaration beyond 1024 and 10240 bytes) and repository documents go through the real serializer (fresh and "
            "reused objects) and the real parser for every label, with chunks, raises, reported encoding and tree judged by TLC.",
            "Codec facts are computed from the codecs themselves. Prescan/late-meta are observed end to end here (modelled in C06). The "
            "property is judged on parser-shaped streams (one head, lower-case meta attribute names); UTF-16LE/BE without BOM and "
            "characters beyond the reach of references are ASSUMED out of domain.", "5/C15"),
    "C08": ("model_checking",
            "TLA+ spec Serializer (serialize() token by token: in_cdata, quoting, escaping, minimisation, solidus, doctype/comment, "
            "errors, strict cut) + an in-place re-tokenizing judge built on Tokenizer.tla (LexContext driver); TLC theorem 'error "
            "reported or Retok(output) = stream' on the intended design; replay with exact comparison; real parser->walker->serializer "
            "runs judged on the ACTUAL output (Trace_Serializer)",
            "TLC proves the lexical-faithfulness theorem on the intended machine over 21 lexical contexts x danger-alphabet text, 12 "
            "attribute subjects x values x option vectors, doctypes, comments and 20 streams x all 576 option vectors; every state of "
            "the code-faithful configuration is replayed into the real serializer (output, .errors, strict cut) and real pipelines on "
            "arbitrary malformed input are re-derived and judged by TLC.",
            "Bounded: text <=2, identifiers <=3, streams <=7 tokens; encoding excluded (C15). ASSUMED conventions: scripting-off reader, "
            "escape_rcdata reader, boolean attributes by presence, None = '' in doctypes, lower-cased names. Eleven listed deviations "
            "are carried as named branches, each reproduced on the real code.", "5/C08"),
    "C06": ("model_checking",
            "TLA+ specs Encoding (BOM detection, the precedence chain step by step, confidence lifecycle with late-meta restart) and "
            "Prescan (the WHATWG byte-level prescan, get-an-attribute, pragma machine, content charset extraction) with html5lib's "
            "deviations as named branches; TLC theorems incl. the action property 'a certain encoding never changes'; replay into "
            "HTMLBinaryInputStream / HTMLParser.parse / ContentAttrParser; recorded runs validated step by step (Trace_Encoding)",
            "TLC checks on the intended configuration that the precedence machine yields the first applicable source with the "
            "documented confidence (exhaustive over BOM x 5 arguments x in-window declaration), that a certain encoding never "
            "changes, that a late declaration confirms or restarts exactly as specified (at most once), and prescan range / "
            "needs-a-meta / prefix-stability / pragma-machine theorems over all fragment strings in the bound; every behaviour of the "
            "code-faithful configuration (14 listed deviations) is replayed with exact comparison and real runs are validated by TLC.",
            "The standard is transcribed from memory; ASSUMED clauses follow the code ('<' ending unquoted values, the XML-declaration "
            "sniff not modelled, late-meta elif). Which metas reach the in-head rules is taken from the recording; tree equality is "
            "computed by the harness against stdlib-decoded text. Inputs stay below the 10240-character chunk; chardet absent.", "5/C06"),
    "C09": ("model_checking",
            "TLA+ specs UrlScheme (BrowserScheme / BrowserDataType per the WHATWG URL, Fetch and MIME algorithms vs the filter's URL "
            "handling), CssGauntlet (the CSS regexes as position-set automata vs CssSafe) and Sanitizer (safety predicate with the "
            "allow-lists as data + element-level filter model); TLC theorems (scheme invariance, never-misses, data type, safe, "
            "inert); replay into the real Filter / sanitize_css; real filter output under default and 20 random restricted "
            "allow-lists judged token by token (Trace_Sanitizer)",
            "TLC proves on the intended model that the browser-resolved scheme is invariant under TAB/LF/CR, C0-or-space and case, "
            "that whatever the filter keeps has an allowed scheme and data: type, that output tokens carry only allow-listed "
            "elements/attributes and CSS without url(), and that disallowed tags become exactly one text token; the code-faithful "
            "model (two listed deviations) is replayed exactly and real filter output on parsed inputs is judged by the same predicate.",
            "URL/Fetch/MIME algorithms transcribed from memory; data: percent-encoding not modelled; urlsplit's IPv6/NFKC ValueError "
            "paths accepted as 'drop'; a KeyError raised by the filter is modelled but not counted as unsafe output. Exhaustive depth "
            "is <=2-3 fragments on a[href] and <=4-5 on svg a[xlink:href]; other URI slots get seeded obfuscated values.", "5/C09"),
    "C12": ("model_checking",
            "TLA+ specs Lifecycle (parser object across calls: persistent vs per-parse fields, Begin/Process/abort actions, a shadow "
            "parser re-initialised at every Begin), Schedule (two objects interleaved at read granularity, shared caches), "
            "MC_HandlerCache, SerLifecycle; TLC theorems (lock-step with the shadow, history independence, sequential results); "
            "histories and schedules executed on real objects incl. threads with a baton in read(), fresh-subprocess subset "
            "(Trace_Lifecycle, Trace_SerLifecycle)",
            "TLC proves on the intended machine that a reused parser object is indistinguishable from a brand-new one at every token "
            "step (15 documents x strict x source failure at any read, histories of 2-3 calls), that the handler cache is transparent "
            "and bounded, that interleaved objects return their sequential results and that serializer calls are history "
            "independent; every explored history/schedule is executed on real objects (etree and dom) and must equal both the "
            "code-faithful machine and a fresh object; recorded histories on wide inputs are judged by TLC.",
            "The machine is exact only for its vocabulary; wide inputs are judged via reused / fresh / seeded-fresh comparisons. "
            "Interleavings finer than read() only via unsynchronised threads, not enumerated. A fresh interpreter means a subprocess.",
            "5/C12"),
    "C16": ("model_checking",
            "Lifecycle strict theorems (raised iff errors, ParseError only, first error) checked by TLC on every MC_Lifecycle call; "
            "Trace_Strict judges recorded strict/non-strict parses (iff, class, first error, template exists and formats, position "
            "in range, conforming documents record no errors)",
            "TLC proves the strict theorems on every call of the lifecycle model and judges each recorded (input, container) pair "
            "(15k quick / 374k thorough; prefix closure puts EOF in every tokenizer state; all reachable error codes reached in "
            "thorough) plus generated conforming documents; fresh and long-lived strict / non-strict objects are both used; three "
            "code deviations are modelled as named branches.",
            "E is html5lib's own message table (consistency check of the code). Conformance of generated documents and of the ampersand "
            "/ caption cases is my transcription of the standard. Inputs whose non-strict parse crashes are left to C03.", "5/C16"),
    "C04": ("model_checking",
            "TLA+ specs EtreeStore (text/tail/children + html5lib's shadow list) and DomStore (minidom with separate text nodes, "
            "two attribute indexes) with abstraction functions to the TreeOps tree, TreeStore (backend-neutral client: insert, "
            "foster parenting, reconstruction, adoption agency steps, getFragment); TLC refinement theorems; every explored call "
            "sequence replayed on the real node classes; primitive-call traces of real parses and the six builder forms of each "
            "input validated (Trace_TreeStore, Trace_Builders); plus the C01 replay on both builders",
            "TLC proves AbsE = AbsD = abstract tree, no exception, and agreement of rows, attributes and hasContent for every sequence "
            "of <=5-6 tree-construction client operations on <=8 nodes, and representation invariants for raw primitive calls; every "
            "behaviour is replayed on the real classes (rows, attributes, exceptions, call logs, projections) and real parses are "
            "validated primitive by primitive; {etree fullTree, etree root, dom} x namespacing must agree on every input.",
            "The parser-mode client over-approximates tree construction by a stack discipline. Inputs containing '{' are excluded "
            "(Clark-notation ambiguity in ElementTree). Two dom findings are named deviations of DomStore; etree-reparent-tail-none is "
            "shown unreachable from parser patterns within bounds.", "5/C04"),
    "C10": ("model_checking",
            "TLA+ spec Mxss composing Pipeline (both parses), Sanitizer, OptionalTags and Serializer by INSTANCE, with SafeTree (the "
            "C09 predicate lifted to trees) and Corresponds (re-parsed elements vs passed tags); TLC theorem on the intended design "
            "over the mutation-XSS alphabet x first-parse modes x option vectors x re-parse modes; exact replay through the real "
            "parse->sanitize->serialize->re-parse pipeline; recorded real pipelines judged by TLC with attribution by neutralising "
            "listed constructs (Trace_Mxss)",
            "TLC proves SafeTree and Corresponds on the intended design for every input of up to 2-4 fragments of a 30-fragment mXSS "
            "alphabet x 3 first-parse modes x 3 option vectors x 6 re-parse modes; every code-faithful behaviour is replayed through "
            "the real pipeline (output text and every re-parsed tree compared exactly) and thousands of recorded pipelines (random "
            "options, 14 first-parse and 26 re-parse contexts, both scripting values, both builders) are judged by TLC; each "
            "rejection must disappear when a listed construct is neutralised in the real code, otherwise it is a violation.",
            "The judge makes no prediction of its own: fidelity of the parser, serializer and sanitizer models comes from C01, C08, C09 "
            "and the exact replay. Five known findings, two of which need non-default allow-lists. The list of parser-made elements in "
            "Corresponds and the dispatcher rules in NsValid are ASSUMED (transcribed from memory).", "5/C10"),
    "C07": ("model_checking",
            "TLA+ specs ContentModel (generator of conforming documents as a state machine over the open-element stack + recursive "
            "conformance judge) and RoundTrip (walker, reference serializer, optional-tag omission via OptionalTags, the parser "
            "specification Pipeline); TLC theorems fixpoint / omit; exported trees materialised WITHOUT the parser as ElementTree and "
            "minidom, serialized by the real HTMLSerializer under option vectors, re-parsed by the real parser and by the TLA+ parser "
            "(Trace_RoundTrip)",
            "TLC proves that every generated tree (13 themes) is conforming, is a fixpoint of parse o reference-serialize on the parser "
            "specification, and is unchanged by the intended optional-tag omission; every exported tree is serialized by the real "
            "serializer under a pairwise covering array of 12 option factors (full 18432-vector product on option-sensitive trees), "
            "every distinct output is re-parsed by the real parser with both builders and a seeded subset (all failing outputs) by the "
            "specification's parser in TLC; failures are attributed to listed findings by neutralising exactly one construct.",
            "Identity up to two stated normalisations (sorted attributes under alphabetical_attributes; canonical boolean values under "
            "minimize_boolean_attributes). The conforming class is a stated subset (no noscript/audio/video/ins/del, no control "
            "characters, title optional). inject_meta_charset is left to C15; the serializer's output string is predicted by C08.", "5/C07"),
}

NOT_YET = "check not built yet in this round (planned, see DESIGN.md section 5)"


def build():
    props = [json.loads(l) for l in open(os.path.join(VERIF, "properties.jsonl"))]
    checks = []
    na = []
    for p in props:
        pid = p["id"]
        if pid in CLAIMED:
            cat, tech, text, note, ref = CLAIMED[pid]
            checks.append({
                "property_id": pid,
                "quick_cmd": "./check %s --tier quick" % pid,
                "thorough_cmd": "./check %s --tier thorough" % pid,
                "evidence_file": "/verif/evidence/%s.json" % pid,
                "replay_cmd_template": "./check %s --replay {path}" % pid,
                "engine": "tlc",
                "level_claimed": {"category": cat, "text": text, "design_ref": "DESIGN.md section " + ref},
                "level_note": note,
                "technique": tech,
            })
        else:
            na.append({"property_id": pid, "reason": NOT_YET})
    m = {
        "version": 1,
        "setup_cmd": "cd /verif && /venv/bin/python -m harness.setup",
        "hooks": {
            "guard": "HTML5LIB_VERIF",
            "enable": "no build step: checks import html5lib from /repo's working tree (PYTHONPATH=/repo) and set "
                      "HTML5LIB_VERIF=1; no in-source hooks are needed so far (observation through the public API)",
            "baseline_off_cmd": "cd /repo && env -u HTML5LIB_VERIF /venv/bin/python -m pytest -ra -q -p no:cacheprovider "
                                "--timeout=900 --continue-on-collection-errors --junitxml=/tmp/baseline_off.junit.xml",
            "source_commits": [],
            "add_only": True,
        },
        "engines": [{"name": "tlc", "path": "/opt/veriftools/tla/tla2tools.jar",
                     "serves_properties": sorted(CLAIMED),
                     "kind_free_text": "TLC 1.8 explicit-state model checker on the TLA+ specs in /verif/spec, bound to the "
                                       "code by replay (spec->code) and trace validation (code->spec)"}],
        "checks": checks,
        "notes": "All checks: ./check <ID> --tier quick|thorough [--seed N]; exit 0 held, 1 violation, 2 machinery failure.",
        "not_applicable": na,
    }
    with open(os.path.join(VERIF, "MANIFEST.json"), "w") as f:
        json.dump(m, f, indent=1)
    return m


if __name__ == "__main__":
    m = build()
    print("claimed:", [c["property_id"] for c in m["checks"]])
