"""C10: the mutation-XSS alphabets, option vectors and modes of MC_Mxss, and the configuration file
(IOEnv.MXSS_CFG) that hands them - together with the allow-lists of the real Filter instance, projected on the
names the alphabet can produce - to the specification as data."""
import json
import os
import warnings

from . import core
from .tok import enc

HTML = "http://www.w3.org/1999/xhtml"
SVG = "http://www.w3.org/2000/svg"
MATHML = "http://www.w3.org/1998/Math/MathML"
XLINK = "http://www.w3.org/1999/xlink"
XML = "http://www.w3.org/XML/1998/namespace"
XMLNS = "http://www.w3.org/2000/xmlns/"
NSCODE = {None: [-1], HTML: [-2], SVG: [-3], MATHML: [-4], XLINK: [-5], XML: [-6], XMLNS: [-7]}

# the alphabet of DESIGN.md 5/C10 (+ the attribute carriers the guidance names)
ALL = ["<svg>", "<math>", "<style>", "<title>", "<textarea>", "<noscript>", "<xmp>", "<iframe>", "<script>", "<select>",
       "<table>", "<mtext>", "<mglyph>", "<annotation-xml encoding=text/html>", "<foreignObject>", "<desc>", "<p>",
       "<img src=x onerror=y>", "<a href=javascript:z>", "<!-- -->", "]]>", "<![CDATA[", "</p>", "</br>", "</style>", "</svg>",
       "a<b", "&lt;img src=x onerror=y&gt;", "<a xlink:show=new>", "<b>"]
# depth beyond 2 is explored over the fragments that switch parser / serializer context
CORE = ["<svg>", "<math>", "<style>", "<title>", "<noscript>", "<mtext>", "<annotation-xml encoding=text/html>", "<foreignObject>",
        "<desc>", "<p>", "</p>", "<a xlink:show=new>", "&lt;img src=x onerror=y&gt;", "<b>", "<textarea>", "<table>"]
DEEP = ["<svg>", "<math>", "<style>", "<foreignObject>", "<desc>", "<mtext>", "</p>", "&lt;img src=x onerror=y&gt;"]

# option vectors (Serializer.tla's o + omit = omit_optional_tags); strip_whitespace / alphabetical_attributes /
# inject_meta_charset are not part of the MODEL-level exploration (they are in the recorded traces)
OPTS = [
    {"qav": "legacy", "qc": "best", "ltattr": False, "escrc": False, "minbool": True, "solidus": False, "spacesol": True,
     "resolve": True, "omit": False, "pf": []},
    {"qav": "spec", "qc": "sq", "ltattr": True, "escrc": False, "minbool": False, "solidus": True, "spacesol": False,
     "resolve": True, "omit": True, "pf": []},
    {"qav": "always", "qc": "dq", "ltattr": False, "escrc": True, "minbool": True, "solidus": False, "spacesol": True,
     "resolve": True, "omit": False, "pf": []},
]
FIRSTS = [(None, False), ("div", False), ("div", True)]
REPARSES = [(None, False), ("div", False), ("div", True), ("select", False), ("table", False), ("textarea", False)]
# (first-parse mode, option vector, re-parse modes): the explored part of the cross product (1-based indices)
PLAN = [(1, 1, [1, 2]), (2, 1, [1, 2, 3, 4, 5, 6]), (2, 2, [2]), (2, 3, [2]), (3, 1, [2, 3]), (2, 1, [2])]
FULL_PLAN = [1, 2, 3, 4, 5]
LIGHT_PLAN = [6, 3, 4]          # fragment(div) -> every VALUE of quote_attr_values -> fragment(div)

# attribute-value explorations: the explored string is  pre + fragments + post
# (a) every spelling of a character reference IN THE TREE VALUE (the source carries &amp;...) behind a forbidden scheme name
REFS = ["&amp;#58", "&amp;#x3A", "&amp;#058;", "&amp;#X3a;", "&amp;colon", "&amp;colon;", "&amp;Tab;", "&amp;", ";", "x", "1", "=", " "]
REFS_PRE, REFS_POST = '<a href="javascript', 'alert(1)">'
# (b) long values: lengths n-1, n, n+1 around every integer literal of the serializer / sanitizer sources of the tree under
# test (harness/literals.py) and around 64, 256, 1024, with the character that forces quoting only in the tail
TAILS = [" onmouseover=y", "=y", "&quot;y", "'y", ">y", "`", "\ty"]
LONG_PRE, LONG_POST = '<p title="', '">x'
SIZE_SOURCES = ("html5lib/serializer.py", "html5lib/filters/sanitizer.py")


def value_sizes(cap=4200, extra=(64, 256, 1024, 4096)):
    from . import literals
    return [n for n in literals.sizes(*SIZE_SOURCES, extra=extra, cap=cap) if n >= 32]


MC_SIZE_CAP = 600       # the model-level exploration of long values stops here (the recorded traces go to 4097)
MC_TAILS = [" onmouseover=y", "=y", ">y"]


def run_entry(alphas, lists="default", pre="", post="", plan=None):
    """one exploration of MC_Mxss: fragment k is drawn from alphabet alphas[k]"""
    return {"alphas": list(alphas), "lists": lists, "pre": enc(pre), "post": enc(post), "plan": list(plan or FULL_PLAN)}


def std_run(alphabet, depth, lists):
    return run_entry([alphabet] * depth, lists)


# (c) several URL-valued attributes on ONE element, one of them on an exceptional path of the sanitizer (urlparse raises
# ValueError: unbalanced IPv6 bracket), in both role assignments: attributes are judged one by one in the specification
URIS = [" href=http://[", " href=javascript:z", " ping=javascript:z", " ping=h://]", " cite=//[::1", " cite=vbscript:z",
        " src=javascript:z", " src=http://]", " poster=http://x", " title=x"]
URIS_PRE, URIS_POST = "<a", ">x</a>"
# (d) hazards inside the tokens the sanitizer passes through UNCHANGED: the doctype's identifiers, both quote styles, after
# PUBLIC / SYSTEM / a public identifier; the first parse keeps document-level nodes (plan entry 1: document, dom builder)
DT_KW = [" PUBLIC", " SYSTEM"]
DT_ID = [' "a"', " 'a'", " 'x><img src=x onerror=y>'", ' "x><img src=x onerror=y>"', " '\"><img src=x onerror=y>'",
         " \"'><img src=x onerror=y>\"", " '><img src=x onerror=y>'", " 'x'y"]
DT_PRE, DT_POST = "<!DOCTYPE html", "><p>"

REFS_RUN = run_entry(["refs", "refs"], "default", REFS_PRE, REFS_POST, LIGHT_PLAN)
LONG_RUN = run_entry(["pads", "tails"], "default", LONG_PRE, LONG_POST, LIGHT_PLAN)
URIS_RUN = run_entry(["uris", "uris"], "default", URIS_PRE, URIS_POST, [6])
DOCTYPE_RUN = run_entry(["dtkw", "dtid", "dtid"], "default", DT_PRE, DT_POST, [1])

# allow-list configurations: "default" = what HTMLSerializer(sanitize=True) uses; "extended" = the default lists plus
# elements that html5lib's serializer writes as raw text by their bare name (an application that allows them)
EXTRA_ELEMENTS = [(HTML, "noscript"), (SVG, "style")]


def san():
    warnings.simplefilter("ignore")
    from html5lib.filters import sanitizer
    return sanitizer


def serializer_kwargs(o):
    kw = dict(quote_attr_values=o["qav"], escape_lt_in_attrs=o["ltattr"], escape_rcdata=o["escrc"],
              minimize_boolean_attributes=o["minbool"], use_trailing_solidus=o["solidus"],
              space_before_trailing_solidus=o["spacesol"], resolve_entities=o["resolve"], omit_optional_tags=o["omit"])
    if o["qc"] == "dq":
        kw["quote_char"] = '"'
    elif o["qc"] == "sq":
        kw["quote_char"] = "'"
    for k in ("strip_whitespace", "alphabetical_attributes"):
        if o.get(k):
            kw[k] = True
    return kw


def filter_kwargs(name):
    if name == "default":
        return {}
    return {"allowed_elements": frozenset(san().allowed_elements) | frozenset(EXTRA_ELEMENTS)}


LIST_FIELDS = [("el", "allowed_elements"), ("at", "allowed_attributes"), ("uri", "attr_val_is_uri"),
               ("ref", "svg_attr_val_allows_ref"), ("loc", "svg_allow_local_href"), ("prot", "allowed_protocols"),
               ("ct", "allowed_content_types"), ("cp", "allowed_css_properties"), ("ck", "allowed_css_keywords"),
               ("sp", "allowed_svg_properties")]


def filter_lists(kw):
    """the allow-lists of a Filter INSTANCE (what the specification is given; never html5lib's module tables as such)"""
    f = san().Filter([], **kw)
    return {k: getattr(f, name) for k, name in LIST_FIELDS}


def _pair(e):
    return isinstance(e, tuple) and len(e) == 2 and all(x is None or isinstance(x, str) for x in e)


def project_lists(lists, elkeys, atkeys, names, blob):
    """restrict the lists to what a batch can mention: element keys, attribute keys, element names (svg_allow_local_href),
    CSS words occurring in the style values (blob).  Membership of everything the judge can ask about is preserved."""
    L = {}
    for k, src in (("el", elkeys), ("at", atkeys), ("uri", atkeys), ("ref", atkeys)):
        L[k] = [[NSCODE.get(a, enc(a)), enc(b)] for a, b in sorted((e for e in src if e in lists[k]), key=repr)]
    L["loc"] = [enc(n) for n in sorted(names) if n in lists["loc"]]
    for k in ("prot", "ct"):
        L[k] = [enc(e) for e in sorted(e for e in lists[k] if isinstance(e, str))]
    low = blob + "\x00" + blob.lower()
    for k in ("cp", "ck", "sp"):
        L[k] = [enc(e) for e in sorted(e for e in lists[k] if isinstance(e, str) and e in low)]
    return L


def _mc_keys():
    """every element / attribute key the MC alphabet can produce (generously: all names of the alphabet in all namespaces)"""
    import re
    names, attrs = set(["html", "head", "body", "tbody", "tr", "colgroup", "img", "br", "p"]), set()
    for f in ALL + CORE + DEEP + [REFS_PRE, LONG_PRE + "x onmouseover=y>", URIS_PRE + "".join(URIS) + URIS_POST, "<img src=x onerror=y>"]:
        for m in re.finditer(r"</?([A-Za-z][A-Za-z0-9-]*)((?:\s+[^\s>=]+(?:=[^\s>]*)?)*)", f):
            names.add(m.group(1))
            names.add(m.group(1).lower())
            for a in re.finditer(r"\s+([^\s>=]+)", m.group(2)):
                attrs.add(a.group(1).lower())
    names |= {"foreignObject", "foreignobject"}
    elkeys = {(ns, n) for ns in (HTML, SVG, MATHML) for n in names}
    atkeys = set()
    for a in attrs:
        atkeys.add((None, a))
        if ":" in a:
            pre, loc = a.split(":", 1)
            atkeys.add(({"xlink": XLINK, "xml": XML, "xmlns": XMLNS}.get(pre), loc))
            atkeys.add((None, loc))
    return elkeys, atkeys, names


def write_cfg(path, runs=()):
    elkeys, atkeys, names = _mc_keys()
    lists = {}
    for nm in ("default", "extended"):
        lists[nm] = project_lists(filter_lists(filter_kwargs(nm)), elkeys, atkeys, names, "")
    cfg = {"alphabets": {"all": [enc(f) for f in ALL], "core": [enc(f) for f in CORE], "deep": [enc(f) for f in DEEP],
                         "refs": [enc(f) for f in REFS], "pads": [enc("A" * n) for n in value_sizes(MC_SIZE_CAP, (64, 256))], "tails": [enc(f) for f in MC_TAILS],
                         "uris": [enc(f) for f in URIS], "dtkw": [enc(f) for f in DT_KW], "dtid": [enc(f) for f in DT_ID]},
           "lists": lists, "opts": OPTS, "runs": list(runs),
           "firsts": [{"cx": enc(c), "scr": s} for c, s in FIRSTS],
           "reparses": [{"cx": enc(c), "scr": s} for c, s in REPARSES],
           "plan": [{"f": f, "o": o, "rs": rs} for f, o, rs in PLAN]}
    os.makedirs(os.path.dirname(path), exist_ok=True)
    with open(path, "w") as f:
        json.dump(cfg, f, separators=(",", ":"))
    return cfg


if __name__ == "__main__":
    print(write_cfg(os.path.join(core.VERIF, "out", "C10", "mxss_cfg.json"))["lists"]["default"]["el"][:5])
