"""C04 machinery: observation of the real tree-builder node classes.

* call-through wrappers around the node primitives of html5lib/treebuilders/etree.py and dom.py (appendChild,
  insertBefore, removeChild, insertText, reparentChildren, cloneNode, hasContent, the `attributes` setter, node
  constructors, dom AttrList.__setitem__, dom TreeBuilder.appendChild).  The original always runs; nothing is
  changed.  While a Tracer is active every OUTERMOST call is logged with its arguments as node ids (creation
  numbers, 1 = the document) and with what can be read from the real ElementTree / minidom nodes right after it.
* rows / attributes of real nodes in the shape of spec/StoreBase.tla (direct traversal of .text/.tail/children resp.
  childNodes - never through html5lib's walkers).
* the client of spec/TreeStore.tla on the real classes: replays of MC_TreeStore behaviours (parser-mode operations go
  through the real base.TreeBuilder methods; adoption-agency steps 9-15, body removal and attribute merge mirror
  html5parser.py line by line; free-mode calls go to the wrapper methods directly).
"""
import xml.etree.ElementTree as ET
from xml.dom import minidom, Node

from . import core  # noqa: F401  (puts the repo under test on sys.path)
from . import treeproj
from .tok import enc, NONE

NSMAP = {"http://www.w3.org/1999/xhtml": "html", None: "none", "http://www.w3.org/2000/svg": "svg",
         "http://www.w3.org/1998/Math/MathML": "math"}
NSURI = {v: k for k, v in NSMAP.items()}
ANS = treeproj.ANS
ANSURI = {"xlink": "http://www.w3.org/1999/xlink", "xml": "http://www.w3.org/XML/1998/namespace",
          "xmlns": "http://www.w3.org/2000/xmlns/"}


def modules():
    from html5lib.treebuilders import etree, dom
    return etree.getETreeModule(ET, fullTree=True), dom.getDomModule(minidom)


class Tracer(object):
    """state of one recording (one tree = one TreeBuilder.reset())"""

    def __init__(self):
        self.on = False
        self.depth = 0
        self.kind = None
        self.clear()

    def clear(self):
        self.events = []
        self.nodes = {}        # vid -> wrapper (dom id 1: the minidom Document)
        self.el2id = {}        # id(real ElementTree element / DOM node) -> vid
        self.keep = []
        self.alen = {}         # etree: number of attributes already accounted for, per vid
        self.pending_doctype = None
        self.next = 1

    # ---- registration ----
    def register(self, wrapper, real):
        vid = self.next
        self.next += 1
        self.nodes[vid] = wrapper
        self.el2id[id(real)] = vid
        self.keep.append(real)
        try:
            wrapper._vid = vid
        except Exception:
            pass
        return vid

    def vid(self, wrapper):
        if wrapper is None:
            return 0
        v = getattr(wrapper, "_vid", None)
        if v is None or self.nodes.get(v) is not wrapper:
            if self.kind == "dom" and not hasattr(wrapper, "element"):     # the TreeBuilder proxy standing for the document
                return 1
            return -1
        return v

    # ---- observation of real nodes ----
    def real(self, vid):
        w = self.nodes[vid]
        if self.kind == "etree":
            return w._element
        return w if vid == 1 else w.element

    def row(self, vid):
        if vid <= 0:
            return []
        out = []

        def text(s):
            if s:
                if out and out[-1]["i"] == 0:
                    out[-1]["d"] += enc(s)
                else:
                    out.append({"i": 0, "d": enc(s)})
        r = self.real(vid)
        if self.kind == "etree":
            if r.tag is ET.Comment or r.tag == "<!DOCTYPE>":
                return []
            text(r.text)
            for ch in r:
                out.append({"i": self.el2id.get(id(ch), -1), "d": []})
                text(ch.tail)
        else:
            for ch in r.childNodes:
                if ch.nodeType in (Node.TEXT_NODE, Node.CDATA_SECTION_NODE):
                    text(ch.data)
                else:
                    out.append({"i": self.el2id.get(id(ch), -1), "d": []})
        return out

    def attrs(self, vid):
        if vid <= 0:
            return []
        r = self.real(vid)
        out = []
        if self.kind == "etree":
            if r.tag is ET.Comment or r.tag == "<!DOCTYPE>":
                return []
            for k, v in r.attrib.items():
                ns, local = treeproj._split(k)
                out.append([ANS.get(ns, ns), enc(local), enc(v)])
        elif getattr(r, "nodeType", None) == Node.ELEMENT_NODE:
            am = r.attributes
            for i in range(am.length):
                at = am.item(i)
                if at.namespaceURI:
                    out.append([ANS.get(at.namespaceURI, at.namespaceURI), enc(at.localName), enc(at.value)])
                else:
                    out.append(["", enc(at.name), enc(at.value)])
        return out

    def parent_of(self, vid):
        if vid <= 1:
            return 0
        return max(self.vid(getattr(self.nodes[vid], "parent", None)), 0) if getattr(self.nodes[vid], "parent", None) is not None else 0

    # ---- events ----
    def poll(self):
        """etree: attribute-dict writes (startTagHtml / startTagBody merge) are not calls; find them by their effect"""
        if self.kind != "etree":
            return
        for vid, w in list(self.nodes.items()):
            el = w._element
            if el.tag is ET.Comment or el.tag == "<!DOCTYPE>":
                continue
            n = self.alen.get(vid, 0)
            if len(el.attrib) != n:
                items = list(el.attrib.items())
                self.alen[vid] = len(items)
                for j, (k, v) in enumerate(items[n:]):
                    ev = self.emit("setattr", s=vid, a=[attr_rec(k, v)], polled=True)
                    ev["at"] = ev["at"][: n + j + 1]          # the dict as it was right after this assignment

    def emit(self, op, s=0, c=0, r=0, d=(), k="", ns="", n=(), a=(), p=NONE, q=NONE, exc="", hc=False, polled=False):
        node = c if op in ("new", "clone") else s
        ev = {"op": op, "s": s, "c": c, "r": r, "d": list(d), "k": k, "ns": ns, "n": list(n), "a": list(a), "p": list(p), "q": list(q),
              "exc": exc, "hc": bool(hc), "row": [], "row2": [], "at": [], "par": 0}
        if not exc:
            ev["row"] = self.row(node)
            ev["at"] = self.attrs(node)
            if op == "reparent":
                ev["row2"] = self.row(c)
            if c > 0:
                ev["par"] = self.parent_of(c)
        self.events.append(ev)
        return ev


T = Tracer()


def attr_rec(key, value):
    """a key of token['data'] (str, or (prefix, local, namespace) after adjustForeignAttributes) -> [ns, q, l, v]"""
    if isinstance(key, tuple):
        prefix, local, uri = key
        q = local if prefix is None else prefix + ":" + local
        return {"ns": ANS.get(uri, uri), "q": enc(q), "l": enc(local), "v": enc(value)}
    return {"ns": "", "q": enc(key), "l": enc(key), "v": enc(value)}


def attr_key(rec):
    from .tok import dec
    if rec["ns"] == "":
        return dec(rec["q"])
    q = dec(rec["q"])
    prefix = q.split(":", 1)[0] if ":" in q else None
    return (prefix, dec(rec["l"]), ANSURI[rec["ns"]])


_installed = {}


def _outer(fn):
    """run fn(); tell whether this was an outermost call"""
    T.depth += 1
    try:
        return fn()
    finally:
        T.depth -= 1


def install():
    """idempotent; wrappers call through and log only while T.on"""
    em, dm = modules()
    if _installed.get("em") is em and _installed.get("dm") is dm:
        return em, dm
    _installed["em"], _installed["dm"] = em, dm

    def wrap(cls, name, kind, log):
        orig = cls.__dict__[name]

        def method(self, *a, **kw):
            if not T.on or T.kind != kind:
                return orig(self, *a, **kw)
            if T.depth == 0:
                T.poll()                 # attribute writes since the last call are logged before this call takes effect
            T.depth += 1
            try:
                rv = orig(self, *a, **kw)
            except Exception as e:
                T.depth -= 1
                if T.depth == 0:
                    log(self, a, kw, None, type(e).__name__)
                raise
            T.depth -= 1
            if T.depth == 0:
                log(self, a, kw, rv, "")
            return rv
        method.__name__ = name
        setattr(cls, name, method)

    def arg(a, kw, i, name, default=None):
        return a[i] if len(a) > i else kw.get(name, default)

    # ---------------- etree ----------------
    def e_new(kind):
        def log(self, a, kw, rv, exc):
            if exc:
                return
            vid = T.register(self, self._element)
            T.alen[vid] = len(self._element.attrib) if kind not in ("comment",) else 0
            if kind == "doc":
                return                                   # id 1 exists in every initial state
            if kind == "comment":
                T.emit("new", c=vid, k="comment", d=enc(arg(a, kw, 0, "data")))
            elif kind == "doctype":
                T.emit("new", c=vid, k="doctype", n=enc(arg(a, kw, 0, "name")), p=enc(arg(a, kw, 1, "publicId")),
                       q=enc(arg(a, kw, 2, "systemId")))
            elif kind == "frag":
                T.emit("new", c=vid, k="frag")
            else:
                T.emit("new", c=vid, k="elem", ns=NSMAP.get(arg(a, kw, 1, "namespace"), arg(a, kw, 1, "namespace")),
                       n=enc(arg(a, kw, 0, "name")))
        return log
    for cls, kind in ((em.Element, "elem"), (em.Comment, "comment"), (em.DocumentType, "doctype"), (em.Document, "doc"),
                      (em.DocumentFragment, "frag")):
        wrap(cls, "__init__", "etree", e_new(kind))
    V = T.vid
    wrap(em.Element, "appendChild", "etree", lambda s, a, kw, rv, exc: T.emit("append", s=V(s), c=V(a[0]), exc=exc))
    wrap(em.Element, "insertBefore", "etree", lambda s, a, kw, rv, exc: T.emit("before", s=V(s), c=V(a[0]), r=V(a[1]), exc=exc))
    wrap(em.Element, "removeChild", "etree", lambda s, a, kw, rv, exc: T.emit("remove", s=V(s), c=V(a[0]), exc=exc))
    wrap(em.Element, "insertText", "etree",
         lambda s, a, kw, rv, exc: T.emit("text", s=V(s), d=enc(a[0]), r=V(arg(a, kw, 1, "insertBefore")), exc=exc))
    wrap(em.Element, "reparentChildren", "etree", lambda s, a, kw, rv, exc: T.emit("reparent", s=V(s), c=V(a[0]), exc=exc))
    wrap(em.Element, "hasContent", "etree", lambda s, a, kw, rv, exc: T.emit("hasContent", s=V(s), hc=rv, exc=exc))

    def e_clone(self, a, kw, rv, exc):
        if exc:
            return T.emit("clone", s=V(self), exc=exc)
        vid = T.register(rv, rv._element)
        T.alen[vid] = len(rv._element.attrib)
        T.emit("clone", s=V(self), c=vid)
    wrap(em.Element, "cloneNode", "etree", e_clone)

    def e_setattrs(self, a, kw, rv, exc):
        vid = V(self)
        if vid > 0:
            T.alen[vid] = len(self._element.attrib)
            T.emit("attrs", s=vid, a=[attr_rec(k, v) for k, v in (a[0] or {}).items()], exc=exc)
    wrap(em.Element, "_setAttributes", "etree", e_setattrs)
    em.Element.attributes = property(em.Element._getAttributes, em.Element._setAttributes)

    # ---------------- dom ----------------
    def d_new(self, a, kw, rv, exc):
        if exc:
            return
        el = a[0]
        vid = T.register(self, el)
        t = el.nodeType
        if t == Node.COMMENT_NODE:
            T.emit("new", c=vid, k="comment", d=enc(el.data))
        elif t == Node.DOCUMENT_TYPE_NODE:
            tok = T.pending_doctype or {"name": el.name, "publicId": el.publicId, "systemId": el.systemId}
            T.pending_doctype = None                      # what insertDoctype was ASKED to create (minidom may keep less)
            T.emit("new", c=vid, k="doctype", n=enc(tok["name"]), p=enc(tok["publicId"]), q=enc(tok["systemId"]))
        elif t == Node.DOCUMENT_FRAGMENT_NODE:
            T.emit("new", c=vid, k="frag")
        else:
            T.emit("new", c=vid, k="elem", ns=NSMAP.get(el.namespaceURI, el.namespaceURI),
                   n=enc(el.tagName))             # the qualified name html5lib passed to createElement[NS]
    wrap(dm.NodeBuilder, "__init__", "dom", d_new)
    wrap(dm.NodeBuilder, "appendChild", "dom", lambda s, a, kw, rv, exc: T.emit("append", s=V(s), c=V(a[0]), exc=exc))
    wrap(dm.NodeBuilder, "insertBefore", "dom", lambda s, a, kw, rv, exc: T.emit("before", s=V(s), c=V(a[0]), r=V(a[1]), exc=exc))
    wrap(dm.NodeBuilder, "removeChild", "dom", lambda s, a, kw, rv, exc: T.emit("remove", s=V(s), c=V(a[0]), exc=exc))
    wrap(dm.NodeBuilder, "insertText", "dom",
         lambda s, a, kw, rv, exc: T.emit("text", s=V(s), d=enc(a[0]), r=V(arg(a, kw, 1, "insertBefore")), exc=exc))
    wrap(dm.NodeBuilder, "reparentChildren", "dom", lambda s, a, kw, rv, exc: T.emit("reparent", s=V(s), c=V(a[0]), exc=exc))
    wrap(dm.NodeBuilder, "hasContent", "dom", lambda s, a, kw, rv, exc: T.emit("hasContent", s=V(s), hc=rv, exc=exc))

    def d_clone(self, a, kw, rv, exc):
        if exc:
            return T.emit("clone", s=V(self), exc=exc)
        vid = T.register(rv, rv.element)
        T.emit("clone", s=V(self), c=vid)
    wrap(dm.NodeBuilder, "cloneNode", "dom", d_clone)

    def d_setattrs(self, a, kw, rv, exc):
        vid = V(self)
        if vid > 0:
            T.emit("attrs", s=vid, a=[attr_rec(k, v) for k, v in (a[0] or {}).items()], exc=exc)
    wrap(dm.NodeBuilder, "setAttributes", "dom", d_setattrs)
    dm.NodeBuilder.attributes = property(dm.NodeBuilder.getAttributes, dm.NodeBuilder.setAttributes)
    wrap(dm.AttrList, "__setitem__", "dom",
         lambda s, a, kw, rv, exc: T.emit("setattr", s=T.el2id.get(id(s.element), -1), a=[attr_rec(a[0], a[1])], exc=exc))
    wrap(dm.TreeBuilder, "appendChild", "dom", lambda s, a, kw, rv, exc: T.emit("append", s=1, c=V(a[0]), exc=exc))

    orig_doctype = dm.TreeBuilder.insertDoctype

    def insertDoctype(self, token):
        if T.on and T.kind == "dom":
            T.pending_doctype = token
        return orig_doctype(self, token)
    dm.TreeBuilder.insertDoctype = insertDoctype

    # ---------------- one recording per TreeBuilder.reset() ----------------
    for mod, kind in ((em, "etree"), (dm, "dom")):
        def make(kind, orig):
            def reset(self):
                if T.on and T.kind == kind:
                    T.clear()
                    T.depth = 0
                orig(self)
                if T.on and T.kind == kind and kind == "dom":
                    T.register(self.dom, self.dom)        # the minidom Document is node 1
            return reset
        mod.TreeBuilder.reset = make(kind, mod.TreeBuilder.reset)
    return em, dm


class recording(object):
    def __init__(self, kind):
        self.kind = kind

    def __enter__(self):
        install()
        T.on = True
        T.kind = self.kind
        T.clear()
        T.depth = 0
        return T

    def __exit__(self, *a):
        T.on = False
        return False


def builder_class(kind):
    em, dm = install()
    return em.TreeBuilder if kind == "etree" else dm.TreeBuilder


class BrokenStream(object):
    """a text source that hands out its pieces one read() at a time and then fails"""

    def __init__(self, pieces):
        self.pieces = list(pieces)

    def read(self, size=-1):
        if size == 0:
            return ""
        if not self.pieces:
            raise IOError("connection reset by peer")
        return self.pieces.pop(0)


def run_history(p, history):
    """earlier use of the parser object p: each item is (source pieces, broken?): the pieces are parsed as one document; with
    broken the source raises after the last piece; any exception (strict-mode ParseError, IOError) abandons that parse"""
    for pieces, broken in history:
        try:
            p.parse(BrokenStream(pieces) if broken else "".join(pieces))
        except Exception:
            pass


def record_parse(src, container, kind, ns=True, scripting=False, history=(), strict=False):
    """primitive-call trace of one real parse (Trace_TreeStore row); with a history the parser object has been used before
    (the recording restarts at every TreeBuilder.reset(), so the trace is that of the last parse)"""
    import html5lib
    with recording(kind):
        p = html5lib.HTMLParser(tree=builder_class(kind), namespaceHTMLElements=ns, strict=strict)
        run_history(p, history)
        raised = ""
        try:
            if container is None:
                r = p.parse(src, scripting=scripting)
            else:
                r = p.parseFragment(src, container=container, scripting=scripting)
        except Exception as e:            # the last event carries the exception when a primitive raised it
            raised = type(e).__name__
            r = None
        T.poll()
        ev = T.events
    if raised:
        return {"b": "E" if kind == "etree" else "D", "frag": container is not None, "ev": ev, "tree": [], "raised": raised}
    if kind == "etree":
        tree = treeproj.from_etree_fragment(r)          # children of DOCUMENT_ROOT / DOCUMENT_FRAGMENT
    else:
        tree = treeproj.from_dom_fragment(r)
    return {"b": "E" if kind == "etree" else "D", "frag": container is not None, "ev": ev, "tree": tree, "raised": ""}


# ---------------------------------------------------------------------------------------------------------------
# the client of spec/TreeStore.tla on the real classes
# ---------------------------------------------------------------------------------------------------------------
TABLE_CA = frozenset(("table", "tbody", "tfoot", "thead", "tr"))


class Rig(object):
    def __init__(self, kind, ns_on, root=True):
        self.kind = kind
        self.tb = builder_class(kind)(ns_on)             # __init__ -> reset(): recording starts here
        if root:                                         # lifecycle mode starts from the bare Document
            self.tb.insertRoot({"type": "StartTag", "name": "html", "data": {}})

    def node(self, vid):
        return self.tb.document if vid == 1 else T.nodes[vid]

    def token(self, op):
        from .tok import dec
        from collections import OrderedDict
        tok = {"type": "StartTag", "name": dec(op["n"]), "data": OrderedDict((attr_key(a), dec(a["v"])) for a in op["a"])}
        if op["ns"] not in ("html", "none"):
            tok["namespace"] = NSURI[op["ns"]]
        return tok

    def client(self, op):
        """one client operation of TreeStore.tla!StoreStep"""
        from .tok import dec
        tb = self.tb
        t = op["t"]
        if t == "elem":
            tb.insertFromTable = op["fos"]
            tb.insertElement(self.token(op))
        elif t == "text":
            tb.insertFromTable = op["fos"]
            tb.insertText(dec(op["d"]))
        elif t == "comment":
            par = tb.document if op["where"] == "doc" else tb.openElements[0] if op["where"] == "root" else None
            tb.insertComment({"data": dec(op["d"])}, par)
        elif t == "pop":
            tb.openElements.pop()
        elif t == "doctype":
            ids = dec(op["d"]) if op["where"] == "ids" else None
            tb.insertDoctype({"name": dec(op["n"]), "publicId": ids, "systemId": ids})
        elif t == "root":
            tb.insertRoot({"type": "StartTag", "name": "html", "data": {}})
        elif t == "reset":                               # what HTMLParser.reset() does at the start of every parse
            tb.reset()
        elif t == "detach":                              # InBodyPhase.startTagFrameset
            if tb.openElements[1].parent:
                tb.openElements[1].parent.removeChild(tb.openElements[1])
            while tb.openElements[-1].name != "html":
                tb.openElements.pop()
        elif t == "frag":
            tb.getFragment()
        elif t == "recon":                               # reconstructActiveFormattingElements steps 8-9
            tb.insertFromTable = op["fos"]
            clone = self.node(op["i"]).cloneNode()
            tb.insertElement({"type": "StartTag", "name": clone.name, "namespace": clone.namespace, "data": clone.attributes})
        elif t == "merge":                               # startTagHtml / startTagBody
            tgt = tb.openElements[op["i"] - 1]
            for a in op["a"]:
                attr, value = attr_key(a), dec(a["v"])
                if attr not in tgt.attributes:
                    tgt.attributes[attr] = value
        elif t == "adopt":
            self.adopt(op)
        else:
            raise ValueError(t)

    def adopt(self, op):
        """InBodyPhase.endTagFormatting from step 7 on, with `mask` deciding membership in the active formatting list"""
        tb = self.tb
        formattingElement = tb.openElements[op["i"] - 1]
        furthestBlock = tb.openElements[op["j"] - 1]
        afeIndex = op["i"] - 1
        commonAncestor = tb.openElements[afeIndex - 1]
        mask = list(op["mask"])
        lastNode = node = furthestBlock
        innerLoopCounter = 0
        index = tb.openElements.index(node)
        while innerLoopCounter < 3:
            innerLoopCounter += 1
            index -= 1
            node = tb.openElements[index]
            if node is not formattingElement and not mask.pop(0):
                tb.openElements.remove(node)
                continue
            if node == formattingElement:
                break
            clone = node.cloneNode()
            tb.openElements[tb.openElements.index(node)] = clone
            node = clone
            if lastNode.parent:
                lastNode.parent.removeChild(lastNode)
            node.appendChild(lastNode)
            lastNode = node
        if lastNode.parent:
            lastNode.parent.removeChild(lastNode)
        if commonAncestor.name in TABLE_CA:
            parent, insertBefore = tb.getTableMisnestedNodePosition()
            if insertBefore is None:
                parent.appendChild(lastNode)
            else:
                parent.insertBefore(lastNode, insertBefore)
        else:
            commonAncestor.appendChild(lastNode)
        clone = formattingElement.cloneNode()
        furthestBlock.reparentChildren(clone)
        furthestBlock.appendChild(clone)
        tb.openElements.remove(formattingElement)
        tb.openElements.insert(tb.openElements.index(furthestBlock) + 1, clone)

    def raw(self, c):
        """one free-mode primitive call"""
        from .tok import dec
        op = c["op"]
        if op == "new":
            if c["k"] == "comment":
                self.tb.commentClass(dec(c["d"]))
            else:
                self.tb.elementClass(dec(c["n"]), NSURI[c["ns"]])
        elif op == "append":
            self.node(c["s"]).appendChild(self.node(c["c"]))
        elif op == "before":
            self.node(c["s"]).insertBefore(self.node(c["c"]), self.node(c["r"]))
        elif op == "remove":
            self.node(c["s"]).removeChild(self.node(c["c"]))
        elif op == "text":
            self.node(c["s"]).insertText(dec(c["d"]), self.node(c["r"]) if c["r"] else None)
        elif op == "reparent":
            self.node(c["s"]).reparentChildren(self.node(c["c"]))
        elif op == "clone":
            self.node(c["s"]).cloneNode()
        elif op == "attrs":
            from collections import OrderedDict
            self.node(c["s"]).attributes = OrderedDict((attr_key(a), dec(a["v"])) for a in c["a"])
        elif op == "setattr":
            self.node(c["s"]).attributes[dec(c["a"][0]["q"])] = dec(c["a"][0]["v"])
        else:
            raise ValueError(op)


CALL_FIELDS = ("op", "s", "c", "r", "d", "k", "ns", "n", "a", "p", "q")


class Timeout(BaseException):
    """not an Exception: the code under test must not be able to swallow it"""


def with_timeout(fn, secs=20):
    import signal

    def handler(sig, frm):
        raise Timeout()
    old = signal.signal(signal.SIGALRM, handler)
    signal.alarm(secs)
    try:
        return fn()
    finally:
        signal.alarm(0)
        signal.signal(signal.SIGALRM, old)


def slim(ev):
    return {f: ev[f] for f in CALL_FIELDS}


def replay_behaviour(rec, kind):
    """run one exported MC_TreeStore behaviour on the real classes; returns None or a description of the difference"""
    exp = rec["e"] if kind == "etree" else rec["d"]

    def go():
        rig = Rig(kind, rec["nsOn"], root=rec["mode"] != "lifecycle")
        for step in rec["hist"]:
            if rec["mode"] in ("parser", "lifecycle"):
                rig.client(step)
            else:
                rig.raw(step)
            T.poll()
    with recording(kind):
        exc = ""
        try:
            with_timeout(go)
        except Timeout:
            exc = "Timeout"
        except Exception as e:
            exc = type(e).__name__
        T.poll()
        n = T.next - 1
        got = {"rows": [T.row(v) for v in range(1, n + 1)], "ats": [T.attrs(v) for v in range(1, n + 1)], "exc": exc,
               "log": [slim(e) for e in T.events]}
        try:
            doc = T.real(1)
            got["abs"] = treeproj.from_etree_fragment(doc) if kind == "etree" else treeproj.from_dom_fragment(doc)
        except Exception as e:
            got["abs"] = repr(e)
    want = {"rows": exp["rows"], "ats": exp["ats"], "exc": exp["exc"], "log": [slim(e) for e in exp["log"]], "abs": exp["abs"]}
    for f in ("exc", "log", "rows", "ats", "abs"):
        if got[f] != want[f]:
            return {"field": f, "expected": want[f], "got": got[f]}
    return None
