"""Drivers of the REAL html5lib tree walkers / lint filter / SAX adapter, and the corpus of trees they are run on.
Shared by the C11 and C19 checks.  Nothing here decides a property: it records what the code does."""
import warnings
import xml.etree.ElementTree as ET
from collections import OrderedDict
from xml.dom import Node

from . import core, corpus, mktree, proj, tok
from .proj import NONE, dec, enc

DEFECTS = ["walker-legacy-void-names", "etree-clark-empty-part", "etree-clark-raw-name"]


# ------------------------------------------------------------------------------------------------
# tokens
def ptok(t):
    r = tok.proj_token(t)
    if t["type"] not in ("StartTag", "EmptyTag", "EndTag", "Characters", "SpaceCharacters", "Comment",
                         "SerializerError", "Doctype", "Entity"):
        r["d"] = enc(t.get("data")) if "data" in t else []
    return r


def utok(r):
    t = r["t"]
    if t in ("StartTag", "EmptyTag", "EndTag", "Characters", "SpaceCharacters", "Comment", "SerializerError",
             "Doctype", "Entity"):
        return tok.unproj_token(r)
    return {"type": t, "data": dec(r["d"]), "name": dec(r["n"])}


def show_stream(s, n=14):
    return [tok.show(t) if t["t"] in ("StartTag", "EmptyTag", "EndTag", "Characters", "SpaceCharacters", "Comment")
            else "%s(%r)" % (t["t"], dec(t["n"]) if t["t"] == "Doctype" else dec(t["d"])) for t in s[:n]]


def real_lint(raw_tokens):
    """does the real lint.Filter accept the stream (True) or raise (False)"""
    from html5lib.filters import lint
    try:
        for _ in lint.Filter(iter(raw_tokens)):
            pass
        return True
    except Exception:                                   # AssertionError, IndexError (pop from empty list), ...
        return False


# ------------------------------------------------------------------------------------------------
# walkers
def walk_dom_raw(node):
    from html5lib import treewalkers
    return list(treewalkers.getTreeWalker("dom")(node))


_REC = {}


def _rec_class():
    """the real etree walker class with call-through recording of every navigation call"""
    if "cls" in _REC:
        return _REC["cls"]
    from html5lib import treewalkers
    W = treewalkers.getTreeWalker("etree")

    class Rec(W):
        def __init__(self, tree, index):
            W.__init__(self, tree)
            self._index = index
            self.events = []

        def _snap(self, n):
            if n is None:
                return {"el": 0, "key": -1, "parents": [], "flag": "none", "bare": True}
            if isinstance(n, tuple):
                el, key, parents, flag = n
                return {"el": self._index[id(el)], "key": -1 if key is None else key,
                        "parents": [self._index[id(p)] for p in parents], "flag": flag or "none", "bare": False}
            return {"el": self._index[id(n)], "key": -1, "parents": [], "flag": "none", "bare": True}

        def getFirstChild(self, node):
            cin = self._snap(node)
            r = W.getFirstChild(self, node)
            self.events.append({"op": "fc", "cin": cin, "cout": self._snap(r)})
            return r

        def getNextSibling(self, node):
            cin = self._snap(node)
            r = W.getNextSibling(self, node)
            self.events.append({"op": "ns", "cin": cin, "cout": self._snap(r)})
            return r

        def getParentNode(self, node):
            cin = self._snap(node)
            r = W.getParentNode(self, node)
            self.events.append({"op": "pn", "cin": cin, "cout": self._snap(r)})
            return r

    _REC["cls"] = Rec
    return Rec


def walk_etree_raw(el, index=None):
    """(raw tokens, navigation events) of the real etree walker started at element el"""
    if index is None:
        from html5lib import treewalkers
        return list(treewalkers.getTreeWalker("etree")(el)), None
    w = _rec_class()(el, index)
    toks = list(w)
    return toks, w.events


# ------------------------------------------------------------------------------------------------
# schedules: a walker object is (tree, start node); its stream must not depend on what else is being walked, on an
# earlier abandoned iteration of the same object, or on how the consumer paces it (spec: MC_WalkSchedule.tla)
SCHEDULES = ("lockstep", "shifted", "peek", "again", "again-deep")


def dom_walker(node):
    from html5lib import treewalkers
    return treewalkers.getTreeWalker("dom")(node)


def etree_walker(el, index):
    return _rec_class()(el, index)


def sched_run(name, wa, wb, k):
    """run walker objects wa (and wb) under schedule `name`; returns [(walker, complete raw stream), ...] - every
    returned stream is one that a solitary complete walk of that object must equal"""
    import itertools
    if name in ("lockstep", "shifted"):
        ia, ib = iter(wa), iter(wb)
        ra, rb = [], []
        if name == "shifted":
            for _ in range(k):
                t = next(ia, None)
                if t is not None:
                    ra.append(t)
        for x, y in itertools.zip_longest(ia, ib):
            if x is not None:
                ra.append(x)
            if y is not None:
                rb.append(y)
        return [(wa, ra), (wb, rb)]
    if name == "peek":
        # the consumer of walk a starts another walk at some tokens, looks at a few tokens and drops it
        ra = []
        for i, t in enumerate(wa):
            ra.append(t)
            if t["type"] in ("StartTag", "Characters") and i % 2 == k % 2:
                it = iter(wb)
                for _ in range(2 + (i + k) % 5):
                    next(it, None)
                del it
        return [(wa, ra)]
    # the same walker object iterated again after an abandoned iteration
    it = iter(wa)
    for _ in range(k if name == "again" else 4 * k + 3):
        next(it, None)
    del it
    if hasattr(wa, "events"):
        wa.events = []
    return [(wa, list(wa))]


# ------------------------------------------------------------------------------------------------
# parsing with both builders
def parse_both(doc, frag, nsel, container="div"):
    """the same input parsed by the etree builder (full tree) and the dom builder; None if either raises"""
    import html5lib
    from html5lib import getTreeBuilder
    out = []
    with warnings.catch_warnings():
        warnings.simplefilter("ignore")
        for tb in (getTreeBuilder("etree", fullTree=True), getTreeBuilder("dom")):
            p = html5lib.HTMLParser(tree=tb, namespaceHTMLElements=nsel)
            try:
                out.append(p.parseFragment(doc, container=container) if frag else p.parse(doc))
            except Exception:
                return None
    return out[0], out[1]


def dom_containers(root):
    """(node, path) of every document / fragment / element node, preorder; path = 1-based childNodes indices"""
    out, stack = [], [(root, [])]
    while stack:
        n, p = stack.pop()
        if n.nodeType in (Node.ELEMENT_NODE, Node.DOCUMENT_NODE, Node.DOCUMENT_FRAGMENT_NODE):
            out.append((n, p))
            ch = n.childNodes
            for i in range(len(ch), 0, -1):
                stack.append((ch[i - 1], p + [i]))
    return out


def etree_containers(root):
    out, stack = [], [root]
    while stack:
        el = stack.pop()
        if proj.etree_kind(el) in ("elem", "doc"):
            out.append(el)
            stack.extend(reversed(list(el)))
    return out


def norm_doctypes(t):
    """copy of a canonical abstract tree with None and '' identified in doctype name / ids (minidom stores None
    for an empty name)"""
    def fix(n):
        if n["k"] == "doctype":
            return dict(n, name=[] if n["name"] == NONE else n["name"], pub=[] if n["pub"] == NONE else n["pub"],
                        sys=[] if n["sys"] == NONE else n["sys"])
        return n
    top = fix(dict(t, kids=[]))
    stack = [(t, top)]
    while stack:
        src, dst = stack.pop()
        for c in src["kids"]:
            cc = fix(dict(c, kids=[]))
            dst["kids"].append(cc)
            if c["kids"]:
                stack.append((c, cc))
    return top


# ------------------------------------------------------------------------------------------------
# input documents aimed at the walkers
W_PIECES = ["<div>", "</div>", "<p>", "</p>", "<span id=a>", "</span>", "<br>", "<hr class=x>", "<img src=a alt=' '>",
            "<input>", "<wbr>", "<col>", "<table>", "<tr>", "<td>", "</table>", "<svg>", "</svg>", "<math>", "</math>",
            "<svg xlink:href=a xml:lang=b xmlns:xlink=c xmlns=d>", "<mi xlink:type=t>", "<foreignObject>", "<desc>",
            "<event-source>", "</event-source>", "<command>", "<keygen>", "<param name=a>", "<source>", "<track>",
            "<embed>", "<area>", "<base>", "<link>", "<meta charset=x>", "<svg><br>", "<svg><input>", "<svg><hr/>",
            "<!--c-->", "<!---->", "<!-- a -- b -->", " ", "  ", "\n", "\t", "\x0c", "\r\n", "x", " x", "x ", " x y ", "&#32;",
            "&#9;x&#10;", "&nbsp;", "\x0b", "a&#32;", "&#32;b", "<pre>\n", "</pre>", "<textarea>", "</textarea>", "<title>", "</title>",
            "<script>", "</script>", "<a href=x>", "</a>", "<b>", "</b>", "<i>", "</i>", "<select>", "<option>", "</select>",
            "<ul>", "<li>", "</ul>", "<h1>", "</h1>", "<x-y z:w=1>", "<p {}y=1>", "<p {x}=2>", "<p {x}y=3>", "<{}q>",
            "<html xml:lang=a lang=b>", "<body a:x=1 b:x=2 x=3>", "<body lang=c xml:lang=d>", "<p xml:lang=e lang=f>",
            # metacharacters of the internal name encodings ('{', '}', ':') inside element and attribute names
            "<a}b>", "</a}b>", "<a}>", "<h{{level}}>", "</h{{level}}>", "<my-{{kind}}-w x}y=1>", "<svg><g}>", "<rect}x w}=1 {a}b}c=2/>",
            "<math><m{i}:j>", "<x:{y}z p:{q}=r>", "<p a}b=1 c:}d=2 }=3 {{e}}=4>", "<b {u}v}w=1 {u:v}w=2>", "<i a:{}b=1 :=2 }{=3>",
            "<frameset>", "<frame>", "</frameset>", "<body a=b>", "<html c=d>", "<head>", "</head>", "</body>", "</html>",
            "\x00", "\U0001f600", "\ud800", "é"]
W_HEADS = ["", "", "<!DOCTYPE html>", "<!doctype html public \"-//W3C//DTD HTML 4.01//EN\" \"http://www.w3.org/TR/html4/strict.dtd\">",
           "<!DOCTYPE>", "<!DOCTYPE x SYSTEM 'y'>", "<!doctype html public ''>", "<!--a--><!DOCTYPE html><!--b-->",
           "<!-- before --> ", " \n<!DOCTYPE html>\n"]
W_TAILS = ["", "", "<!--after-->", "</html><!--x--> ", "</body> <!--y-->z", "</html>t"]
WITNESS = {
    "walker-legacy-void-names": "<event-source>x</event-source>",
    "etree-clark-empty-part": "<p {}y=1>",
    "etree-clark-raw-name": "<p {x}y=1>",
}
ADVERSARIAL = [
    "<a}b>x</a}b><h{{level}} class={{c}}>y</h{{level}}>", "<svg><g}><rect}x width=1 a}b=2 /></g}></svg>",
    "<math><m{i} x}y=1 {z}w}v=2>t</m{i}>", "<p {x}y}z=1 a:{b}=2 c}=3>", "<html x}y=1><body {p}q=2><a:b} c:d}=3>",
    "<html xml:lang=en lang=en-GB>", "<p>first</p><body lang=fr xml:lang=fr-CA a:x=1 b:x=2><p>second",
    "<html a:x=1><html b:x=2 x=3><body x:href=4><body href=5 xlink:href=6>", "<p xml:lang=en lang=de a:x=1 b:x=2>",
    "<event-source>x</event-source>", "<event-source><b>y</b> z</event-source>w", "<event-source></event-source>", "<command>x",
    "<p {}y=1>", "<p {x}=1>", "<p {x}y=1>", "<{}y>z", "<svg {}y=1 xlink:href=q>",
    "<!--a--><!DOCTYPE html><!--b--><html><!--c--><head></head><!--d--><body></body></html><!--e-->",
    " a <b> c </b> d <br> e <!-- f --> g ", "<p>a&#32;&#32;b</p>", "x<table>y<tr>z<td>w</table>v",
    "<svg xlink:href=a xml:lang=b xml:base=c xml:space=d xmlns=e xmlns:xlink=f xlink:bogus=g><a xlink:title=t/></svg>",
    "<math definitionurl=u><mi xlink:href=v>x</mi><annotation-xml encoding=text/html><br></annotation-xml></math>",
    "<svg><br><input><hr></svg>", "<svg><desc><br></desc><title><img></title></svg>",
    "<select><option>a<option>b</select>", "<pre>\n\nx</pre><textarea>\n y </textarea>",
    "<frameset><frame><frame></frameset>", "<head><base><link><meta><command></head>",
    "<div>" * 40 + "x" + "</div>" * 40, "<b>" * 30 + " t ", "<table>" + "<tr><td>c" * 25,
    "\x0bx\x0b", "\xa0 x \xa0", "\x00a\x00", "a\ud800b", "<p> \t\n\x0c\r </p>", "<keygen>x", "<image>y", "<isindex>",
    "<html a=1><body b=2><html c=3><body d=4>", "<a b=1 b=2 c=3>", "<DIV CLASS=X>", "<x:y z:w=1 xmlns:z=q>",
]


def walker_doc(rng):
    k = rng.random()
    if k < 0.65:
        body = "".join(rng.choice(W_PIECES) for _ in range(rng.randint(1, 14)))
    elif k < 0.85:
        body = corpus.soup(rng)
    else:
        body = corpus.mutate(rng, rng.choice(ADVERSARIAL))
    return rng.choice(W_HEADS) + body + rng.choice(W_TAILS)


def documents(rng, n):
    """deterministic list of (input, fragment?, namespaceHTMLElements, fragment container)"""
    docs = list(ADVERSARIAL)
    repo = list(corpus.repo_strings())
    rng.shuffle(repo)
    docs += repo[: max(40, n // 3)]
    while len(docs) < n:
        docs.append(walker_doc(rng))
    out = []
    for i, d in enumerate(docs[:n]):
        frag = (i % 3 == 1)
        nsel = (i % 5 != 2)
        cont = rng.choice(["div", "div", "td", "svg", "select", "title", "html"]) if frag else "div"
        out.append((d, frag, nsel, cont))
    return out
