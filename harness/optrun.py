"""Runs a stream component in a child interpreter started with -O (asserts stripped, __debug__ False) and returns its output.

Deployments commonly run with PYTHONOPTIMIZE; the specification knows no such mode, so the component's output must be the same.
usage (internal):  python -O -m harness.optrun <kind>   with a JSON list of projected token streams on stdin."""
import json
import os
import subprocess
import sys

VERIF = os.path.dirname(os.path.dirname(os.path.abspath(__file__)))
KINDS = {"alphabeticalattributes": "html5lib.filters.alphabeticalattributes", "whitespace": "html5lib.filters.whitespace",
         "optionaltags": "html5lib.filters.optionaltags"}


def child(kind):
    from . import core, tok      # noqa: core puts the repository under test on sys.path
    import importlib
    Filter = importlib.import_module(KINDS[kind]).Filter
    streams = json.load(sys.stdin)
    out = []
    for s in streams:
        try:
            out.append([tok.proj_token(t) for t in Filter([tok.unproj_token(t) for t in s])])
        except Exception as e:      # noqa
            out.append("exception %r" % (e,))
    json.dump({"debug": __debug__, "out": out}, sys.stdout)


def run(kind, streams):
    """-> list of outputs computed under -O"""
    env = dict(os.environ, PYTHONDONTWRITEBYTECODE="1")
    p = subprocess.run([sys.executable, "-B", "-O", "-m", "harness.optrun", kind], input=json.dumps(streams), cwd=VERIF, env=env,
                       stdout=subprocess.PIPE, stderr=subprocess.PIPE, universal_newlines=True, timeout=600)
    if p.returncode != 0:
        raise RuntimeError("optimised child failed: " + p.stderr[-400:])
    r = json.loads(p.stdout)
    assert r["debug"] is False
    return r["out"]


def check(ctx, kind, streams, expected):
    got = run(kind, streams)
    bad = 0
    for i, (g, e) in enumerate(zip(got, expected)):
        if g != e:
            bad += 1
            ctx.violation("%s filter: output differs in an interpreter started with -O" % kind, {"kind": "optimised", "inp": streams[i], "got": g})
    ctx.notes["optimised_interpreter_streams"] = {"n": len(streams), "mismatches": bad}


if __name__ == "__main__":
    child(sys.argv[1])
