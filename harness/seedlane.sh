#!/bin/bash
# usage: harness/seedlane.sh '<egrep pattern over seed ids>'  -> runs every matching seeded change against its property's check
cd /verif
for s in $(ls seeded | grep -E "$1"); do
  /venv/bin/python -m harness.seedtest run $s 2>&1 | grep "DETECTED\|MISSED\|does not apply"
done
