"""C07 plumbing: materialise canonical nested trees (spec/TreeOps.tla!Canon form, as exported by MC_RoundTrip) as REAL
ElementTree / minidom documents WITHOUT the parser, drive the real HTMLSerializer over option vectors, re-parse, compare,
and attribute failures to listed findings by neutralising one construct at a time.  Nothing here decides the property on
its own: TLC (Trace_RoundTrip) judges the recorded outputs; the comparisons here bind the real parser to the same verdict."""
import copy
import itertools
import xml.etree.ElementTree as ET
from xml.dom import minidom

from . import core  # noqa: F401  (sets sys.path for html5lib)
from . import treeproj
from .tok import dec, enc

NSURL = {"html": "http://www.w3.org/1999/xhtml", "svg": "http://www.w3.org/2000/svg",
         "math": "http://www.w3.org/1998/Math/MathML"}
ANSURL = {"xlink": "http://www.w3.org/1999/xlink", "xml": "http://www.w3.org/XML/1998/namespace",
          "xmlns": "http://www.w3.org/2000/xmlns/"}


# ------------------------------------------------------------------------------------------------
# tree constructors (canonical nested form)
def node(k, ns="", n="", a=(), d="", p="", s="", c=()):
    return {"k": k, "ns": ns, "n": enc(n), "a": [[x[0], enc(x[1]), enc(x[2])] for x in a], "d": enc(d), "p": enc(p),
            "s": enc(s), "c": list(c)}


def E(n, *kids, **kw):
    return node("elem", ns=kw.get("ns", "html"), n=n, a=kw.get("a", ()), c=kids)


def T(d):
    return node("text", d=d)


def C(d):
    return node("comment", d=d)


def document(body_kids, head_kids=None, doctype=("", ""), html_attrs=(), body_attrs=()):
    head = E("head", *(head_kids if head_kids is not None else [E("title", T("t"))]))
    return node("doc", c=[node("doctype", n="html", p=doctype[0], s=doctype[1]),
                          E("html", head, E("body", *body_kids, a=body_attrs), a=html_attrs)])


# ------------------------------------------------------------------------------------------------
# materialisation without the parser
def to_etree(tree):
    """the shape html5lib's etree builder produces with fullTree=True: DOCUMENT_ROOT wrapper, '<!DOCTYPE>' element,
    '{ns}name' tags, text in .text/.tail"""
    def make(nd):
        k = nd["k"]
        if k == "comment":
            return ET.Comment(dec(nd["d"]))
        if k == "doctype":
            el = ET.Element("<!DOCTYPE>")
            el.text = dec(nd["n"])
            if nd["p"]:
                el.set("publicId", dec(nd["p"]))
            if nd["s"]:
                el.set("systemId", dec(nd["s"]))
            return el
        el = ET.Element("{%s}%s" % (NSURL[nd["ns"]], dec(nd["n"])))
        for ans, local, val in nd["a"]:
            el.set(dec(local) if ans == "" else "{%s}%s" % (ANSURL[ans], dec(local)), dec(val))
        fill(el, nd["c"])
        return el

    def fill(el, kids):
        last = None
        for c in kids:
            if c["k"] == "text":
                if last is None:
                    el.text = (el.text or "") + dec(c["d"])
                else:
                    last.tail = (last.tail or "") + dec(c["d"])
            else:
                last = make(c)
                el.append(last)

    root = ET.Element("DOCUMENT_ROOT")
    fill(root, tree["c"])
    return root


def to_dom(tree):
    """the shape html5lib's dom builder produces: minidom Document, createElementNS, one Text node per text node"""
    impl = minidom.getDOMImplementation()
    doc = impl.createDocument(None, None, None)

    def make(nd):
        k = nd["k"]
        if k == "text":
            return doc.createTextNode(dec(nd["d"]))
        if k == "comment":
            return doc.createComment(dec(nd["d"]))
        if k == "doctype":
            dt = impl.createDocumentType(dec(nd["n"]), dec(nd["p"]) if nd["p"] else None, dec(nd["s"]) if nd["s"] else None)
            dt.ownerDocument = doc
            return dt
        el = doc.createElementNS(NSURL[nd["ns"]], dec(nd["n"]))
        for ans, local, val in nd["a"]:
            if ans == "":
                el.setAttribute(dec(local), dec(val))
            else:
                el.setAttributeNS(ANSURL[ans], ans + ":" + dec(local), dec(val))
        for c in nd["c"]:
            el.appendChild(make(c))
        return el

    for c in tree["c"]:
        doc.appendChild(make(c))
    return doc


def materialise(tree):
    """returns {'etree': root, 'dom': doc}; raises AssertionError when the projection of a materialised tree is not the tree"""
    et = to_etree(tree)
    dm = to_dom(tree)
    if treeproj.from_etree_document(et) != tree:
        raise AssertionError("etree materialisation does not project back to the tree")
    if treeproj.from_dom_document(dm) != tree:
        raise AssertionError("dom materialisation does not project back to the tree")
    return {"etree": et, "dom": dm}


# ------------------------------------------------------------------------------------------------
# option vectors
FACTORS = [("quote_attr_values", ["legacy", "spec", "always"]), ("quote_char", [None, '"', "'"]),
           ("omit_optional_tags", [True, False]), ("minimize_boolean_attributes", [True, False]),
           ("use_trailing_solidus", [False, True]), ("space_before_trailing_solidus", [True, False]),
           ("escape_lt_in_attrs", [False, True]), ("escape_rcdata", [False, True]),
           ("alphabetical_attributes", [False, True]), ("resolve_entities", [True, False]),
           ("walker", ["etree", "dom"]), ("encoding", [None, "utf-8", "ascii", "iso-8859-1"])]
NAMES = [f[0] for f in FACTORS]


def full_product():
    return [dict(zip(NAMES, v)) for v in itertools.product(*[f[1] for f in FACTORS])]


def pairwise(rng=None):
    """greedy pairwise covering array over FACTORS (every pair of levels of every two factors occurs in some row);
    deterministic for a given rng (None: fixed order)"""
    levels = [f[1] for f in FACTORS]
    k = len(levels)
    need = set()
    for i in range(k):
        for j in range(i + 1, k):
            for a in range(len(levels[i])):
                for b in range(len(levels[j])):
                    need.add((i, a, j, b))
    rows = []
    cand_all = list(itertools.product(*[range(len(l)) for l in levels]))
    if rng is not None:
        rng.shuffle(cand_all)
    cand = cand_all[::7] if len(cand_all) > 5000 else cand_all
    while need:
        best, best_n = None, -1
        for r in cand:
            n = 0
            for i in range(k):
                ri = r[i]
                for j in range(i + 1, k):
                    if (i, ri, j, r[j]) in need:
                        n += 1
            if n > best_n:
                best, best_n = r, n
        if best_n <= 0:        # cannot happen with the full candidate set; fall back to it
            cand = cand_all
            continue
        rows.append(best)
        for i in range(k):
            for j in range(i + 1, k):
                need.discard((i, best[i], j, best[j]))
    return [dict((NAMES[i], levels[i][r[i]]) for i in range(k)) for r in rows]


def ser_kwargs(o):
    kw = {k: o[k] for k in NAMES if k not in ("walker", "encoding", "quote_char")}
    if o["quote_char"] is not None:
        kw["quote_char"] = o["quote_char"]
    kw["inject_meta_charset"] = False          # C15's subject; it adds an element, so it is held off here
    return kw


# ------------------------------------------------------------------------------------------------
# the real serializer
def render(objs, o, stream=None):
    """real HTMLSerializer(**o).render(walker(tree)[, encoding]) -> decoded text.  stream: a ready token list instead"""
    from html5lib import treewalkers
    from html5lib.serializer import HTMLSerializer
    kw = ser_kwargs(o)
    key = tuple(sorted(kw.items()))
    s = _SERIALIZERS.get(key)            # long-lived: one serializer object per option vector, reused for every tree
    if s is None:
        s = _SERIALIZERS[key] = HTMLSerializer(**kw)
    src = stream if stream is not None else treewalkers.getTreeWalker(o["walker"])(objs[o["walker"]])
    out = s.render(src, o["encoding"]) if o["encoding"] else s.render(src)
    if o["encoding"]:
        raw = out
        return raw.decode(o["encoding"]), raw
    return out, None


def real_reparse(text, builder):
    from . import realparse
    return realparse.parse(text, None, False, builder)


_SERIALIZERS = {}
# Earlier, unrelated inputs a long-lived HTMLParser object is given before it re-parses a serializer output: each leaves
# the parser in a different end state (quirks / limited-quirks mode, open table cell with a formatting marker, non-empty list
# of active formatting elements, frameset, select, foreign content, RCDATA / script tokenizer state at EOF, form pointer,
# foster-parented table text, plaintext, attributes merged into html/body, scripting on, fragment cases with a context).
PRIORS = [("doc", "<p>x", None, False),
          ("doc", '<!DOCTYPE html PUBLIC "-//W3C//DTD HTML 4.01 Transitional//EN"><table><tr><td><b>x', None, False),
          ("doc", '<!DOCTYPE html PUBLIC "-//W3C//DTD XHTML 1.0 Transitional//EN" "http://www.w3.org/TR/xhtml1/DTD/xhtml1-transitional.dtd"><b><i><p>x',
           None, False),
          ("doc", "<frameset><frame>", None, False),
          ("doc", "<select><option>x", None, False),
          ("doc", "<svg><g><title>x", None, False),
          ("doc", "<title>a</title><textarea>x", None, False),
          ("doc", "<script>x", None, True),
          ("doc", "<form><p>x<table>y<tr>", None, False),
          ("frag", "<td>x", "tr", False),
          ("frag", "x</title>y", "title", False),
          ("frag", "<option>x", "select", False),
          ("doc", "<html a=b><head c=d></head><body e=f>x</body></html> y<!--c-->", None, False),
          ("doc", "<!DOCTYPE html><p>x<plaintext>y", None, False),
          ("doc", "<math><mi><p>x<noscript>y", None, True)]
_LONG = {}


def prior_label(k):
    kind, src, cont, scr = PRIORS[k % len(PRIORS)]
    return "%s%s:%s" % (kind, "(%s)" % cont if cont else "", src)


def primed_reparse(text, builder, k):
    """re-parse `text` with the process-wide long-lived HTMLParser object of this builder, right after that object has
    handled the unrelated input PRIORS[k]"""
    import html5lib
    from html5lib import treebuilders
    p = _LONG.get(builder)
    if p is None:
        tb = treebuilders.getTreeBuilder("etree", fullTree=True) if builder == "etree" else treebuilders.getTreeBuilder("dom")
        p = _LONG[builder] = html5lib.HTMLParser(tree=tb)
    kind, src, cont, scr = PRIORS[k % len(PRIORS)]
    if kind == "doc":
        p.parse(src, scripting=scr)
    else:
        p.parseFragment(src, container=cont, scripting=scr)
    r = p.parse(text, scripting=False)
    return treeproj.from_etree_document(r) if builder == "etree" else treeproj.from_dom_document(r)


def real_reparse_bytes(raw, encoding, builder="etree"):
    import html5lib
    from html5lib import treebuilders
    tb = treebuilders.getTreeBuilder("etree", fullTree=True) if builder == "etree" else treebuilders.getTreeBuilder("dom")
    p = html5lib.HTMLParser(tree=tb)
    r = p.parse(raw, transport_encoding=encoding, useChardet=False)
    return treeproj.from_etree_document(r) if builder == "etree" else treeproj.from_dom_document(r)


# ------------------------------------------------------------------------------------------------
# comparison up to the licensed normalisations (mirror of RoundTrip.tla!RtNorm; the boolean table is the HTML standard's)
_B = {"input": "disabled checked readonly required autofocus multiple", "option": "selected disabled", "optgroup": "disabled",
      "select": "multiple disabled required autofocus", "button": "disabled autofocus",
      "textarea": "disabled readonly required autofocus", "fieldset": "disabled", "script": "async defer", "details": "open",
      "dialog": "open", "ol": "reversed"}
BOOLEAN = {k: set(v.split()) | {"hidden"} for k, v in _B.items()}
_NSRANK = {"": 0, "xlink": 1, "xml": 2, "xmlns": 3}


def is_boolean(ns, name, at):
    return ns == "html" and at[0] == "" and dec(at[1]) in BOOLEAN.get(name, {"hidden"})


def norm(nd, alpha, minb):
    if nd["k"] not in ("elem", "doc"):
        return nd
    name = dec(nd["n"])
    attrs = []
    for at in nd["a"]:
        if minb and is_boolean(nd["ns"], name, at) and [c + 32 if 65 <= c <= 90 else c for c in at[2]] == at[1]:
            at = [at[0], at[1], []]
        attrs.append(at)
    if alpha:
        attrs = sorted(attrs, key=lambda at: (at[1], _NSRANK.get(at[0], 4)))
    r = dict(nd)
    r["a"] = attrs
    r["c"] = [norm(c, alpha, minb) for c in nd["c"]]
    return r


def same(a, b, alpha, minb):
    return norm(a, alpha, minb) == norm(b, alpha, minb)


def at_path(tree, path):
    nd = tree
    for i in path:
        if i == 0 or i > len(nd["c"]):
            break
        nd = nd["c"][i - 1]
    return nd


# ------------------------------------------------------------------------------------------------
# attribution of a failed round trip to listed findings
P_BAD_PARENTS = {"a", "audio", "del", "ins", "map", "noscript", "video"}
LF_DROPPERS = {"pre", "textarea", "listing"}
RAW = {"script", "style", "xmp", "iframe", "noembed", "noframes", "noscript", "plaintext"}


def _walk_elems(nd, parent=None):
    if nd["k"] == "elem":
        yield nd, parent
    for c in nd["c"]:
        for x in _walk_elems(c, nd if nd["k"] == "elem" else None):
            yield x


def _restore_tokens(tokens, which):
    """run the REAL optional-tags filter on `tokens`, then put back the dropped tokens selected by which(d, i, tokens, parents):
    the stream the filter would produce if the named deviations `d` were absent at exactly those places"""
    from html5lib.filters.optionaltags import Filter
    toks = [dict(t) for t in tokens]
    for i, t in enumerate(toks):
        t["_i"] = i
    kept = {t["_i"] for t in Filter(toks)}
    parents, stack = [], []
    for t in toks:
        if t["type"] == "EndTag" and stack:
            stack.pop()
        parents.append(stack[-1] if stack else None)
        if t["type"] == "StartTag":
            stack.append(t)
    out = []
    restored = 0
    for i, t in enumerate(toks):
        if i in kept:
            out.append(t)
        elif which(i, toks, parents):
            out.append(t)
            restored += 1
    for t in out:
        t.pop("_i", None)
    return out, restored


def _is_html(t):
    return t.get("namespace") in (None, NSURL["html"])


def _next(toks, i):
    return toks[i + 1] if i + 1 < len(toks) else None


def dev_p_parent(i, toks, parents):
    t = toks[i]
    nx = _next(toks, i)
    if t["type"] != "EndTag" or t["name"] != "p" or not _is_html(t) or not (nx is None or nx["type"] == "EndTag"):
        return False
    par = parents[i]
    return par is not None and (not _is_html(par) or par["name"] in P_BAD_PARENTS or "-" in par["name"])


def dev_p_dialog(i, toks, parents):
    t = toks[i]
    nx = _next(toks, i)
    return (t["type"] == "EndTag" and t["name"] == "p" and nx is not None and nx["type"] in ("StartTag", "EmptyTag")
            and nx["name"] in ("dialog", "datagrid"))


def dev_body_meta(i, toks, parents):
    t = toks[i]
    nx = _next(toks, i)
    return (t["type"] == "StartTag" and t["name"] == "body" and nx is not None and nx["type"] in ("StartTag", "EmptyTag")
            and nx["name"] in ("meta", "link", "template"))


OT_DEVIATIONS = {"ot-p-end-parent-unchecked": dev_p_parent, "ot-p-end-dialog-datagrid": dev_p_dialog,
                 "ot-body-start-before-meta-link-template": dev_body_meta}


def _tree_edit(tree, fn, o):
    t = copy.deepcopy(tree)
    hit = [0]

    def rec(nd):
        if nd["k"] == "elem":
            if fn(nd, o):
                hit[0] += 1
        for c in nd["c"]:
            rec(c)
    rec(t)
    return t, hit[0]


def _unquoted(v, o):
    """would the serializer write this attribute value without quotes under o (per the documented modes)"""
    if o["quote_attr_values"] == "always" or v == "":
        return False
    return True          # legacy / spec: decided by the serializer's own tables; a superset is enough for a trigger


def neut_pre_lf(nd, o):
    """pre/textarea/listing whose text starts with LF: put an 'x' in front (the construct is gone, everything else stays)"""
    if nd["ns"] == "html" and dec(nd["n"]) in LF_DROPPERS and nd["c"] and nd["c"][0]["k"] == "text" and nd["c"][0]["d"][:1] == [10]:
        nd["c"][0]["d"] = [120] + nd["c"][0]["d"]
        return True
    return False


def neut_attr_prefix(nd, o):
    """foreign element with a namespaced attribute: drop that attribute"""
    keep = [a for a in nd["a"] if a[0] == ""]
    if len(keep) != len(nd["a"]):
        nd["a"] = keep
        return True
    return False


def _encodable(c, encoding):
    try:
        chr(c).encode(encoding)
        return True
    except UnicodeEncodeError:
        return False


def neut_raw_unencodable(nd, o):
    """raw-text element holding a character the output encoding cannot express: replace those characters by 'x'"""
    if nd["ns"] == "html" and dec(nd["n"]) in RAW and o["encoding"]:
        hit = False
        for c in nd["c"]:
            if c["k"] == "text" and any(not _encodable(x, o["encoding"]) for x in c["d"]):
                c["d"] = [x if _encodable(x, o["encoding"]) else 120 for x in c["d"]]
                hit = True
        return hit
    return False


def neut_raw_markup(nd, o):
    """raw-text element whose text holds & < > while escape_rcdata is on: replace them by 'x'"""
    if nd["ns"] == "html" and dec(nd["n"]) in RAW and o["escape_rcdata"]:
        hit = False
        for c in nd["c"]:
            if c["k"] == "text" and any(x in (38, 60, 62) for x in c["d"]):
                c["d"] = [120 if x in (38, 60, 62) else x for x in c["d"]]
                hit = True
        return hit
    return False


def neut_void_last_attr(nd, o):
    """void element whose LAST attribute may be written unquoted while '/' follows it without a space: empty that value
    (an empty value is always quoted), so the solidus no longer touches an unquoted value"""
    if nd["ns"] == "html" and dec(nd["n"]) in VOID_NAMES and nd["a"] and o["use_trailing_solidus"] \
            and not o["space_before_trailing_solidus"] and _unquoted(dec(nd["a"][-1][2]), o):
        last = nd["a"][-1]
        nd["a"][-1] = [last[0], last[1], []]
        return True
    return False


VOID_NAMES = {"area", "base", "br", "col", "embed", "hr", "img", "input", "link", "meta", "param", "source", "track", "wbr"}
# key -> tree edit that removes exactly the triggering construct (returns True when it was present)
SER_DEVIATIONS = {
    "ser-pre-leading-lf": neut_pre_lf,
    "ser-attr-prefix-dropped": neut_attr_prefix,
    "ser-unquoted-solidus": neut_void_last_attr,
    "ser-escape-rcdata-raw-text": neut_raw_markup,
    "ser-rawtext-charref": neut_raw_unencodable,
}


def roundtrip_ok(tree, o, restore=()):
    """the real round trip of `tree` under options o (both builders on re-parse), with the optional-tag deviations in
    `restore` neutralised at token level.  Returns (ok, number of restored tokens)."""
    from html5lib import treewalkers
    objs = materialise(tree)
    restored = 0
    if restore and o["omit_optional_tags"]:
        toks = list(treewalkers.getTreeWalker(o["walker"])(objs[o["walker"]]))
        if o["alphabetical_attributes"]:
            from html5lib.filters.alphabeticalattributes import Filter as AF
            toks = list(AF(toks))
        fns = [OT_DEVIATIONS[d] for d in restore]
        stream, restored = _restore_tokens(toks, lambda i, t, p: any(f(i, t, p) for f in fns))
        o2 = dict(o)
        o2["omit_optional_tags"] = False
        o2["alphabetical_attributes"] = False
        text, _ = render(objs, o2, stream=stream)
    else:
        text, _ = render(objs, o)
    ok = all(same(real_reparse(text, b), tree, o["alphabetical_attributes"], o["minimize_boolean_attributes"])
             for b in ("etree", "dom"))
    return ok, restored


def attribute_failure(tree, o, listed):
    """for a failed (tree, options) case: the listed findings that explain it.  Every listed deviation whose triggering
    construct is present is neutralised (serializer deviations: the one construct is edited out of the tree; optional-tag
    deviations: the wrongly dropped tokens are put back into the stream); if the round trip then succeeds, the deviations
    that break it on their own (only that one left active) are returned; [] = unexplained."""
    ot = [d for d in OT_DEVIATIONS if d in listed and o["omit_optional_tags"]]
    ser = [d for d in SER_DEVIATIONS if d in listed]
    if o["alphabetical_attributes"]:
        # attribute order matters for "last attribute": work on the tree the serializer actually sees
        tree = norm(tree, True, False)

    def apply(ser_on, ot_on):
        t, hits = tree, {}
        for d in ser_on:
            t, hits[d] = _tree_edit(t, SER_DEVIATIONS[d], o)
        ok, restored = roundtrip_ok(t, o, restore=ot_on)
        return ok, hits, restored

    ok, hits, restored = apply(ser, ot)
    if not ok:
        return []
    active_ser = [d for d in ser if hits.get(d)]
    active_ot = []
    for d in ot:
        _, r = roundtrip_ok(tree, o, restore=[d])
        if r:
            active_ot.append(d)
    needed = []
    for d in active_ser:
        ok2, _, _ = apply([x for x in active_ser if x != d], active_ot)
        if not ok2:
            needed.append(d)
    for d in active_ot:
        ok2, _, _ = apply(active_ser, [x for x in active_ot if x != d])
        if not ok2:
            needed.append(d)
    return needed or (active_ser + active_ot)


def show_opts(o):
    return {k: o[k] for k in NAMES}
