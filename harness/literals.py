"""Implementation-derived boundary values.

The specifications quantify over all names, characters and lengths; the checks explore representatives.  A change that
special-cases ONE more name ("search"), one more character or a new size threshold (a 512-character scan limit, a batch
of 1024 tokens) is invisible to fixed representatives.  So the representatives are completed from the code under test
itself: every string literal of a module that looks like a tag / attribute name, and every integer literal that can act
as a size threshold, is harvested from the source of the tree being checked (core.REPO, i.e. also the modified tree), the
way a fuzzer builds its dictionary.  Nothing harvested is ever used as an oracle: it only widens the inputs."""
import ast
import os
import re

from . import core

_NAME = re.compile(r"^[A-Za-z][A-Za-z0-9:_-]{0,24}$")
_cache = {}


def _tree(rel):
    path = os.path.join(core.REPO, rel)
    key = (path, os.path.getmtime(path))
    if key not in _cache:
        with open(path, encoding="utf-8") as f:
            _cache[key] = ast.parse(f.read())
    return _cache[key]


def strings(*rels):
    """all str literals of the given source files (relative to the repository root)"""
    out = set()
    for rel in rels:
        for node in ast.walk(_tree(rel)):
            if isinstance(node, ast.Constant) and isinstance(node.value, str):
                out.add(node.value)
    return out


def names(*rels):
    """literals that can be tag or attribute names (sorted, deterministic)"""
    return sorted(s for s in strings(*rels) if _NAME.match(s))


def ints(*rels, lo=16, hi=1 << 16):
    """integer literals that can act as size thresholds"""
    out = set()
    for rel in rels:
        for node in ast.walk(_tree(rel)):
            if isinstance(node, ast.Constant) and type(node.value) is int and lo <= node.value <= hi:
                out.add(node.value)
    return sorted(out)


def sizes(*rels, extra=(64, 256, 1024, 4096), cap=20000):
    """lengths around every harvested threshold (n-1, n, n+1) plus a few powers of two"""
    out = set()
    for n in list(ints(*rels)) + list(extra):
        for d in (-1, 0, 1):
            if 1 <= n + d <= cap:
                out.add(n + d)
    return sorted(out)


def extra_names(known, *rels):
    """harvested names the check's own alphabet does not contain yet"""
    k = set(known)
    return [n for n in names(*rels) if n not in k and n.lower() == n]
