"""Maintains /verif/seeded/: confirms a candidate seeded change (tests pass, demo fails with it and passes
without it) in a scratch worktree, and runs a check against it.

  python -m harness.seedtest confirm /tmp/seeds/C18-1        -> copies into /verif/seeded/C18-1 when confirmed
  python -m harness.seedtest run C18-1 [--tier quick] [--check C18]   -> runs the check against the change
"""
import json
import os
import shutil
import subprocess
import sys
import time

VERIF = os.path.dirname(os.path.dirname(os.path.abspath(__file__)))
SEEDED = os.path.join(VERIF, "seeded")
WT = "/tmp/wt/seedtest-%d" % os.getpid()


def sh(cmd, cwd=None, env=None, timeout=3600):
    p = subprocess.run(cmd, shell=True, cwd=cwd, env=env, stdout=subprocess.PIPE, stderr=subprocess.STDOUT,
                       universal_newlines=True, timeout=timeout)
    return p.returncode, p.stdout


def worktree(wt=WT):
    if os.path.isdir(wt):
        sh("git -C /repo worktree remove --force %s" % wt)
    rc, out = sh("git -C /repo worktree add -q --detach %s HEAD" % wt)
    if rc:
        raise SystemExit(out)
    return wt


def drop(wt=WT):
    sh("git -C /repo worktree remove --force %s" % wt)
    sh("git -C /repo worktree prune")


def confirm(src):
    sid = os.path.basename(src.rstrip("/"))
    patch = os.path.join(src, "patch.diff")
    demo = os.path.join(src, "demo.py")
    meta = json.load(open(os.path.join(src, "meta.json")))
    wt = worktree()
    res = {}
    try:
        rc, out = sh("/venv/bin/python %s" % demo, cwd=wt)
        res["demo_clean_rc"] = rc
        rc, out = sh("git apply %s" % patch, cwd=wt)
        res["apply_rc"] = rc
        rc, out = sh("/venv/bin/python -m pytest -q -p no:cacheprovider --timeout=900 2>&1 | tail -1", cwd=wt)
        res["tests"] = out.strip()
        rc, out = sh("/venv/bin/python %s" % demo, cwd=wt)
        res["demo_patched_rc"] = rc
        res["demo_patched_tail"] = out.strip().splitlines()[-3:]
    finally:
        drop()
    ok = (res["demo_clean_rc"] == 0 and res["apply_rc"] == 0 and res["demo_patched_rc"] != 0
          and "972 passed" in res["tests"] and "failed" not in res["tests"])
    print(sid, "CONFIRMED" if ok else "NOT CONFIRMED", res)
    if ok:
        dst = os.path.join(SEEDED, sid)
        os.makedirs(dst, exist_ok=True)
        shutil.copy(patch, dst)
        shutil.copy(demo, dst)
        meta["confirmed"] = res
        meta.setdefault("detected_by", {})
        json.dump(meta, open(os.path.join(dst, "meta.json"), "w"), indent=1)
    return ok


def run(sid, tier="quick", check=None):
    d = os.path.join(SEEDED, sid)
    meta = json.load(open(os.path.join(d, "meta.json")))
    check = check or meta["property"]
    wt = worktree("/tmp/wt/seedrun-%s-%s" % (sid, check))
    try:
        rc, out = sh("git apply %s" % os.path.join(d, "patch.diff"), cwd=wt)
        if rc:
            print("patch does not apply:", out)
            return None
        env = dict(os.environ, VERIF_REPO=wt, VERIF_NO_EVIDENCE="1")
        t0 = time.time()
        rc, out = sh("./check %s --tier %s" % (check, tier), cwd=VERIF, env=env, timeout=7200)
        tail = [l for l in out.splitlines() if l.startswith(("VIOLATION", "KNOWN", check, "MACHINERY"))][-4:]
        detected = (rc == 1 and any(l.startswith("VIOLATION") for l in out.splitlines()))
        print(sid, check, tier, "DETECTED" if detected else "MISSED rc=%s" % rc, "%.0fs" % (time.time() - t0))
        for l in tail:
            print("   ", l[:220])
        meta.setdefault("detected_by", {})["%s/%s" % (check, tier)] = bool(detected)
        json.dump(meta, open(os.path.join(d, "meta.json"), "w"), indent=1)
        return detected
    finally:
        drop(wt)


if __name__ == "__main__":
    if sys.argv[1] == "confirm":
        for s in sys.argv[2:]:
            confirm(s)
    elif sys.argv[1] == "run":
        args = sys.argv[2:]
        tier = "quick"
        check = None
        if "--tier" in args:
            i = args.index("--tier"); tier = args[i + 1]; del args[i:i + 2]
        if "--check" in args:
            i = args.index("--check"); check = args[i + 1]; del args[i:i + 2]
        for s in args:
            run(s, tier, check)
