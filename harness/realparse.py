"""Driving the real parser for the tree-construction checks."""
from . import core  # noqa: F401
from . import treeproj


MODES = {"InitialPhase": "initial", "BeforeHtmlPhase": "beforeHtml", "BeforeHeadPhase": "beforeHead", "InHeadPhase": "inHead",
         "InHeadNoscriptPhase": "inHeadNoscript", "AfterHeadPhase": "afterHead", "InBodyPhase": "inBody", "TextPhase": "text",
         "InTablePhase": "inTable", "InTableTextPhase": "inTableText", "InCaptionPhase": "inCaption",
         "InColumnGroupPhase": "inColumnGroup", "InTableBodyPhase": "inTableBody", "InRowPhase": "inRow", "InCellPhase": "inCell",
         "InSelectPhase": "inSelect", "InSelectInTablePhase": "inSelectInTable", "AfterBodyPhase": "afterBody",
         "InFramesetPhase": "inFrameset", "AfterFramesetPhase": "afterFrameset", "AfterAfterBodyPhase": "afterAfterBody",
         "AfterAfterFramesetPhase": "afterAfterFrameset"}
QUIRKS = {"no quirks": "no", "limited quirks": "limited", "quirks": "quirks"}


def snapshot(p):
    """the parser's internal state after parse(): what the object still exposes, projected like Snapshot(ps)"""
    from .tok import enc
    from .treeproj import NS

    def nm(e):
        return [NS.get(e.namespace, e.namespace), enc(e.name)]
    from html5lib.treebuilders.base import Marker
    return {"mode": MODES.get(type(p.phase).__name__, type(p.phase).__name__),
            "open": [nm(e) for e in p.tree.openElements],
            "afe": [["marker", []] if e is Marker else nm(e) for e in p.tree.activeFormattingElements],
            "fok": bool(p.framesetOK), "form": p.tree.formPointer is not None, "head": p.tree.headPointer is not None,
            "quirks": QUIRKS[p.compatMode]}


def parse(src, container=None, scripting=False, builder="etree", ns=True, snap=False):
    """returns the canonical projection of the document (dict) or fragment (list of nodes)"""
    import html5lib
    from html5lib import treebuilders
    if builder == "etree":
        tb = treebuilders.getTreeBuilder("etree", fullTree=True)
    else:
        tb = treebuilders.getTreeBuilder("dom")
    p = html5lib.HTMLParser(tree=tb, namespaceHTMLElements=ns)
    if container is None:
        r = p.parse(src, scripting=scripting)
        sn = snapshot(p) if snap else None
        t = treeproj.from_etree_document(r) if builder == "etree" else treeproj.from_dom_document(r)
    else:
        r = p.parseFragment(src, container=container, scripting=scripting)
        sn = snapshot(p) if snap else None
        t = treeproj.from_etree_fragment(r) if builder == "etree" else treeproj.from_dom_fragment(r)
    return (t, sn) if snap else t
