"""Prints the markdown table of seeded changes and detection results from /verif/seeded/*/meta.json."""
import glob
import json
import os

VERIF = os.path.dirname(os.path.dirname(os.path.abspath(__file__)))


def main():
    print("| seed | what was changed | needs | detected by |")
    print("|---|---|---|---|")
    for d in sorted(glob.glob(os.path.join(VERIF, "seeded", "*", ""))):
        d = d.rstrip("/")
        m = json.load(open(os.path.join(d, "meta.json")))
        det = m.get("detected_by", {})
        hit = sorted(k for k, v in det.items() if v)
        miss = sorted(k for k, v in det.items() if not v and k.split("/")[0] not in {h.split("/")[0] for h in hit})
        cell = ", ".join(hit) if hit else "-"
        if m.get("invalidated"):
            cell = "invalidated (" + m["invalidated"][:60] + "...)"
        elif miss:
            cell += " (missed: " + ", ".join(miss) + ")"
        def short(x):
            x = " ".join(str(x).split())
            return (x[:150] + "...") if len(x) > 150 else x
        print("| %s | %s | %s | %s |" % (os.path.basename(d), short(m.get("summary", "")).replace("|", "/"),
                                          short(m.get("needs", "")).replace("|", "/"), cell))


if __name__ == "__main__":
    main()
