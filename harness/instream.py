"""C05 helpers: scripted sources, the stream recorder, delivery kinds, tree projection.

Nothing here is an oracle: the recorder only writes down what the real stream object did, in the
event format of spec/Trace_InputStream.tla; the sources only cut a given text / byte string into reads."""
import codecs
import contextlib
import io
import json

from . import core  # noqa: F401  (puts REPO on sys.path)

BOMS = {"utf-8": codecs.BOM_UTF8, "utf-16le": codecs.BOM_UTF16_LE, "utf-16be": codecs.BOM_UTF16_BE}
ALL_BOMS = (codecs.BOM_UTF8, codecs.BOM_UTF32_LE, codecs.BOM_UTF32_BE, codecs.BOM_UTF16_LE, codecs.BOM_UTF16_BE)


# ------------------------------------------------------------------------------------------------
# sources
class Scripted(object):
    """file-like object whose read(n) returns the scripted pieces one per call (never more than n
    items; a longer piece is continued by the next call).  No seek/tell: a non-seekable source.
    `empty` is "" for a text source and b"" for a byte source."""

    def __init__(self, pieces, empty=""):
        self.pieces = [p for p in pieces]
        self.i = 0
        self.empty = empty
        self.calls = 0
        self.asked = []

    def read(self, n=-1):
        if n == 0:
            return self.empty
        self.calls += 1
        self.asked.append(n)
        if self.i >= len(self.pieces):
            return self.empty
        p = self.pieces[self.i]
        if n is not None and 0 < n < len(p):
            self.pieces[self.i] = p[n:]
            return p[:n]
        self.i += 1
        return p


class FullRead(object):
    """non-seekable source that honours read(n) fully (like a pipe wrapped in a BufferedReader)"""

    def __init__(self, data):
        self.f = io.BytesIO(data) if isinstance(data, bytes) else io.StringIO(data)

    def read(self, n=-1):
        return self.f.read(n)


class _FakeSocket(object):
    def __init__(self, payload):
        self.payload = payload

    def makefile(self, _mode, _bufsize=None):
        return io.BytesIO(self.payload)


def http_response(body, charset, chunked=False):
    """a real http.client.HTTPResponse (what urlopen() returns) over a canned payload"""
    from http import client as http_client
    head = b"HTTP/1.1 200 OK\r\nContent-Type: text/html; charset=" + charset.encode("ascii") + b"\r\n"
    if chunked:
        cutp = len(body) // 2
        payload = head + b"Transfer-Encoding: chunked\r\n\r\n"
        for part in (body[:cutp], body[cutp:]):
            if part:
                payload += ("%x\r\n" % len(part)).encode("ascii") + part + b"\r\n"
        payload += b"0\r\n\r\n"
    else:
        payload = head + ("Content-Length: %d\r\n\r\n" % len(body)).encode("ascii") + body
    resp = http_client.HTTPResponse(_FakeSocket(payload))
    resp.begin()
    return resp


def byte_source(kind, data, charset="utf-8", seg=None):
    """the byte source kinds the stream factory can meet"""
    if kind == "bytes":
        return data
    if kind == "bytesio":
        return io.BytesIO(data)
    if kind in ("nsbfull", "nonseekable"):
        return FullRead(data)
    if kind in ("nsb", "shortbytes"):
        return Scripted(cut(data, seg or [4, 3, 2, 1, 5]), b"")
    if kind in ("http", "httpresponse"):
        return http_response(data, charset)
    if kind == "httpchunked":
        return http_response(data, charset, chunked=True)
    if kind == "addinfourl":
        from urllib import response as urllib_response
        resp = http_response(data, charset)
        return urllib_response.addinfourl(resp, resp.msg, "http://example.com/")
    raise ValueError(kind)


BYTE_KINDS = ("bytes", "bytesio", "nsb", "nsbfull", "http", "httpchunked", "addinfourl")


def cut(data, seg):
    """cut data into pieces of the given lengths (the last piece takes the rest)"""
    out, i = [], 0
    for k in seg:
        if i >= len(data):
            break
        out.append(data[i:i + k])
        i += k
    if i < len(data):
        out.append(data[i:])
    return out


def compositions(n):
    """all ways to cut n items into consecutive non-empty pieces (2**(n-1))"""
    if n == 0:
        yield []
        return
    for mask in range(1 << (n - 1)):
        seg, run = [], 1
        for b in range(n - 1):
            if mask >> b & 1:
                seg.append(run)
                run = 1
            else:
                run += 1
        seg.append(run)
        yield seg


# ------------------------------------------------------------------------------------------------
# recorder
class _LogReader(object):
    def __init__(self, inner, sink):
        self.inner = inner
        self.sink = sink

    def read(self, n=-1):
        d = self.inner.read(n)
        self.sink.append(d)
        return d

    def __getattr__(self, name):
        return getattr(self.inner, name)


class Recorder(object):
    """Forwarding proxy around a real HTML*InputStream that logs every call as one event."""

    def __init__(self, real):
        d = self.__dict__
        d["real"] = real
        d["ev"] = []
        d["reads"] = []
        d["total"] = 0
        d["dirty"] = False
        real.dataStream = _LogReader(real.dataStream, d["reads"])

    def _log(self, op, a, opp, r):
        real = self.real
        held = real._bufferedCharacter
        self.ev.append({"op": op, "a": a, "opp": opp, "rd": [[ord(c) for c in x] for x in self.reads], "r": r,
                        "st": [real.chunkOffset, real.chunkSize, ord(held) if held else -1, real.prevNumLines,
                               real.prevNumCols],
                        "ne": self.total, "pos": list(real.position())})
        del self.reads[:]

    def char(self):
        real = self.real
        n0 = len(real.errors)
        c = real.char()
        self.__dict__["total"] = self.total + len(real.errors) - n0
        self.__dict__["dirty"] = True
        self._log("char", [], False, [-1] if c is None else [ord(c)])
        return c

    def charsUntil(self, characters, opposite=False):
        real = self.real
        n0 = len(real.errors)
        r = real.charsUntil(characters, opposite)
        self.__dict__["total"] = self.total + len(real.errors) - n0
        self.__dict__["dirty"] = True
        self._log("until", sorted(ord(c) for c in characters), bool(opposite), [ord(c) for c in r])
        return r

    def unget(self, char):
        self.real.unget(char)
        self.__dict__["dirty"] = True
        self._log("unget", [-1] if char is None else [ord(char)], False, [])

    def position(self):
        p = self.real.position()
        self._log("pos", [], False, list(p))
        return p

    @property
    def errors(self):
        if self.dirty:
            self.__dict__["dirty"] = False
            self._log("poll", [], False, [len(self.real.errors)])
        return self.real.errors

    def poll(self):
        """what the tokenizer does after every state function: look at the list and drain it"""
        e = self.errors
        n = len(e)
        del e[:]
        return n

    def __getattr__(self, name):
        return getattr(self.real, name)

    def __setattr__(self, name, value):
        setattr(self.real, name, value)


@contextlib.contextmanager
def recording():
    """while active, every stream the tokenizer opens is wrapped in a Recorder (collected in the list)"""
    from html5lib import _tokenizer
    orig = _tokenizer.HTMLInputStream
    box = []

    def factory(source, **kw):
        rec = Recorder(orig(source, **kw))
        box.append(rec)
        return rec
    _tokenizer.HTMLInputStream = factory
    try:
        yield box
    finally:
        _tokenizer.HTMLInputStream = orig


@contextlib.contextmanager
def chunk_size(n):
    from html5lib import _inputstream
    cls = _inputstream.HTMLUnicodeInputStream
    old = cls._defaultChunkSize
    if n:
        cls._defaultChunkSize = n
    try:
        yield
    finally:
        cls._defaultChunkSize = old


# ------------------------------------------------------------------------------------------------
# tree projection (direct traversal of the ElementTree the etree builder produced)
def proj(el):
    tag = el.tag if isinstance(el.tag, str) else "<!--comment-->"
    return [tag, sorted([k, v] for k, v in el.attrib.items()), el.text, el.tail, [proj(c) for c in el]]


def parse_delivery(text, deliv, record=True):
    """Parse `text` delivered as described by deliv = dict(kind=..., chunk=..., seg=..., enc=..., how=...).
    Returns dict(tree=json, errors=[[code, line, col]..], ev=[...] or None, enc=reported encoding)."""
    import html5lib
    from html5lib import treebuilders
    kind = deliv["kind"]
    kw = {}
    if kind in BYTE_KINDS:
        enc = deliv["enc"]
        data = encode(text, enc)
        if deliv.get("how") == "bom":
            data = BOMS[enc] + data
        elif deliv.get("how") == "transport":
            kw["transport_encoding"] = enc
        else:
            kw["override_encoding"] = enc
        kw["useChardet"] = False
        src = byte_source(kind, data, enc, deliv.get("seg"))
    elif kind == "str":
        src = text
    elif kind == "stringio":
        src = io.StringIO(text, newline="")
    elif kind == "short":
        src = Scripted(cut(text, deliv["seg"]), "")
    else:
        raise ValueError(kind)
    tb = treebuilders.getTreeBuilder("etree", fullTree=True)
    p = html5lib.HTMLParser(tb, namespaceHTMLElements=False)
    out = {}
    with chunk_size(deliv.get("chunk")):
        if record:
            from . import bytebuffer
            with recording() as box, bytebuffer.recording() as bbox:
                doc = p.parse(src, **kw)
            ev = box[-1].ev
            if bbox:
                out["bb"] = {"src": list(data), "ev": bbox[-1].ev}
        else:
            doc = p.parse(src, **kw)
            ev = None
    out.update({"tree": json.dumps(proj(doc), sort_keys=True),
                "errors": [[code, pos[0], pos[1]] for pos, code, _ in p.errors], "ev": ev, "enc": p.documentEncoding})
    return out


def codec_name(label):
    import webencodings
    return webencodings.lookup(label).codec_info.name


def enc_name(label):
    import webencodings
    return webencodings.lookup(label).name


def encode(text, label):
    return text.encode(codec_name(label))


def encodable(text, label):
    """text survives encode/decode in this encoding, and the bytes do not look like a BOM"""
    try:
        b = encode(text, label)
        ok = b.decode(codec_name(label)) == text
    except (UnicodeError, LookupError):
        return False
    return ok and not any(b.startswith(m) for m in ALL_BOMS)


# ------------------------------------------------------------------------------------------------
def validate_all(ctx, module, traces, tag, consts="", batch_bytes=12 << 20, workers=16):
    """like core.validate_traces, but returns the verdict record of EVERY trace (aligned with `traces`)"""
    import os
    from . import tlc
    out = [None] * len(traces)
    batches, cur, size, start = [], [], 0, 0
    for i, tr in enumerate(traces):
        s = json.dumps(tr, separators=(",", ":"))
        if cur and size + len(s) > batch_bytes:
            batches.append((start, cur))
            cur, size, start = [], 0, i
        cur.append(s)
        size += len(s)
    if cur:
        batches.append((start, cur))
    for bi, (start, b) in enumerate(batches):
        d = os.path.join(core.VERIF, "out", ctx.pid)
        os.makedirs(d, exist_ok=True)
        path = os.path.join(d, "%s-batch%d.json" % (tag, bi))
        with open(path, "w") as f:
            f.write("[" + ",".join(b) + "]")
        r = ctx.tlc(module, core.TRACE_CFG + consts, "%s-b%d" % (tag, bi), env={"TRACE_FILE": path}, workers=workers)
        if r.violated:
            raise tlc.TLCError("trace spec %s stopped (%s), see %s" % (module, r.violated, r.stdout_path))
        seen = {}
        for rec in r.records:
            if isinstance(rec, dict) and "tid" in rec:
                seen[rec["tid"]] = rec
        if len(seen) != len(b):
            raise tlc.TLCError("trace spec %s: %d verdicts for %d traces, see %s"
                               % (module, len(seen), len(b), r.stdout_path))
        for tid, rec in seen.items():
            out[start + tid - 1] = rec
        ctx.traces += len(b)
        os.remove(path)
    return out


# ------------------------------------------------------------------------------------------------
# the factory table (spec/SourceKind.tla): open one (source kind, BOM, override, transport, state at hand-over) row
ROW_EXTRA = {"utf-8": "é€", "utf-16le": "é€", "utf-16be": "é€", "windows-1252": "é€", "shift_jis": "日本",
             "iso-8859-2": "ł", "koi8-r": "ж", "gb18030": "中"}
ROW_PREFIX = "XYZ\n"          # what the caller consumed before handing the source over (pos = mid / end)
_tmp = {}


def _tmpdir():
    import atexit
    import os
    import shutil
    import tempfile
    if _tmp.get("pid") != os.getpid():
        d = tempfile.mkdtemp(prefix="c05-")
        _tmp.update(pid=os.getpid(), dir=d, n=0)
        atexit.register(shutil.rmtree, d, True)
    _tmp["n"] += 1
    return os.path.join(_tmp["dir"], "f%d" % _tmp["n"])


def _duck(inner, seek, mode):
    """duck-typed source around a StringIO / BytesIO: short reads, and exactly the attributes the row asks for"""
    ns = {"read": lambda self, n=-1: inner.read(min(n, 5) if n and n > 0 else n)}
    if seek:
        ns["seek"] = lambda self, *a: inner.seek(*a)
        ns["tell"] = lambda self: inner.tell()
        ns["seekable"] = lambda self: True
    elif mode != "none":
        def nope(self, *a):
            raise io.UnsupportedOperation("not seekable")
        ns.update(seek=nope, tell=nope, seekable=nope)
    if mode != "none":
        ns.update(mode=1 if mode == "int" else mode, name="<duck>", encoding="utf-8", closed=False)
    return type("Duck", (object,), ns)()


def library_source(name, data, charset):
    """the named source kinds of SourceKind.Library / Plain over `data` (str for text kinds, bytes otherwise);
    returns (object, keepalive)"""
    import codecs as _codecs
    import gzip
    import zipfile
    keep = None
    if name in ("str", "bytes"):
        return data, keep
    if name == "stringio":
        return io.StringIO(data, newline=""), keep
    if name == "textiowrapper":
        return io.TextIOWrapper(io.BytesIO(data.encode("utf-8")), encoding="utf-8", newline=""), keep
    if name == "bytesio":
        return io.BytesIO(data), keep
    if name == "bufferedreader":
        return io.BufferedReader(io.BytesIO(data)), keep
    if name in ("httpresponse", "httpchunked", "addinfourl"):
        return byte_source(name, data, charset), keep
    path = _tmpdir()
    raw = data.encode("utf-8") if isinstance(data, str) else data
    if name in ("gziptext", "gzipbin"):
        raw = gzip.compress(raw)
    if name == "zipmember":
        with zipfile.ZipFile(path, "w") as zf:
            zf.writestr("doc.html", raw)
        keep = zipfile.ZipFile(path)
        return keep.open("doc.html"), keep
    with open(path, "wb") as f:
        f.write(raw)
    if name == "textfile":
        return open(path, "r", encoding="utf-8", newline=""), keep
    if name == "codecsopen":
        return _codecs.open(path, encoding="utf-8"), keep
    if name == "gziptext":
        return gzip.open(path, "rt", encoding="utf-8", newline=""), keep
    if name == "binfile":
        return open(path, "rb"), keep
    if name == "rawfile":
        return open(path, "rb", buffering=0), keep
    if name == "gzipbin":
        return gzip.open(path, "rb"), keep
    raise ValueError(name)


def _claims(obj, k):
    """the attributes SourceKind.tla ascribes to this kind must be the ones the object really has"""
    m = getattr(obj, "mode", None)
    mode = "none" if m is None else (m if isinstance(m, str) and m in ("r", "rb") else "int" if not isinstance(m, str) else "?" + m)
    try:
        obj.seek(obj.tell())
        seek = True
    except Exception:       # noqa
        seek = False
    if (mode, seek) != (k["mode"], k["seek"]):
        raise RuntimeError("SourceKind.tla describes %s as mode=%s seek=%s, the object has mode=%s seek=%s"
                           % (k["name"], k["mode"], k["seek"], mode, seek))


def open_row(row, fragment=False):
    """returns what the real factory / stream did with this row: dict(out, enc, conf, tree)
    and the tree the spec's outcome row['exp'] stands for"""
    import html5lib
    from html5lib import treebuilders
    exp, k, pos = row["exp"], row["k"], row["pos"]
    text_kind = k["yields"] == "text"
    eff = exp["enc"] if exp["out"] == "binary" else "utf-8"
    if eff == "none":
        eff = row["ov"] if row["ov"] != "none" else row["tr"] if row["tr"] != "none" else "utf-8"
    body = "<p>x" + ROW_EXTRA.get(eff, "") + "</p>\r\n<i>y"
    prefix = ROW_PREFIX if pos in ("mid", "end") else ""
    kw = {}
    if row["ov"] != "none":
        kw["override_encoding"] = row["ov"]
    if row["tr"] != "none":
        kw["transport_encoding"] = row["tr"]
    if text_kind:
        whole, consumed = prefix + body, len(prefix)
    else:
        bom = BOMS[row["bom"]] if row["bom"] != "none" else b""
        pre = encode(prefix, eff)
        whole, consumed = pre + bom + encode(body, eff), len(pre)
        kw["useChardet"] = False
    if pos == "end":
        consumed = len(whole)
    if k["name"] == "duck":
        inner = io.StringIO(whole, newline="") if text_kind else io.BytesIO(whole)
        src, keep = _duck(inner, k["seek"], k["mode"]), inner
    else:
        src, keep = library_source(k["name"], whole, eff)
    if k["name"] not in ("str", "bytes"):
        if k["name"] not in ("httpresponse", "httpchunked", "addinfourl"):
            _claims(src, k)
        got = src.read(0)[:0]
        while len(got) < consumed:                       # the caller reads the prefix (or everything) first
            piece = src.read(consumed - len(got))
            if not piece:
                raise RuntimeError("cannot position %s" % k["name"])
            got += piece
        if got != whole[:consumed]:
            raise RuntimeError("positioning %s read %r" % (k["name"], got))
        if pos == "closed":
            src.close()
    # the document the spec's outcome stands for
    frm = exp["from"]
    if frm == "current":
        doc = body if pos in ("start", "mid") else ""
    elif frm == "start":
        doc = whole if text_kind else whole.decode(codec_name(eff))
    elif frm == "start+bom":
        doc = whole[len(BOMS[row["bom"]]):].decode(codec_name(eff))
    else:
        doc = None

    def parse(source, **kws):
        p = html5lib.HTMLParser(treebuilders.getTreeBuilder("etree", fullTree=True), namespaceHTMLElements=False)
        d = p.parseFragment(source, **kws) if fragment else p.parse(source, **kws)
        return json.dumps(proj(d), sort_keys=True)
    want = parse(doc) if doc is not None else None
    try:
        with recording() as box:
            tree = parse(src, **kw)
    except (TypeError, ValueError) as ex:
        return {"out": type(ex).__name__, "enc": "none", "conf": "none", "tree": None, "want": want, "detail": str(ex)[:200]}
    except Exception as ex:      # noqa
        return {"out": "raised %r" % ex, "enc": "none", "conf": "none", "tree": None, "want": want}
    finally:
        for o in (src, keep):
            try:
                o.close()
            except Exception:      # noqa
                pass
    real = box[-1].real
    out = {"HTMLUnicodeInputStream": "unicode", "HTMLBinaryInputStream": "binary"}.get(type(real).__name__, type(real).__name__)
    return {"out": out, "enc": real.charEncoding[0].name, "conf": real.charEncoding[1], "tree": tree, "want": want}
