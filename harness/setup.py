"""setup_cmd: regenerate generated modules, parse every spec with SANY, smoke-run TLC."""
import glob
import os
import sys

from . import tlc


def main():
    from . import gen
    gen.main()
    bad = 0
    mods = sorted(os.path.basename(p)[:-4] for p in glob.glob(os.path.join(tlc.SPEC, "*.tla")))
    tops = [m for m in mods if m.startswith(("MC_", "Trace_"))]
    for m in tops:
        ok, out = tlc.sany(m)
        print("sany %-28s %s" % (m, "ok" if ok else "FAILED"))
        if not ok:
            print(out[-2000:])
            bad += 1
    os.makedirs(os.path.join(tlc.VERIF, "evidence"), exist_ok=True)
    os.makedirs(os.path.join(tlc.VERIF, "out"), exist_ok=True)
    return 1 if bad else 0


if __name__ == "__main__":
    sys.exit(main())
