"""Thin runner around TLC: one call = one model-checking / trace-validation run.

Every TLA+ module lives in /verif/spec.  A run gets its own scratch directory under
/verif/out/<tag>/ holding the generated .cfg, TLC's metadir and its stdout.  Specs export
behaviours / verdicts as PrintT(ToJson(..)) lines, which are collected here.
"""
import json
import os
import re
import shutil
import subprocess
import time

VERIF = os.path.dirname(os.path.dirname(os.path.abspath(__file__)))
SPEC = os.path.join(VERIF, "spec")
OUT = os.path.join(VERIF, "out")
JAR = "/opt/veriftools/tla/tla2tools.jar"
COMMUNITY = "/opt/veriftools/tla/CommunityModules-deps.jar"


class TLCError(Exception):
    """machinery failure (exit code 2 of a check)"""


class TLCResult(object):
    def __init__(self):
        self.generated = 0
        self.distinct = 0
        self.depth = 0
        self.records = []        # decoded PrintT(ToJson(..)) values
        self.violated = None     # name of violated invariant / property, or None
        self.error = None        # other TLC error text
        self.ok = False
        self.wall = 0.0
        self.stdout_path = None
        self.coverage = {}       # action name -> (distinct, total) when -coverage used
        self.cmd = ""

    def as_dict(self):
        return dict(generated=self.generated, distinct=self.distinct, depth=self.depth,
                    violated=self.violated, error=self.error, wall_s=round(self.wall, 2), cmd=self.cmd)


def _classpath():
    cp = [JAR]
    d = os.path.dirname(JAR)
    for f in sorted(os.listdir(d)):
        if f.endswith(".jar") and f != os.path.basename(JAR):
            cp.append(os.path.join(d, f))
    return ":".join(cp)


_STAT = re.compile(r"^(\d+) states generated, (\d+) distinct states found")
_DEPTH = re.compile(r"depth of the complete state graph search is (\d+)")
_INV = re.compile(r"^Error: Invariant (\S+) is violated")
_PROP = re.compile(r"^Error: (Action|Temporal) propert(y|ies) (\S+)? ?.*violated")
_COV = re.compile(r"^<(\w+) line \d+, col \d+ to line \d+, col \d+ of module (\w+)>: (\d+):(\d+)")


def scratch(tag):
    d = os.path.join(OUT, tag)
    if os.path.isdir(d):
        shutil.rmtree(d, ignore_errors=True)
    os.makedirs(d)
    return d


def run(module, cfg_text, tag, workers=16, env=None, timeout=3600, simulate=None, depth=None,
        coverage=False, seed=None, deadlock=None, heap="8g", extra=None, keep_records=True,
        dfid=None):
    """Run TLC on spec/<module>.tla with the given configuration text."""
    d = scratch(tag)
    cfg = os.path.join(d, module + ".cfg")
    with open(cfg, "w") as f:
        f.write(cfg_text)
    meta = os.path.join(d, "meta")
    cmd = ["java", "-XX:+UseParallelGC", "-Xmx" + heap, "-Xss64m", "-cp", _classpath(), "tlc2.TLC",
           "-workers", str(workers), "-metadir", meta, "-noGenerateSpecTE", "-config", cfg]
    if simulate:
        cmd += ["-simulate", simulate]
    if depth:
        cmd += ["-depth", str(depth)]
    if coverage:
        cmd += ["-coverage", "1"]
    if seed is not None:
        cmd += ["-seed", str(seed)]
    if deadlock is False:
        cmd += ["-deadlock"]
    if dfid:
        cmd += ["-dfid", str(dfid)]
    if extra:
        cmd += list(extra)
    cmd.append(module + ".tla")
    e = dict(os.environ)
    e.pop("JAVA_TOOL_OPTIONS", None)
    if env:
        e.update({k: str(v) for k, v in env.items()})
    res = TLCResult()
    res.cmd = " ".join(cmd[cmd.index("tlc2.TLC"):])
    res.stdout_path = os.path.join(d, "tlc.out")
    t0 = time.time()
    with open(res.stdout_path, "w") as so:
        try:
            p = subprocess.run(cmd, cwd=SPEC, env=e, stdout=so, stderr=subprocess.STDOUT, timeout=timeout)
            rc = p.returncode
        except subprocess.TimeoutExpired:
            rc = -9
            res.error = "timeout after %ss" % timeout
    res.wall = time.time() - t0
    errs = []
    with open(res.stdout_path, errors="replace") as f:
        in_err = False
        for line in f:
            line = line.rstrip("\n")
            if line.startswith('"{') or line.startswith('"['):
                if keep_records:
                    try:
                        res.records.append(json.loads(json.loads(line)))
                    except ValueError:
                        errs.append("undecodable record line: " + line[:200])
                continue
            m = _STAT.match(line)
            if m:
                res.generated, res.distinct = int(m.group(1)), int(m.group(2))
                continue
            m = _DEPTH.search(line)
            if m:
                res.depth = int(m.group(1))
                continue
            m = _INV.match(line)
            if m:
                res.violated = m.group(1)
                continue
            if line.startswith("Error:"):
                if "propert" in line and "violated" in line:
                    res.violated = res.violated or line
                elif "Deadlock reached" in line:
                    res.violated = res.violated or "Deadlock"
                else:
                    errs.append(line)
                    in_err = True
                continue
            if in_err and line and not line.startswith(("Finished", "State ", "/\\")):
                if len(errs) < 12:
                    errs.append(line)
            m = _COV.match(line)
            if m:
                res.coverage[m.group(2) + "!" + m.group(1)] = (int(m.group(3)), int(m.group(4)))
    if errs:
        res.error = (res.error + "; " if res.error else "") + " | ".join(errs)[:2000]
    res.ok = (rc == 0 and res.violated is None and res.error is None)
    if rc not in (0,) and res.violated is None and res.error is None:
        res.error = "tlc exit code %s (see %s)" % (rc, res.stdout_path)
    return res


def sany(module):
    cmd = ["java", "-cp", _classpath(), "tla2sany.SANY", module + ".tla"]
    p = subprocess.run(cmd, cwd=SPEC, stdout=subprocess.PIPE, stderr=subprocess.STDOUT, universal_newlines=True)
    bad = p.returncode != 0 or "*** Errors" in p.stdout or "Fatal" in p.stdout or "Could not parse" in p.stdout
    if bad:
        # keep only the last error block (SANY repeats accumulated errors after every module)
        i = p.stdout.rfind("*** Errors")
        return False, p.stdout[i:] if i >= 0 else p.stdout[-3000:]
    return True, ""


def iter_records(path):
    """stream the PrintT(ToJson(..)) records of a finished run"""
    with open(path, errors="replace") as f:
        for line in f:
            if line.startswith('"{') or line.startswith('"['):
                try:
                    yield json.loads(json.loads(line))
                except ValueError:
                    raise TLCError("undecodable record line in %s: %s" % (path, line[:200]))
