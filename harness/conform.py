"""Generator of clearly conforming HTML documents (C16 no-error clause).  Independent of html5lib.

Only constructs whose conformance is beyond doubt are produced: a DOCTYPE, html/head/title/body (tags present or
omitted where the standard allows), flow and phrasing nesting that respects the content models used here, lists,
definition lists, tables with optional caption/colgroup/thead/tbody and omitted cell/row/section end tags, forms
without nesting, void elements with or without trailing solidus, quoted/unquoted/boolean attributes, character
references that exist, comments without '--', raw text elements, small SVG/MathML islands.

Two constructs are produced on request because html5lib is known to report them although they are conforming; the
generator returns how many of each it emitted so that the code-faithful model can predict the error count:
  amp  an ampersand that is NOT an ambiguous ampersand (e.g. 'AT&T', 'a=b&c=d' in a URL: no ';' after the
       alphanumerics), followed by a letter
  cap  a caption whose end tag is omitted (allowed: "if the caption element is not immediately followed by ASCII
       whitespace or a comment"), i.e. directly followed by <colgroup>, <thead>, <tbody> or <tr>
"""

WORDS = ["alpha", "beta", "gamma", "x", "Hello", "world", "1", "42", "café", "中", "a.b", "ok", "T"]
REFS = ["&amp;", "&lt;", "&gt;", "&quot;", "&nbsp;", "&#65;", "&#x41;", "&copy;", "&eacute;", "&#8212;", "&hellip;"]
BARE_AMP = ["AT&T", "R&D", "Q&A"]                       # '&' + letter, no ';' follows: not ambiguous
SAFE_AMP = ["a & b", "x &", "1 &2"]                    # '&' + space / end / digit... kept to space and end only below
URL_AMP = "?a=b&c=d"


# foreign islands: lower-case and case-adjusted SVG element names with explicit end tags, self-closing syntax, an HTML
# integration point (foreignObject) with HTML inside, MathML token elements
SVG_ISLANDS = [
    '<svg viewBox="0 0 2 2" width="2" height="2"><circle cx="1" cy="1" r="1"/><title>t</title></svg>',
    '<svg width="4" height="4"><defs><linearGradient id="g"><stop offset="0" stop-color="red"/></linearGradient></defs>'
    '<rect width="4" height="4" fill="url(#g)"/></svg>',
    '<svg width="4" height="4"><clipPath id="c"><rect width="2" height="2"/></clipPath><g clip-path="url(#c)"><path d="M0 0h4v4z"/></g></svg>',
    '<svg width="9" height="9"><foreignObject width="9" height="9"><span>x</span></foreignObject></svg>',
    '<svg width="9" height="9"><defs><path id="p" d="M0 5h9"/></defs><text><textPath href="#p">curve</textPath></text></svg>',
    '<svg width="4" height="4"><radialGradient id="r"><stop offset="1"/></radialGradient><circle r="2" fill="url(#r)"></circle></svg>',
    '<svg width="4" height="4"><filter id="f"><feGaussianBlur stdDeviation="1"></feGaussianBlur></filter><desc>d</desc></svg>',
]
MATH_ISLANDS = [
    "<math><mi>x</mi><mo>+</mo><mn>1</mn></math>",
    "<math><mrow><msup><mi>x</mi><mn>2</mn></msup><mo>=</mo><mfrac><mn>1</mn><mn>2</mn></mfrac></mrow></math>",
    "<math><mtext>speed</mtext><mspace width=\"1em\"/><ms>s</ms></math>",
]


# spellings of numeric character references: the value is a code point that may be referenced (not NUL, a surrogate, a
# noncharacter, a C0/C1 control), the digit string may carry any number of leading zeros, 'x' or 'X', either hex case;
# the terminating ';' is always present (it is required in a conforming document)
NUMREF_VALUES = [0x41, 0x7E, 0xA0, 0xE9, 0x4E2D, 0xD7FF, 0xE000, 0xFFFD, 0x1F600, 0x10FFFD]
NUMREF_ZEROS = [0, 0, 1, 2, 3, 4, 5, 6, 7, 8, 9, 12, 40]


def numref(rng):
    v = rng.choice(NUMREF_VALUES)
    z = "0" * rng.choice(NUMREF_ZEROS)
    if rng.random() < 0.5:
        return "&#%s%d;" % (z, v)
    h = "%x" % v
    return "&#%s%s%s;" % (rng.choice("xX"), z, rng.choice([h, h.upper()]))


class Gen(object):
    def __init__(self, rng, amp=False, cap=False):
        self.rng = rng
        self.want_amp = amp
        self.want_cap = cap
        self.amp = 0
        self.cap = 0
        self.in_a = False
        self.in_form = False
        self.in_label = False
        self.ids = 0

    # --- text ---
    def text(self):
        r = self.rng
        parts = []
        for _ in range(r.randint(1, 4)):
            k = r.random()
            if k < 0.70:
                parts.append(r.choice(WORDS))
            elif k < 0.80:
                parts.append(r.choice(REFS))
            elif k < 0.86:
                parts.append(numref(r))
            elif k < 0.90:
                parts.append("a & b")
            elif self.want_amp:
                parts.append(r.choice(BARE_AMP))
                self.amp += 1
            else:
                parts.append(r.choice(WORDS))
        return " ".join(parts)

    def attr_value(self, v):
        r = self.rng
        k = r.random()
        if k < 0.6 or any(c in v for c in " \t\n\"'=<>`") or v == "":
            if '"' not in v:
                return '"%s"' % v
            return "'%s'" % v
        if k < 0.8:
            return "'%s'" % v
        return v

    def attrs(self, pairs):
        out = ""
        for k, v in pairs:
            if v is None:
                out += " " + k
            else:
                out += " %s=%s" % (k, self.attr_value(v))
        return out

    def common(self):
        r = self.rng
        pairs = []
        if r.random() < 0.2:
            self.ids += 1
            pairs.append(("id", "i%d" % self.ids))
        if r.random() < 0.2:
            pairs.append(("class", r.choice(["c", "a b", "x-y"])))
        if r.random() < 0.05:
            pairs.append(("title", r.choice(["t", "a &amp; b", "x &lt; y", numref(r), "n" + numref(r) + "m"])))
        if r.random() < 0.04:
            pairs.append(("hidden", None))
        return pairs

    def void(self, name, pairs):
        sol = self.rng.choice(["", "", "/", " /"])
        a = self.attrs(pairs)
        if sol == "/" and a and a[-1] not in "\"'":
            sol = " /"          # an unquoted value must not be followed directly by '/'
        return "<%s%s%s>" % (name, a, sol)

    # --- phrasing ---
    def phrasing(self, depth=0):
        r = self.rng
        out = []
        for _ in range(r.randint(1, 3)):
            k = r.random()
            if k < 0.45 or depth > 2:
                out.append(self.text())
            elif k < 0.65:
                n = r.choice(["em", "strong", "span", "code", "b", "i", "small", "sub", "sup", "q", "cite", "abbr", "kbd", "mark", "u", "s"])
                out.append("<%s%s>%s</%s>" % (n, self.attrs(self.common()), self.phrasing(depth + 1), n))
            elif k < 0.75 and not self.in_a and not self.in_label:
                self.in_a = True
                href = "http://example.org/p"
                if r.random() < 0.3:
                    if self.want_amp:
                        href += URL_AMP
                        self.amp += 1
                    else:
                        href += "?a=b&amp;c=d"
                out.append("<a%s>%s</a>" % (self.attrs([("href", href)] + self.common()), self.phrasing(depth + 1)))
                self.in_a = False
            elif k < 0.80:
                out.append(self.void("br", []))
            elif k < 0.86:
                out.append(self.void("img", [("src", "a.png"), ("alt", r.choice(["", "pic", "a b"]))]))
            elif k < 0.90:
                out.append("<!--%s-->" % r.choice([" c ", "note", " a - b ", ""]))
            elif k < 0.93:
                out.append(self.void("wbr", []))
            elif k < 0.96:
                out.append(r.choice(SVG_ISLANDS))
            else:
                out.append(r.choice(MATH_ISLANDS))
        return " ".join(out)

    # --- flow ---
    def end(self, name, omit_ok):
        """end tag, omitted with probability 0.5 when the caller says the context allows it"""
        if omit_ok and self.rng.random() < 0.5:
            return ""
        return "</%s>" % name

    def flow(self, depth=0, n=None):
        r = self.rng
        out = []
        n = n or r.randint(1, 3)
        for idx in range(n):
            k = r.random()
            if k < 0.30 or depth > 2:
                # </p> may be omitted when followed by another block element we emit here or the end of a div/body/li/td...
                # we omit it only when the NEXT thing is one of our block elements (never text), i.e. not at the last position
                # unless the parent is not an <a> (we never put flow content inside <a>).
                out.append("<p%s>%s%s" % (self.attrs(self.common()), self.phrasing(), self.end("p", True)))
            elif k < 0.40:
                out.append("<div%s>%s</div>" % (self.attrs(self.common()), self.flow(depth + 1)))
            elif k < 0.50:
                n2 = r.choice(["ul", "ol"])
                items = []
                cnt = r.randint(1, 3)
                for j in range(cnt):
                    inner = self.phrasing() if r.random() < 0.6 else self.flow(depth + 1, 1)
                    items.append("<li>%s%s" % (inner, self.end("li", True)))
                out.append("<%s>%s</%s>" % (n2, "".join(items), n2))
            elif k < 0.56:
                h = r.choice(["h1", "h2", "h3"])
                out.append("<%s>%s</%s>" % (h, self.phrasing(), h))
            elif k < 0.61:
                out.append("<pre>%s</pre>" % r.choice(["code\n  x", "\nfirst", "a &lt; b", ""]))
            elif k < 0.66:
                out.append("<blockquote>%s</blockquote>" % self.flow(depth + 1, 1))
            elif k < 0.71:
                parts = []
                for _ in range(r.randint(1, 2)):
                    parts.append("<dt>%s%s<dd>%s%s" % (self.phrasing(), self.end("dt", True), self.phrasing(), self.end("dd", True)))
                out.append("<dl>%s</dl>" % "".join(parts))
            elif k < 0.83:
                out.append(self.table(depth))
            elif k < 0.89 and not self.in_form:
                out.append(self.form())
            elif k < 0.92:
                out.append(self.void("hr", []))
            elif k < 0.96:
                sec = r.choice(["section", "article", "nav", "aside"])
                out.append("<%s><h2>%s</h2>%s</%s>" % (sec, self.phrasing(), self.flow(depth + 1, 1), sec))
            else:
                out.append("<figure>%s<figcaption>%s</figcaption></figure>" % (self.void("img", [("src", "f.png"), ("alt", "f")]),
                                                                              self.phrasing()))
        return "".join(out)

    def table(self, depth):
        r = self.rng
        ws = r.choice(["", "", "\n"])
        out = ["<table%s>" % self.attrs(self.common())]
        has_colgroup = r.random() < 0.3
        has_thead = r.random() < 0.3
        explicit_tbody = r.random() < 0.5
        if r.random() < 0.5:
            nxt_is_tag = True
            if self.want_cap and r.random() < 0.6:
                out.append("<caption>%s" % self.phrasing())          # end tag omitted: next is <colgroup>/<thead>/<tbody>/<tr>
                self.cap += 1
            else:
                out.append("<caption>%s</caption>%s" % (self.phrasing(), ws))
            del nxt_is_tag
        if has_colgroup:
            out.append("<colgroup>%s%s</colgroup>%s" % (self.void("col", []), self.void("col", [("span", "2")]), ws))
        cols = r.randint(1, 3)

        def row(cell):
            cells = []
            for j in range(cols):
                inner = self.phrasing() if r.random() < 0.7 else self.flow(depth + 1, 1)
                cells.append("<%s>%s%s" % (cell, inner, self.end(cell, True)))
            return "<tr>%s" % "".join(cells)
        if has_thead:
            out.append("<thead>%s</tr></thead>%s" % (row("th"), ws))
        rows = []
        nrows = r.randint(1, 3)
        for j in range(nrows):
            rows.append(row("td") + self.end("tr", True))
        if explicit_tbody or self.want_cap and out[-1].startswith("<caption>") and not out[-1].endswith("</caption>" + ws):
            # after an omitted </caption> an explicit section/row tag follows anyway; tbody start tag kept when thead ended
            out.append("<tbody>%s%s" % ("".join(rows), self.end("tbody", True)))
        else:
            out.append("".join(rows))
        out.append("</table>")
        return "".join(out)

    def form(self):
        r = self.rng
        self.in_form = True
        parts = []
        for _ in range(r.randint(1, 3)):
            k = r.random()
            self.ids += 1
            i = "f%d" % self.ids
            if k < 0.35:
                parts.append("<p><label for=%s>%s</label> %s</p>" % (self.attr_value(i), r.choice(WORDS),
                             self.void("input", [("type", r.choice(["text", "checkbox", "email"])), ("id", i), ("name", i)] +
                                       ([("disabled", None)] if r.random() < 0.3 else []))))
            elif k < 0.55:
                opts = "".join("<option%s>%s%s" % (self.attrs([("value", str(j))] + ([("selected", None)] if j == 0 else [])),
                                                  r.choice(WORDS), self.end("option", True)) for j in range(r.randint(1, 3)))
                parts.append("<p><select name=%s>%s</select></p>" % (self.attr_value(i), opts))
            elif k < 0.75:
                parts.append("<p><textarea name=%s rows=\"2\">%s</textarea></p>" % (self.attr_value(i), r.choice(["", "text", "\nline", "a &amp; b"])))
            else:
                parts.append("<p><button type=\"submit\">%s</button></p>" % r.choice(WORDS))
        self.in_form = False
        return "<form action=\"/s\" method=\"post\">%s</form>" % "".join(parts)

    # --- document ---
    def document(self):
        r = self.rng
        dt = r.choice(["<!DOCTYPE html>", "<!doctype html>", "<!DOCTYPE HTML>", '<!DOCTYPE html SYSTEM "about:legacy-compat">',
                       "<!DOCTYPE html>\n"])
        head_items = []
        if r.random() < 0.7:
            head_items.append(self.void("meta", [("charset", "utf-8")]))
        title = "<title>%s</title>" % r.choice(["T", "a &amp; b", "x &lt; y", "café"])
        head_items.append(title)
        if r.random() < 0.3:
            head_items.append(self.void("link", [("rel", "stylesheet"), ("href", "a.css")]))
        if r.random() < 0.3:
            head_items.append("<style>p { color: red } a > b { x: '<' }</style>")
        if r.random() < 0.3:
            head_items.append("<script>var a = 1 < 2 && b; // <p>\n</script>")
        if r.random() < 0.2:
            head_items.append(self.void("meta", [("name", "description"), ("content", "a, b")]))
        body = self.flow(0, r.randint(1, 4))
        style = r.random()
        if style < 0.5:
            lang = self.attrs([("lang", "en")]) if r.random() < 0.5 else ""
            nl = r.choice(["", "\n"])
            return "%s%s<html%s>%s<head>%s%s</head>%s<body>%s%s</body>%s</html>%s" % (
                dt, nl, lang, nl, nl.join(head_items), nl, nl, body, nl, nl, nl)
        if style < 0.75:
            # html, head, body tags omitted (body content here always starts with an element other than meta/link/script/style/template)
            return "%s%s%s" % (dt, "".join(head_items), body)
        return "%s<html><head>%s<body>%s" % (dt, "".join(head_items), body)


    # --- fragments: what may stand inside the context element (innerHTML), conforming as that element's content ---
    def fragment(self):
        r = self.rng
        kind = r.choice(["div", "p", "span", "td", "tr", "tbody", "table", "ul", "select", "textarea", "title", "dl", "colgroup",
                         "style", "script", "body", "li", "th", "thead", "caption", "pre", "html", "head", "section", "h1", "button"])
        if kind in ("div", "td", "th", "li", "body", "section"):
            return kind, self.flow(1, r.randint(1, 2))
        if kind in ("p", "span", "h1", "pre", "button", "caption"):
            return kind, self.phrasing(1)
        if kind == "tr":
            return kind, "".join("<%s>%s%s" % (c, self.phrasing(1), self.end(c, True)) for c in [r.choice(["td", "th"]) for _ in range(r.randint(1, 3))])
        if kind in ("tbody", "thead"):
            cell = "td" if kind == "tbody" else "th"
            # (the last </tr> is written: html5lib reports eof-in-table for a row left open at the end of a fragment, which the
            # standard's in-body EOF rule does not; fragments are not what the no-error clause is about, so it is not probed)
            n = r.randint(1, 2)
            return kind, "".join("<tr><%s>%s</%s>%s" % (cell, self.phrasing(1), cell, self.end("tr", j + 1 < n)) for j in range(n))
        if kind == "table":
            return kind, "<tbody><tr><td>%s</td></tr></tbody>" % self.phrasing(1) if r.random() < 0.5 else "<tr><td>%s<td>%s" % (self.text(), self.text())
        if kind == "ul":
            return kind, "".join("<li>%s%s" % (self.phrasing(1), self.end("li", True)) for _ in range(r.randint(1, 3)))
        if kind == "select":
            n = r.randint(1, 3)
            return kind, "".join("<option%s>%s%s" % (self.attrs([("value", str(j))]), r.choice(WORDS), self.end("option", j + 1 < n)) for j in range(n))
        if kind == "textarea":
            return kind, r.choice(["", "text", "line\nline", "a &amp; b <not a tag>", numref(r)])
        if kind == "title":
            return kind, r.choice(["T", "a &amp; b", "x &lt; y", "t " + numref(r)])
        if kind == "dl":
            return kind, "<dt>%s%s<dd>%s%s" % (self.phrasing(1), self.end("dt", True), self.phrasing(1), self.end("dd", True))
        if kind == "colgroup":
            return kind, self.void("col", []) + self.void("col", [("span", "2")])
        if kind == "style":
            return kind, "p { color: red } a > b { x: '<' }"
        if kind == "script":
            return kind, "var a = 1 < 2 && b; // <p>"
        if kind == "html":
            return kind, "<head><title>T</title></head><body>%s</body>" % self.flow(1, 1)
        if kind == "head":
            return kind, "<title>T</title>" + self.void("meta", [("name", "description"), ("content", "a, b")])
        return "div", self.flow(1, 1)


def conforming_fragment(rng):
    """(context element name, markup that is conforming as its content)"""
    g = Gen(rng, False, False)
    return g.fragment()


def conforming(rng, amp=False, cap=False):
    g = Gen(rng, amp, cap)
    doc = g.document()
    return doc, g.amp, g.cap
