"""C05, BufferedStream part: spec/ByteBuffer.tla bound to html5lib._inputstream.BufferedStream."""
import contextlib

from . import core
from . import instream as ins


def mc_cfg(n, maxread, maxops, export):
    return ("INIT Init\nNEXT Next\nCHECK_DEADLOCK FALSE\nINVARIANT ThmFile\nINVARIANT ThmShape\nINVARIANT ThmPrefix\n"
            "INVARIANT ThmExport\nCONSTANT N = %d\nCONSTANT MaxRead = %d\nCONSTANT MaxOps = %d\nCONSTANT Export = %s\n"
            % (n, maxread, maxops, "TRUE" if export else "FALSE"))


class _Und(object):
    """underlying source wrapper that reports what each read returned to the recording BufferedStream"""

    def __init__(self, inner, owner):
        self.inner = inner
        self.owner = owner

    def read(self, n=-1):
        d = self.inner.read(n)
        self.owner.und.append([n, list(d)])
        return d


def recording_class():
    from html5lib import _inputstream
    Base = _inputstream.BufferedStream
    assert isinstance(Base, type)

    class RecBuffered(Base):
        def __init__(self, stream):
            Base.__init__(self, stream)
            self.stream = _Und(stream, self)
            self.und = []
            self.ev = []

        def read(self, n):
            del self.und[:]
            r = Base.read(self, n)
            self.ev.append({"op": "read", "n": n, "und": [x for x in self.und], "r": list(r),
                            "t": Base.tell(self)})
            return r

        def seek(self, pos):
            Base.seek(self, pos)
            self.ev.append({"op": "seek", "n": pos, "und": [], "r": [], "t": Base.tell(self)})
    return RecBuffered


@contextlib.contextmanager
def recording():
    """while active, HTMLBinaryInputStream.openStream builds recording BufferedStreams (collected in the list)"""
    from html5lib import _inputstream
    orig = _inputstream.BufferedStream
    cls = recording_class()
    box = []

    def factory(stream):
        b = cls(stream)
        box.append(b)
        return b
    _inputstream.BufferedStream = factory
    try:
        yield box
    finally:
        _inputstream.BufferedStream = orig


def replay_behaviour(rec):
    from html5lib._inputstream import BufferedStream
    h = rec["h"]
    src = ins.Scripted([bytes(e["und"][0][1]) for e in h if e["und"]], b"")
    b = BufferedStream(src)
    for i, e in enumerate(h):
        c0 = src.calls
        try:
            if e["op"] == "read":
                r = list(b.read(e["n"]))
            else:
                b.seek(e["n"])
                r = []
            got = {"r": r, "t": b.tell(), "nu": src.asked[c0:]}
        except Exception as ex:      # noqa
            return "event %d (%s %d): raised %r" % (i, e["op"], e["n"], ex)
        exp = {"r": e["r"], "t": e["t"], "nu": [u[0] for u in e["und"]]}
        if got != exp:
            return "event %d (%s %d): expected %s got %s" % (i, e["op"], e["n"], exp, got)
    return None


def client_trace(rng, data, seg, nops):
    cls = recording_class()
    b = cls(ins.Scripted(ins.cut(data, seg), b""))
    exc = None
    for _ in range(nops):
        try:
            if not b.buffer or rng.random() < 0.6:
                op = ("read", rng.choice([1, 1, 2, 3, 4, 4, 7, 1024]))
                b.read(op[1])
            else:
                op = ("seek", rng.randint(0, sum(len(x) for x in b.buffer)))
                b.seek(op[1])
        except Exception as ex:        # noqa
            exc = "%s(%d) raised %r" % (op[0], op[1], ex)
            break
    return {"src": list(data), "ev": b.ev, "exc": exc}


def run(ctx, parse_traces):
    q = ctx.quick
    thm = (5, 4, 4) if q else (7, 5, 5)
    exp = (5, 4, 4) if q else (6, 4, 5)
    ctx.constants["MC_ByteBuffer (N, MaxRead, MaxOps)"] = {"theorems": thm, "export": exp}
    if thm != exp:
        r = ctx.tlc("MC_ByteBuffer", mc_cfg(thm[0], thm[1], thm[2], False), "bb-mc", expect_ok=False)
        if r.violated or r.error:
            ctx.violation("BufferedStream model: theorem %s fails" % (r.violated or r.error), {"tlc": r.stdout_path})
            return
    r = ctx.tlc("MC_ByteBuffer", mc_cfg(exp[0], exp[1], exp[2], True), "bb-export", expect_ok=False)
    if r.violated or r.error:
        ctx.violation("BufferedStream model: theorem %s fails" % (r.violated or r.error), {"tlc": r.stdout_path})
        return
    bad = core.parallel(replay_behaviour, r.records, chunk=4000)
    for rec, b in zip(r.records, bad):
        ctx.traces += 1
        if b is not None:
            ctx.violation("real BufferedStream differs from the model: " + b, {"kind": "bb-behaviour", "h": rec["h"]})
    for rec in r.records[:: max(1, len(r.records) // 500)]:
        ctx.nontriv(("bb", "|".join("%s%d" % (e["op"][0], len(e["und"])) for e in rec["h"])))
    ctx.notes["bytebuffer_behaviours_replayed"] = len(r.records)
    traces = list(parse_traces)
    for _ in range(300 if q else 5000):
        data = bytes(ctx.rng.randrange(256) for _ in range(ctx.rng.randint(0, 14)))
        tr = client_trace(ctx.rng, data, ins_rand_seg(ctx.rng, len(data) + 2), ctx.rng.randint(1, 10))
        exc = tr.pop("exc")
        if exc:
            ctx.violation("BufferedStream: " + exc, {"kind": "bb-trace", "src": tr["src"], "ev": tr["ev"], "raised": exc})
        traces.append(tr)
    for tr, rec in core.validate_traces(ctx, "Trace_ByteBuffer", traces, "bb-trace"):
        ctx.violation("BufferedStream trace rejected by Trace_ByteBuffer: %s at event %d" % (rec["v"], rec["l"]),
                      {"kind": "bb-trace", "src": tr["src"], "ev": tr["ev"], "verdict": rec["v"]})
    ctx.notes["bytebuffer_traces"] = len(traces)


def ins_rand_seg(rng, n):
    seg, left = [], n
    while left > 0:
        k = rng.choice([1, 1, 2, 3, 4, 5, 8])
        seg.append(k)
        left -= k
    return seg
