"""C03  Parsing is total: any input yields a well-formed document skeleton.

Model level: the structural theorems of spec/TreeConstruction.tla (well-formed store, stack/AFE invariants, document
skeleton after EOF) are checked by TLC in every state of the MC_Tree runs, and MC_Pump derives from the specification which
start tags grow the stack of open elements without bound.  Binding: (a) every MC_Tree behaviour is replayed into the real parser
(exceptions are violations); (b) the real parser is driven on arbitrary str and bytes inputs x {etree, etree fullTree, dom} x
namespacing x document/fragment x container x scripting: it must return within a time budget and never raise, and TLC judges
the recorded result (Trace_Skeleton); (c) depth pumping with the model-derived growth tokens repeated thousands of times."""
import signal
import time

from .. import core, corpus, realparse, treeproj
from ..tok import enc, NONE
from . import c01

BUDGET_S = 60               # CPU seconds per parse (the slowest pumped inputs need about 7)
WALL_BACKSTOP_S = 600


class _Timeout(Exception):
    pass


def _alarm(signum, frame):
    raise _Timeout()


def _shallow(tree, depth=3):
    """projection truncated below `depth` (deep trees: the skeleton only needs the top of the document)"""
    def cut(x, d):
        y = dict(x)
        y["c"] = [cut(c, d - 1) for c in x["c"]] if d > 0 else []
        return y
    if isinstance(tree, dict):
        return cut(tree, depth)
    return [cut(x, depth - 1) for x in tree]


def _iter_shallow_etree(root, doc):
    """non-recursive top-of-tree projection for very deep ElementTree results"""
    from xml.etree import ElementTree as ET

    def node(el, d):
        if el.tag is ET.Comment:
            return treeproj.node("comment", d=enc(el.text or ""))
        if el.tag == "<!DOCTYPE>":
            return treeproj.node("doctype", n=enc(el.text or ""))
        ns, name = treeproj._split(el.tag)
        kids = []
        if d > 0:
            treeproj._push_text(kids, el.text)
            for ch in el:
                kids.append(node(ch, d - 1))
                treeproj._push_text(kids, ch.tail)
        return treeproj.node("elem", ns=treeproj.NS.get(ns, ns), n=enc(name), c=kids)
    kids = []
    treeproj._push_text(kids, root.text)
    for ch in root:
        kids.append(node(ch, 2 if doc else 1))
        treeproj._push_text(kids, ch.tail)
    return treeproj.node("doc", c=kids) if doc else kids


def _run_one(args):
    """one real parse under a configuration; returns a trace row or an error row"""
    src, cx, scripting, builder, ns, deep = args[:6]
    chunk = args[6] if len(args) > 6 else None
    import html5lib
    from html5lib import treebuilders, _inputstream
    # internal chunk size of the input stream (class attribute; this is a forked worker process)
    _inputstream.HTMLUnicodeInputStream._defaultChunkSize = chunk or 10240
    # the budget is CPU time of this worker (ITIMER_VIRTUAL), so that a loaded machine cannot turn a slow parse into an alarm;
    # a generous wall-clock limit remains as a backstop for a parse that blocks without using the CPU
    signal.signal(signal.SIGVTALRM, _alarm)
    signal.signal(signal.SIGALRM, _alarm)
    signal.setitimer(signal.ITIMER_VIRTUAL, BUDGET_S)
    signal.alarm(WALL_BACKSTOP_S)
    t0 = time.time()
    try:
        if builder == "dom":
            tb = treebuilders.getTreeBuilder("dom")
        else:
            tb = treebuilders.getTreeBuilder("etree", fullTree=True)
        p = html5lib.HTMLParser(tree=tb, namespaceHTMLElements=ns)
        if cx is None:
            r = p.parse(src, scripting=scripting)
        else:
            r = p.parseFragment(src, container=cx, scripting=scripting)
        if deep:
            if builder == "dom":
                tree = None          # deep minidom trees: only totality is observed
            else:
                tree = _iter_shallow_etree(r, cx is None)
        else:
            if builder == "dom":
                tree = treeproj.from_dom_document(r) if cx is None else treeproj.from_dom_fragment(r)
            else:
                tree = treeproj.from_etree_document(r) if cx is None else treeproj.from_etree_fragment(r)
            tree = _shallow(tree)
    except _Timeout:
        return {"err": "no result within %d s of CPU time" % BUDGET_S, "cfg": args[1:5], "src": src if isinstance(src, str) else list(src)}
    except Exception as e:
        return {"err": "%s: %s" % (type(e).__name__, str(e)[:120]), "cfg": args[1:5], "src": src if isinstance(src, str) else list(src)}
    finally:
        signal.setitimer(signal.ITIMER_VIRTUAL, 0)
        signal.alarm(0)
    return {"doc": cx is None, "tree": tree, "cfg": args[1:5], "src": src if isinstance(src, str) else list(src),
            "wall": round(time.time() - t0, 3)}


def gen_inputs(ctx, n):
    out = [d for d, c in c01.WITNESS] + [d for d, c in c01.table_inputs(ctx)]
    n += len(out)
    rs = list(corpus.repo_strings())
    ctx.rng.shuffle(rs)
    out += rs[: n // 4]
    while len(out) < n:
        k = ctx.rng.random()
        if k < 0.5:
            out.append(corpus.soup(ctx.rng, ctx.rng.randint(1, 25)))
        elif k < 0.7:
            out.append(corpus.mutate(ctx.rng, corpus.mutate(ctx.rng, corpus.soup(ctx.rng))))
        elif k < 0.85:
            out.append(bytes(ctx.rng.randrange(256) for _ in range(ctx.rng.randint(0, 60))))
        else:
            s = corpus.soup(ctx.rng)
            enc_ = ctx.rng.choice(["utf-8", "utf-16", "latin-1", "shift_jis", "utf-16-be"])
            out.append(s.encode(enc_, "replace") if ctx.rng.random() < 0.8 else b"\xff\xfe" + s.encode("utf-16-le", "replace")[: ctx.rng.randint(0, 40)])
    return out[:n]


PUMP_CFG = "INIT Init\nNEXT Next\nCHECK_DEADLOCK FALSE\nINVARIANT ThmExport\nCONSTANT KnownDefects = {%s}\n"


def run(ctx):
    known = core.load_known_keys()
    listed = [d for d in c01.DEFECTS + c01.TOK_DEFECTS if d in known]
    q = ctx.quick
    ctx.rule = ("MC_Tree theorems in every explored state + replay; arbitrary str/bytes inputs x builder x namespacing x "
                "document/fragment(26 containers) x scripting judged by Trace_Skeleton; model-derived depth pumping. "
                "non-trivial = distinct (input, configuration)")
    # 1. model level + replay (exceptions and skeleton on spec behaviours)
    for theme, cont, scr, n in [("frameset", "doc", False, 4), ("head", "doc", False, 3), ("table", "doc", False, 2 if q else 3), ("foreign", "doc", False, 2 if q else 3),
                                ("head", "doc", True, 2 if q else 3), ("blocks", "all", False, 1 if q else 2)]:
        c01.run_theme(ctx, theme, cont, scr, n, listed, "mc-%s-%s-%d-%d" % (theme, cont, int(scr), n))
    # random deep fragment strings (TLC -simulate): the skeleton theorem is an invariant of these runs as well
    #  (this is how the frameset pop-to-root defect, repaired in /repo, was found)
    for theme, num in (("cover", 10 if q else 30), ("frameset", 6 if q else 20), ("foreign", 6 if q else 20),
                       ("foreignnames", 8 if q else 25)):
        c01.run_theme(ctx, theme, "doc", False, 9, listed, "sim-%s" % theme, simulate=(num, 9))
    ctx.exhaustive = True
    # 2. totality + skeleton on arbitrary inputs
    inputs = gen_inputs(ctx, 1200 if q else 15000)
    jobs = []
    for i, d in enumerate(inputs):
        cx = None if i % 3 else ctx.rng.choice(c01.CONTEXT_NAMES)
        for builder, ns in ((("etree", True), ("dom", True)) if q or i % 4 else (("etree", True), ("dom", True), ("etree", False), ("dom", False))):
            jobs.append((d, cx, i % 5 == 0, builder, ns, False))
    rows = core.parallel(_run_one, jobs, chunk=300)
    judge(ctx, rows, "arbitrary")
    # 2b. the same totality claim under small internal chunk sizes: every multi-character look-ahead of the tokenizer
    #     (<!--, <!DOCTYPE, <![CDATA[ ... ]]>, character references, end tags in raw text) then straddles chunk edges
    edge = ["<svg><![CDATA[a]]>b", "<svg><![CDATA[a]x]]>b]]>", "<math><mi><![CDATA[]]]]>", "<!--a--><!-x><!DOCTYPE html><!doctypo>",
            "<script>a</scrip</script>b", "<title>a</titl</title>&amp;&#x41;&notit;", "<svg><![CDAT", "<p a='b' c=\"d\" e=f>",
            "<textarea>\r\nx</textarea>\r\n<pre>\r\n", "<style><!--</style>--></style>"]
    cj = []
    for i, d in enumerate(edge + [x for x in inputs[: (150 if q else 2000)] if isinstance(x, str)]):
        for k in ((1, 2, 3, 5) if i < len(edge) else (ctx.rng.choice([1, 2, 3, 5, 7, 13]),)):
            for builder in ("etree", "dom"):
                cj.append((d, None if i % 3 else "div", False, builder, True, False, k))
    crow = core.parallel(_run_one, cj, chunk=200)
    judge(ctx, crow, "chunked")
    # 2d. the specification's transition cover (TLC-computed shortest input per abstract parser state x one more token), here
    #     only for totality and the skeleton: every (state, token) pair of the model is a call of a distinct handler of the code
    cov = [(d, cx, scr, b, True, False) for d, cx, scr, b in c01.cover_tests(ctx, listed)]
    ctx.notes["transition_cover_parses"] = len(cov)
    judge(ctx, core.parallel(_run_one, cov, chunk=2000), "cover")
    # 2e. byte input: every prefix of a well-formed encoding declaration (the late-<meta> path of the tree builder and the
    #     prescan both parse the content attribute; a truncated declaration must not stop the parse)
    decl = []
    for full in ('text/html; charset = "utf-8" ; x', "text/html;charset='koi8-r'", "charset=utf-16le", "a; charset  =\t utf-8x y"):
        for k in range(len(full) + 1):
            v = full[:k]
            for q_ in ('"', "'", ""):
                if q_ or not any(c in v for c in " \t>"):
                    decl.append('<meta http-equiv=content-type content=%s%s%s>x' % (q_, v, q_))
                    decl.append('<meta content=%s%s%s http-equiv="Content-Type">x' % (q_, v, q_))
    for full in ('<meta charset="utf-8">', "<meta http-equiv='content-type' content='text/html; charset=x'>", "<meta charset = windows-1252 / >"):
        decl += [full[:k] for k in range(1, len(full) + 1)]
    dj = []
    for i, d in enumerate(decl):
        for pad in ((0,) if q and i % 4 else (0, 1100)):       # 1100: beyond the prescan window, so only the tree builder sees it
            b_ = (b"<!--" + b"-" * pad + b"-->" if pad else b"") + d.encode("latin-1")
            dj.append((b_, None if i % 3 else "div", False, "dom" if i % 2 else "etree", True, False))
    ctx.notes["declaration_prefix_parses"] = len(dj)
    judge(ctx, core.parallel(_run_one, dj, chunk=500), "declprefix")
    # 2c. many distinct element names in one document / one long-lived parser (bounded per-phase handler caches)
    many = []
    for n in ((300,) if q else (300, 1000, 3000)):
        names = ["t%d" % i for i in range(n)]
        many += ["".join("<%s>" % x for x in names), "".join("</%s>" % x for x in names), "<select>" + "".join("<%s>" % x for x in names),
                 "<frameset>" + "".join("<%s>" % x for x in names), "<table>" + "".join("<%s></%s>" % (x, x) for x in names),
                 "<svg>" + "".join("<%s/>" % x for x in names)]
    mj = [(d, None, False, b, True, True) for d in many for b in ("etree", "dom")]
    judge(ctx, core.parallel(_run_one, mj, chunk=2), "manynames")
    ctx.notes["long_lived_parser"] = long_lived(ctx, 300 if q else 1500)
    # 3. depth pumping from the model
    r = ctx.tlc("MC_Pump", PUMP_CFG % ",".join('"%s"' % d for d in listed), "pump")
    pairs = sorted((core.ucs(x["pre"]), core.ucs(x["tg"])) for x in r.records)
    ctx.notes["growth_pairs_from_model"] = len(pairs)
    if q:
        pairs = [p_ for i, p_ in enumerate(pairs) if i % 6 == ctx.seed % 6 or p_[1] in ("<rt>", "<optgroup>", "<b>", "<div>", "<svg>")]
    pj = []
    for pre, tg in pairs:
        for k in ((1500,) if q else (1200, 5000)):
            for suffix in (("", "</div>x") if q else ("", "x", "</div>", "</table>", "</p>", "<p>", "</b>", "<table>")):
                for builder in ("etree", "dom"):
                    pj.append(("<div>" + pre + tg * k + suffix, None, False, builder, True, True))
    ctx.notes["pump_runs"] = len(pj)
    prow = core.parallel(_run_one, pj, chunk=8)
    judge(ctx, prow, "pump")
    ctx.sample({"pump_input": "<div><ruby>" + "<rt>*1500" + "</div>x"})


def long_lived(ctx, n):
    """one parser object parsing n small documents / fragments with pairwise distinct element names must keep returning trees"""
    import html5lib
    bad = 0
    for tb in ("etree", "dom"):
        p = html5lib.HTMLParser(tree=html5lib.getTreeBuilder(tb))
        for i in range(n):
            d = "<x%d><y%d>t</y%d></z%d>" % (i, i, i, i)
            try:
                p.parse(d) if i % 2 else p.parseFragment(d)
            except Exception as e:
                bad += 1
                ctx.violation("parse did not return a tree on a long-lived parser: %s: %s" % (type(e).__name__, str(e)[:80]),
                              {"kind": "totality-history", "builder": tb, "call": i, "src": d})
                break
    return {"calls": 2 * n, "failures": bad}


def judge(ctx, rows, tag):
    ok = []
    for r in rows:
        ctx.evaluations += 1
        key = str(r["src"])[:300]
        ctx.nontriv((tag, key, str(r["cfg"])))
        if "err" in r:
            ctx.violation("parse did not return a tree: %s" % r["err"],
                          {"kind": "totality", "src": r["src"] if len(str(r["src"])) < 2000 else str(r["src"])[:300] + "...(%d chars)" % len(r["src"]),
                           "cfg": r["cfg"]})
        elif r["tree"] is not None:
            ok.append(r)
    slim = [{"doc": r["doc"], "tree": r["tree"]} for r in ok]
    idx = {id(t): i for i, t in enumerate(slim)}
    if ok:
        m = ok[len(ok) // 2]
        ctx.sample({"input": str(m["src"])[:200], "cfg(container, scripting, builder, namespaced)": m["cfg"]})
    for tr, rec in core.validate_traces(ctx, "Trace_Skeleton", slim, tag, consts="CONSTANT KnownDefects = {}\n"):
        r = ok[idx[id(tr)]]
        if rec["v"].startswith("finding:"):
            ctx.known_finding(rec["v"][8:], rec["v"], {"input": str(r["src"])[:200]}) or \
                ctx.violation("skeleton violated: " + rec["v"], {"kind": "skeleton", "src": r["src"], "cfg": r["cfg"]})
        else:
            ctx.violation("result tree rejected by Trace_Skeleton: %s" % rec["v"], {"kind": "skeleton", "src": r["src"], "cfg": r["cfg"]})


def replay(case):
    c = case["case"]
    if c.get("kind") in ("totality", "skeleton"):
        src = c["src"]
        if isinstance(src, list):
            src = bytes(src)
        cx, scr, builder, ns = c["cfg"]
        r = _run_one((src, cx, scr, builder, ns, False))
        print(r.get("err") or "returned a tree")
        return 1 if "err" in r else 0
    return c01.replay(case)
