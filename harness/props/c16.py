"""C16  Strict mode raises ParseError exactly when a parse error exists.

Model: the strict theorems of spec/Lifecycle.tla (StrictIff / StrictClass / StrictFirst), proved by TLC on
MC_Lifecycle (ThmStrict: reused object, brand-new object and a non-strict twin in lock step) and replayed on real
parsers; Trace_Strict judges every recorded (input, mode) pair: outcome class, iff, first error, message template and
variables (html5lib's own table E: a consistency check of the code), positions, conforming => no errors."""
import json
import re

from .. import core, corpus, conform, tlc
from .. import lifecycle as lc
from . import c12

DEFECTS = {
    "strict-keyerror-missing-template": "a tokenizer EOF site records a code that has no entry in constants.E; in strict mode parseError() "
                                        "then raises KeyError instead of ParseError",
    "error-position-past-eof": "after the stream has hit EOF, characters given back with unget() are counted twice by position(): errors "
                               "recorded afterwards carry a column past the end of the input",
    "amp-not-ambiguous-reported": "'&' followed by letters without a terminating ';' (AT&T, ?a=b&c=d) records expected-named-entity "
                                  "although it is not an ambiguous ampersand and the document is conforming",
    "caption-implicit-end-reported": "in the in-caption mode a table-structure start tag records an (undefined) parse error unconditionally, "
                                     "although omitting </caption> before <colgroup>/<thead>/<tbody>/<tr> is conforming",
}
EOF_SNIPPETS = ['<a b="c"', "<a b='c'", "<a b ", "<a b", "<a b=", "<a b=c", "<a/", "<a ", "<a", "</a", "</a ", "</", "<",
                "<!--x", "<!--x-", "<!--x--", "<!--x--!", "<!--", "<!---", "<!-", "<!", "<!DOCTYPE", "<!DOCTYPE ", "<!DOCTYPE h",
                "<!DOCTYPE html ", "<!DOCTYPE html PUBLIC", "<!DOCTYPE html PUBLIC ", "<!DOCTYPE html PUBLIC \"x", "<!DOCTYPE html PUBLIC 'x",
                "<!DOCTYPE html PUBLIC \"x\"", "<!DOCTYPE html PUBLIC \"x\" ", "<!DOCTYPE html PUBLIC \"x\" \"y", "<!DOCTYPE html PUBLIC \"x\" 'y",
                "<!DOCTYPE html PUBLIC \"x\" \"y\"", "<!DOCTYPE html SYSTEM", "<!DOCTYPE html SYSTEM ", "<!DOCTYPE html SYSTEM \"y", "<!DOCTYPE html SYSTEM 'y",
                "<!DOCTYPE html SYSTEM 'y'", "<!DOCTYPE html x", "<!DOCTYPE html PUBL", "&#", "&#x", "&#1", "&#x1", "&am", "&amp", "&", "&x",
                "<title>x", "<title>x</titl", "<title>x</title", "<title>x<", "<title>x</", "<textarea>x", "<plaintext>x", "<style>x</sty", "<style>x<",
                "<script>x</script", "<script><!--x", "<script><!--<script>x</scr", "<script><!--<script>x", "<script><!--x-", "<script><!--x--",
                "<script><!-", "<script><!--<", "<script><!--</", "<script><!--<script", "<script><!--<script>-", "<script><!--<script>--",
                "<script><!--<script><", "<script><!--<script></", "<script><!--<script></script",
                "<svg><![CDATA[x", "<svg><![CDATA[x]", "<svg><![CDATA[x]]", "<svg><![CDA", "<svg><![", "<![CDATA[x", "<?x", "<a b='c'd", "<a b=\"c\"/",
                "<!DOCTYPE html><a b=\"c\"", "<!DOCTYPE html><a b ", "<!DOCTYPE html><table><a b='c'", "<p><b><table><tr><td><a x=\"y\"",
                "<table><input type=hidden>", "<b><table></b>x", "</frameset>", "<frameset></frameset></frameset>"]
CONTAINERS = [None, "div", "table", "tr", "select", "textarea", "title", "script", "svg", "plaintext", "td", "html", "body", "math", "frameset"]
_TMPL = re.compile(r"%\((\w+)\)")


def err_rows(p, E):
    rows = []
    for pos, code, dv in p.errors:
        has = code in E
        rows.append({"code": code, "l": pos[0], "c": pos[1], "keys": sorted(dv), "has": has,
                     "need": sorted(set(_TMPL.findall(E[code]))) if has else []})
    return rows


def eof_unget_slack(norm):
    """number of characters the tokenizer gives back across a chunk boundary when the input ends inside a markup
    declaration open ("<!" + "-" | proper prefix of "doctype" | proper prefix of "[CDATA["): those characters are counted
    twice by position().  The boundary is the end of input, or - when the input ends in a lone lead surrogate, which the
    stream withholds and delivers as a chunk of its own - the point just before that last character.
    Computed from the text alone."""
    body = norm
    if len(norm) > 1 and 0xD800 <= ord(norm[-1]) <= 0xDBFF:
        body = norm[:-1]
    i = body.rfind("<!")
    if i < 0:
        return 0
    t = body[i + 2:]
    if not t or len(t) > 6:
        return 0
    if t == "-" or "doctype".startswith(t.lower()) or "[CDATA[".startswith(t):
        return len(t)
    return 0


CONVENTIONS = ["kw", "pos", "kw-upper", "pos-upper", "pos-title", "kw-scripting", "textfile", "bytes-override", "bytesfile-transport"]


def spell(name, conv):
    if conv.endswith("-upper"):
        return name.upper()
    if conv.endswith("-title"):
        return name.title()
    return name


def call_with(p, s, frag, conv):
    """one parse()/parseFragment() call on parser p, the arguments passed the way `conv` says.  All conventions denote the
    SAME call: container as keyword or positionally, its name in any letter case, scripting=False spelled out, the text
    as str, as a text file object, as UTF-8 bytes / a binary file object with the encoding stated by the caller."""
    import io
    src, kw = s, {}
    if isinstance(s, str):
        if conv == "textfile":
            src = io.StringIO(s)
        elif conv == "bytes-override":
            src, kw = s.encode("utf-8"), {"override_encoding": "utf-8"}
        elif conv == "bytesfile-transport":
            src, kw = io.BytesIO(s.encode("utf-8")), {"transport_encoding": "utf-8"}
    if frag:
        name = spell(frag, conv)
        if conv.startswith("pos"):
            return p.parseFragment(src, name, **kw)
        if conv == "kw-scripting":
            return p.parseFragment(src, container=name, scripting=False)
        return p.parseFragment(src, container=name, **kw)
    if conv.startswith("pos") or conv == "kw-scripting":
        return p.parse(src, False) if conv.startswith("pos") else p.parse(src, scripting=False)
    return p.parse(src, **kw)


def encodable(s):
    try:
        return isinstance(s, str) and s.encode("utf-8").decode("utf-8") == s and "\r" not in s and len(s) < 9000
    except UnicodeError:
        return False


def record(s, frag, conf=None, objs=None, conv="kw"):
    """parse s non-strictly and strictly - with brand-new objects, or with the two given long-lived objects
    (non-strict, strict) that have seen the same inputs before; returns the Trace_Strict record.  With a calling
    convention other than "kw" the record also says whether the errors are those of the plain keyword call."""
    from html5lib import html5parser, constants
    E = constants.E
    if conv in ("textfile", "bytes-override", "bytesfile-transport") and not encodable(s):
        conv = "kw"

    def go(strict, cv=conv):
        p = objs[1 if strict else 0] if objs is not None else None
        if p is None:
            p = html5parser.HTMLParser(strict=strict)
        try:
            call_with(p, s, frag, cv)
            return p, "ok", None
        except html5parser.ParseError as e:
            return p, "ParseError", e
        except (Exception, RecursionError) as e:
            return p, type(e).__name__, e
    p1, o1, _ = go(False)
    p2, o2, e2 = go(True)
    rows = err_rows(p1, E)
    msg = True
    if o2 == "ParseError" and p1.errors:
        pos, code, dv = p1.errors[0]
        try:
            msg = str(e2) == E[code] % dv
        except Exception:      # noqa
            msg = False
    text = s.decode("utf-8") if isinstance(s, bytes) else s          # byte inputs here are valid UTF-8 declared (late) as such
    norm = text.replace("\r\n", "\n").replace("\r", "\n")
    lines = [len(x) for x in norm.split("\n")]
    slack = eof_unget_slack(norm)
    conv_eq = True
    if conv != "kw":
        p0, o0, _ = go(False, "kw") if objs is None else (None, None, None)
        if p0 is not None:
            conv_eq = (o0, p0.errors) == (o1, p1.errors)
    return {"ns": {"out": o1, "errs": rows}, "conv": conv, "convEq": conv_eq,
            "st": {"out": o2, "nerr": len(p2.errors), "same": p2.errors == p1.errors[:1], "msg": msg},
            "lines": lines, "slack": slack,
            "conf": {"is": conf is not None, "amp": conf[0] if conf else 0, "cap": conf[1] if conf else 0}}


def inputs(ctx):
    rng = ctx.rng
    out = []
    repo = list(corpus.repo_strings())
    out += repo
    pref_src = EOF_SNIPPETS + rng.sample(repo, min(len(repo), 60 if ctx.quick else 400))
    seen = set(out)
    for s in pref_src:
        for i in range(1, len(s) + 1):
            if s[:i] not in seen:
                seen.add(s[:i])
                out.append(s[:i])
    for _ in range(1500 if ctx.quick else 50000):
        out.append(corpus.soup(rng))
    for _ in range(300 if ctx.quick else 5000):
        out.append(corpus.mutate(rng, rng.choice(repo)))
    return out


def late_meta_inputs(rng, n):
    """byte strings (no BOM, no transport encoding) whose <meta charset=utf-8> comes late: beyond the 1024-byte prescan (the
    parser switches from the tentative encoding and parses again) and, for most, beyond the first 10240-character chunk
    of the stream; the padding has newlines; error-producing markup follows.  The chunk boundary falls inside the
    padding comment and the whole input stays below two chunks, so no un-get happens at a chunk boundary (C05)."""
    out = []
    tails = ["<p>na\u00efve</b> x</p>", "<table>x</table>", "</i>\n<b><p></b>", "<a b=\"c\"", "<div>\n</span>\n<!-", "<title>caf\u00e9</title><p>\n<li></ul>",
             "<svg><p>", "<select><table>", "\n\n</p>\n<h1><h2>x"]
    for k in range(n):
        lines = rng.randint(300, 330) if k % 4 else rng.randint(30, 60)           # ~40 chars each: > 10240 or just > 1024
        pad = "\n".join("  licence text line %04d ................" % i for i in range(lines))
        # nothing before the declaration records an error: otherwise strict mode stops in the FIRST pass (tentative encoding),
        # whose errors are not those of the pass that produces the result
        head = rng.choice(["<!DOCTYPE html>\n<html>\n<head>\n", "<!DOCTYPE html>", "<!DOCTYPE html>\n", "<!DOCTYPE html><html><head>\n"])
        tail = rng.choice(tails) + (corpus.soup(rng) if rng.random() < 0.5 else "")
        doc = head + "<!--\n" + pad + "\n-->\n<meta charset=\"utf-8\">\n" + tail
        if len(doc) < 20000:
            out.append(doc.encode("utf-8", "replace"))
    return out


def _rec_item(item):
    s, frag, conf = item[:3]
    return record(s, frag, conf, conv=item[3] if len(item) > 3 else "kw")


def api_equal(s, frag, conv):
    """the module-level functions html5lib.parse / html5lib.parseFragment, arguments positional or keyword, container name
    in any case: the tree must be the one HTMLParser().parseFragment(s, container=lower-case name) returns"""
    import html5lib
    from html5lib import html5parser
    try:
        ref = html5parser.HTMLParser().parseFragment(s, container=frag) if frag else html5parser.HTMLParser().parse(s)
    except (Exception, RecursionError):
        return True
    try:
        if frag:
            name = spell(frag, conv)
            got = html5lib.parseFragment(s, name) if conv.startswith("pos") else html5lib.parseFragment(s, container=name)
            if conv.startswith("pos"):
                got2 = html5lib.parseFragment(s, name, "etree", True)
            else:
                got2 = html5lib.parseFragment(s, container=name, treebuilder="etree", namespaceHTMLElements=True)
        else:
            got = html5lib.parse(s)
            got2 = html5lib.parse(s, "etree", True) if conv.startswith("pos") else html5lib.parse(s, treebuilder="etree", namespaceHTMLElements=True)
    except (Exception, RecursionError):
        return False
    return lc.exact(ref, "etree") == lc.exact(got, "etree") == lc.exact(got2, "etree")


FORMISH = ["<!DOCTYPE html><title>t</title><form action=\"/s\"><p><input name=a>", "<!DOCTYPE html><title>t</title><form><p>x</p></form>",
           "<form><table><form>", "<!DOCTYPE html><form><div></form>x", "<p><form></p></form>", "<table><form><tr><td>x</form>",
           "<!DOCTYPE html><title>t</title><pre>\nx</pre>", "<!DOCTYPE html><table><caption>a</caption><tr><td>b</table>",
           "<!DOCTYPE html><title>t</title><select><option>a<option>b</select>", "<frameset><frame></frameset>",
           "<!DOCTYPE html><title>t</title><p><b><i>x</i></b>", "<b><p></b>x", "<a><table><a>", "<svg><p>", "<h1><h2>x", "</p>"]


QUIRKS_DOCS = ["x", "<p>a", "<!DOCTYPE html PUBLIC \"-//W3C//DTD HTML 3.2 Final//EN\"><p>q",
               "<!DOCTYPE html PUBLIC \"-//W3C//DTD HTML 4.01 Transitional//EN\"><title>t</title>",
               "<!DOCTYPE html PUBLIC \"-//W3C//DTD XHTML 1.0 Transitional//EN\" \"http://www.w3.org/TR/xhtml1/DTD/xhtml1-transitional.dtd\"><title>t</title>",
               "<!DOCTYPE html PUBLIC \"-//W3C//DTD HTML 4.01 Frameset//EN\" \"x\"><title>t</title>", "<!DOCTYPE html><title>t</title><p>n"]
PTABLE = ["<p><table></table></p>", "<p>a<table><tr><td>x</table>b</p>", "<div><p><table></table></div>", "<p><table>"]
FRAG_CONTAINERS = ["div", "body", "td", "li", "span", "table", "p"]


def _rec_sequence(seq):
    """the same input sequence on ONE long-lived non-strict object and ONE long-lived strict object.  Three records per
    input: (long-lived non-strict, long-lived strict), (BRAND-NEW non-strict, long-lived strict), (long-lived non-strict,
    brand-new strict): the strict theorems hold against a fresh parse of the same input whatever the objects saw before"""
    from html5lib import html5parser
    objs = [html5parser.HTMLParser(strict=False), html5parser.HTMLParser(strict=True)]
    shadow = [html5parser.HTMLParser(strict=False), html5parser.HTMLParser(strict=True)]      # second long-lived pair, same history
    out = []
    for s, frag, conf in seq:
        # C12's (repaired) leak of table text pending at an abort is not this property's business: start from clean objects then
        if any(lc.persistent(o)["pend"] for o in objs + shadow):
            objs = [html5parser.HTMLParser(strict=False), html5parser.HTMLParser(strict=True)]
            shadow = [html5parser.HTMLParser(strict=False), html5parser.HTMLParser(strict=True)]
        out.append(record(s, frag, conf, objs))
        # the shadow pair gets the same history, but each of its halves is judged against a brand-new partner
        out.append(record(s, frag, conf, [None, shadow[1]]))
        out.append(record(s, frag, conf, [shadow[0], None]))
    return out


def run(ctx):
    listed = [d for d in DEFECTS if d in ctx.open_keys]
    ctx.constants = {"MC_Lifecycle": "1 and 2 calls over 13 documents x strict x source failure (ThmStrict)",
                     "containers": [c or "document" for c in CONTAINERS], "KnownDefects(code-faithful)": listed}
    ctx.rule = ("MC: ThmStrict on every call of every history of MC_Lifecycle, replayed on real parsers; traces: every input "
                "(repo test strings, prefix closure of EOF snippets and of sampled repo strings, soup, mutations) x document and "
                "fragment containers, parsed non-strict and strict; generated conforming documents. non-trivial = input "
                "that records at least one error")
    # 1. the strict theorems on the model (intended design), and the exported calls on real parsers
    docs = list(range(1, len(c12.DOCS) + 1))
    for mcalls in (1, 2):
        r = ctx.tlc("MC_Lifecycle", c12.mc_cfg(mcalls, docs, False, False, [], ("ThmStrict", "ThmInside", "ThmLockstep")),
                    "mc-strict-%d" % mcalls)
        if r.violated:
            ctx.violation("theorem %s fails on the intended specification" % r.violated, {"tlc": r.stdout_path})
            return
    r = ctx.tlc("MC_Lifecycle", c12.mc_cfg(1, docs, False, True, [], ("ThmStrict", "ThmExport")), "mc-strict-export")
    for rec in r.records:
        if not (isinstance(rec, dict) and "hist" in rec):
            continue
        h = rec["hist"][0]
        for tb in c12.TBS:
            ctx.traces += 1
            p = lc.new_parser(tb)
            out, tree, errs = lc.run_call(p, tb, c12.doc_call(h["doc"], h["fail"], h["strict"]))
            q = lc.new_parser(tb)
            lc.run_call(q, tb, c12.doc_call(h["doc"], h["fail"], False))
            got = {"out": lc.model_out(c12.doc_call(h["doc"], 0, False), out), "errors": [e[0] for e in errs]}
            if got != {"out": h["out"], "errors": h["errors"]}:
                ctx.violation("real parser differs from the lifecycle machine (outcome / errors of one call)",
                              {"kind": "call", "treebuilder": tb, "call": c12.describe(rec["hist"]), "expected": h, "got": got})
            elif out == "ParseError" and errs != lc.errs(q)[:1]:
                ctx.violation("the error raised in strict mode is not the first error of the non-strict run",
                              {"kind": "call", "treebuilder": tb, "call": c12.describe(rec["hist"]), "strict": errs, "nonstrict": lc.errs(q)})
    ctx.exhaustive = True
    ctx.assumptions = ["the documents of harness/conform.py are conforming by my reading of the content models and the optional-tags "
                       "section (no network); 'AT&T' / '?a=b&c=d' (not ambiguous ampersands) and an omitted </caption> before "
                       "<colgroup>/<thead>/<tbody>/<tr> are conforming and raise no parse error in the standard's tokenizer / "
                       "in-caption rules",
                       "the message table E is html5lib's own: the template clause is a consistency check of the code",
                       "inputs on which the NON-strict parse itself raises are left to C03 (counted, bounded at 2%)"]
    # 2. code -> spec
    items = []
    ins = inputs(ctx)
    for i, s in enumerate(ins):
        items.append((s, None, None))
        k = 2 if ctx.quick else 4
        for c in ctx.rng.sample(CONTAINERS[1:], k):
            items.append((s, c, None))
    # calling conventions: every 6th / 4th (input, container) pair once more, the same call spelled differently
    for j in range(0, len(items), 6 if ctx.quick else 4):
        s0, c0, _ = items[j]
        items.append((s0, c0, None, CONVENTIONS[1 + (j // 2) % (len(CONVENTIONS) - 1)]))
    # conforming fragments (context element, content) under every convention
    for i in range(600 if ctx.quick else 12000):
        kind, frag_src = conform.conforming_fragment(ctx.rng)
        items.append((frag_src, kind, (0, 0), CONVENTIONS[i % len(CONVENTIONS)]))
    nconf = 1500 if ctx.quick else 40000
    for i in range(nconf):
        feats = (i % 4 == 1, i % 4 == 2) if listed else (False, False)
        doc, a, c = conform.conforming(ctx.rng, amp=feats[0] and "amp-not-ambiguous-reported" in listed,
                                       cap=feats[1] and "caption-implicit-end-reported" in listed)
        items.append((doc, None, (a, c)))
    for b in late_meta_inputs(ctx.rng, 24 if ctx.quick else 400):
        items.append((b, None, None))
    # the listed witnesses, always
    for key, k in sorted(ctx.open_keys.items()):
        w = k.get("witness", {})
        if "input" in w:
            cf = w.get("conforming_features")
            items.append((w["input"], None, (cf.get("amp", 0), cf.get("cap", 0)) if cf else None))
    recs = core.parallel(_rec_item, items, chunk=400)
    codes, crashes = set(), {}
    napi = 0
    for j in range(0, len(items), 23 if ctx.quick else 5):
        s0, c0 = items[j][0], items[j][1]
        if isinstance(s0, str):
            cv = ["kw", "pos", "kw-upper", "pos-upper", "pos-title"][j % 5]
            napi += 1
            if not api_equal(s0, c0, cv):
                ctx.violation("html5lib.parse()/parseFragment() called %s returns another tree than HTMLParser().parse/parseFragment "
                              "with the lower-case keyword container" % cv, {"kind": "api-convention", "input": s0, "container": c0, "conv": cv})
    ctx.notes["module_level_calls_compared"] = napi
    for it, rec in zip(items, recs):
        for e in rec["ns"]["errs"]:
            codes.add(e["code"])
        if rec["ns"]["errs"]:
            ctx.nontriv(hash((it[0], it[1])))
        if rec["ns"]["out"] != "ok":
            crashes[rec["ns"]["out"]] = crashes.get(rec["ns"]["out"], 0) + 1
    ctx.notes["distinct_error_codes_reached"] = len(codes)
    ctx.notes["error_codes_in_E"] = _ecount()
    ctx.notes["inputs"] = len(ins)
    ctx.notes["conforming_documents"] = nconf
    ctx.notes["nonstrict_crashes(C03 territory, not judged)"] = crashes
    consts = "CONSTANT KnownDefects = {%s}\n" % c12.dset(listed)
    idx = {id(t): i for i, t in enumerate(recs)}
    ncrash = 0
    ctx.sample({"code_to_spec_input": repr(items[len(items) // 3][0][:120]), "record": recs[len(items) // 3]})
    for tr, v in core.validate_traces(ctx, "Trace_Strict", recs, "trace", consts=consts):
        s, frag, conf = items[idx[id(tr)]][:3]
        case = {"kind": "input", "input": s, "container": frag, "conforming": conf is not None, "conv": tr.get("conv", "kw"),
                "record": tr, "verdict": v}
        if v["v"] == "finding":
            for nm in v["f"]:
                if not ctx.known_finding(nm, DEFECTS.get(nm, nm), {"input": s, "container": frag}):
                    ctx.violation("property failure explained only by the unlisted deviation %s" % nm, case)
        elif v["v"] == "crash":
            ncrash += 1
        else:
            ctx.violation("input rejected by Trace_Strict: %s" % v["v"], case)
    # 3. the same clauses on long-lived objects: a non-strict and a strict parser object fed the same input sequence
    seqs = []
    for _ in range(400 if ctx.quick else 4000):
        seq = []
        for _k in range(ctx.rng.randint(3, 8)):
            r = ctx.rng.random()
            if r < 0.4:
                doc, a, c = conform.conforming(ctx.rng)
                seq.append((doc, None, (a, c)))
            elif r < 0.6:
                seq.append((ctx.rng.choice(FORMISH), ctx.rng.choice([None, None, "div", "table"]), None))
            elif r < 0.8:
                # a document that sets the compatibility mode, then a fragment whose errors depend on it
                seq.append((ctx.rng.choice(QUIRKS_DOCS), None, None))
                seq.append((ctx.rng.choice(PTABLE), ctx.rng.choice(FRAG_CONTAINERS), None))
            else:
                seq.append((ctx.rng.choice(QUIRKS_DOCS), None, None))
                seq.append((ctx.rng.choice(ins), ctx.rng.choice(FRAG_CONTAINERS), None))
        seqs.append(seq)
    recs2 = core.parallel(_rec_sequence, seqs, chunk=50)
    flat_items = [it for seq in seqs for it in seq for _rep in range(3)]
    flat_recs = [r for rr in recs2 for r in rr]
    idx2 = {id(t): i for i, t in enumerate(flat_recs)}
    for tr, v in core.validate_traces(ctx, "Trace_Strict", flat_recs, "trace-reused", consts=consts):
        s, frag, conf = flat_items[idx2[id(tr)]]
        case = {"kind": "input-on-reused-objects", "input": s, "container": frag, "conforming": conf is not None, "record": tr, "verdict": v}
        if v["v"] == "finding":
            for nm in v["f"]:
                if not ctx.known_finding(nm, DEFECTS.get(nm, nm), {"input": s, "container": frag}):
                    ctx.violation("property failure explained only by the unlisted deviation %s" % nm, case)
        elif v["v"] == "crash":
            ncrash += 1
        else:
            ctx.violation("input on long-lived strict / non-strict parser objects rejected by Trace_Strict: %s" % v["v"], case)
    ctx.notes["inputs_on_long_lived_objects"] = len(flat_recs)
    if ncrash > 0.02 * len(items) + 5:
        ctx.violation("%d of %d inputs make the NON-strict parse raise: the strict clauses are not decidable on them" % (ncrash, len(items)),
                      {"kind": "crashes", "classes": crashes})


def _ecount():
    from html5lib import constants
    return len(constants.E)


def replay(case):
    c = case["case"]
    ctx = core.Ctx("C16", "quick", 0)
    listed = [d for d in DEFECTS if d in ctx.open_keys]
    if c.get("kind") == "input":
        rec = record(c["input"], c.get("container"), (0, 0) if c.get("conforming") else None, conv=c.get("conv", "kw"))
        consts = "CONSTANT KnownDefects = {%s}\n" % c12.dset(listed)
        rej = [r for r in core.validate_traces(ctx, "Trace_Strict", [rec], "replay", consts=consts)
               if r[1]["v"] not in ("finding", "crash")]
        if rej:
            print("VIOLATION property=C16 replay=- (%s)" % rej[0][1])
            return 1
        print("replay: accepted")
        return 0
    if c.get("kind") == "api-convention":
        if not api_equal(c["input"], c.get("container"), c["conv"]):
            print("VIOLATION property=C16 replay=- (module-level call differs)")
            return 1
        print("replay: accepted")
        return 0
    print("replay: case kind %r is re-checked by the full run" % c.get("kind"))
    return 0
